import TriompheModel.Proofs.HistOff
/-!
# C11, history clause — addresses along histories of the handle machine

`Props/C11.lean` proves the address arithmetic for every payload layout.  Here: along EVERY finite
history of M1 (every handle kind, every conversion path, callbacks, make_mut redirects) the stored
words are what C11 says — block-address kinds store the block start (`heap_ptr`), data-address kinds
(raw pointer, OffsetArc, ArcBorrow, untagged ArcUnion word) store the value's address, all handles to
one allocation agree on that address, it never changes while the allocation lives, and feeding a raw
pointer back recovers the same handle.  (`ThinArc`'s raw pointer is the block address — the known
deviation F3 — and is modelled as the code does.)
-/
namespace M1
namespace C11H

/-- `heap_ptr` reports the start of the block, through any handle of any kind -/
theorem C11_heap_ptr_is_block_start (ops : List Op) (i : Nat) (h : HV) (hl : lookup (run ops) i = some h) :
    (asArc (run ops).mem h).off = 0 :=
  heap_ptr_is_block_start ops i h hl

/-- `as_ptr` / `into_raw` is the address at which the value itself lives (block start + field offset of
`data` for the view) -/
theorem C11_as_ptr_is_value_address (ops : List Op) (i : Nat) (h : HV) (hl : lookup (run ops) i = some h) :
    Arc.as_ptr_off (run ops).mem (asArc (run ops).mem h) =
      (asArc (run ops).mem h).ty.dataOff (viewLen (run ops).mem (asArc (run ops).mem h)) :=
  as_ptr_is_value_address ops i h hl

/-- **identical across clones, conversions and handle kinds**: any two handles to one allocation
yield the same value address -/
theorem C11_same_block_same_address (ops : List Op) (i j : Nat) (hi hj : HV)
    (h1 : lookup (run ops) i = some hi) (h2 : lookup (run ops) j = some hj) (hb : hi.blk = hj.blk) :
    Arc.as_ptr_off (run ops).mem (asArc (run ops).mem hi) = Arc.as_ptr_off (run ops).mem (asArc (run ops).mem hj) :=
  same_block_same_data_address ops i j hi hj h1 h2 hb

/-- **stable for the life of the allocation**: whatever op comes next, a handle to the same block
still yields the same value address -/
theorem C11_stable (ops : List Op) (op : Op) (i j : Nat) (h h' : HV)
    (h1 : lookup (run ops) i = some h) (h2 : lookup (step (run ops) op).1 j = some h') (hb : h'.blk = h.blk) :
    Arc.as_ptr_off (step (run ops) op).1.mem (asArc (step (run ops) op).1.mem h') =
      Arc.as_ptr_off (run ops).mem (asArc (run ops).mem h) :=
  stable_under_step (run ops) op i j h h' (inv_run ops) (leninv_run ops) (layinv_run ops) (offinv_run ops) h1 h2 hb

/-- **round trips**: `from_raw (into_raw a) = a`, likewise through OffsetArc and ThinArc raw pointers -/
theorem C11_from_raw_into_raw (m : Mem) (a : HV) (hk : a.kind = .arc) : Arc.from_raw m (Arc.into_raw m a) = a :=
  Off.from_raw_into_raw_id m a hk

end C11H
end M1
