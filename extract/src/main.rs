//! Tie A translator, atomics + constants.
//!
//! `extract --repo <path> --out <dir>` parses every `<path>/src/*.rs` with syn and writes
//! `<dir>/facts.json`, `<dir>/Atomics.lean`, `<dir>/Consts.lean`.
//! Exit 0 whenever all sources parse (unrecognised shapes become `unknown` facts); exit 2 on a
//! missing / unparsable source file or a usage error.

mod analyze;
mod collect;
mod emit;
mod facts;
mod lower;
mod model;
mod roles;

use std::collections::{BTreeMap, BTreeSet};
use std::path::PathBuf;
use std::process::exit;

fn usage() -> ! {
    eprintln!("usage: extract --repo <path> --out <dir>");
    exit(2)
}

fn main() {
    let mut repo: Option<String> = None;
    let mut out: Option<String> = None;
    let mut args = std::env::args().skip(1);
    while let Some(a) = args.next() {
        match a.as_str() {
            "--repo" => repo = args.next(),
            "--out" => out = args.next(),
            _ => usage(),
        }
    }
    let (Some(repo), Some(out)) = (repo, out) else { usage() };

    let src = PathBuf::from(&repo).join("src");
    let rd = match std::fs::read_dir(&src) {
        Ok(r) => r,
        Err(e) => {
            eprintln!("extract: cannot read {}: {}", src.display(), e);
            exit(2)
        }
    };
    let mut paths: Vec<PathBuf> = rd.filter_map(|e| e.ok().map(|e| e.path())).filter(|p| p.extension().map(|x| x == "rs").unwrap_or(false) && p.is_file()).collect();
    paths.sort();
    if paths.is_empty() {
        eprintln!("extract: no .rs files in {}", src.display());
        exit(2)
    }
    if !paths.iter().any(|p| p.file_name().map(|n| n == "lib.rs").unwrap_or(false)) {
        eprintln!("extract: {} is missing", src.join("lib.rs").display());
        exit(2)
    }

    // parse
    let mut parsed: Vec<(String, syn::File)> = Vec::new();
    let mut col = collect::Collector::new();
    for p in &paths {
        let name = p.file_name().unwrap().to_string_lossy().to_string();
        let text = match std::fs::read_to_string(p) {
            Ok(t) => t,
            Err(e) => {
                eprintln!("extract: cannot read {}: {}", p.display(), e);
                exit(2)
            }
        };
        let file = match syn::parse_file(&text) {
            Ok(f) => f,
            Err(e) => {
                let s = e.span().start();
                eprintln!("extract: {} does not parse: {} (line {}, column {})", p.display(), e, s.line, s.column);
                exit(2)
            }
        };
        col.krate.files.push(collect::SourceFile { name: name.clone(), lines: text.lines().map(|l| l.to_string()).collect() });
        parsed.push((name, file));
    }
    for (_, f) in &parsed {
        col.collect_types(f);
    }
    for (n, f) in &parsed {
        col.collect_file(n, f);
    }
    let krate = col.krate;
    analyze::set_count_accessors(krate.count_accessors.clone());

    // analyse bodies; iterate because by-name method resolution may follow any function that
    // (transitively) performs an atomic load
    let mut by_name: BTreeSet<String> = analyze::ALLOW.iter().map(|s| s.to_string()).collect();
    let mut bodies: Vec<analyze::BodyFacts>;
    let mut rounds = 0;
    loop {
        bodies = (0..krate.fns.len()).map(|f| analyze::Body::new(&krate, &by_name, f).run()).collect();
        let an = facts::Analysis::new(&krate, &bodies, vec![]);
        let mut next = by_name.clone();
        for i in an.loaders() {
            let fi = &krate.fns[i];
            if fi.has_receiver && !analyze::DENY.contains(&fi.name.as_str()) {
                next.insert(fi.name.clone());
            }
        }
        rounds += 1;
        if next == by_name || rounds >= 8 {
            break;
        }
        by_name = next;
    }
    let mut extra = Vec::new();
    for (file, name, ts) in &krate.macro_items {
        extra.extend(analyze::scan_macro_item(&krate, &by_name, file, name, ts.clone()));
    }
    let an = facts::Analysis::new(&krate, &bodies, extra);
    let atomics = an.atomic_facts();
    let consts = an.const_facts();

    // informational: hashes of every non-test fn, keyed by qualified name (duplicates get #2, #3 …)
    let mut hashes: BTreeMap<String, String> = BTreeMap::new();
    let mut seen: BTreeMap<String, usize> = BTreeMap::new();
    for f in &krate.fns {
        let n = seen.entry(f.qname.clone()).or_insert(0);
        *n += 1;
        let key = if *n == 1 { f.qname.clone() } else { format!("{}#{}", f.qname, n) };
        hashes.insert(key, f.hash.clone());
    }

    let outdir = PathBuf::from(&out);
    if let Err(e) = std::fs::create_dir_all(&outdir) {
        eprintln!("extract: cannot create {}: {}", outdir.display(), e);
        exit(2)
    }
    let write = |name: &str, text: String| {
        let p = outdir.join(name);
        if let Err(e) = std::fs::write(&p, text) {
            eprintln!("extract: cannot write {}: {}", p.display(), e);
            exit(2)
        }
    };
    write("facts.json", emit::facts_json(&atomics, &consts, &hashes));
    write("Atomics.lean", emit::atomics_lean(&repo, &atomics));
    write("Consts.lean", emit::consts_lean(&repo, &consts));
}
