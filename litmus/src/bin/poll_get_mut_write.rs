//! C03: T1 (main) polls `Arc::get_mut` until it is the sole owner, then overwrites the value;
//! T2/T3 read through their clones and drop them.  The write is ordered after those reads only by
//! the Acquire load of the uniqueness gate reading the readers' Release decrements.
//! Then the "later sharers" half: a clone made after the write sees the new value.
use litmus::*;
use triomphe::Arc;

fn main() {
    let mut t = Tally::new();
    for r in 0..rounds(5) {
        let old = 100 + r as u64;
        let new = old + 500;
        let mut a = Arc::new(Payload::new(old));
        t.shared(3);
        let readers: Vec<_> = (0..2).map(|_| a.clone()).collect();
        check(Arc::get_mut(&mut a).is_none(), "get_mut granted while two other owners exist");
        std::thread::scope(|s| {
            for h in readers {
                s.spawn(move || {
                    h.read_expect(old);
                    let h2 = h.clone();
                    drop(h);
                    h2.read_expect(old);
                    drop(h2);
                });
            }
            let mut polls = 0u32;
            loop {
                if let Some(m) = Arc::get_mut(&mut a) {
                    m.rewrite(new);
                    break;
                }
                polls += 1;
                check(polls < 100_000, "get_mut never granted although every other owner is gone");
                spin();
            }
            a.read_expect(new);
        });
        let late = a.clone();
        std::thread::scope(|s| {
            s.spawn(move || {
                late.read_expect(new);
                drop(late);
            });
            a.read_expect(new);
        });
        drop(a);
    }
    t.finish();
}
