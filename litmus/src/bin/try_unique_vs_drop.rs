//! C09/C03: T1 polls `Arc::try_unique` (odd rounds: `UniqueArc::try_from`) until it is granted,
//! writes through the `UniqueArc`, and moves the value out with `UniqueArc::into_inner`; T2/T3
//! read through clones and drop them.  The value is moved out exactly once and never destroyed
//! by the handles.
use litmus::*;
use std::convert::TryFrom;
use triomphe::{Arc, UniqueArc};

fn main() {
    let mut t = Tally::new();
    for r in 0..rounds(6) {
        let tag = 800 + r as u64;
        let a = Arc::new(Payload::new(tag));
        t.shared(3);
        let others: Vec<_> = (0..2).map(|_| a.clone()).collect();
        let d0 = drops();
        std::thread::scope(|s| {
            for h in others {
                s.spawn(move || {
                    h.read_expect(tag);
                    drop(h);
                });
            }
            let before = a.heap_ptr();
            let mut cur = a;
            let mut polls = 0u32;
            let mut u: UniqueArc<Payload> = loop {
                let res = if r % 2 == 0 { Arc::try_unique(cur) } else { UniqueArc::try_from(cur) };
                match res {
                    Ok(u) => break u,
                    Err(back) => {
                        check(back.heap_ptr() == before, "try_unique failure returned a different handle");
                        cur = back;
                    }
                }
                polls += 1;
                check(polls < 100_000, "try_unique never succeeded");
                spin();
            };
            u.rewrite(tag + 500);
            check(drops() == d0, "destructor ran although the value is still owned");
            let v = UniqueArc::into_inner(u);
            check(drops() == d0, "into_inner ran the destructor of the value it hands out");
            v.read_expect(tag + 500);
            drop(v);
        });
        check(drops() - d0 == 1, "value neither moved out once nor destroyed once");
    }
    t.finish();
}
