import TriompheModel.Proofs.MonitorBase
import TriompheModel.Proofs.HistInit
/-!
# Soundness of the trace monitor, part 2: K7 (C08, copy-on-write)

New facts about `step` proved here (for `makeMut` on an `Arc` or an `OffsetArc`, and `makeUnique`):
`mmState_frame_dig` (every other slot keeps its handle and shows the same STRUCTURED contents), `mm_shared_mem` (the log
of the redirecting branch is the old log, at most one `clone` event — exactly one iff a value was there to clone —, one
`alloc` event; the fresh block holds the clone with the written `val`), `targetOk_writeVal`.  With `InitInv`
(`Proofs/HistInit.lean`: the one slot of a sized payload seen through an initialised view is written) the value IS there:
exactly one `clone` event, and the write target shows the written value — unconditionally.
-/
namespace M1
namespace Mon
open LY

/-! ## the structured digest depends only on the contents of the handle's block -/

/-- `digObs` as a function of the block's contents -/
def digOf (c : Option (Option Item × Option Nat × List (Option Item))) (ei : Bool) (n : Nat) : Option Dig :=
  c.map fun c => ⟨c.1, if ei then some (c.2.2.take n) else none⟩

theorem digObs_eq (m : Mem) (h : HV) : digObs m h = digOf (cont m h.blk) h.ty.elemsInit (viewLen m h) := by
  unfold digObs digOf cont
  cases m.blocks[h.blk]? <;> rfl

theorem digObs_congr {m m' : Mem} {h : HV} (hc : cont m' h.blk = cont m h.blk) : digObs m' h = digObs m h := by
  rw [digObs_eq, digObs_eq, hc, viewLen_congr hc]

/-- what `writeVal` does to the contents of a block -/
def wvC (v : Nat) (c : Option Item × Option Nat × List (Option Item)) : Option Item × Option Nat × List (Option Item) :=
  match c.1 with
  | some it => (some { it with val := v }, c.2.1, c.2.2)
  | none =>
    match c.2.2 with
    | some it :: r => (none, c.2.1, some { it with val := v } :: r)
    | _ => c

theorem cont_writeVal_self (m : Mem) (b v : Nat) : cont (writeVal m b v) b = (cont m b).map (wvC v) := by
  simp only [cont, writeVal, upd_get]
  cases m.blocks[b]? with
  | none => rfl
  | some k =>
    obtain ⟨cnt, lv, lay, hdr, rl, elems, lk⟩ := k
    cases hdr with
    | some it => simp [Block.content, wvC]
    | none =>
      cases elems with
      | nil => simp [Block.content, wvC]
      | cons e r => cases e <;> simp [Block.content, wvC]

/-- a handle with an initialised view of at least one slot, on a block whose first slot is written: after
`writeVal … v` the write target it shows is `v` -/
theorem targetOk_writeVal (m : Mem) (b v : Nat) (h : HV) (hb : h.blk = b) (hei : h.ty.elemsInit = true)
    (hvl : viewLen (writeVal m b v) h = 1) {hdr : Option Item} {rl : Option Nat} {it : Item} {r : List (Option Item)}
    (hc : cont m b = some (hdr, rl, some it :: r)) :
    targetOk (slotObs (writeVal m b v) h) v = true := by
  simp only [targetOk, slotObs, digObs_eq, hb, cont_writeVal_self, hc, hei, hvl]
  cases hdr <;> simp [digOf, wvC, Dig.target]

theorem cloneValue_snd {m : Mem} {b : Nat} {k : Block} {it : Item} (hk : m.blocks[b]? = some k)
    (hel : k.elems = [some it]) : (cloneValue m b).2 = some ⟨m.nextClone, it.val⟩ := by
  simp [cloneValue, hk, hel]

theorem cont_of_block {m : Mem} {b : Nat} {k : Block} (hk : m.blocks[b]? = some k) :
    cont m b = some (k.hdr, k.recLen, k.elems) := by
  simp [cont, hk, Block.content]

/-! ## the three copy-on-write ops in one shape, with their status -/

def mmStep (s : State) (src v : Nat) (a : HV) (g : Mem → HV → HV) (cp : Bool) : State × Out :=
  match Arc.make_mut s.mem a cp with
  | (m, some h') => (⟨writeVal m h'.blk v, (s.set m src (g m h')).slots⟩, ok)
  | (_, none) => (s, panicked "scripted")

theorem mmStep_fst (s : State) (src v : Nat) (a : HV) (g : Mem → HV → HV) (cp : Bool) :
    (mmStep s src v a g cp).1 = mmState s src v a g cp := by
  unfold mmStep mmState
  cases hmm : Arc.make_mut s.mem a cp with
  | mk m o => cases o <;> rfl

theorem step_makeMut_arc' {s : State} {src : Nat} {h : HV} (v : Nat) (cp : Bool) (hs : lookup s src = some h)
    (hc : h.kind = .arc ∧ h.ty = .sized) :
    step s (.makeMut src v cp) = mmStep s src v h (fun _ x => x) cp := by
  unfold mmStep
  cases hmm : Arc.make_mut s.mem h cp with
  | mk m o => cases o <;> simp [step, hs, hc, hmm]

theorem step_makeUnique_arc' {s : State} {src : Nat} {h : HV} (v : Nat) (cp : Bool) (hs : lookup s src = some h)
    (hc : h.kind = .arc ∧ h.ty = .sized) :
    step s (.makeUnique src v cp) = mmStep s src v h (fun _ x => x) cp := by
  unfold mmStep
  cases hmm : Arc.make_mut s.mem h cp with
  | mk m o => cases o <;> simp [step, hs, hc, hmm]

theorem step_makeMut_offset' {s : State} {src : Nat} {h : HV} (v : Nat) (cp : Bool) (hs : lookup s src = some h)
    (hc : h.kind = .offset) :
    step s (.makeMut src v cp) =
      mmStep s src v (Arc.from_raw_offset s.mem h) (fun m x => Arc.into_raw_offset m x) cp := by
  unfold mmStep
  cases hmm : Arc.make_mut s.mem (Arc.from_raw_offset s.mem h) cp with
  | mk m o => cases o <;> simp [step, hs, hc, hmm]

/-! ## frame: the other slots, structured -/

section
variable {s : State} {src v : Nat} {h a : HV} {g : Mem → HV → HV} {cp : Bool}

/-- `mmState_frame` for the structured digest: other slots keep their handle and what they show -/
theorem mmState_frame_dig (hi : Inv s) (hs : lookup s src = some h) (ha : a.blk = h.blk)
    {i : Nat} {hv : HV} (hne : i ≠ src) (hl : lookup s i = some hv) :
    lookup (mmState s src v a g cp) i = some hv ∧
      digObs (mmState s src v a g cp).mem hv = digObs s.mem hv := by
  have hlt : hv.blk < s.mem.blocks.length := hi.inb _ (lookup_mem hl)
  unfold mmState
  rw [make_mut_eq]
  by_cases hu : Arc.is_unique s.mem a = true
  · simp only [hu, if_true]
    refine ⟨?_, ?_⟩
    · show lookupL (setL s.slots src _) i = some hv
      rw [lookupL_setL_ne _ _ hne]; exact hl
    · apply digObs_congr
      have hown : owners s h.blk = 1 := by
        have := (is_unique_iff_loadCount s.mem a).1 hu
        rw [ha, hi.toInv'.loadCount_eq hs] at this; exact this
      have hb : hv.blk ≠ a.blk := by
        intro e
        have := ownersL_one_unique hown (lookup_mem hl) (e.trans ha) (lookup_mem hs) rfl
        exact hne (congrArg Prod.fst this)
      unfold writeVal
      exact cont_upd_ne _ _ _ hb
  · simp only [hu]
    cases cp with
    | true => exact ⟨hl, rfl⟩
    | false =>
      simp only [Bool.false_eq_true, if_false]
      refine ⟨?_, ?_⟩
      · show lookupL (setL s.slots src _) i = some hv
        rw [lookupL_setL_ne _ _ hne]; exact hl
      · apply digObs_congr
        have hfresh : (Arc.new (cloneValue s.mem a.blk).1 a.ty (cloneValue s.mem a.blk).2).2.blk
            = s.mem.blocks.length := by
          have hb : (cloneValue s.mem a.blk).1.blocks = s.mem.blocks := by unfold cloneValue; split <;> rfl
          show (cloneValue s.mem a.blk).1.blocks.length = _
          rw [hb]
        unfold writeVal
        rw [cont_upd_ne _ _ _ (by rw [hfresh]; omega), Arc.drop_eq, cont_decr, cont_clone_new _ _ _ hlt]

/-- the slot itself after a successful call -/
theorem mmState_lookup_src (_hi : Inv s) (hs : lookup s src = some h) {m : Mem} {h' : HV}
    (hmm : Arc.make_mut s.mem a cp = (m, some h')) :
    lookup (mmState s src v a g cp) src = some (g m h') := by
  unfold mmState
  rw [hmm]
  show lookupL (setL s.slots src _) src = _
  rw [lookupL_setL_self]
  have : lookupL s.slots src = some h := hs
  rw [this]; rfl

end

/-! ## the redirecting branch: log and fresh block -/

theorem cloneValue_log (m : Mem) (b : Nat) :
    ∃ ce : List Event, (cloneValue m b).1.log = m.log ++ ce ∧
      ce.countP isCloneEv = (if (cloneValue m b).2.isSome then 1 else 0) ∧ ce.countP isAllocEv = 0 := by
  unfold cloneValue
  split
  · exact ⟨[_], rfl, rfl, rfl⟩
  · exact ⟨[], by simp, rfl, rfl⟩

theorem cont_arc_new_fresh (m : Mem) (t : Ty) (v : Option Item) :
    cont (Arc.new m t v).1 m.blocks.length = some (none, none, [v]) := by
  show ((m.blocks ++ [_])[m.blocks.length]?).map Block.content = _
  simp [Block.content]

/-- shared, non-panicking `make_mut` through the view `a` of slot `src`: the memory afterwards -/
theorem mm_shared_mem {s : State} (hi : Inv s) {src : Nat} {h a : HV} (hs : lookup s src = some h) (ha : a.blk = h.blk)
    (hu : ¬ Arc.is_unique s.mem a = true) (v : Nat) :
    ∃ (ce : List Event) (al : Event),
      (writeVal (Arc.drop (Arc.new (cloneValue s.mem a.blk).1 a.ty (cloneValue s.mem a.blk).2).1 a)
        s.mem.blocks.length v).log = s.mem.log ++ (ce ++ [al]) ∧
      ce.countP isCloneEv = (if (cloneValue s.mem a.blk).2.isSome then 1 else 0) ∧ isCloneEv al = false ∧
      cont (writeVal (Arc.drop (Arc.new (cloneValue s.mem a.blk).1 a.ty (cloneValue s.mem a.blk).2).1 a)
        s.mem.blocks.length v) s.mem.blocks.length = some (wvC v (none, none, [(cloneValue s.mem a.blk).2])) := by
  obtain ⟨k, hk, _, _, hcnt⟩ := slot_block hi hs
  have hne1 : k.count ≠ 1 := by
    intro h1
    apply hu
    rw [is_unique_iff_loadCount, ha]
    simp [loadCount, hk, h1]
  have hlt : a.blk < s.mem.blocks.length := by rw [ha]; exact hi.inb _ (lookup_mem hs)
  have hk2 : (Arc.new (cloneValue s.mem a.blk).1 a.ty (cloneValue s.mem a.blk).2).1.blocks[a.blk]? = some k := by
    rw [arc_new_get _ _ _ (by rw [length_cloneValue]; exact hlt), cloneValue_blocks, ha]; exact hk
  obtain ⟨ce, hce, hcc, _⟩ := cloneValue_log s.mem a.blk
  refine ⟨ce, Event.alloc (cloneValue s.mem a.blk).1.blocks.length (allocLayoutBoxNew bits a.ty.elemLay).size
    (allocLayoutBoxNew bits a.ty.elemLay).align, ?_, hcc, rfl, ?_⟩
  · show (Arc.drop _ a).log = _
    rw [Arc.drop_eq, decr_not_last_drops_nothing _ _ _ _ k hk2 hne1]
    show (cloneValue s.mem a.blk).1.log ++ [_] = _
    rw [hce, List.append_assoc]
  · rw [cont_writeVal_self, Arc.drop_eq, cont_decr]
    have := cont_arc_new_fresh (cloneValue s.mem a.blk).1 a.ty (cloneValue s.mem a.blk).2
    rw [length_cloneValue] at this
    rw [this]; rfl

/-! ## closing lemmas: which facts about an observation make K7 pass -/

theorem k7_skip {pre : List (Nat × SlotObs)} {op : Op} {o : Obs} (h : o.badOp = true ∨ o.panicked = true) :
    checkK7 pre op o = [] := by
  unfold checkK7
  split
  · rfl
  · rcases h with h | h <;> simp [h]

theorem k7_none {pre : List (Nat × SlotObs)} {op : Op} {o : Obs} (h : cowSrc op = none) : checkK7 pre op o = [] := by
  unfold checkK7; rw [h]

theorem k7_of_unique {pre : List (Nat × SlotObs)} {op : Op} {o : Obs} {src v : Nat} {p q : SlotObs}
    (hop : cowSrc op = some (src, v)) (hp : lookupO pre src = some p) (hq : lookupO o.slots src = some q)
    (hn : ownersO pre p.blk = 1) (hb : q.blk = p.blk) (hev : o.evs = []) (ht : targetOk q v = true) :
    checkK7 pre op o = [] := by
  unfold checkK7
  rw [hop]
  simp [hp, hq, hn, hb, hev, ht]

theorem k7_of_shared {pre : List (Nat × SlotObs)} {op : Op} {o : Obs} {src v : Nat} {p q : SlotObs}
    (hop : cowSrc op = some (src, v)) (hp : lookupO pre src = some p) (hq : lookupO o.slots src = some q)
    (hn : ownersO pre p.blk ≠ 1) (hb : q.blk ≠ p.blk) (hc : o.evs.countP isCloneEv = 1)
    (h1 : ownersO o.slots q.blk = 1) (h2 : ownersO o.slots p.blk + 1 = ownersO pre p.blk)
    (hoth : pre.filterMap (k7Other o.slots p.blk src) = []) (ht : targetOk q v = true) :
    checkK7 pre op o = [] := by
  unfold checkK7
  rw [hop]
  simp [hp, hq, hn, hb, hc, h1, h2, hoth, ht]

/-! ## K7 on the model -/

theorem K7_mm {s : State} (hi : Inv s) {src v : Nat} {h a : HV} {g : Mem → HV → HV} {cp : Bool} {op : Op}
    (hs : lookup s src = some h) (ha : a.blk = h.blk) (haty : a.ty = .sized) (hak : a.kind = .arc)
    (hfirst : ∃ (k : Block) (it : Item), s.mem.blocks[h.blk]? = some k ∧ k.elems = [some it])
    (hg : ∀ m x, (g m x).blk = x.blk)
    (hgv : ∀ (m m' : Mem) (x : HV), x.ty = .sized → x.kind = .arc →
      viewLen m' (g m x) = 1 ∧ (g m x).ty.elemsInit = true)
    (hop : cowSrc op = some (src, v)) (hstep : step s op = mmStep s src v a g cp) :
    checkK7 (observeSlots s) op (observe s op) = [] := by
  have hp : lookupO (observeSlots s) src = some (slotObs s.mem h) := by rw [lookupO_observe, hs]; rfl
  have hfst : (step s op).1 = mmState s src v a g cp := by rw [hstep, mmStep_fst]
  have hslots : (observe s op).slots = observeSlots (mmState s src v a g cp) := by
    show observeSlots (step s op).1 = _; rw [hfst]
  have hown : owners s h.blk = 1 ↔ Arc.is_unique s.mem a = true := by
    rw [is_unique_iff_loadCount, ha, hi.toInv'.loadCount_eq hs]
  obtain ⟨kb, it0, hkb, hel0⟩ := hfirst
  have hcv : (cloneValue s.mem a.blk).2 = some ⟨s.mem.nextClone, it0.val⟩ := by
    rw [ha]; exact cloneValue_snd hkb hel0
  by_cases hu : Arc.is_unique s.mem a = true
  · -- sole owner: written in place
    have hmm : Arc.make_mut s.mem a cp = (s.mem, some a) := by rw [make_mut_eq]; simp [hu]
    have hst : mmState s src v a g cp = ⟨writeVal s.mem a.blk v, (s.set s.mem src (g s.mem a)).slots⟩ := by
      unfold mmState; rw [hmm]
    have hq : lookupO (observe s op).slots src = some (slotObs (mmState s src v a g cp).mem (g s.mem a)) := by
      rw [hslots, lookupO_observe, mmState_lookup_src hi hs hmm]; rfl
    refine k7_of_unique hop hp hq ?_ ?_ ?_ ?_
    · rw [ownersO_observe]; exact hown.2 hu
    · show (g s.mem a).blk = h.blk
      rw [hg, ha]
    · apply observe_evs
      rw [hfst, hst]
      show s.mem.log = _
      simp
    · rw [hst]
      obtain ⟨hv1, hv2⟩ := hgv s.mem (writeVal s.mem a.blk v) a haty hak
      refine targetOk_writeVal _ _ _ _ (hg _ _) hv2 hv1 (hdr := kb.hdr) (rl := kb.recLen) (it := it0) (r := []) ?_
      rw [ha, cont_of_block hkb, hel0]
  · cases cp with
    | true =>
      apply k7_skip
      right
      show isPanicStatus (step s op).2.status = true
      have : step s op = (s, panicked "scripted") := by
        rw [hstep]; unfold mmStep; rw [make_mut_eq]; simp [hu]
      rw [this]; exact isPanic_panicked _ _
    | false =>
      -- shared: redirected to a fresh block
      have hmm : Arc.make_mut s.mem a false =
          (Arc.drop (Arc.new (cloneValue s.mem a.blk).1 a.ty (cloneValue s.mem a.blk).2).1 a,
           some (Arc.new (cloneValue s.mem a.blk).1 a.ty (cloneValue s.mem a.blk).2).2) := by
        rw [make_mut_eq]; simp [hu]
      have hfreshb : (Arc.new (cloneValue s.mem a.blk).1 a.ty (cloneValue s.mem a.blk).2).2.blk
          = s.mem.blocks.length := by
        show (cloneValue s.mem a.blk).1.blocks.length = _
        rw [length_cloneValue]
      have hst : (mmState s src v a g false).mem =
          writeVal (Arc.drop (Arc.new (cloneValue s.mem a.blk).1 a.ty (cloneValue s.mem a.blk).2).1 a)
            s.mem.blocks.length v := by
        unfold mmState; rw [hmm]; simp only; rw [hfreshb]
      have hq := mmState_lookup_src (v := v) (g := g) hi hs hmm
      generalize hqd : g (Arc.drop (Arc.new (cloneValue s.mem a.blk).1 a.ty (cloneValue s.mem a.blk).2).1 a)
          (Arc.new (cloneValue s.mem a.blk).1 a.ty (cloneValue s.mem a.blk).2).2 = q at hq
      have hqb : q.blk = s.mem.blocks.length := by rw [← hqd, hg, hfreshb]
      obtain ⟨hqv, hqe⟩ : viewLen (mmState s src v a g false).mem q = 1 ∧ q.ty.elemsInit = true := by
        rw [← hqd]; exact hgv _ _ _ haty rfl
      have hq' : lookupO (observe s op).slots src = some (slotObs (mmState s src v a g false).mem q) := by
        rw [hslots, lookupO_observe, hq]; rfl
      have hsh : owners s h.blk ≠ 1 := fun e => hu (hown.1 e)
      obtain ⟨ho1, ho2, _⟩ := mmState_shared_owners (v := v) hi hs ha hg hsh
      have hlt : h.blk < s.mem.blocks.length := hi.inb _ (lookup_mem hs)
      have hpos : 0 < owners s h.blk := ownersL_pos (lookup_mem hs)
      obtain ⟨ce, al, hlog, hcc, hal, hcont⟩ := mm_shared_mem hi hs ha hu v
      have hevs : (observe s op).evs = ce ++ [al] := by
        apply observe_evs; rw [hfst, hst]; exact hlog
      refine k7_of_shared hop hp hq' ?_ ?_ ?_ ?_ ?_ ?_ ?_
      · rw [ownersO_observe]; exact hsh
      · show q.blk ≠ h.blk
        rw [hqb]; omega
      · -- exactly one clone: the value is there (`InitInv`)
        rw [hevs, List.countP_append, hcc, hcv]
        simp [hal]
      · rw [hslots, ownersO_observe]
        show owners _ q.blk = 1
        rw [hqb]; exact ho2
      · rw [hslots, ownersO_observe, ownersO_observe]
        show owners _ h.blk + 1 = owners s h.blk
        rw [ho1]; omega
      · rw [List.filterMap_eq_nil_iff]
        intro e he
        obtain ⟨hv, hm, he2⟩ := mem_observe he
        have hl : lookup s e.1 = some hv := mem_lookupL hi.keys hm
        unfold k7Other
        by_cases hes : e.1 = src
        · simp [hes]
        · obtain ⟨hf1, hf2⟩ := mmState_frame_dig (v := v) (g := g) (cp := false) hi hs ha hes hl
          have : lookupO (observe s op).slots e.1 = some (slotObs (mmState s src v a g false).mem hv) := by
            rw [hslots, lookupO_observe, hf1]; rfl
          rw [this, he2]
          simp [slotObs, hf2]
      · simp only [targetOk, slotObs, digObs_eq, hqb, hqe]
        rw [hst] at hqv ⊢
        rw [hqv, hcont, hcv]
        simp [digOf, wvC, Dig.target]

theorem viewLen_sized_arc (m : Mem) (x : HV) (hty : x.ty = .sized) (hk : x.kind = .arc) : viewLen m x = 1 := by
  simp [viewLen, hty, hk, Ty.isSlicey]

/-- **K7 (C08)** on every state that satisfies the count invariant and the length typing -/
theorem K7_sound {s : State} (hi : Inv s) (hl : LenInv s) (hinit : InitInv s) (op : Op) :
    checkK7 (observeSlots s) op (observe s op) = [] := by
  have hbad : ∀ {op : Op}, step s op = (s, badOp) → checkK7 (observeSlots s) op (observe s op) = [] := by
    intro op e
    apply k7_skip; left
    show isBadOpStatus (step s op).2.status = true
    rw [e]; exact isBadOp_badOp
  cases op with
  | makeMut src v cp =>
    cases hs : lookup s src with
    | none => exact hbad (by simp [step, hs])
    | some h =>
      by_cases hc : h.kind = .arc ∧ h.ty = .sized
      · exact K7_mm hi hs rfl hc.2 hc.1 (hinit.sized_written hl hs hc.2) (fun _ _ => rfl)
          (fun m m' x hty hk => ⟨viewLen_sized_arc m' x hty hk, by rw [hty]; rfl⟩) rfl (step_makeMut_arc' v cp hs hc)
      · by_cases hk : h.kind = .offset
        · obtain ⟨k, _, ho⟩ := hl.ok src h (lookup_mem hs)
          have hty : h.ty = .sized := ho.off hk
          refine K7_mm (a := Arc.from_raw_offset s.mem h) (g := fun m x => Arc.into_raw_offset m x) hi hs rfl hty rfl
            (hinit.sized_written hl hs hty) (fun _ _ => rfl) ?_ rfl
            (step_makeMut_offset' v cp hs hk)
          intro m m' x hx _
          constructor
          · simp [viewLen, Arc.into_raw_offset, Arc.into_raw, hx, Ty.isSlicey]
          · show x.ty.elemsInit = true
            rw [hx]; rfl
        · exact hbad (by simp [step, hs, hc, hk])
  | makeUnique src v cp =>
    cases hs : lookup s src with
    | none => exact hbad (by simp [step, hs])
    | some h =>
      by_cases hc : h.kind = .arc ∧ h.ty = .sized
      · exact K7_mm hi hs rfl hc.2 hc.1 (hinit.sized_written hl hs hc.2) (fun _ _ => rfl)
          (fun m m' x hty hk => ⟨viewLen_sized_arc m' x hty hk, by rw [hty]; rfl⟩) rfl (step_makeUnique_arc' v cp hs hc)
      · exact hbad (by simp [step, hs, hc])
  | _ => exact k7_none rfl

/-- K7 only counts events -/
theorem checkK7_withEvs (pre : List (Nat × SlotObs)) (op : Op) (o : Obs) (evs' : List Event)
    (h : evs'.Perm o.evs) : checkK7 pre op (o.withEvs evs') = checkK7 pre op o := by
  unfold checkK7 Obs.withEvs
  simp only [h.countP_eq]

end Mon
end M1
