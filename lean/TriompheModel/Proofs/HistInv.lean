import TriompheModel.Model.Ops
import TriompheModel.Proofs.HistLemmasStep
import TriompheModel.Proofs.HistLemmasLogStep
/-!
# The invariant of the sequential handle machine (M1) and its preservation by every op

`Inv s` relates the count *words* in memory to the *owning handle values* in the slot table.  It is
the refinement invariant from which the history halves of C01, C03, C04, C08, C09, C10, C12, C15
follow (Props/C*.lean).  Proved for `State.init`, preserved by `step s op` for EVERY op (including
callback scripts, iterator-scripted constructors with panics/lies, panicking `Clone`), hence true
of `run ops` for every finite history `ops`.

The case analysis lives in `Proofs/HistLemmas*.lean` (over the pointwise form `Inv'`); this file
shows `Inv s ↔ Inv' s` and states the results.
-/
namespace M1

structure Inv (s : State) : Prop where
  /-- the count word of a live, non-abandoned block equals the number of owning handle values that
  refer to it (all kinds, raw pointers included), and such a block has at least one owner -/
  cnt  : ∀ (b : Nat) (k : Block), s.mem.blocks[b]? = some k → k.live = true → k.leaked = false →
          k.count = owners s b ∧ 0 < k.count
  /-- nothing refers to a block that has been returned to the allocator -/
  dead : ∀ (b : Nat) (k : Block), s.mem.blocks[b]? = some k → k.live = false → owners s b = 0
  /-- nothing refers to a half-built block abandoned by a panicking constructor -/
  leak : ∀ (b : Nat) (k : Block), s.mem.blocks[b]? = some k → k.leaked = true → owners s b = 0
  /-- every handle value points into an existing block -/
  inb  : ∀ e, e ∈ s.slots → e.2.blk < s.mem.blocks.length
  /-- slot numbers are unique -/
  keys : (s.slots.map (·.1)).Nodup
  /-- a `UniqueArc` is the only owner of its block -/
  uniq : ∀ e, e ∈ s.slots → e.2.kind = .uniq → owners s e.2.blk = 1

theorem Inv.toInv' {s : State} (h : Inv s) : Inv' s where
  good := by
    intro b c lv lk hc
    obtain ⟨k, hk, hcore⟩ := cv_eq_some hc
    simp only [Block.core, Prod.mk.injEq] at hcore
    obtain ⟨rfl, rfl, rfl⟩ := hcore
    exact ⟨h.cnt b k hk, h.dead b k hk, h.leak b k hk⟩
  inb := by
    intro e he hn
    have := h.inb e he
    rw [cv_eq_none_iff] at hn
    omega
  keys := h.keys
  uniq := h.uniq

theorem Inv'.toInv {s : State} (h : Inv' s) : Inv s where
  cnt := fun b k hk hl hlk => (h.good b _ _ _ (cv_of_get hk)).1 hl hlk
  dead := fun b k hk hl => (h.good b _ _ _ (cv_of_get hk)).2.1 hl
  leak := fun b k hk hl => (h.good b _ _ _ (cv_of_get hk)).2.2 hl
  inb := by
    intro e he
    have := h.inb e he
    rw [Ne, cv_eq_none_iff] at this
    omega
  keys := h.keys
  uniq := h.uniq

theorem inv_iff (s : State) : Inv s ↔ Inv' s := ⟨Inv.toInv', Inv'.toInv⟩

/-- the empty machine satisfies the invariant -/
theorem inv_init : Inv State.init := Inv'.init.toInv

/-- every op (whatever its arguments, scripts included) preserves the invariant -/
theorem inv_step (s : State) (op : Op) (h : Inv s) : Inv (step s op).1 :=
  (inv'_step h.toInv' op).toInv

theorem inv_run_from (s : State) (h : Inv s) (ops : List Op) :
    Inv (ops.foldl (fun s o => (step s o).1) s) := by
  induction ops generalizing s with
  | nil => exact h
  | cons o r ih => exact ih _ (inv_step s o h)

/-- the invariant holds after every finite history -/
theorem inv_run (ops : List Op) : Inv (run ops) := inv_run_from _ inv_init ops

/-! ## consequences used by the property theorems -/

/-- a slot's block exists, is live and not abandoned, and its count word is its number of owners -/
theorem slot_block {s : State} (hi : Inv s) {i : Nat} {h : HV} (hl : lookup s i = some h) :
    ∃ k, s.mem.blocks[h.blk]? = some k ∧ k.live = true ∧ k.leaked = false ∧ k.count = owners s h.blk := by
  obtain ⟨k, hk, hc⟩ := cv_eq_some (hi.toInv'.view hl)
  simp only [Block.core, Prod.mk.injEq] at hc
  exact ⟨k, hk, hc.2.1, hc.2.2, hc.1⟩

/-- [C04] the count word read through any slot handle is the number of owning handle values -/
theorem count_eq_owners {s : State} (hi : Inv s) {i : Nat} {h : HV} (hl : lookup s i = some h) :
    loadCount s.mem h.blk = owners s h.blk ∧
      ∃ k, s.mem.blocks[h.blk]? = some k ∧ k.live = true ∧ k.leaked = false := by
  obtain ⟨k, hk, h1, h2, _⟩ := slot_block hi hl
  exact ⟨hi.toInv'.loadCount_eq hl, k, hk, h1, h2⟩

/-- `strong_count` / `count` through the `Arc` a slot handle stands for -/
theorem strong_count_eq_owners {s : State} (hi : Inv s) {i : Nat} {h : HV} (hl : lookup s i = some h) :
    Arc.strong_count s.mem (asArc s.mem h) = owners s h.blk ∧
    Arc.count s.mem (asArc s.mem h) = owners s h.blk := by
  simp only [Arc.strong_count, Arc.count, asArc_blk]
  exact ⟨hi.toInv'.loadCount_eq hl, hi.toInv'.loadCount_eq hl⟩

/-- [C03] `is_unique` answers `true` exactly when the handle is the only owner -/
theorem is_unique_iff {s : State} (hi : Inv s) {i : Nat} {h : HV} (hl : lookup s i = some h) :
    Arc.is_unique s.mem (asArc s.mem h) = true ↔ owners s h.blk = 1 := by
  rw [is_unique_iff_loadCount, asArc_blk, hi.toInv'.loadCount_eq hl]

/-- [C01] a (non-abandoned) block is live exactly as long as some handle value owns it -/
theorem live_iff_owned {s : State} (hi : Inv s) {b : Nat} {k : Block} (hk : s.mem.blocks[b]? = some k)
    (hlk : k.leaked = false) : k.live = true ↔ 0 < owners s b := by
  constructor
  · intro hl
    have := hi.cnt b k hk hl hlk
    omega
  · intro hp
    cases hlv : k.live with
    | true => rfl
    | false => have := hi.dead b k hk hlv; omega

/-- an abandoned (leaked) block is never referred to, and is never freed or touched again -/
theorem leaked_unowned {s : State} (hi : Inv s) {b : Nat} {k : Block} (hk : s.mem.blocks[b]? = some k)
    (hlk : k.leaked = true) : owners s b = 0 := hi.leak b k hk hlk

/-- a `UniqueArc` in a slot sees count 1 -/
theorem uniq_count_one {s : State} (hi : Inv s) {i : Nat} {h : HV} (hl : lookup s i = some h)
    (hu : h.kind = .uniq) : loadCount s.mem h.blk = 1 := by
  rw [hi.toInv'.loadCount_eq hl]; exact hi.uniq _ (lookup_mem hl) hu

/-! ## the allocation log (`LogInv`, declared in `Proofs/HistLemmasLog.lean`)

`LogInv m`: exactly one `alloc` event per block, carrying the layout stored in the block; a
`dealloc` event iff the block is not live, and then exactly one; the `alloc` event comes first.
The layout a `dealloc` event records is `t.releaseLayout len` of the releasing view
(`decr_log`, `into_inner_log`, `dropHandle_eq`); relating it to the `alloc` layout is the business
of the layout component. -/

theorem log_init : LogInv State.init.mem := LogInv.init

/-- every op keeps the allocation log disciplined (given the count invariant) -/
theorem loginv_step (s : State) (op : Op) (h : Inv s) (hl : LogInv s.mem) : LogInv (step s op).1.mem :=
  log_step h.toInv' hl op

theorem invs_run_from (s : State) (h : Inv s) (hl : LogInv s.mem) (ops : List Op) :
    Inv (ops.foldl (fun s o => (step s o).1) s) ∧ LogInv (ops.foldl (fun s o => (step s o).1) s).mem := by
  induction ops generalizing s with
  | nil => exact ⟨h, hl⟩
  | cons o r ih => exact ih _ (inv_step s o h) (loginv_step s o h hl)

/-- the allocation log is disciplined after every finite history -/
theorem loginv_run (ops : List Op) : LogInv (run ops).mem :=
  (invs_run_from _ inv_init log_init ops).2

/-- in a list with at most one element satisfying `p`, two positions satisfying `p` coincide -/
theorem countP_le_one_unique {α : Type} {p : α → Bool} :
    ∀ {l : List α}, l.countP p ≤ 1 → ∀ {i j : Nat} {x y : α}, l[i]? = some x → p x = true →
      l[j]? = some y → p y = true → i = j := by
  intro l
  induction l with
  | nil => intro _ i j x y hx; simp at hx
  | cons a r ih =>
    intro hc i j x y hx hpx hy hpy
    rw [List.countP_cons] at hc
    have hpos : ∀ {n : Nat} {z : α}, r[n]? = some z → p z = true → 0 < r.countP p := by
      intro n z hz hpz
      rw [List.countP_pos_iff]
      exact ⟨z, List.mem_of_getElem? hz, hpz⟩
    cases i with
    | zero =>
      cases j with
      | zero => rfl
      | succ j' =>
        simp only [List.getElem?_cons_zero, Option.some.injEq] at hx
        simp only [List.getElem?_cons_succ] at hy
        subst hx
        have := hpos hy hpy
        simp only [hpx, if_true] at hc
        omega
    | succ i' =>
      simp only [List.getElem?_cons_succ] at hx
      cases j with
      | zero =>
        simp only [List.getElem?_cons_zero, Option.some.injEq] at hy
        subst hy
        have := hpos hx hpx
        simp only [hpy, if_true] at hc
        omega
      | succ j' =>
        simp only [List.getElem?_cons_succ] at hy
        have : r.countP p ≤ 1 := by omega
        rw [ih this hx hpx hy hpy]

section LogFacts
variable {m : Mem} (hl : LogInv m)
include hl

/-- a block index has at most one `dealloc` event -/
theorem dealloc_le_one (b : Nat) : m.log.countP (isDealloc b) ≤ 1 := by
  cases hk : m.blocks[b]? with
  | none =>
    have := hl.ndo b (by simpa using hk)
    omega
  | some k =>
    have := hl.nd b k hk
    split at this <;> omega

/-- two `dealloc` events of the same block are the same event: no double free -/
theorem dealloc_unique {i j b sz al sz' al' : Nat} (hi : m.log[i]? = some (Event.dealloc b sz al))
    (hj : m.log[j]? = some (Event.dealloc b sz' al')) : i = j :=
  countP_le_one_unique (dealloc_le_one hl b) hi (by simp [isDealloc]) hj (by simp [isDealloc])

/-- a block has a `dealloc` event iff it is not live -/
theorem dealloc_iff_dead {b : Nat} {k : Block} (hk : m.blocks[b]? = some k) :
    (∃ sz al : Nat, Event.dealloc b sz al ∈ m.log) ↔ k.live = false := by
  have h1 := hl.nd b k hk
  constructor
  · rintro ⟨sz, al, hm⟩
    have : 0 < m.log.countP (isDealloc b) := by
      rw [List.countP_pos_iff]; exact ⟨_, hm, by simp [isDealloc]⟩
    cases hlv : k.live with
    | false => rfl
    | true => rw [hlv, if_pos rfl] at h1; omega
  · intro hlv
    rw [hlv, if_neg (by decide)] at h1
    have : 0 < m.log.countP (isDealloc b) := by omega
    rw [List.countP_pos_iff] at this
    obtain ⟨e, he, hp⟩ := this
    cases e <;> simp only [isDealloc, beq_iff_eq] at hp
    case dealloc b' sz al => subst hp; exact ⟨sz, al, he⟩
    all_goals cases hp

/-- events only mention blocks that exist -/
theorem dealloc_inb {b sz al : Nat} (hm : Event.dealloc b sz al ∈ m.log) : b < m.blocks.length := by
  rcases Nat.lt_or_ge b m.blocks.length with h | h
  · exact h
  · have := hl.ndo b h
    rw [List.countP_eq_zero] at this
    have := this _ hm
    simp [isDealloc] at this

/-- exactly one `alloc` event per existing block -/
theorem alloc_unique {i j b sz al sz' al' : Nat} (hi : m.log[i]? = some (Event.alloc b sz al))
    (hj : m.log[j]? = some (Event.alloc b sz' al')) : i = j := by
  have : m.log.countP (isAlloc b) ≤ 1 := by
    have := hl.na b
    split at this <;> omega
  exact countP_le_one_unique this hi (by simp [isAlloc]) hj (by simp [isAlloc])

/-- the `alloc` event of a block precedes its `dealloc` event (every `alloc` event of that block
index, since there is only one) -/
theorem alloc_before_dealloc {i j b sz al sz' al' : Nat} (hi : m.log[i]? = some (Event.dealloc b sz al))
    (hj : m.log[j]? = some (Event.alloc b sz' al')) : j < i := by
  obtain ⟨j', hlt, sz'', al'', hj'⟩ := hl.ord i b sz al hi
  rw [alloc_unique hl hj hj']; exact hlt

/-- the `alloc` event carries the layout stored in (requested for) the block -/
theorem alloc_layout {b sz al : Nat} (hm : Event.alloc b sz al ∈ m.log) :
    ∃ k : Block, m.blocks[b]? = some k ∧ k.lay = ⟨sz, al⟩ := hl.lay b sz al hm

end LogFacts

/-! ## non-vacuity: a concrete history in which the invariant says something -/

/-- two owners (a raw pointer and a clone made inside a `with_arc` callback) of block 0 after the
original `Arc` was dropped; block 1 was a `UniqueArc` consumed by `into_inner` -/
def exampleHistory : List Op :=
  [.create 0 (.new ⟨1, 7⟩), .clone 1 0, .conv 1 .intoRaw, .create 2 (.uniqueNew ⟨2, 8⟩),
   .withCb 0 .borrowWithArc [.cloneTo 5, .cnt], .drop 0, .intoInner 2]

example : owners (run exampleHistory) 0 = 2 ∧ loadCount (run exampleHistory).mem 0 = 2 ∧
    owners (run exampleHistory) 1 = 0 ∧
    (run exampleHistory).mem.log = [.alloc 0 16 8, .alloc 1 16 8, .dealloc 1 16 8] := by decide

example : Inv (run exampleHistory) ∧ LogInv (run exampleHistory).mem :=
  ⟨inv_run _, loginv_run _⟩

end M1
