import TriompheModel.Proofs.HistValBase
/-!
# The memory operations of the model preserve the value invariant
(helper file 2 for `Proofs/HistVal.lean`)
-/
namespace M1
open LY

namespace ValInvM
variable {seen : List Nat} {m : Mem}

/-- `upd` by a function that keeps identities, `live` and `leaked` -/
theorem upd_same (hv : ValInvM seen m) (b : Nat) (f : Block → Block)
    (hf : ∀ k, m.blocks[b]? = some k → (f k).ids = k.ids ∧ (f k).live = k.live ∧ (f k).leaked = k.leaked ∧
      ((f k).live = false → (k.live = false → k.count = 0) → (f k).count = 0)) :
    ValInvM seen (m.upd b f) := by
  apply hv.upd b f [] (fun i h => by cases h)
  intro k hk
  obtain ⟨h1, h2, h3, h4⟩ := hf k hk
  exact ⟨fun h => h2 ▸ h, fun h => h3 ▸ h, h4, fun i hi => Or.inl (h1 ▸ hi), fun h => h1 ▸ h⟩

theorem incr (hv : ValInvM seen m) {b : Nat} {k : Block} (hk : m.blocks[b]? = some k) (hl : k.live = true) :
    ValInvM seen (incr m b) := by
  apply hv.upd_same
  intro k' hk'
  rw [hk] at hk'; cases hk'
  exact ⟨rfl, rfl, rfl, fun h => by simp only at h; rw [hl] at h; cases h⟩

theorem leak (hv : ValInvM seen m) (b : Nat) : ValInvM seen (m.leak b) := by
  apply hv.upd b _ [] (fun i h => by cases h)
  intro k _
  refine ⟨id, ?_, fun h hz => hz h, fun i hi => Or.inl hi, id⟩
  intro h; cases h

theorem writeVal_ids (k : Block) (v : Nat) :
    (match k.hdr with
      | some it => { k with hdr := some { it with val := v } }
      | none =>
        match k.elems with
        | some it :: r => { k with elems := some { it with val := v } :: r }
        | _ => k : Block).ids = k.ids := by
  cases hh : k.hdr with
  | some it => simp [Block.ids, hh, optId]
  | none =>
    simp only
    split
    · rename_i it r he
      simp [Block.ids, hh, he, elemIds_cons, optId]
    · rfl

theorem writeVal (hv : ValInvM seen m) (b v : Nat) : ValInvM seen (writeVal m b v) := by
  unfold M1.writeVal
  apply hv.upd_same
  intro k _
  refine ⟨writeVal_ids k v, ?_, ?_, ?_⟩
  · split
    · rfl
    · split <;> rfl
  · split
    · rfl
    · split <;> rfl
  · intro hl hz
    have hl' : k.live = false := by
      revert hl; split
      · exact id
      · split <;> exact id
    have := hz hl'
    split
    · exact this
    · split <;> exact this

theorem emit_nodrop (hv : ValInvM seen m) (es : List Event) (hes : dropIds es = []) :
    ValInvM seen (m.emit es) :=
  hv.log_only rfl (by show dropIds (m.log ++ es) = _; rw [dropIds_append, hes, List.append_nil]) (Nat.le_refl _)

theorem cloneValue (hv : ValInvM seen m) (b : Nat) : ValInvM seen (cloneValue m b).1 := by
  unfold M1.cloneValue
  split
  · exact hv.log_only rfl (by show dropIds (m.log ++ [_]) = _; rw [dropIds_append]; simp [dropIds, Event.dropId?])
      (Nat.le_succ _)
  · exact hv

/-- the block dies; `D`'s `.drop` identities are a sublist of what it stored -/
theorem free (hv : ValInvM seen m) {b : Nat} {k : Block} (hk : m.blocks[b]? = some k) (hl : k.live = true)
    (hnl : k.leaked = false) (D : List Event) (hD : (dropIds D).Sublist k.ids) :
    ValInvM seen ((m.upd b fun k => { k with count := 0, live := false }).emit D) := by
  have h1 : ValInvM seen (m.upd b fun k => { k with count := 0, live := false }) := by
    apply hv.upd b _ [] (fun i h => by cases h)
    intro k' _
    refine ⟨?_, id, fun _ _ => rfl, fun i hi => Or.inl hi, id⟩
    intro h; cases h
  apply h1.emit_drops D (List.Nodup.sublist hD (hv.ids_nodup b k hk hl hnl))
  intro i hi
  have hik : i ∈ k.ids := hD.subset hi
  refine ⟨hv.placed_not_dropped b k hk hl i hik, ?_, hv.known i (Or.inr ⟨b, k, hk, hik⟩)⟩
  intro j k' hk' hl' hik'
  rw [upd_get] at hk'
  cases hkj : m.blocks[j]? with
  | none => rw [hkj] at hk'; cases hk'
  | some kj =>
    rw [hkj] at hk'
    simp only [Option.map_some, Option.some.injEq] at hk'
    by_cases hbj : b = j
    · simp only [hbj, if_true] at hk'; subst hk'; cases hl'
    · simp only [hbj, if_false] at hk'; subst hk'
      exact hv.disjoint b j k kj hbj hk hkj hl hl' i hik hik'

/-- `drop_inner` on a block that is not an abandoned one -/
theorem decr (hv : ValInvM seen m) (b : Nat) (t : Ty) (len : Nat)
    (hnl : ∀ k, m.blocks[b]? = some k → k.leaked = false) : ValInvM seen (decr m b t len) := by
  unfold M1.decr
  split
  · exact hv
  · rename_i k hk
    split
    · rename_i h1
      have hl : k.live = true := by
        cases hlv : k.live with
        | true => rfl
        | false => have := hv.dz b k hk hlv; omega
      refine hv.free hk hl (hnl k hk) _ ?_
      rw [dropIds_append]
      simp only [dropIds, List.filterMap_cons, Event.dropId?, List.filterMap_nil, List.append_nil]
      exact dropIds_payloadDrops_sublist b k t len
    · apply hv.upd_same
      intro k' _
      exact ⟨rfl, rfl, rfl, fun hl hz => by simp [hz hl]⟩

/-- `UniqueArc::into_inner`: the block dies, its value is moved out to the caller (no `.drop`) -/
theorem into_inner (hv : ValInvM seen m) (u : HV) : ValInvM seen (UniqueArc.into_inner m u).1 := by
  unfold UniqueArc.into_inner
  split
  · exact hv
  · have h1 : ValInvM seen (m.upd u.blk fun k => { k with count := 0, live := false }) := by
      apply hv.upd u.blk _ [] (fun i h => by cases h)
      intro k' _
      refine ⟨?_, id, fun _ _ => rfl, fun i hi => Or.inl hi, id⟩
      intro h; cases h
    exact h1.emit_nodrop _ rfl

/-- `Arc::new(T::clone(..))`: the clone gets the next identity -/
theorem cloneNew (hv : ValInvM seen m) (b : Nat) (t : Ty) :
    ValInvM seen (Arc.new (M1.cloneValue m b).1 t (M1.cloneValue m b).2).1 := by
  have h1 := hv.cloneValue b
  have key : ∀ i, i ∈ optId (M1.cloneValue m b).2 → FreshIn seen (M1.cloneValue m b).1 i := by
    intro i hi
    unfold M1.cloneValue at hi ⊢
    split at hi
    · simp only [optId, List.mem_singleton] at hi
      subst hi
      rename_i it hit
      refine ⟨?_, ?_, Or.inr ⟨hv.clone_bound, Nat.lt_succ_self _⟩⟩
      · intro h
        have h' : m.nextClone ∈ dropIds m.log := by
          have : dropIds (m.log ++ [Event.clone it.id m.nextClone]) = dropIds m.log := by
            rw [dropIds_append]; simp [dropIds, Event.dropId?]
          rw [← this]; exact h
        rcases hv.known _ (Or.inl h') with h2 | h2
        · have := hv.seen_lt _ h2; have := hv.clone_bound; omega
        · omega
      · intro j k hk h
        rcases hv.known _ (Or.inr ⟨j, k, hk, h⟩) with h2 | h2
        · have := hv.seen_lt _ h2; have := hv.clone_bound; omega
        · omega
    · cases hi
  exact h1.append_block ⟨1, true, allocLayoutBoxNew bits t.elemLay, none, none, [(M1.cloneValue m b).2], false⟩
    [Event.alloc (M1.cloneValue m b).1.blocks.length _ _] rfl (fun h => by cases h)
    (fun _ _ => by
      show (optId none ++ elemIds [(M1.cloneValue m b).2]).Nodup
      cases (M1.cloneValue m b).2 <;> simp [optId, elemIds])
    (fun i hi => by
      apply key
      have : i ∈ optId none ++ elemIds [(M1.cloneValue m b).2] := hi
      rw [elemIds_cons] at this
      simpa [optId, elemIds] using this)

/-- a slot (over)written with a fresh value -/
theorem set_elem (hv : ValInvM seen m) (b i : Nat) (v : Item) (hfr : FreshIn seen m v.id) :
    ValInvM seen (m.upd b fun k => { k with elems := k.elems.set i (some v) }) := by
  apply hv.upd b _ [v.id] (fun j hj => by simp only [List.mem_singleton] at hj; subst hj; exact hfr)
  intro k hk
  have hset : (k.elems.set i (some v)) = k.elems ∨
      (i < k.elems.length ∧ k.elems.set i (some v) = k.elems.take i ++ some v :: k.elems.drop (i + 1)) := by
    rw [List.set_eq_take_append_cons_drop]
    by_cases h : i < k.elems.length
    · right; simp [h]
    · left; simp [h]
  have hsplit : elemIds k.elems = elemIds (k.elems.take i) ++ elemIds (k.elems.drop i) := by
    rw [← elemIds_append, List.take_append_drop]
  have hsub2 : (elemIds (k.elems.drop (i + 1))).Sublist (elemIds (k.elems.drop i)) :=
    (List.drop_sublist_drop_left k.elems (Nat.le_succ i)).filterMap _
  refine ⟨id, id, fun h hz => hz h, ?_, ?_⟩
  · intro j hj
    rcases hset with h | ⟨_, h⟩
    · left; simpa [Block.ids, h] using hj
    · simp only [Block.ids, h, elemIds_append, elemIds_cons, optId, List.mem_append,
        List.mem_cons] at hj ⊢
      rcases hj with hj | hj | hj | hj
      · exact Or.inl (Or.inl hj)
      · left; right; rw [hsplit]; exact List.mem_append_left _ hj
      · right; exact hj
      · left; right; rw [hsplit]; exact List.mem_append_right _ (hsub2.subset hj)
  · intro hn
    rcases hset with h | ⟨_, h⟩
    · simpa [Block.ids, h] using hn
    · have hvk : v.id ∉ k.ids := hfr.2.1 b k hk
      simp only [Block.ids, h, elemIds_append, elemIds_cons, optId] at hn hvk ⊢
      rw [hsplit] at hn hvk
      -- old: H ++ (A ++ B) nodup with B' sublist of B; new: H ++ (A ++ ([v] ++ B'))
      have hsubl : (optId k.hdr ++ (elemIds (k.elems.take i) ++ elemIds (k.elems.drop (i + 1)))).Sublist
          (optId k.hdr ++ (elemIds (k.elems.take i) ++ elemIds (k.elems.drop i))) :=
        List.Sublist.append (List.Sublist.refl _) (List.Sublist.append (List.Sublist.refl _) hsub2)
      have hn' := List.Nodup.sublist hsubl hn
      have hv' : v.id ∉ optId k.hdr ++ (elemIds (k.elems.take i) ++ elemIds (k.elems.drop (i + 1))) :=
        fun hm => hvk (hsubl.subset hm)
      simp only [List.nodup_append, List.mem_append, List.nodup_cons, List.mem_cons, List.singleton_append,
        not_or] at hn' hv' ⊢
      obtain ⟨hH, ⟨hA, hB, hAB⟩, hHAB⟩ := hn'
      refine ⟨hH, ⟨hA, ⟨hv'.2.2, hB⟩, ?_⟩, ?_⟩
      · intro a ha c hc
        rcases hc with rfl | hc
        · intro e; subst e; exact hv'.2.1 ha
        · exact hAB a ha c hc
      · intro a ha c hc
        rcases hc with hc | rfl | hc
        · exact hHAB a ha c (Or.inl hc)
        · intro e; subst e; exact hv'.1 ha
        · exact hHAB a ha c (Or.inr hc)

end ValInvM

end M1
