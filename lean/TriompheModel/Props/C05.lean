import TriompheModel.Proofs.Layout
/-!
# C05 — each block fits its contents and is freed with the layout it was requested with
(the layout/address-arithmetic half; "freed exactly once along every history" is the M1 invariant
I3 of the history slice)

*Request side* = what the constructors hand to `alloc`:
`allocLayoutHeaderSlice` (`allocate_for_header_and_slice` → `allocate_for_layout` →
`try_allocate_for_layout`), `allocLayoutFor` (`From<Box<T>>`), `allocLayoutBoxNew` (`Arc::new`),
`allocLayoutNewUninit` (`UniqueArc::new_uninit`).
*Release side* = what `Box::from_raw(self.ptr())` in `drop_slow` / `UniqueArc::into_inner` hands to
`dealloc`: `Layout::for_value` of the (possibly fat) `ArcInner<T>` pointer, i.e. the repr(C) type
layout `arcInnerLayout bits p` of the payload layout `p` denoted by the pointer's type + metadata.

All theorems are for every header/element layout (size any `Nat`, align `2^e`), every `len`, and
every word width `bits = 8·2^k`, `k ≥ 1` (`WordBits`; 16/32/64 are instances).  `Layout.WF`
(size a multiple of align — true of every Rust *type*) is assumed only where it is needed
(element addresses, header erasure).
-/
namespace LY
namespace C05

variable {bits k : Nat} {H T : Layout} {eH eT : Nat} {len : Nat} {L : Layout}

/-- **request = release** for every header+slice constructor: the layout requested by
`allocate_for_header_and_slice::<H, T>(len)` is the type layout of
`ArcInner<HeaderSlice<H, [T]>>` with `len` elements, which is what the release side recomputes from
the fat pointer.  (No hypothesis on the layouts is needed.) -/
theorem C05_request_eq_release (h : allocLayoutHeaderSlice bits H T len = some L) :
    L = (arcInnerLayout bits (headerSliceLayout H T len).1).1 :=
  (allocLayoutFor_some (allocLayoutHeaderSlice_some h).2).1

/-- request = release for `From<Box<T>>` (`allocate_for_layout(Layout::for_value(&b))`) -/
theorem C05_request_eq_release_sized {t : Layout} (h : allocLayoutFor bits t = some L) :
    L = (arcInnerLayout bits t).1 := (allocLayoutFor_some h).1

/-- request = release for `Arc::new` (`Box::new(ArcInner{..})`) and `UniqueArc::new_uninit`
(`Layout::new::<ArcInner<MaybeUninit<T>>>()`; `MaybeUninit<T>` has `T`'s layout, so `assume_init`
does not change what the release side computes) -/
theorem C05_request_eq_release_box_uninit (t : Layout) :
    allocLayoutBoxNew bits t = (arcInnerLayout bits t).1 ∧
    allocLayoutNewUninit bits t = (arcInnerLayout bits t).1 := ⟨rfl, rfl⟩

/-- the request side pads twice (the inner `pad_to_align` in `allocate_for_header_and_slice`, the
outer one in `try_allocate_for_layout`).  The inner one is absorbed: requesting with the
un-padded value layout `v` gives the same block whenever the padded request succeeds. -/
theorem C05_inner_pad_absorbed {v : Layout} {e : Nat} (hb : WordBits bits k) (hv : v.AlignIs e)
    (h : allocLayoutFor bits v.padToAlign = some L) : allocLayoutFor bits v = some L := by
  have hvpos := hv.pos
  have hw := word_alignIs hb
  have hpadAlign : v.padToAlign.AlignIs e := hv
  obtain ⟨rfl, _, hle⟩ := allocLayoutFor_some h
  -- sizes: roundUp (off + roundUp s a) m = roundUp (off + s) m
  have hoff : v.align ∣ (arcInnerLayout bits v).2 := dataOff_dvd bits v
  have hm : v.align ∣ max (wordLayout bits).align v.align := reprC2_align_dvd_right hw hv
  have hmpos : 0 < max (wordLayout bits).align v.align := reprC2_align_pos hw hv
  have key : roundUp ((arcInnerLayout bits v).2 + roundUp v.size v.align) (max (wordLayout bits).align v.align)
      = roundUp ((arcInnerLayout bits v).2 + v.size) (max (wordLayout bits).align v.align) := by
    rw [← roundUp_add_left_of_dvd hvpos hoff, roundUp_roundUp_of_dvd hvpos hmpos hm]
  have hsz : v.size ≤ roundUp v.size v.align := le_roundUp _ hvpos
  have hext : Layout.extend bits (wordLayout bits) v =
      some (⟨(arcInnerLayout bits v).2 + v.size, max (wordLayout bits).align v.align⟩,
            (arcInnerLayout bits v).2) := by
    unfold Layout.extend
    simp only
    rw [if_pos]
    · rfl
    · have : (arcInnerLayout bits v.padToAlign).2 + v.padToAlign.size ≤
          maxSize bits (max (wordLayout bits).align v.align) := hle
      have e1 : (arcInnerLayout bits v.padToAlign).2 = roundUp (wordLayout bits).size v.align := rfl
      have e2 : v.padToAlign.size = roundUp v.size v.align := rfl
      rw [e1, e2] at this
      omega
  unfold allocLayoutFor
  rw [hext]
  simp only [Option.map, Layout.padToAlign]
  congr 1
  show Layout.mk _ _ = Layout.mk _ _
  congr 1
  exact key.symm

/-- header erasure (`From<Arc<HeaderSlice<(), T>>> for Arc<T>` and back): a `HeaderSlice` with the
unit header has exactly the payload's layout, with the payload at offset 0 — hence the same
`ArcInner` layout and data offset whichever of the two types releases the block -/
theorem C05_erase_layout {p : Layout} {e : Nat} (hp : p.AlignIs e) (hwf : p.WF) :
    reprC2 unitLayout p = (p, 0) ∧
    arcInnerLayout bits (reprC2 unitLayout p).1 = arcInnerLayout bits p := by
  rw [reprC2_unit hp hwf]; exact ⟨rfl, rfl⟩

/-- the slice instance: `HeaderSlice<(), [T]>` vs `[T]` for every `len` -/
theorem C05_erase_slice (hT : T.AlignIs eT) (hwf : T.WF) (len : Nat) :
    headerSliceLayout unitLayout T len = (sliceLayout T len, 0) :=
  reprC2_unit (p := sliceLayout T len) hT (Nat.dvd_trans hwf (Nat.dvd_mul_right _ _))

/-- `HeaderWithLength<H>` (the ThinArc header) is a well-formed header layout: power-of-two
alignment, size a multiple of it, the `length` word aligned and inside -/
theorem C05_headerWithLength (hb : WordBits bits k) (hH : H.AlignIs eH) :
    (headerWithLengthLayout bits H).1.AlignIs (max eH k) ∧
    (headerWithLengthLayout bits H).1.WF ∧
    H.size ≤ (headerWithLengthLayout bits H).2 ∧
    (wordLayout bits).align ∣ (headerWithLengthLayout bits H).2 ∧
    (headerWithLengthLayout bits H).2 + (wordLayout bits).size ≤ (headerWithLengthLayout bits H).1.size :=
  ⟨reprC2_alignIs hH (word_alignIs hb), reprC2_wf _ _, reprC2_off_ge (word_alignIs hb),
   reprC2_off_dvd _ _, reprC2_fits hH (word_alignIs hb)⟩

/-- **fits**: a successfully requested block holds the count, then (at `dataOff`) the payload,
inside which the header is at 0 and the slice at `sliceOff`; nothing overlaps and every element
`i < len` ends inside the block -/
theorem C05_fits (hb : WordBits bits k) (hH : H.AlignIs eH) (hT : T.AlignIs eT)
    (h : allocLayoutHeaderSlice bits H T len = some L) :
    let payload := (headerSliceLayout H T len).1
    let sliceOff := (headerSliceLayout H T len).2
    let dataOff := (arcInnerLayout bits payload).2
    (wordLayout bits).size + H.size + len * T.size ≤ L.size ∧
    (wordLayout bits).size ≤ dataOff ∧
    dataOff + payload.size ≤ L.size ∧
    H.size ≤ sliceOff ∧
    sliceOff + len * T.size ≤ payload.size ∧
    ∀ i, i < len → dataOff + sliceOff + (i + 1) * T.size ≤ L.size := by
  intro payload sliceOff dataOff
  have hL := C05_request_eq_release h
  have hS : (sliceLayout T len).AlignIs eT := hT
  have hP : payload.AlignIs (max eH eT) := reprC2_alignIs hH hS
  have h1 : (wordLayout bits).size ≤ dataOff := dataOff_ge_word hP
  have h2 : dataOff + payload.size ≤ L.size := by rw [hL]; exact arcInner_fits hb hP
  have h3 : H.size ≤ sliceOff := reprC2_off_ge hS
  have h4 : sliceOff + T.size * len ≤ payload.size := reprC2_fits hH hS
  rw [Nat.mul_comm T.size len] at h4
  refine ⟨by omega, h1, h2, h3, h4, ?_⟩
  intro i hi
  have : (i + 1) * T.size ≤ len * T.size := Nat.mul_le_mul_right _ hi
  omega

/-- **offsets aligned**: with the block placed at a `base` aligned as requested, the count, the
payload (`data`), the header, the slice and every element are aligned for their types -/
theorem C05_offsets_aligned (hb : WordBits bits k) (hH : H.AlignIs eH) (hT : T.AlignIs eT)
    (hwf : T.WF) (h : allocLayoutHeaderSlice bits H T len = some L) {base : Nat}
    (hbase : L.align ∣ base) :
    let payload := (headerSliceLayout H T len).1
    let sliceOff := (headerSliceLayout H T len).2
    let dataOff := (arcInnerLayout bits payload).2
    (wordLayout bits).align ∣ base ∧
    payload.align ∣ base + dataOff ∧
    H.align ∣ base + dataOff ∧
    T.align ∣ base + dataOff + sliceOff ∧
    ∀ i, T.align ∣ base + dataOff + sliceOff + i * T.size := by
  intro payload sliceOff dataOff
  have hL := C05_request_eq_release h
  have hS : (sliceLayout T len).AlignIs eT := hT
  have hP : payload.AlignIs (max eH eT) := reprC2_alignIs hH hS
  rw [hL] at hbase
  have hd : payload.align ∣ base + dataOff := dataAddr_aligned hb hP hbase
  have hHd : H.align ∣ payload.align := reprC2_align_dvd_left hH hS
  have hTd : T.align ∣ payload.align := reprC2_align_dvd_right hH hS
  have hso : T.align ∣ sliceOff := reprC2_off_dvd H (sliceLayout T len)
  have hslice : T.align ∣ base + dataOff + sliceOff :=
    (Nat.dvd_add_right (Nat.dvd_trans hTd hd)).mpr hso
  refine ⟨Nat.dvd_trans (arcInner_align_dvd_word hb hP) hbase, hd, Nat.dvd_trans hHd hd, hslice, ?_⟩
  intro i
  exact (Nat.dvd_add_right hslice).mpr (Nat.dvd_trans hwf (Nat.dvd_mul_left _ _))

/-- **data aligned** (sized payloads: `Arc::new`, `From<Box>`, `new_uninit`): the address given to
the user is aligned for the payload and the payload ends inside the block -/
theorem C05_data_aligned {p : Layout} {e : Nat} (hb : WordBits bits k) (hp : p.AlignIs e) {base : Nat}
    (hbase : (arcInnerLayout bits p).1.align ∣ base) :
    (base + (arcInnerLayout bits p).2) % p.align = 0 ∧
    (wordLayout bits).size ≤ (arcInnerLayout bits p).2 ∧
    (arcInnerLayout bits p).2 + p.size ≤ (arcInnerLayout bits p).1.size :=
  ⟨Nat.mod_eq_zero_of_dvd (dataAddr_aligned hb hp hbase), dataOff_ge_word hp, arcInner_fits hb hp⟩

/-- **overflow refused**, positive form: a request that is answered went through every check of
`Layout::array` / `Layout::extend` (so each intermediate size is `≤ isize::MAX - (align-1)`) -/
theorem C05_some_bounds (h : allocLayoutHeaderSlice bits H T len = some L) :
    let payload := (headerSliceLayout H T len).1
    T.size * len ≤ maxSize bits T.align ∧
    (headerSliceLayout H T len).2 + T.size * len ≤ maxSize bits (max H.align T.align) ∧
    (arcInnerLayout bits payload).2 + payload.size ≤ maxSize bits (max (wordLayout bits).align payload.align) := by
  intro payload
  obtain ⟨hv, hf⟩ := allocLayoutHeaderSlice_some h
  obtain ⟨_, h1, h2⟩ := headerSliceValueLayout_some hv
  exact ⟨h1, h2, (allocLayoutFor_some hf).2.2⟩

/-- **overflow refused**, negative form: if the array size, or the header+slice size, or the
count+payload size exceeds the bound, the model's answer is `none` (Rust: `unwrap` on `Err`
panics) — there is no third outcome, in particular no short block -/
theorem C05_overflow_refused :
    (maxSize bits T.align < T.size * len → allocLayoutHeaderSlice bits H T len = none) ∧
    (maxSize bits (max H.align T.align) < (headerSliceLayout H T len).2 + T.size * len →
      allocLayoutHeaderSlice bits H T len = none) ∧
    (maxSize bits (max (wordLayout bits).align (headerSliceLayout H T len).1.align)
        < (arcInnerLayout bits (headerSliceLayout H T len).1).2 + (headerSliceLayout H T len).1.size →
      allocLayoutHeaderSlice bits H T len = none) := by
  refine ⟨?_, ?_, ?_⟩ <;> intro hlt <;>
    (cases hr : allocLayoutHeaderSlice bits H T len with
     | none => rfl
     | some L =>
       have := C05_some_bounds hr
       simp only at this
       omega)

/-- the requested layout is itself a valid Rust `Layout`: even after the final padding its size
is `≤ isize::MAX - (align - 1)` -/
theorem C05_valid_layout (hb : WordBits bits k) (hH : H.AlignIs eH) (hT : T.AlignIs eT)
    (h : allocLayoutHeaderSlice bits H T len = some L) :
    Layout.mk? bits L.size L.align = some L := by
  have hL := C05_request_eq_release h
  have hS : (sliceLayout T len).AlignIs eT := hT
  have hP : (headerSliceLayout H T len).1.AlignIs (max eH eT) := reprC2_alignIs hH hS
  have hA := reprC2_alignIs (word_alignIs hb) hP
  have hbound := (C05_some_bounds h).2.2
  have : L.size ≤ maxSize bits L.align := by
    rw [hL]
    exact roundUp_le_maxSize ⟨_, hA⟩ hbound
  unfold Layout.mk?
  rw [if_pos this]

/-- `ArcInner::offset_of_data` (used by `from_raw`) recomputes, through `Layout::extend`, exactly
the repr(C) field offset that `as_ptr` / `Deref` use -/
theorem C05_offsetOfData_eq {p : Layout} {off : Nat} (h : offsetOfData bits p = some off) :
    off = (arcInnerLayout bits p).2 := by
  unfold offsetOfData at h
  cases hx : Layout.extend bits (wordLayout bits) p with
  | none => rw [hx] at h; cases h
  | some r =>
    rw [hx] at h
    obtain ⟨rfl, _⟩ := extend_some hx
    simp only [Option.map] at h
    cases h; rfl

/-- … and it cannot panic for a block that was allocated: the `extend` it performs is the one the
request side already performed -/
theorem C05_offsetOfData_some {p : Layout} (h : allocLayoutFor bits p = some L) :
    offsetOfData bits p = some (arcInnerLayout bits p).2 := (allocLayoutFor_some h).2.1

theorem C05_offsetOfData_some_slice (h : allocLayoutHeaderSlice bits H T len = some L) :
    offsetOfData bits (headerSliceLayout H T len).1 =
      some (arcInnerLayout bits (headerSliceLayout H T len).1).2 :=
  C05_offsetOfData_some (allocLayoutHeaderSlice_some h).2

/-- `thin_to_thick` reads the stored length through the thin pointee type (`[T; 0]` tail) and then
uses the block through the fat type (`len` elements): the data offset, the header offset and the
`length` field address do not depend on `len`, so both views address the same fields -/
theorem C05_thin_views_agree (bits : Nat) (H T : Layout) (base len : Nat) :
    (arcInnerLayout bits (thinPayload bits H T len).1).2 = (arcInnerLayout bits (thinPayload bits H T 0).1).2 ∧
    (thinPayload bits H T len).2 = (thinPayload bits H T 0).2 ∧
    thinLengthAddr bits base H T = fatLengthAddr bits base H T len := by
  have e1 : (arcInnerLayout bits (thinPayload bits H T len).1).2 =
      (arcInnerLayout bits (thinPayload bits H T 0).1).2 := rfl
  exact ⟨e1, rfl, by unfold thinLengthAddr fatLengthAddr; rw [e1]⟩

/-- the whole story for all three real pointer widths at once -/
theorem C05_all_widths (hbits : bits = 16 ∨ bits = 32 ∨ bits = 64) (hH : H.AlignIs eH) (hT : T.AlignIs eT)
    (h : allocLayoutHeaderSlice bits H T len = some L) :
    L = (arcInnerLayout bits (headerSliceLayout H T len).1).1 ∧
    bits / 8 + H.size + len * T.size ≤ L.size ∧
    Layout.mk? bits L.size L.align = some L := by
  obtain ⟨k, hb⟩ : ∃ k, WordBits bits k := by
    rcases hbits with rfl | rfl | rfl
    · exact ⟨1, wordBits16⟩
    · exact ⟨2, wordBits32⟩
    · exact ⟨3, wordBits64⟩
  exact ⟨C05_request_eq_release h, (C05_fits hb hH hT h).1, C05_valid_layout hb hH hT h⟩

/-! ### non-vacuity: concrete, non-trivial shapes meeting the hypotheses -/

-- u32 header, u16 elements, 7 of them, 64-bit: 8 (count) + 4 + 14 → 26 → padded to 32, align 8
example : allocLayoutHeaderSlice 64 ⟨4, 4⟩ ⟨2, 2⟩ 7 = some ⟨32, 8⟩ := by decide
-- over-aligned header (align 64): data offset 64, block 192 bytes aligned 64
example : allocLayoutHeaderSlice 64 ⟨64, 64⟩ ⟨3, 1⟩ 5 = some ⟨192, 64⟩ := by decide
example : (arcInnerLayout 64 (headerSliceLayout ⟨64, 64⟩ ⟨3, 1⟩ 5).1).2 = 64 := by decide
-- odd size under repr(C): size 3 align 1 elements after a 1-byte header
example : allocLayoutHeaderSlice 64 ⟨1, 1⟩ ⟨3, 1⟩ 3 = some ⟨24, 8⟩ := by decide
-- zero-sized over-aligned element, zero-sized header
example : allocLayoutHeaderSlice 64 ⟨0, 1⟩ ⟨0, 32⟩ 1000 = some ⟨32, 32⟩ := by decide
-- From<Box<u32>>: 12 bytes before the outer pad_to_align, 16 after (mutant 14 of DESIGN App. D)
example : allocLayoutFor 64 ⟨4, 4⟩ = some ⟨16, 8⟩ := by decide
example : (Layout.extend 64 (wordLayout 64) ⟨4, 4⟩).map (·.1) = some ⟨12, 8⟩ := by decide
-- 32- and 16-bit words
example : allocLayoutHeaderSlice 32 ⟨4, 4⟩ ⟨2, 2⟩ 7 = some ⟨24, 4⟩ := by decide
example : allocLayoutHeaderSlice 16 ⟨1, 1⟩ ⟨8, 8⟩ 2 = some ⟨32, 8⟩ := by decide
-- overflow: 2^62 elements of 2 bytes is exactly isize::MAX + 1
example : allocLayoutHeaderSlice 64 ⟨0, 1⟩ ⟨2, 2⟩ (2 ^ 62) = none := by decide
-- the array fits but count + payload does not
example : Layout.array 64 ⟨1, 1⟩ (2 ^ 63 - 8) = some ⟨2 ^ 63 - 8, 1⟩ ∧
    allocLayoutHeaderSlice 64 ⟨0, 1⟩ ⟨1, 1⟩ (2 ^ 63 - 8) = none := by decide
-- the largest accepted byte slice on 64 bit: the request is 2^63 - 8 bytes, still a valid Layout
example : allocLayoutHeaderSlice 64 ⟨0, 1⟩ ⟨1, 1⟩ (2 ^ 63 - 16) = some ⟨2 ^ 63 - 8, 8⟩ := by decide
-- hypotheses are satisfiable by these shapes
example : (⟨64, 64⟩ : Layout).AlignIs 6 ∧ (⟨3, 1⟩ : Layout).AlignIs 0 ∧ (⟨3, 1⟩ : Layout).WF ∧
    (⟨0, 32⟩ : Layout).WF ∧ WordBits 64 3 := by decide
-- WF matters for element addresses: an (illegal) size-3 align-2 "type" would misalign element 1
example : ¬ (⟨3, 2⟩ : Layout).WF := by decide
-- HeaderWithLength<u8> on 64 bit: 16 bytes, length at offset 8
example : headerWithLengthLayout 64 ⟨1, 1⟩ = (⟨16, 8⟩, 8) := by decide

end C05
end LY
