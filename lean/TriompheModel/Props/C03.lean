import TriompheModel.Props.C03Sched
import TriompheModel.Proofs.HistInv
/-!
# C03 — mutable access only for a sole owner (history half) + schedule half (Props/C03Sched.lean)

For every gate op of the model: it grants exactly when the count word it loads is 1, and when it
declines the state — memory and every handle, including the caller's — is unchanged.  That "the
count word is 1" means "no other owning handle of any kind exists" is the invariant `M1.Inv`
(`count = owners`), see `C03_is_unique_iff` once Proofs/HistInv.lean is imported (Props/C01.lean).
-/
namespace M1
namespace C03H

/-- `is_unique` reads the count word and compares with 1 -/
theorem C03_is_unique_def (m : Mem) (a : HV) : Arc.is_unique m a = (loadCount m a.blk == 1) := rfl

/-- **`get_mut` declines ⇒ nothing changes** -/
theorem C03_get_mut_decline (s : State) (src v : Nat) (h : HV) (hs : lookup s src = some h)
    (hk : h.kind = .arc) (hi : h.ty.elemsInit = true) (hu : Arc.is_unique s.mem h = false) :
    step s (.getMut src v) = (s, ok "none") := by
  simp [step, hs, hk, hi, hu]

/-- **`get_mut` grants ⇒ only the contents of that block change** (slots untouched) -/
theorem C03_get_mut_grant (s : State) (src v : Nat) (h : HV) (hs : lookup s src = some h)
    (hk : h.kind = .arc) (hi : h.ty.elemsInit = true) (hu : Arc.is_unique s.mem h = true) :
    step s (.getMut src v) = (⟨writeVal s.mem h.blk v, s.slots⟩, ok "some") := by
  simp [step, hs, hk, hi, hu]

/-- **`get_unique`** likewise -/
theorem C03_get_unique_decline (s : State) (src v : Nat) (h : HV) (hs : lookup s src = some h)
    (hk : h.kind = .arc) (hi : h.ty.elemsInit = true) (hu : Arc.is_unique s.mem h = false) :
    step s (.getUnique src v) = (s, ok "none") := by
  simp [step, hs, hk, hi, Arc.try_unique, hu]

/-- **`try_unique` / `TryFrom` declines ⇒ the very same handle value stays in the slot** -/
theorem C03_try_unique_decline (s : State) (src : Nat) (h : HV) (hs : lookup s src = some h)
    (hk : h.kind = .arc) (hty : h.ty = .sized ∨ h.ty = .slice ∨ h.ty = .hs ∨ h.ty = .hwl ∨ h.ty = .mu ∨ h.ty = .muSlice)
    (hu : Arc.is_unique s.mem h = false) :
    step s (.tryUnique src) = (s, ok "err") := by
  simp [step, hs, hk, hty, Arc.try_unique, hu]

/-- **`try_unwrap` declines ⇒ nothing changes** -/
theorem C03_try_unwrap_decline (s : State) (src : Nat) (h : HV) (hs : lookup s src = some h)
    (hk : h.kind = .arc) (hty : h.ty = .sized) (hu : Arc.is_unique s.mem h = false) :
    step s (.tryUnwrap src) = (s, ok "err") := by
  simp [step, hs, hk, hty, Arc.try_unwrap, Arc.try_unique, hu]

/-- **`ThinArc::with_arc_mut` ∘ `get_mut`** declines on a shared block without touching anything -/
theorem C03_thin_get_mut_decline (s : State) (src v : Nat) (t : HV) (acc : String)
    (hu : Arc.is_unique s.mem t = false) :
    runCb .thinWithArcMut src [.getMutWrite v] s t acc = (s, ok (acc ++ "mut=none;")) := by
  simp [runCb, hu]

/-- **the verdict is "sole owner".**  In every state reachable by any history, for the handle in
any slot: `is_unique` (an Acquire load compared with 1) is true iff that handle is the ONLY owning
handle value of any kind — raw pointers given out by `into_raw`-style calls included. -/
theorem C03_verdict_iff_sole_owner (ops : List Op) (i : Nat) (h : HV) (hl : lookup (run ops) i = some h) :
    Arc.is_unique (run ops).mem h = true ↔ owners (run ops) h.blk = 1 := by
  rw [C03_is_unique_def, (count_eq_owners (inv_run ops) hl).1]
  simp

/-- `get_mut` after any history: grants iff sole owner; when it declines NOTHING changes -/
theorem C03_get_mut_iff (ops : List Op) (src v : Nat) (h : HV) (hl : lookup (run ops) src = some h)
    (hk : h.kind = .arc) (hi : h.ty.elemsInit = true) :
    (owners (run ops) h.blk = 1 → (step (run ops) (.getMut src v)).2 = ok "some") ∧
    (owners (run ops) h.blk ≠ 1 → step (run ops) (.getMut src v) = (run ops, ok "none")) := by
  constructor
  · intro ho
    have hu := (C03_verdict_iff_sole_owner ops src h hl).2 ho
    rw [C03_get_mut_grant _ src v h hl hk hi hu]
  · intro ho
    have hu : Arc.is_unique (run ops).mem h = false := by
      cases hb : Arc.is_unique (run ops).mem h with
      | false => rfl
      | true => exact absurd ((C03_verdict_iff_sole_owner ops src h hl).1 hb) ho
    exact C03_get_mut_decline _ src v h hl hk hi hu

/-- `try_unique` / `TryFrom<Arc<T>> for UniqueArc<T>` after any history -/
theorem C03_try_unique_iff (ops : List Op) (src : Nat) (h : HV) (hl : lookup (run ops) src = some h)
    (hk : h.kind = .arc) (hty : h.ty = .sized ∨ h.ty = .slice ∨ h.ty = .hs ∨ h.ty = .hwl ∨ h.ty = .mu ∨ h.ty = .muSlice) :
    (owners (run ops) h.blk = 1 → (step (run ops) (.tryUnique src)).2 = ok "ok") ∧
    (owners (run ops) h.blk ≠ 1 → step (run ops) (.tryUnique src) = (run ops, ok "err")) := by
  constructor
  · intro ho
    have hu := (C03_verdict_iff_sole_owner ops src h hl).2 ho
    simp [step, hl, hk, hty, Arc.try_unique, hu]
  · intro ho
    have hu : Arc.is_unique (run ops).mem h = false := by
      cases hb : Arc.is_unique (run ops).mem h with
      | false => rfl
      | true => exact absurd ((C03_verdict_iff_sole_owner ops src h hl).1 hb) ho
    exact C03_try_unique_decline _ src h hl hk hty hu

/-- `try_unwrap` after any history -/
theorem C03_try_unwrap_iff (ops : List Op) (src : Nat) (h : HV) (hl : lookup (run ops) src = some h)
    (hk : h.kind = .arc) (hty : h.ty = .sized) :
    (owners (run ops) h.blk ≠ 1 → step (run ops) (.tryUnwrap src) = (run ops, ok "err")) := by
  intro ho
  have hu : Arc.is_unique (run ops).mem h = false := by
    cases hb : Arc.is_unique (run ops).mem h with
    | false => rfl
    | true => exact absurd ((C03_verdict_iff_sole_owner ops src h hl).1 hb) ho
  exact C03_try_unwrap_decline _ src h hl hk hty hu

/-- the deprecated `Arc::write` / `as_mut_slice`: panics iff another owner exists -/
theorem C03_deprecated_write_iff (ops : List Op) (src i : Nat) (v : Item) (h : HV)
    (hl : lookup (run ops) src = some h) (hk : h.kind = .arc) (hty : h.ty = .mu ∨ h.ty = .muSlice)
    (hi : i < viewLen (run ops).mem h) :
    ((step (run ops) (.writeSlot src i v)).2.status = "panic:not-unique" ↔ owners (run ops) h.blk ≠ 1) := by
  have hv := C03_verdict_iff_sole_owner ops src h hl
  cases hb : Arc.is_unique (run ops).mem h with
  | false =>
    have : owners (run ops) h.blk ≠ 1 := fun ho => by rw [hv.2 ho] at hb; cases hb
    rcases hty with hty | hty <;> simp [step, hl, hk, hty, hi, hb, panicked, this]
  | true =>
    have : owners (run ops) h.blk = 1 := hv.1 hb
    rcases hty with hty | hty <;> simp [step, hl, hk, hty, hi, hb, ok, this]

end C03H
end M1
