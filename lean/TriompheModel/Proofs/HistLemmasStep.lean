import TriompheModel.Proofs.HistLemmasPrim
import TriompheModel.Proofs.HistLemmasShape
/-!
# Helper lemmas, part 4: every op of the machine preserves the invariant

`Inv' s` is the invariant in pointwise form (`InvC` over the core view of `s.mem`); `Proofs/HistInv`
shows it equivalent to the declared `Inv s`.
-/
namespace M1

def Inv' (s : State) : Prop := InvC (cv s.mem) s.slots

theorem lookup_mem {s : State} {i : Nat} {h : HV} (hl : lookup s i = some h) : (i, h) ∈ s.slots :=
  lookupL_mem hl

theorem lookup_none {s : State} {i : Nat} (hl : lookup s i = none) : ∀ e ∈ s.slots, e.1 ≠ i :=
  lookupL_none.1 hl

namespace Inv'
variable {s : State}

theorem init : Inv' State.init := by
  have : cv State.init.mem = fun _ => none := by funext j; simp [cv, State.init]
  unfold Inv'; rw [this]; exact InvC.init

theorem view (hi : Inv' s) {i : Nat} {h : HV} (hl : lookup s i = some h) :
    cv s.mem h.blk = some (owners s h.blk, true, false) :=
  InvC.owned hi (lookup_mem hl)

theorem loadCount_eq (hi : Inv' s) {i : Nat} {h : HV} (hl : lookup s i = some h) :
    loadCount s.mem h.blk = owners s h.blk :=
  loadCount_of_cv (hi.view hl)

theorem blk_lt (hi : Inv' s) {i : Nat} {h : HV} (hl : lookup s i = some h) : h.blk < s.mem.blocks.length := by
  have := hi.view hl
  rw [← cv_isSome_iff, this]; rfl

theorem frame (hi : Inv' s) {m' : Mem} (hm : cv m' = cv s.mem) : Inv' ⟨m', s.slots⟩ := by
  unfold Inv'; rw [hm]; exact hi

theorem acquire (hi : Inv' s) {dst src : Nat} {h0 h : HV} {m' : Mem} (hd : lookup s dst = none)
    (hs : lookup s src = some h0) (hk0 : h0.kind ≠ .uniq) (hb : h.blk = h0.blk) (hk : h.kind ≠ .uniq)
    (hm : cv m' = setAt (cv s.mem) h0.blk ((cv s.mem h0.blk).map incC)) : Inv' (s.put m' dst h) := by
  unfold Inv'; rw [put_slots]; simp only [State.put]; rw [hm]
  exact InvC.acquire hi (lookup_none hd) (lookup_mem hs) rfl hk0 hb hk

theorem release (hi : Inv' s) {src : Nat} {h : HV} {m' : Mem} (hs : lookup s src = some h)
    (hm : cv m' = setAt (cv s.mem) h.blk ((cv s.mem h.blk).map decC)) : Inv' (s.del m' src) := by
  unfold Inv'; rw [del_slots]; simp only [State.del]; rw [hm]
  exact InvC.release hi (lookup_mem hs)

theorem retag (hi : Inv' s) {src : Nat} {h h' : HV} {m' : Mem} (hs : lookup s src = some h)
    (hb : h'.blk = h.blk) (hu : h'.kind = .uniq → h.kind = .uniq ∨ loadCount s.mem h.blk = 1)
    (hm : cv m' = cv s.mem) : Inv' (s.set m' src h') := by
  unfold Inv'; rw [set_slots]; simp only [State.set]; rw [hm]
  refine InvC.retag hi (lookup_mem hs) hb ?_
  intro hk
  rcases hu hk with h1 | h1
  · exact hi.uniq _ (lookup_mem hs) h1
  · rw [hi.loadCount_eq hs] at h1; exact h1

theorem alloc_put (hi : Inv' s) {dst : Nat} {h : HV} {m' : Mem} (hd : lookup s dst = none)
    (hm : AllocOut s.mem m') (hb : h.blk = s.mem.blocks.length) : Inv' (s.put m' dst h) := by
  unfold Inv'; rw [put_slots]; simp only [State.put]; rw [hm]
  exact InvC.alloc_put hi (cv_length _) (lookup_none hd) hb

theorem junk (hi : Inv' s) {m' : Mem} (hm : JunkOut s.mem m') : Inv' ⟨m', s.slots⟩ := by
  rcases hm with hm | ⟨x, lv, lk, hj, hm⟩
  · exact hi.frame hm
  · unfold Inv'; simp only; rw [hm]
    exact InvC.alloc_junk hi (cv_length _) hj

theorem move_out (hi : Inv' s) {src : Nat} {h : HV} {m' : Mem} (hs : lookup s src = some h)
    (hu : loadCount s.mem h.blk = 1)
    (hm : cv m' = setAt (cv s.mem) h.blk ((cv s.mem h.blk).map deadC)) : Inv' (s.del m' src) := by
  apply hi.release hs
  rw [hm]
  have hv := hi.view hs
  rw [hi.loadCount_eq hs] at hu
  rw [hv, hu]; rfl

theorem redirect (hi : Inv' s) {src : Nat} {h h' : HV} {m' : Mem} (hs : lookup s src = some h)
    (hb : h'.blk = s.mem.blocks.length)
    (hm : cv m' = setAt (setAt (cv s.mem) s.mem.blocks.length (some (1, true, false))) h.blk
      ((cv s.mem h.blk).map decC)) : Inv' (s.set m' src h') := by
  unfold Inv'; rw [set_slots]; simp only [State.set]; rw [hm]
  exact InvC.redirect hi (lookup_mem hs) (cv_length _) hb

theorem swap (hi : Inv' s) {src k : Nat} {hs h2 hk' hs' : HV} (hls : lookup s src = some hs)
    (hlk : lookup s k = some h2) (hne : k ≠ src) (hbk : hk'.blk = hs.blk) (hbs : hs'.blk = h2.blk)
    (hkk : hk'.kind ≠ .uniq) (hks : hs'.kind ≠ .uniq) :
    Inv' ((s.set s.mem k hk').set s.mem src hs') := by
  unfold Inv'; rw [set_slots, set_slots]; simp only [State.set]
  exact InvC.swap hi (lookup_mem hls) (lookup_mem hlk) hne hbk hbs hkk hks

theorem replace (hi : Inv' s) {src k : Nat} {hs h2 h' : HV} {m' : Mem} (hls : lookup s src = some hs)
    (hlk : lookup s k = some h2) (hne : k ≠ src) (hb : h'.blk = h2.blk) (hk' : h'.kind ≠ .uniq)
    (hm : cv m' = setAt (cv s.mem) hs.blk ((cv s.mem hs.blk).map decC)) :
    Inv' ((s.del m' k).set m' src h') := by
  unfold Inv'; rw [set_slots, del_slots]; simp only [State.set]; rw [hm]
  exact InvC.replace hi (lookup_mem hls) (lookup_mem hlk) hne hb hk'

end Inv'

/-! ## the ops, one by one -/

theorem step_create {s : State} (hi : Inv' s) (dst : Nat) (c : Ctor) : Inv' (step s (.create dst c)).1 := by
  simp only [step]
  split
  · exact hi
  · rename_i hd
    split
    · exact hi
    · rename_i m h hc
      obtain ⟨h1, h2⟩ := runCtor_spec hc
      exact hi.alloc_put hd h1 h2

theorem step_iterCtor {s : State} (hi : Inv' s) (dst : Nat) (w : IterCtor) (h : Option Item) (sc : IterScript) :
    Inv' (step s (.iterCtor dst w h sc)).1 := by
  simp only [step]
  split
  · exact hi
  · rename_i hd
    have hs := runIterCtor_shape s.mem true w h sc
    split
    · rename_i m hv hc
      rw [hc] at hs
      exact hi.alloc_put hd hs.1 hs.2
    · rename_i m cls hc
      rw [hc] at hs
      exact hi.junk hs

theorem step_clone {s : State} (hi : Inv' s) (dst src : Nat) : Inv' (step s (.clone dst src)).1 := by
  simp only [step]
  split
  · rename_i h hd hs
    split
    · rename_i m c hc
      obtain ⟨rfl, h2, h3, h4⟩ := cloneHandle_spec hc
      exact hi.acquire hd hs h4 h2 h3 (cv_incr ..)
    · exact hi
  · exact hi

theorem step_drop {s : State} (hi : Inv' s) (src : Nat) : Inv' (step s (.drop src)).1 := by
  simp only [step]
  split
  · rename_i h hs
    split
    · rename_i m hd
      obtain ⟨t, l, rfl⟩ := dropHandle_spec hd
      exact hi.release hs (cv_decr ..)
    · exact hi
  · exact hi

theorem step_conv {s : State} (hi : Inv' s) (src : Nat) (c : Conv) : Inv' (step s (.conv src c)).1 := by
  simp only [step]
  split
  · rename_i h hs
    split
    · rename_i h' hc
      obtain ⟨h1, h2⟩ := runConv_spec hc
      exact hi.retag hs h1 (fun hk => Or.inl (h2 hk)) rfl
    · exact hi
  · exact hi

theorem step_intoThin {s : State} (hi : Inv' s) (src : Nat) : Inv' (step s (.intoThin src)).1 := by
  simp only [step]
  split
  · rename_i h hs
    split
    · rcases into_thin_spec s.mem h with ⟨t, ht, hb, hk⟩ | hn
      · rw [ht]
        exact hi.retag hs hb (fun h => by rw [hk] at h; cases h) rfl
      · rw [hn]
        exact hi.release hs (cv_decr ..)
    · exact hi
  · exact hi

theorem clone_arc_borrow (m : Mem) (p : HV) :
    ArcBorrow.clone_arc m p = (incr m p.blk, Arc.from_raw m p) := rfl

theorem clone_arc_offset (m : Mem) (o : HV) :
    OffsetArc.clone_arc m o = (incr m o.blk, { OffsetArc.transient m o with kind := .arc }) := rfl

theorem step_cloneArc {s : State} (hi : Inv' s) (dst src : Nat) : Inv' (step s (.cloneArc dst src)).1 := by
  simp only [step]
  split
  · rename_i h hd hs
    split
    · rename_i m a hr
      split at hr
      · rename_i hc
        cases hr
        exact hi.acquire hd hs (by rw [hc.1]; decide) rfl (by simp [Arc.from_raw]) (cv_incr ..)
      · split at hr
        · rename_i hc
          cases hr
          exact hi.acquire hd hs (by rw [hc]; decide) rfl (by simp) (cv_incr ..)
        · split at hr
          · rename_i hc
            cases hr
            exact hi.acquire hd hs (by rcases hc with hc | hc <;> rw [hc] <;> decide) rfl
              (by simp [Arc.from_raw]) (cv_incr ..)
          · cases hr
    · exact hi
  · exact hi

theorem step_isUnique {s : State} (hi : Inv' s) (src : Nat) : Inv' (step s (.isUnique src)).1 := by
  simp only [step]
  split
  · split <;> exact hi
  · exact hi

theorem step_getMut {s : State} (hi : Inv' s) (src v : Nat) : Inv' (step s (.getMut src v)).1 := by
  simp only [step]
  split
  · split
    · split
      · exact hi.frame (cv_writeVal ..)
      · exact hi
    · exact hi
  · exact hi

theorem step_getUnique {s : State} (hi : Inv' s) (src v : Nat) : Inv' (step s (.getUnique src v)).1 := by
  simp only [step]
  split
  · split
    · split
      · exact hi.frame (cv_writeVal ..)
      · exact hi
    · exact hi
  · exact hi

theorem step_uniqWrite {s : State} (hi : Inv' s) (src v : Nat) : Inv' (step s (.uniqWrite src v)).1 := by
  simp only [step]
  split
  · split
    · exact hi.frame (cv_writeVal ..)
    · exact hi
  · exact hi

theorem step_writeSlot {s : State} (hi : Inv' s) (src i : Nat) (v : Item) :
    Inv' (step s (.writeSlot src i v)).1 := by
  simp only [step]
  split
  · split
    · split
      · apply hi.frame
        split <;> rfl
      · exact hi.frame (cv_upd_content _ _ _ (fun _ => rfl))
    · exact hi
  · exact hi

theorem step_tryUnique {s : State} (hi : Inv' s) (src : Nat) : Inv' (step s (.tryUnique src)).1 := by
  simp only [step]
  split
  · rename_i h hs
    split
    · split
      · rename_i u hu
        obtain ⟨h1, h2⟩ := try_unique_ok hu
        exact hi.retag hs h2 (fun _ => Or.inr ((is_unique_iff_loadCount ..).1 h1)) rfl
      · exact hi
    · exact hi
  · exact hi

theorem step_intoInner {s : State} (hi : Inv' s) (src : Nat) : Inv' (step s (.intoInner src)).1 := by
  simp only [step]
  split
  · rename_i h hs
    split
    · rename_i hc
      have h1 : owners s h.blk = 1 := hi.uniq _ (lookup_mem hs) hc.1
      exact hi.move_out hs (by rw [hi.loadCount_eq hs]; exact h1) (cv_into_inner ..)
    · exact hi
  · exact hi

theorem step_tryUnwrap {s : State} (hi : Inv' s) (src : Nat) : Inv' (step s (.tryUnwrap src)).1 := by
  simp only [step]
  split
  · rename_i h hs
    split
    · rcases try_unwrap_spec s.mem h with ⟨m', v, he, hu, hm⟩ | ⟨he, _⟩
      · rw [he]
        exact hi.move_out hs ((is_unique_iff_loadCount ..).1 hu) hm
      · rw [he]; exact hi
    · exact hi
  · exact hi

theorem step_unwrapOrClone {s : State} (hi : Inv' s) (src : Nat) (cp : Bool) :
    Inv' (step s (.unwrapOrClone src cp)).1 := by
  simp only [step]
  split
  · rename_i h hs
    split
    · rcases try_unwrap_spec s.mem h with ⟨m', v, he, hu, hm⟩ | ⟨he, _⟩
      · rw [he]
        exact hi.move_out hs ((is_unique_iff_loadCount ..).1 hu) hm
      · rw [he]
        simp only
        split
        · exact hi.release hs (cv_decr ..)
        · apply hi.release hs
          rw [Arc.drop_eq, cv_decr, cv_cloneValue]
    · exact hi
  · exact hi

theorem make_mut_inv {s : State} (hi : Inv' s) {src : Nat} {h : HV} (hs : lookup s src = some h) {a : HV}
    (ha : a.blk = h.blk) {cp : Bool} {m' : Mem} {f : HV} (hmm : Arc.make_mut s.mem a cp = (m', some f))
    (v : Nat) {h' : HV} (hb' : h'.blk = f.blk) (hk' : h'.kind ≠ .uniq) :
    Inv' (s.set (writeVal m' f.blk v) src h') := by
  have hne : a.blk ≠ s.mem.blocks.length := by
    rw [ha]; exact Nat.ne_of_lt (hi.blk_lt hs)
  rcases make_mut_spec s.mem a cp hne with he | he | ⟨m1, f1, he, hf, _, hm⟩
  · rw [he] at hmm; cases hmm
    exact hi.retag hs (hb'.trans ha) (fun hk => absurd hk hk') (cv_writeVal ..)
  · rw [he] at hmm; cases hmm
  · rw [he] at hmm; cases hmm
    apply hi.redirect hs (hb'.trans hf)
    rw [cv_writeVal, hm, ha]

theorem step_makeMut {s : State} (hi : Inv' s) (src v : Nat) (cp : Bool) :
    Inv' (step s (.makeMut src v cp)).1 := by
  simp only [step]
  split
  · rename_i h hs
    split
    · rename_i hc
      split
      · rename_i m h' hmm
        exact make_mut_inv hi hs rfl hmm v rfl (by
          have hne : h.blk ≠ s.mem.blocks.length := Nat.ne_of_lt (hi.blk_lt hs)
          rcases make_mut_spec s.mem h cp hne with he | he | ⟨m1, f1, he, _, hf, _⟩
          · rw [he] at hmm; cases hmm; rw [hc.1]; decide
          · rw [he] at hmm; cases hmm
          · rw [he] at hmm; cases hmm; rw [hf]; decide)
      · exact hi
    · split
      · split
        · rename_i m a' hmm
          exact make_mut_inv hi hs (a := Arc.from_raw_offset s.mem h) rfl hmm v
            (h' := Arc.into_raw_offset m a') rfl (by simp [Arc.into_raw_offset])
        · exact hi
      · exact hi
  · exact hi

theorem step_makeUnique {s : State} (hi : Inv' s) (src v : Nat) (cp : Bool) :
    Inv' (step s (.makeUnique src v cp)).1 := by
  simp only [step]
  split
  · rename_i h hs
    split
    · rename_i hc
      split
      · rename_i m h' hmm
        exact make_mut_inv hi hs rfl hmm v rfl (by
          have hne : h.blk ≠ s.mem.blocks.length := Nat.ne_of_lt (hi.blk_lt hs)
          rcases make_mut_spec s.mem h cp hne with he | he | ⟨m1, f1, he, _, hf, _⟩
          · rw [he] at hmm; cases hmm; rw [hc.1]; decide
          · rw [he] at hmm; cases hmm
          · rw [he] at hmm; cases hmm; rw [hf]; decide)
      · exact hi
    · exact hi
  · exact hi

/-! ### `dropAll` -/

theorem releaseSlot_inv {s : State} (hi : Inv' s) (i : Nat) : Inv' (releaseSlot s i) := by
  unfold releaseSlot
  split
  · rename_i h hs
    apply hi.release hs
    rw [Arc.drop_eq, cv_decr, asArc_blk]
  · exact hi

theorem dropAllFrom_inv (keys : List Nat) : ∀ {s : State}, Inv' s → Inv' (dropAllFrom keys s) := by
  induction keys with
  | nil => intro s hi; exact hi
  | cons k r ih =>
    intro s hi
    simp only [dropAllFrom, List.foldl_cons]
    exact ih (releaseSlot_inv hi k)

theorem step_dropAll {s : State} (hi : Inv' s) : Inv' (step s .dropAll).1 := by
  simp only [step]
  exact dropAllFrom_inv _ hi

/-! ### callbacks -/

theorem transientOf_spec {m : Mem} {api : CbApi} {h t : HV} (ht : transientOf m api h = some t) :
    t.blk = h.blk ∧ h.kind ≠ .uniq := by
  cases api <;> simp only [transientOf] at ht
  case borrowWithArc =>
    split at ht
    · rename_i hc; cases ht; exact ⟨rfl, by rw [hc.1]; decide⟩
    · split at ht
      · rename_i hc; cases ht; exact ⟨rfl, by rcases hc with hc | hc <;> rw [hc] <;> decide⟩
      · cases ht
  all_goals
    split at ht
    · rename_i hc; cases ht
      refine ⟨rfl, ?_⟩
      first
        | (rw [hc]; decide)
        | (rw [hc.1]; decide)
    · cases ht

theorem lookup_put_ne {s : State} {m : Mem} {k i : Nat} {c : HV} (hne : k ≠ i) :
    lookup (s.put m k c) i = lookup s i := lookupL_cons_ne hne

/-- the lending slot `src` still refers to the transient's block -/
def Lends (s : State) (src : Nat) (t : HV) : Prop :=
  ∃ hs, lookup s src = some hs ∧ hs.blk = t.blk ∧ hs.kind ≠ .uniq

theorem Lends.put {s : State} {src : Nat} {t : HV} (hl : Lends s src t) {k : Nat} (hk : lookup s k = none)
    (m : Mem) (c : HV) : Lends (s.put m k c) src t := by
  obtain ⟨hs, h1, h2, h3⟩ := hl
  have hne : k ≠ src := by
    intro e; subst e; rw [hk] at h1; cases h1
  exact ⟨hs, by rw [lookup_put_ne hne]; exact h1, h2, h3⟩

/-- induction principle for callback scripts: a predicate on (state, transient) preserved by the
five state-changing actions holds after the whole script -/
theorem runCb_ind (api : CbApi) (src : Nat) (P : State → HV → Prop)
    (hcloneTo : ∀ (s : State) (t : HV) (k : Nat) (m : Mem) (c : HV), P s t → lookup s k = none →
      cloneHandle s.mem t = some (m, c) →
      P (s.put m k (if api = .thinWithArcMut then ThinArc.of_arc c else c)) t)
    (hcloneArc : ∀ (s : State) (t : HV) (k : Nat), P s t → lookup s k = none → api = .rawOffset →
      P (s.put (incr s.mem t.blk) k { OffsetArc.transient s.mem t with kind := .arc }) t)
    (hwrite : ∀ (s : State) (t : HV) (v : Nat), P s t → P ⟨writeVal s.mem t.blk v, s.slots⟩ t)
    (hrepl : ∀ (s : State) (t : HV) (k : Nat) (h2 : HV), P s t → k ≠ src → lookup s k = some h2 →
      h2.kind = .thin →
      P ((s.del (Arc.drop s.mem t) k).set (Arc.drop s.mem t) src (ThinArc.of_arc (ThinArc.thick s.mem h2)))
        (ThinArc.thick s.mem h2))
    (hswap : ∀ (s : State) (t : HV) (k : Nat) (h2 : HV), P s t → k ≠ src → lookup s k = some h2 →
      h2.kind = .thin → api = .thinWithArcMut →
      P ((s.set s.mem k (ThinArc.of_arc t)).set s.mem src (ThinArc.of_arc (ThinArc.thick s.mem h2)))
        (ThinArc.thick s.mem h2))
    (script : List CbAct) :
    ∀ (s : State) (t : HV) (acc : String), P s t → ∃ t', P (runCb api src script s t acc).1 t' := by
  induction script with
  | nil => intro s t acc hp; exact ⟨t, hp⟩
  | cons a rest ih =>
    intro s t acc hp
    cases a <;> simp only [runCb]
    case cnt => exact ih _ _ _ hp
    case read => exact ih _ _ _ hp
    case panic => exact ⟨t, hp⟩
    case cloneTo k =>
      split
      · exact ih _ _ _ hp
      · rename_i hk
        split
        · exact ih _ _ _ hp
        · rename_i m c hc
          exact ih _ _ _ (hcloneTo s t k m c hp hk hc)
    case cloneArcTo k =>
      split
      · exact ih _ _ _ hp
      · rename_i hk
        split
        · rename_i ha
          rw [clone_arc_offset]
          exact ih _ _ _ (hcloneArc s t k hp hk ha)
        · exact ih _ _ _ hp
    case getMutWrite v =>
      split
      · split
        · exact ih _ _ _ (hwrite s t v hp)
        · exact ih _ _ _ hp
      · exact ih _ _ _ hp
    case replaceWith k =>
      split
      · rename_i hc
        split
        · rename_i h2 hlk
          split
          · rename_i hthin
            exact ih _ _ _ (hrepl s t k h2 hp hc.2 hlk hthin)
          · exact ih _ _ _ hp
        · exact ih _ _ _ hp
      · exact ih _ _ _ hp
    case swapWith k =>
      split
      · rename_i hc
        split
        · rename_i h2 hlk
          split
          · rename_i hthin
            exact ih _ _ _ (hswap s t k h2 hp hc.2 hlk hthin hc.1)
          · exact ih _ _ _ hp
        · exact ih _ _ _ hp
      · exact ih _ _ _ hp

/-- what the callback interpreter maintains: the invariant, and slot `src` still lends `t`'s block -/
def CbP (src : Nat) (s : State) (t : HV) : Prop := Inv' s ∧ Lends s src t

theorem CbP.cloneTo {src : Nat} {s : State} {t : HV} (hp : CbP src s t) {k : Nat} {m : Mem} {c : HV}
    (hk : lookup s k = none) (hc : cloneHandle s.mem t = some (m, c)) (api : CbApi) :
    CbP src (s.put m k (if api = .thinWithArcMut then ThinArc.of_arc c else c)) t := by
  obtain ⟨hi, hl⟩ := hp
  obtain ⟨hs, hls, hbs, hks⟩ := hl
  have hl : Lends s src t := ⟨hs, hls, hbs, hks⟩
  obtain ⟨rfl, h2, h3, _⟩ := cloneHandle_spec hc
  refine ⟨?_, hl.put hk _ _⟩
  apply hi.acquire hk hls hks _ _ (by rw [hbs]; exact cv_incr ..)
  · split
    · exact h2.trans hbs.symm
    · exact h2.trans hbs.symm
  · split
    · simp [ThinArc.of_arc]
    · exact h3

theorem CbP.cloneArc {src : Nat} {s : State} {t : HV} (hp : CbP src s t) {k : Nat} (hk : lookup s k = none) :
    CbP src (s.put (incr s.mem t.blk) k { OffsetArc.transient s.mem t with kind := .arc }) t := by
  obtain ⟨hi, hl⟩ := hp
  obtain ⟨hs, hls, hbs, hks⟩ := hl
  have hl : Lends s src t := ⟨hs, hls, hbs, hks⟩
  refine ⟨?_, hl.put hk _ _⟩
  exact hi.acquire hk hls hks hbs.symm (by simp) (by rw [hbs]; exact cv_incr ..)

theorem CbP.write {src : Nat} {s : State} {t : HV} (hp : CbP src s t) (v : Nat) :
    CbP src ⟨writeVal s.mem t.blk v, s.slots⟩ t :=
  ⟨hp.1.frame (cv_writeVal ..), hp.2⟩

theorem CbP.repl {src : Nat} {s : State} {t : HV} (hp : CbP src s t) {k : Nat} {h2 : HV} (hne : k ≠ src)
    (hlk : lookup s k = some h2) :
    CbP src ((s.del (Arc.drop s.mem t) k).set (Arc.drop s.mem t) src (ThinArc.of_arc (ThinArc.thick s.mem h2)))
      (ThinArc.thick s.mem h2) := by
  obtain ⟨hi, hl⟩ := hp
  obtain ⟨hs, hls, hbs, hks⟩ := hl
  have hinv : Inv' ((s.del (Arc.drop s.mem t) k).set (Arc.drop s.mem t) src
      (ThinArc.of_arc (ThinArc.thick s.mem h2))) := by
    apply hi.replace (h' := ThinArc.of_arc (ThinArc.thick s.mem h2)) hls hlk hne rfl
      (by simp [ThinArc.of_arc])
    rw [Arc.drop_eq, cv_decr, hbs]
  refine ⟨hinv, ThinArc.of_arc (ThinArc.thick s.mem h2), ?_, rfl, by simp [ThinArc.of_arc]⟩
  apply mem_lookupL hinv.keys
  rw [set_slots, del_slots]
  exact mem_setL_new (mem_delL.2 ⟨lookup_mem hls, fun e => hne e.symm⟩)

theorem CbP.swap {src : Nat} {s : State} {t : HV} (hp : CbP src s t) {k : Nat} {h2 : HV} (hne : k ≠ src)
    (hlk : lookup s k = some h2) :
    CbP src ((s.set s.mem k (ThinArc.of_arc t)).set s.mem src (ThinArc.of_arc (ThinArc.thick s.mem h2)))
      (ThinArc.thick s.mem h2) := by
  obtain ⟨hi, hl⟩ := hp
  obtain ⟨hs, hls, hbs, hks⟩ := hl
  have hinv : Inv' ((s.set s.mem k (ThinArc.of_arc t)).set s.mem src
      (ThinArc.of_arc (ThinArc.thick s.mem h2))) :=
    hi.swap (hk' := ThinArc.of_arc t) (hs' := ThinArc.of_arc (ThinArc.thick s.mem h2)) hls hlk hne
      hbs.symm rfl (by simp [ThinArc.of_arc]) (by simp [ThinArc.of_arc])
  refine ⟨hinv, ThinArc.of_arc (ThinArc.thick s.mem h2), ?_, rfl, by simp [ThinArc.of_arc]⟩
  apply mem_lookupL hinv.keys
  rw [set_slots, set_slots]
  exact mem_setL_new (mem_setL_of_ne (lookup_mem hls) (fun e => hne e.symm))

theorem runCb_inv (api : CbApi) (src : Nat) (script : List CbAct) (s : State) (t : HV) (acc : String)
    (hi : Inv' s) (hl : Lends s src t) : Inv' (runCb api src script s t acc).1 := by
  obtain ⟨t', h, _⟩ := runCb_ind api src (CbP src)
    (fun s t k m c hp hk hc => hp.cloneTo hk hc api)
    (fun s t k hp hk _ => hp.cloneArc hk)
    (fun s t v hp => hp.write v)
    (fun s t k h2 hp hne hlk _ => hp.repl hne hlk)
    (fun s t k h2 hp hne hlk _ _ => hp.swap hne hlk)
    script s t acc ⟨hi, hl⟩
  exact h

theorem step_withCb {s : State} (hi : Inv' s) (src : Nat) (api : CbApi) (script : List CbAct) :
    Inv' (step s (.withCb src api script)).1 := by
  simp only [step]
  split
  · rename_i h hs
    split
    · rename_i t ht
      obtain ⟨h1, h2⟩ := transientOf_spec ht
      exact runCb_inv api src script s t "" hi ⟨h, hs, h1.symm, h2⟩
    · exact hi
  · exact hi

/-- every op preserves the invariant -/
theorem inv'_step {s : State} (hi : Inv' s) (op : Op) : Inv' (step s op).1 := by
  cases op with
  | create dst c => exact step_create hi dst c
  | iterCtor dst w h sc => exact step_iterCtor hi dst w h sc
  | clone dst src => exact step_clone hi dst src
  | drop src => exact step_drop hi src
  | conv src c => exact step_conv hi src c
  | intoThin src => exact step_intoThin hi src
  | cloneArc dst src => exact step_cloneArc hi dst src
  | isUnique src => exact step_isUnique hi src
  | getMut src v => exact step_getMut hi src v
  | getUnique src v => exact step_getUnique hi src v
  | makeMut src v cp => exact step_makeMut hi src v cp
  | makeUnique src v cp => exact step_makeUnique hi src v cp
  | tryUnwrap src => exact step_tryUnwrap hi src
  | unwrapOrClone src cp => exact step_unwrapOrClone hi src cp
  | intoInner src => exact step_intoInner hi src
  | tryUnique src => exact step_tryUnique hi src
  | uniqWrite src v => exact step_uniqWrite hi src v
  | writeSlot src i v => exact step_writeSlot hi src i v
  | withCb src api script => exact step_withCb hi src api script
  | dropAll => exact step_dropAll hi

end M1
