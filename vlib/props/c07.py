"""C07 — panicking or lying callbacks cause no double drop and no uninitialised read.

Deciding method: Lean theorems in Props/C07.lean over the sequential handle machine M1/M3 (invariant
`Inv` preserved by every op, by induction over histories of any length), tied to the code by the
history correspondence (Tie B): the same op lines run on the Lean driver and on the real library.
"""
from vlib import histcheck

MODULE = "TriompheModel.Props.C07"
EXTRA = ["TriompheModel.Props.C07Iter", "TriompheModel.Proofs.HistVal", "TriompheModel.Props.CmpRead"]
TAGS = ['C07']
WEIGHTS = {'iter': 26, 'cb': 22, 'makeMut': 10, 'makeUnique': 6, 'unwrapOrClone': 8, 'intoThin': 6, 'writeSlot': 8}


ALLOC_OPS = [
    "create 0 new 1:1", "create 0 newB 1:1", "create 0 fromBox 1:1", "create 0 uniqueNew 1:1",
    "create 0 fromVec 3 1:1,2:2", "create 0 fromVec 0 -", "create 0 hsFromVec 9:9 2 1:1,2:2", "create 0 hwlFromVec 9:9 2 2 1:1,2:2",
    "create 0 newUninit", "create 0 uniqueNewUninit", "create 0 newUninitSlice 3", "create 0 uniqueNewUninitSlice 3", "create 0 hsUninit 9:9 2",
    "iter 0 hsFromIter 9:9 lens=- hints=- items=1:1,2:2 panic=-", "iter 0 thinFromIter 9:9 lens=- hints=- items=1:1,2:2 panic=-",
    "iter 0 fromIter - lens=- hints=- items=1:1,2:2,3:3 panic=-", "iter 0 fromIter - lens=- hints=0:* items=1:1,2:2,3:3,4:4,5:5 panic=-",
    "iter 0 uniqueFromIter - lens=- hints=0:* items=1:1,2:2 panic=-", "iter 0 uniqueFromIter - lens=- hints=- items=- panic=-",
]
SETUP_OPS = {"makeMut 0 7 0": ["create 0 new 1:1", "clone 1 0"], "makeUnique 0 7 0": ["create 0 new 1:1", "clone 1 0"],
             "makeMut 1 7 0": ["create 0 new 1:1", "clone 1 0", "conv 1 intoRawOffset"]}


def alloc_failure_pass(ctx):
    """fault enumeration for the last clause of C07: the allocator reports failure at each allocation a
    constructor (or make_mut) performs, one child process per (op, k); the process must end through the
    allocation-error path (message + abort), never by a fault such as SIGSEGV.  In the model an
    allocation failure is an outcome with no effect on memory (Props/C07.lean `C07_alloc_failure_no_write`)."""
    import subprocess
    from concurrent.futures import ThreadPoolExecutor
    from vlib import common
    exe, out = common.cargo_build_bin(ctx, "hist")
    if exe is None:
        return
    cases = [([], op) for op in ALLOC_OPS] + [(pre, op) for op, pre in SETUP_OPS.items()]

    def child(pre, op, k):
        text = "reset\n" + "".join(x + "\n" for x in pre) + "failalloc %d\n%s\n" % (k, op)
        try:
            p = subprocess.run([exe], input=text, capture_output=True, text=True, timeout=60)
            return p.returncode, p.stdout, p.stderr
        except subprocess.TimeoutExpired:
            return 124, "", "timeout"

    def sweep(c):
        pre, op = c
        res = []
        for k in range(0, 14):
            rc, so, se = child(pre, op, k)
            res.append((k, rc, so.strip().split("\n")[-1][:160] if so.strip() else "", se.strip().split("\n")[0][:160] if se.strip() else ""))
            if rc == 0:
                break
        return res
    with ThreadPoolExecutor(max_workers=12) as ex:
        allres = list(ex.map(sweep, cases))
    bad = []
    n = 0
    injected = 0
    for (pre, op), res in zip(cases, allres):
        for (k, rc, so, se) in res:
            n += 1
            if rc == 0:
                if not so.startswith("ok"):
                    bad.append((pre, op, k, rc, so, se, "completed but not ok"))
                continue
            injected += 1
            if not (rc == -6 and "memory allocation of" in se):
                bad.append((pre, op, k, rc, so, se, "did not end through the allocation-error path (expected the `memory allocation of N bytes failed` message and SIGABRT)"))
        if res and res[-1][1] != 0:
            bad.append((pre, op, res[-1][0], res[-1][1], "", res[-1][3], "never completed within 14 allocations"))
    ctx.oblige("faults:allocation-failure-at-every-allocation", not bad, "%d failing" % len(bad))
    ctx.coverage["allocation_failure"] = {"children": n, "failures_injected": injected, "ops": len(cases),
                                          "sample": {"op": cases[4][1], "results": [(k, rc, se) for (k, rc, so, se) in allres[4]]}}
    ctx.coverage["evaluations"] = ctx.coverage.get("evaluations", 0) + n
    if bad:
        body = ["allocation failure injected at the k-th allocation made inside the library call (one child process each):", ""]
        for (pre, op, k, rc, so, se, why) in bad[:6]:
            body += ["ops  : " + " ; ".join(pre + ["failalloc %d" % k, op]), "  exit status %s  stderr: %s" % (rc, se), "  PROPERTY C07 FAILS: " + why, ""]
        body.append("replay: printf 'reset\\n<ops, one per line>\\n' | <harness hist binary>")
        ctx.violation("child", "\n".join(body), True)


def run(ctx):
    histcheck.run(ctx, MODULE, WEIGHTS, TAGS, lean_extra=EXTRA,
                  release_quick_filter=lambda h: any(op.split()[0] in ('iter', 'cb') for op in h))
    alloc_failure_pass(ctx)


def replay(ctx, path):
    histcheck.replay(ctx, path, TAGS)
