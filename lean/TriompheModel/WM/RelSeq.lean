import TriompheModel.WM.Graph
/-!
# Release sequences: from the primitive C++20 / RC11 definition to the index form used in `Consistent`

`Consistent` (WM/Graph.lean) states synchronises-with in *index form*: "a release RMW `i`
synchronises with an acquire load that reads RMW `j ≥ i`, and with an acquire RMW `j > i`".
This file derives that form from the primitive definitions, for a location all of whose writes after
the initialising store are RMWs (the reference count: `AtomicUsize::new(1)`, then only
`fetch_add` / `fetch_sub`):

* **atomicity of RMWs** ([atomics.order]/10): an RMW reads the last value in modification order
  before its own write — RMW `j` reads from RMW `j-1` (RMW `0` from the initialising store);
* **release sequence** ([intro.races]/5, C++20): headed by a release operation `A`, a maximal
  contiguous sub-sequence of the modification order starting at `A` in which every subsequent
  operation is an RMW — `InRelSeq`;
* **synchronises-with** ([atomics.order]/2): a release operation `A` synchronises with an acquire
  operation `B` that takes its value from any side effect in the release sequence headed by `A`.

`ConsistentPrim` is `Consistent` with synchronises-with stated primitively; `ConsistentPrim.toConsistent`
shows it implies `Consistent`, so every theorem of WM/*.lean holds under the primitive axioms.
-/
open Facts
namespace WM

/-- `InRelSeq n i j`: RMW `j` belongs to the release sequence headed by RMW `i`, in a modification
order with `n` RMWs (all writes after `i` are RMWs, so nothing ever breaks the sequence) -/
inductive InRelSeq (n : Nat) : Nat → Nat → Prop
  | head {i : Nat} : i < n → InRelSeq n i i
  | next {i j : Nat} : InRelSeq n i j → j + 1 < n → InRelSeq n i (j + 1)

theorem inRelSeq_iff {n i j : Nat} : InRelSeq n i j ↔ i ≤ j ∧ j < n := by
  constructor
  · intro h
    induction h with
    | head hi => exact ⟨Nat.le_refl _, hi⟩
    | next _ hj ih => exact ⟨Nat.le_succ_of_le ih.1, hj⟩
  · rintro ⟨hij, hj⟩
    induction j with
    | zero =>
      have : i = 0 := by omega
      subst this; exact .head hj
    | succ j ih =>
      rcases Nat.lt_or_ge i (j + 1) with h | h
      · exact .next (ih (by omega) (by omega)) hj
      · have : i = j + 1 := by omega
        subst this; exact .head hj

/-- what an RMW reads from: its immediate predecessor in modification order (atomicity) -/
def rmwReadsFrom : Nat → Option Nat
  | 0 => none
  | j + 1 => some j

/-- the fragment of consistency with synchronises-with in primitive form -/
structure ConsistentPrim (X : CountExec) : Prop where
  hb_trans : ∀ {a b c}, X.hb a b → X.hb b c → X.hb a c
  hb_irrefl : ∀ a, ¬ X.hb a a
  coWW : ∀ {i j : Nat}, X.hb (.rmw i) (.rmw j) → i < j
  coWR : ∀ {i : Nat} {a : X.A} {o : MemOrd} {rf : Option Nat}, (X.kind a).loadInfo = some (o, rf) → X.hb (.rmw i) (.oth a) →
      ∃ j, rf = some j ∧ i ≤ j
  /-- a release RMW synchronises with an acquire *load* that reads from a member of its release sequence -/
  sw_load_prim : ∀ {i w : Nat} {a : X.A} {o : MemOrd}, (X.ordR i).isRel = true → InRelSeq X.ops.length i w →
      (X.kind a).loadInfo = some (o, some w) → o.isAcq = true → X.hb (.rmw i) (.oth a)
  /-- … and with an acquire *RMW* that reads (atomically, from its mo-predecessor) a member of it -/
  sw_rmw_prim : ∀ {i w j : Nat}, (X.ordR i).isRel = true → InRelSeq X.ops.length i w → j < X.ops.length →
      rmwReadsFrom j = some w → (X.ordR j).isAcq = true → X.hb (.rmw i) (.rmw j)
  /-- loads only read writes that exist -/
  rf_in_range : ∀ {a : X.A} {o : MemOrd} {w : Nat}, (X.kind a).loadInfo = some (o, some w) → w < X.ops.length

/-- the index form follows from the primitive one -/
theorem ConsistentPrim.toConsistent {X : CountExec} (h : ConsistentPrim X) : Consistent X where
  hb_trans := h.hb_trans
  hb_irrefl := h.hb_irrefl
  coWW := h.coWW
  coWR := h.coWR
  sw_load := by
    intro i j a o hrel hl hacq hij
    exact h.sw_load_prim hrel (inRelSeq_iff.2 ⟨hij, h.rf_in_range hl⟩) hl hacq
  sw_rmw := by
    intro i j hrel hacq hij hj
    cases j with
    | zero => omega
    | succ w =>
      exact h.sw_rmw_prim hrel (inRelSeq_iff.2 ⟨by omega, by omega⟩) hj rfl hacq

variable {X : CountExec} {decOrd : MemOrd} {fenceOrd : Option MemOrd}

/-- the C02 theorem under the primitive axioms -/
theorem destroy_after_all_prim (hc : ConsistentPrim X) (hp : Protocol X decOrd fenceOrd)
    (hrel : decOrd.isRel = true)
    (hacq : decOrd.isAcq = true ∨ ∃ o, fenceOrd = some o ∧ o.isAcq = true)
    {f : X.A} {k : Nat} (hf : X.kind f = .destroy k) :
    k + 1 = X.ops.length ∧
    (∀ a h, (X.kind a).via = some h → X.hb (.oth a) (.oth f)) ∧
    (∀ i, i < X.ops.length → i ≠ k → X.hb (.rmw i) (.oth f)) :=
  destroy_after_all hc.toConsistent hp hrel hacq hf

example : InRelSeq 5 1 3 := inRelSeq_iff.2 ⟨by decide, by decide⟩
example : ¬ InRelSeq 5 3 1 := fun h => by have := (inRelSeq_iff.1 h).1; omega

end WM
