"""Tie A for C13 (and the repr / delegation-form tables): run the translator /verif/extract_traits on
ctx.repo and rewrite lean/TriompheModel/Generated/{Traits,Signatures,Reprs,Impls}.lean.

    from vlib import traits_facts
    facts = traits_facts.regen(ctx)      # dict = facts-traits.json

The Lean files are written with common.write_if_changed under common.Lock("lake"), so a concurrent
`lake build` never sees a half-written table and an unchanged source triggers no rebuild.
"""
import json
import os
import shutil

from vlib import common

SRC = os.path.join(common.VERIF, "extract_traits")
TARGET = os.path.join(common.BUILD, "extract-traits-target")
BIN = os.path.join(TARGET, "release", "extract_traits")
GEN = os.path.join(common.LEAN, "TriompheModel", "Generated")
FILES = ("Traits.lean", "Signatures.lean", "Reprs.lean", "Impls.lean")


def _stale():
    if not os.path.exists(BIN):
        return True
    t = os.path.getmtime(BIN)
    for root, _, files in os.walk(SRC):
        if "target" in root.split(os.sep):
            continue
        for f in files:
            if os.path.getmtime(os.path.join(root, f)) > t:
                return True
    return False


def build():
    with common.Lock("cargo-extract-traits"):
        if not _stale():
            return
        rc, out = common.sh(["cargo", "build", "--release", "--offline", "--target-dir", TARGET], cwd=SRC, timeout=900)
        if rc != 0:
            raise RuntimeError("extract_traits build failed:\n" + out[-4000:])
        os.utime(BIN, None)


def run_to(repo, outdir):
    """Run the translator into `outdir` (no Lean file is touched); returns the facts dict."""
    build()
    os.makedirs(outdir, exist_ok=True)
    rc, out = common.sh([BIN, "--repo", repo, "--out", outdir], timeout=120)
    if rc != 0:
        raise RuntimeError("extract_traits failed (rc=%d):\n%s" % (rc, out[-4000:]))
    return json.load(open(os.path.join(outdir, "facts-traits.json")))


def regen(ctx):
    """Regenerate the four Generated/*.lean tables from ctx.repo; returns the facts dict."""
    tmpd = os.path.join(common.BUILD, "gen-traits-%d" % os.getpid())
    try:
        facts = run_to(ctx.repo, tmpd)
        with common.Lock("gen"), common.Lock("lake"):
            for f in FILES:
                common.write_if_changed(os.path.join(GEN, f), open(os.path.join(tmpd, f)).read())
        common.write_if_changed(os.path.join(common.BUILD, "facts-traits.json"), json.dumps(facts, indent=1))
    finally:
        shutil.rmtree(tmpd, ignore_errors=True)
    return facts


def restore_default():
    """Put back the tables of /repo (used after a run against a scratch --repo)."""
    class _C:
        repo = "/repo"
    return regen(_C())
