import TriompheModel.Model.Ops
/-!
# The invariant of the sequential handle machine (M1) and its preservation by every op

`Inv s` relates the count *words* in memory to the *owning handle values* in the slot table.  It is
the refinement invariant from which the history halves of C01, C03, C04, C08, C09, C10, C12, C15
follow (Props/C*.lean).  Proved for `State.init`, preserved by `step s op` for EVERY op (including
callback scripts, iterator-scripted constructors with panics/lies, panicking `Clone`), hence true
of `run ops` for every finite history `ops`.
-/
namespace M1

structure Inv (s : State) : Prop where
  /-- the count word of a live, non-abandoned block equals the number of owning handle values that
  refer to it (all kinds, raw pointers included), and such a block has at least one owner -/
  cnt  : ∀ (b : Nat) (k : Block), s.mem.blocks[b]? = some k → k.live = true → k.leaked = false →
          k.count = owners s b ∧ 0 < k.count
  /-- nothing refers to a block that has been returned to the allocator -/
  dead : ∀ (b : Nat) (k : Block), s.mem.blocks[b]? = some k → k.live = false → owners s b = 0
  /-- nothing refers to a half-built block abandoned by a panicking constructor -/
  leak : ∀ (b : Nat) (k : Block), s.mem.blocks[b]? = some k → k.leaked = true → owners s b = 0
  /-- every handle value points into an existing block -/
  inb  : ∀ e, e ∈ s.slots → e.2.blk < s.mem.blocks.length
  /-- slot numbers are unique -/
  keys : (s.slots.map (·.1)).Nodup
  /-- a `UniqueArc` is the only owner of its block -/
  uniq : ∀ e, e ∈ s.slots → e.2.kind = .uniq → owners s e.2.blk = 1

end M1
