import TriompheModel.WM.OwnershipExamples
import TriompheModel.WM.OwnershipConsume
/-!
# A `try_unwrap`-shaped run of the ownership semantics (non-vacuity of `Props/C09Programs.lean`)

Thread 0 clones handle 0 into 1 and hands 1 to thread 1; thread 1 reads through it and drops it (Release); thread 0's
unwrapping gate loads the count through handle 0 with Acquire, reads that decrement (value 1), and keeps the value: handle 0
is never released.  `Protocol` and `ViaBorn` come from the run (theorem), `Consistent`, `CoRW` and `Consume` from the
proved-sound checkers of `WM/FinExec.lean`.
-/
open Facts
namespace WM
namespace Own
set_option maxRecDepth 20000
namespace ExUnwrap

def steps : List (Nat × Instr) :=
  [ (0, .clone 0 1), (0, .send 1 1),
    (1, .access 1),                    -- event 0
    (1, .drop 1 none),                 -- RMW 1
    (0, .load 0 .acquire (some 1)) ]   -- event 1 = the gate's load

def exRun : Run .release (some .acquire) := Run.ofSteps _ _ steps (by decide +kernel)

abbrev EA := Fin 2
def exPairs : List (Ev EA × Ev EA) := hbPairs exRun.final [(.rmw 1, .oth 1)]
def exF : FinExec := finOf exRun.final exPairs
abbrev exX : CountExec := exF.toExec

theorem ex_consistent : Consistent exX := FinExec.checkConsistent_sound (by decide +kernel)
theorem ex_corw : CoRW exX := FinExec.checkCoRW_sound (by decide +kernel)
theorem ex_po : ∀ x y : Ev EA, (lift x, lift y) ∈ exRun.final.po → (x, y) ∈ exPairs :=
  coversB_sound (by decide +kernel)
theorem ex_sw : ∀ x y : Ev EA, (lift x, lift y) ∈ exRun.final.sw → (x, y) ∈ exPairs :=
  coversB_sound (by decide +kernel)
theorem ex_consume : Consume exX (1 : EA) 0 .acquire (some 1) :=
  FinExec.checkConsume_sound (F := exF) (by decide +kernel)

/-- the value moved out by thread 0 is never destroyed, and thread 1's read happens-before the gate's load -/
theorem ex_not_destroyed : ¬ ∃ f k, exX.kind f = .destroy k := by
  rintro ⟨f, k, hf⟩
  exact consume_excludes_destroy ex_consistent
    (protocol_of_run exRun (fun x y => (x, y) ∈ exPairs) ex_po ex_sw (fun _ _ _ => ex_consistent.hb_trans)) ex_corw
    (viaBorn_of_run exRun (fun x y => (x, y) ∈ exPairs) ex_po ex_sw (fun _ _ _ => ex_consistent.hb_trans)) ex_consume hf

/-- the same `Consume`, this time **from the program** (`consume_of_run`): the run never drops handle 0 and both RMWs of
the run were issued before the gate's load -/
theorem ex_consume_of_program : Consume exX (1 : EA) 0 .acquire (some 1) := by
  have hops : exRun.final.ops = [Op.inc 1 0, Op.dec 1] := by decide +kernel
  have hst : stamp exRun.final (1 : EA) = 2 := by decide +kernel
  refine consume_of_run exRun (fun x y => (x, y) ∈ exPairs) ex_po ex_sw (fun _ _ _ => ex_consistent.hb_trans)
    (l := (1 : EA)) rfl rfl (by decide +kernel) ?_ ?_
  · intro m hm
    have := lt_of_getElem? hm
    rw [hops] at hm this
    match m, this with
    | 0, _ => simp at hm
    | 1, _ => simp at hm
  · intro i ch hi
    have := lt_of_getElem? hi
    rw [hops] at this
    rw [hst]; exact this

end ExUnwrap
end Own
end WM

#print axioms WM.Own.ExUnwrap.ex_not_destroyed
#print axioms WM.Own.ExUnwrap.ex_consume_of_program
