import TriompheModel.WM.Ownership
import TriompheModel.WM.Consume
/-!
# `Consume` derived from the program

`Consume X l h ord rf` describes an unwrapping gate inside an execution; its last field (`clones_before`: every clone taken from
`h` happens-before the gate's load) is a happens-before fact.  For runs of the ownership semantics it follows from what the
*program* does: if every `clone h _` of the run was issued before the gate's load was (the gate takes `h` by value, so no clone
of `h` can follow) then each of them happens-before the load — `h` may have travelled between threads in the meantime.
-/
open Facts
namespace WM
namespace Own

variable {decOrd : MemOrd} {fenceOrd : Option MemOrd} (r : Run decOrd fenceOrd)
  (hb : Ev (Fin r.final.kinds.length) → Ev (Fin r.final.kinds.length) → Prop)

/-- **`Consume` from the program**: a gate whose Acquire load through `h` read 1, in a run that never drops `h` and issues no
clone of `h` after the load -/
theorem consume_of_run
    (hpo : ∀ x y, (lift x, lift y) ∈ r.final.po → hb x y)
    (hsw : ∀ x y, (lift x, lift y) ∈ r.final.sw → hb x y)
    (htrans : ∀ x y z, hb x y → hb y z → hb x z)
    {l : Fin r.final.kinds.length} {h : H} {ord : MemOrd} {rf : Option Nat}
    (hl : (execOf r.final hb).kind l = .load h ord rf) (hacq : ord.isAcq = true)
    (hone : valRead r.final.ops rf = 1)
    (hkeep : ∀ m : Nat, r.final.ops[m]? ≠ some (Op.dec h))
    (hno : ∀ (i : Nat) (ch : H), r.final.ops[i]? = some (Op.inc ch h) → i < stamp r.final l) :
    Consume (execOf r.final hb) l h ord rf := by
  obtain ⟨hA, hB⟩ := inv_of_run r hb hpo hsw htrans
  refine ⟨hl, hacq, hone, hkeep, ?_⟩
  intro j c hj
  have hj' : r.final.ops[j]? = some (Op.inc c h) := hj
  have ht : Touch r.final (.rmw j) h := Or.inl ⟨c, hj'⟩
  have hsl : r.final.stamps[l.val]? = some (stamp r.final l) :=
    getElem?_nthD _ (by rw [hA.stamps_len]; exact l.isLt)
  have hv : ((execOf r.final hb).kind l).via = some h := by rw [hl]; rfl
  exact hb_of_liftRel (x := .rmw j) (y := .oth l) ((hB.seq hsl (uses_of_via hv) ht).1 (hno j c hj'))

end Own
end WM

#print axioms WM.Own.consume_of_run
