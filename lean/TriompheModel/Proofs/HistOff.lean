import TriompheModel.Proofs.HistOffStep
import TriompheModel.Proofs.HistLen
/-!
# The address invariant of the sequential handle machine (M1) — C11's history clause

`h.off` is the offset of the address stored in a handle value from the start of its block.
`OffInv s`: `Arc` / `UniqueArc` / `ThinArc` / raw thin pointers store the block start (`heap_ptr` is
the block start; `ThinArc::into_raw` / `as_ptr` give the block address — the known deviation F3,
modelled as the code does); raw pointers from `into_raw`, `OffsetArc`s and `ArcUnion` words store the
address at which the value itself lives (`dataOff` of their view).  Proved for `State.init`,
preserved by every op, hence true after every history.  From it and `LayInv`: every view of one
block computes the same value address, across clones, conversions and handle kinds, and that
address never changes while the block exists; feeding a raw pointer back recovers the block start
(`asArc … .off = 0`); the round trips are identities (`M1.Off.*` in `Proofs/HistOffBase.lean`).
-/
namespace M1
open LY

structure OffInv (s : State) : Prop where
  /-- block-address kinds store the block start -/
  blk_addr : ∀ (i : Nat) (h : HV), (i, h) ∈ s.slots →
      (h.kind = .arc ∨ h.kind = .uniq ∨ h.kind = .thin ∨ h.kind = .rawThin) → h.off = 0
  /-- data-address kinds store the address of the value -/
  data_addr : ∀ (i : Nat) (h : HV), (i, h) ∈ s.slots →
      (h.kind = .raw ∨ h.kind = .offset ∨ h.kind = .unionA ∨ h.kind = .unionB) →
      h.off = h.ty.dataOff (viewLen s.mem h)

theorem OffInv.toAll {s : State} (h : OffInv s) : OffAll s := by
  intro e he
  refine ⟨?_, ?_⟩
  · intro hk
    apply h.blk_addr e.1 e.2 he
    cases hkd : e.2.kind <;> simp_all [Kind.isBlockAddr]
  · intro hk
    have hnt := nonthin_of_data hk
    rw [← viewLen_eq_fatLen (m := s.mem) hnt]
    apply h.data_addr e.1 e.2 he
    cases hkd : e.2.kind <;> simp_all [Kind.isBlockAddr]

theorem OffAll.toInv {s : State} (h : OffAll s) : OffInv s where
  blk_addr := fun i hv he hk => (h (i, hv) he).blk (by rcases hk with hk | hk | hk | hk <;> rw [hk] <;> rfl)
  data_addr := fun i hv he hk => by
    have hd : hv.kind.isBlockAddr = false := by rcases hk with hk | hk | hk | hk <;> rw [hk] <;> rfl
    rw [viewLen_eq_fatLen (nonthin_of_data hd)]
    exact (h (i, hv) he).data hd

theorem offinv_init : OffInv State.init := OffAll.toInv (fun e he => by cases he)

/-- every op keeps the stored addresses right (neither `Inv` nor `LenInv` is needed) -/
theorem offinv_step (s : State) (op : Op) (_hi : Inv s) (_hl : LenInv s) (h : OffInv s) : OffInv (step s op).1 :=
  (off_step h.toAll op).toInv

theorem offall_run_from (s : State) (h : OffAll s) (ops : List Op) :
    OffAll (ops.foldl (fun s o => (step s o).1) s) := by
  induction ops generalizing s with
  | nil => exact h
  | cons o r ih => exact ih _ (off_step h o)

theorem offinv_run (ops : List Op) : OffInv (run ops) :=
  (offall_run_from _ offinv_init.toAll ops).toInv

/-! ## layout arithmetic: the data offset is determined by the `ArcInner` layout -/

theorem word64 : wordLayout 64 = ⟨8, 8⟩ := rfl

/-- two payload layouts (power-of-two alignments) with the same `ArcInner` layout put `data` at
the same offset -/
theorem arcInner_off_of_layout_eq {p p' : Layout} {e e' : Nat} (hp : p.AlignIs e) (hp' : p'.AlignIs e')
    (h : (arcInnerLayout 64 p).1 = (arcInnerLayout 64 p').1) :
    (arcInnerLayout 64 p).2 = (arcInnerLayout 64 p').2 := by
  have ha : max 8 p.align = max 8 p'.align := by
    have := congrArg Layout.align h
    simpa [arcInnerLayout, reprC2_align, word64] using this
  show roundUp 8 p.align = roundUp 8 p'.align
  have small : ∀ {q : Layout} {f : Nat}, q.AlignIs f → q.align ≤ 8 → roundUp 8 q.align = 8 := by
    intro q f hq hle
    have hq' : q.align = 2 ^ f := hq
    have hf : f ≤ 3 := by
      have : (2:Nat) ^ f ≤ 2 ^ 3 := by rw [← hq']; exact hle
      exact (Nat.pow_le_pow_iff_right (by decide)).1 this
    have hd : q.align ∣ 8 := by rw [hq']; exact pow2_dvd_of_le hf
    exact roundUp_of_dvd hq.pos hd
  by_cases h1 : p.align ≤ 8
  · have h2 : p'.align ≤ 8 := by omega
    rw [small hp h1, small hp' h2]
  · have h2 : p'.align = p.align := by omega
    rw [h2]

theorem valueLayout_alignIs (t : Ty) (n : Nat) : ∃ e, (t.valueLayout n).AlignIs e := by
  cases t
  case sizedB => exact ⟨4, rfl⟩
  case hwl => exact ⟨3, rfl⟩
  all_goals exact ⟨2, rfl⟩

/-- views that release with the same layout locate the value at the same offset -/
theorem dataOff_of_release_eq {t t' : Ty} {n n' : Nat} (h : t.releaseLayout n = t'.releaseLayout n') :
    t.dataOff n = t'.dataOff n' := by
  obtain ⟨e, he⟩ := valueLayout_alignIs t n
  obtain ⟨e', he'⟩ := valueLayout_alignIs t' n'
  exact arcInner_off_of_layout_eq he he' h

/-! ## corollaries quoted by Props/C11 -/

/-- `heap_ptr` of the `Arc` any owning handle stands for is the block start; in particular
`from_raw` / `from_raw_offset` / the union's untagging recover the block start -/
theorem heap_ptr_is_block_start (ops : List Op) (i : Nat) (h : HV) (hl : lookup (run ops) i = some h) :
    (asArc (run ops).mem h).off = 0 :=
  asArc_off ((offinv_run ops).toAll (i, h) (lookup_mem hl))

theorem heap_ptr_off_zero (ops : List Op) (i : Nat) (h : HV) (hl : lookup (run ops) i = some h) :
    Arc.heap_ptr_off (asArc (run ops).mem h) = 0 := heap_ptr_is_block_start ops i h hl

/-- `as_ptr` / `into_raw` return the address at which the value lives: the block start plus the
field offset of `data` for the handle's view -/
theorem as_ptr_is_value_address (ops : List Op) (i : Nat) (h : HV) (hl : lookup (run ops) i = some h) :
    Arc.as_ptr_off (run ops).mem (asArc (run ops).mem h) =
      (asArc (run ops).mem h).ty.dataOff (viewLen (run ops).mem (asArc (run ops).mem h)) := by
  simp only [Arc.as_ptr_off, heap_ptr_is_block_start ops i h hl, Nat.zero_add]

/-- the word stored in a raw pointer / `OffsetArc` / `ArcUnion` IS that address -/
theorem data_kind_stores_value_address (ops : List Op) (i : Nat) (h : HV) (hl : lookup (run ops) i = some h)
    (hk : h.kind = .raw ∨ h.kind = .offset ∨ h.kind = .unionA ∨ h.kind = .unionB) :
    h.off = Arc.as_ptr_off (run ops).mem (asArc (run ops).mem h) := by
  rw [as_ptr_is_value_address ops i h hl, (offinv_run ops).data_addr i h (lookup_mem hl) hk]
  have hnt : h.kind.isThin = false := by rcases hk with hk | hk | hk | hk <;> rw [hk] <;> rfl
  have hnt' : (asArc (run ops).mem h).kind.isThin = false := by
    unfold asArc; rcases hk with hk | hk | hk | hk <;> rw [hk] <;> rfl
  have hty : (asArc (run ops).mem h).ty = h.ty := by
    unfold asArc; rcases hk with hk | hk | hk | hk <;> rw [hk] <;> rfl
  have hlen : (asArc (run ops).mem h).len = h.len := by
    unfold asArc; rcases hk with hk | hk | hk | hk <;> rw [hk] <;> rfl
  rw [viewLen_eq_fatLen hnt, viewLen_eq_fatLen hnt', hty]
  simp only [fatLen, hty, hlen]

/-- general form: in a state with `LayInv` and `OffInv`, two handles to the same block compute the
same value address -/
theorem same_block_same_data_address_state {s : State} (hi : Inv s) (hlay : LayInv s) (ho : OffInv s)
    {i j : Nat} {hi' hj : HV} (h1 : lookup s i = some hi') (h2 : lookup s j = some hj) (hb : hi'.blk = hj.blk) :
    Arc.as_ptr_off s.mem (asArc s.mem hi') = Arc.as_ptr_off s.mem (asArc s.mem hj) := by
  obtain ⟨k, hk, _⟩ := slot_block hi h1
  have l1 := hlay.lay i hi' (lookup_mem h1) k hk
  have l2 := hlay.lay j hj (lookup_mem h2) k (hb ▸ hk)
  simp only [Arc.as_ptr_off, asArc_off (ho.toAll (i, hi') (lookup_mem h1)),
    asArc_off (ho.toAll (j, hj) (lookup_mem h2)), Nat.zero_add]
  exact dataOff_of_release_eq (l1.trans l2.symm)

/-- the value's address is identical across clones, conversions and handle kinds -/
theorem same_block_same_data_address (ops : List Op) (i j : Nat) (hi hj : HV)
    (h1 : lookup (run ops) i = some hi) (h2 : lookup (run ops) j = some hj) (hb : hi.blk = hj.blk) :
    Arc.as_ptr_off (run ops).mem (asArc (run ops).mem hi) =
      Arc.as_ptr_off (run ops).mem (asArc (run ops).mem hj) :=
  same_block_same_data_address_state (inv_run ops) (layinv_run ops) (offinv_run ops) h1 h2 hb

/-- the value's address is stable for the life of the allocation: a handle to the same block after
any op (in any slot, of any kind) computes the same address as a handle before it -/
theorem stable_under_step (s : State) (op : Op) (i j : Nat) (h h' : HV) (hi : Inv s) (hl : LenInv s)
    (hlay : LayInv s) (ho : OffInv s) (h1 : lookup s i = some h) (h2 : lookup (step s op).1 j = some h')
    (hb : h'.blk = h.blk) :
    Arc.as_ptr_off (step s op).1.mem (asArc (step s op).1.mem h') = Arc.as_ptr_off s.mem (asArc s.mem h) := by
  obtain ⟨k, hk, _⟩ := slot_block hi h1
  obtain ⟨k', hk', hs⟩ := step_stable hi.toInv' op h.blk k hk
  have hlay' := layinv_step s op hi hl hlay
  have ho' := offinv_step s op hi hl ho
  have l1 := hlay.lay i h (lookup_mem h1) k hk
  have l2 := hlay'.lay j h' (lookup_mem h2) k' (hb ▸ hk')
  have hkl : k'.lay = k.lay := congrArg Shape.lay hs
  simp only [Arc.as_ptr_off, asArc_off (ho.toAll (i, h) (lookup_mem h1)),
    asArc_off (ho'.toAll (j, h') (lookup_mem h2)), Nat.zero_add]
  exact dataOff_of_release_eq (l2.trans (hkl.trans l1.symm))

/-- in M1 the field offset of `data` is 8 for every view except the over-aligned `TrackedB`
(align 16), where it is 16 (sanity fact; the theorems above do not use it) -/
theorem dataOff_values (t : Ty) (n : Nat) : t.dataOff n = if t = .sizedB then 16 else 8 := by
  cases t <;>
    simp [Ty.dataOff, arcInnerLayout, reprC2, wordLayout, Ty.valueLayout, Ty.elemLay, Ty.hdrLay, sliceLayout,
      headerSliceLayout, headerWithLengthLayout, trackedLay, trackedBLay, unitLayout, bits, roundUp]

/-! ## non-vacuity -/

/-- a sized value seen as `dyn`, through an `OffsetArc` (then `make_mut`-redirected) and an
`ArcUnion`; a slice seen through a raw pointer; a `HeaderWithLength` block seen through a ThinArc
and a raw thin pointer -/
def exampleOffHistory : List Op :=
  [.create 0 (.new ⟨1, 1⟩), .clone 1 0, .conv 1 .intoRawOffset, .clone 2 0, .conv 2 .unionFirst,
   .create 3 (.fromVec [⟨2, 2⟩, ⟨3, 3⟩]), .clone 4 3, .conv 4 .intoRaw,
   .create 5 (.hwlFromVec ⟨4, 4⟩ 1 [⟨5, 5⟩]), .intoThin 5, .clone 6 5, .conv 6 .thinIntoRaw, .conv 0 .toDyn,
   .makeMut 1 9 false]

example : (run exampleOffHistory).slots.map (fun e => (e.1, e.2.kind, e.2.ty, e.2.blk, e.2.off)) =
    [(6, .rawThin, .hwl, 2, 0), (5, .thin, .hwl, 2, 0), (4, .raw, .slice, 1, 8), (3, .arc, .slice, 1, 0),
     (2, .unionA, .sized, 0, 8), (1, .offset, .sized, 3, 8), (0, .arc, .dyn, 0, 0)] := by decide

example : (run exampleOffHistory).slots.map (fun e =>
      (Arc.as_ptr_off (run exampleOffHistory).mem (asArc (run exampleOffHistory).mem e.2),
       (asArc (run exampleOffHistory).mem e.2).off)) = List.replicate 7 (8, 0) := by decide

/-- `mem::swap` inside `with_arc_mut`: the lending ThinArc (slot 0) and the ThinArc of slot 7 exchange
their allocations, both counts stay 1, nothing is logged -/
def exampleSwapHistory : List Op :=
  [.create 0 (.hwlFromVec ⟨9, 9⟩ 2 [⟨1, 1⟩, ⟨2, 2⟩]), .intoThin 0,
   .create 7 (.hwlFromVec ⟨8, 8⟩ 1 [⟨30, 3⟩]), .intoThin 7,
   .withCb 0 .thinWithArcMut [.swapWith 7, .cnt, .read]]

example : (run exampleSwapHistory).slots.map (fun e =>
      (e.1, e.2.kind, e.2.blk, e.2.off, loadCount (run exampleSwapHistory).mem e.2.blk,
        viewLen (run exampleSwapHistory).mem e.2)) =
    [(7, .thin, 0, 0, 1, 2), (0, .thin, 1, 0, 1, 1)] := by decide

example : (run exampleSwapHistory).mem.log = [.alloc 0 40 8, .alloc 1 32 8] := by decide

/-- the unsizing coercion of a `UniqueArc`, then `shareable`, a clone, and both released: the one
`dealloc` records the layout requested by `UniqueArc::new` -/
def exampleUniqDynHistory : List Op :=
  [.create 0 (.uniqueNew ⟨1, 1⟩), .conv 0 .toDyn, .conv 0 .shareable, .clone 1 0]

example : ((run (exampleUniqDynHistory.take 2)).slots.map fun e => (e.1, e.2.kind, e.2.ty, e.2.blk, e.2.off)) =
    [(0, .uniq, .dyn, 0, 0)] := by decide

example : ((run exampleUniqDynHistory).slots.map fun e =>
      (e.1, e.2.kind, e.2.ty, e.2.blk, e.2.off, loadCount (run exampleUniqDynHistory).mem e.2.blk)) =
    [(1, .arc, .dyn, 0, 0, 2), (0, .arc, .dyn, 0, 0, 2)] := by decide

example : (run (exampleUniqDynHistory ++ [.dropAll])).mem.log =
    [.alloc 0 16 8, .drop 1, .dealloc 0 16 8] := by decide

end M1
