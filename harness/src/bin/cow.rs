//! Payload CLASS sweep for C08 / C09 (copy-on-write, unwrap_or_clone), complementing the history harness whose payloads are
//! all `Tracked` (sized, with drop glue).  The model is generic in the values (Lean: `C08_unique_in_place`,
//! `C08_shared_redirects`, `C09_unwrap_or_clone`): sole owner ⇒ same allocation, `Clone` not called; shared ⇒ `Clone`
//! called exactly once, fresh allocation with count 1, the old one loses exactly one owner, the other handles see the old
//! value.  That verdict must carry over to every payload class: no drop glue but a `Clone` with an observable effect, drop
//! glue, zero-sized, over-aligned.
//!
//! One case per input line:  `cow <class> <op> <owners> <co-owner kind>`
//!   class: nodrop | withdrop | zst | wide | nodrop_big      op: make_mut | make_unique | offset_make_mut | unwrap_or_clone
//!   owners: 1 | 2 | 3                                       co-owner kind: arc | offset | union | raw
//! Output: `st=ok clones=.. same_alloc=.. mine=.. other=.. old_cnt=.. new_cnt=.. gen=..`
use std::cell::Cell;
use std::io::{BufRead, Write};
use std::panic::{catch_unwind, AssertUnwindSafe};
use triomphe::*;

thread_local! { static CLONES: Cell<u32> = const { Cell::new(0) }; }
fn clones() -> u32 { CLONES.with(|c| c.get()) }
fn bump() { CLONES.with(|c| c.set(c.get() + 1)) }

trait P: Clone + Sized {
    fn mk(v: u32) -> Self;
    fn val(&self) -> u32;
    fn set(&mut self, v: u32);
    /// how many times this value was produced by `Clone` (0 for an original)
    fn gen(&self) -> u32;
}
/// plain data, NO drop glue anywhere inside, but `Clone` is not a bit copy: it counts, and marks the copy
struct NoDrop { v: u32, gen: u32 }
impl Clone for NoDrop { fn clone(&self) -> Self { bump(); NoDrop { v: self.v, gen: self.gen + 1 } } }
impl P for NoDrop { fn mk(v: u32) -> Self { NoDrop { v, gen: 0 } } fn val(&self) -> u32 { self.v } fn set(&mut self, v: u32) { self.v = v } fn gen(&self) -> u32 { self.gen } }
struct NoDropBig { pad: [u64; 40], v: u32, gen: u32 }
impl Clone for NoDropBig { fn clone(&self) -> Self { bump(); NoDropBig { pad: self.pad, v: self.v, gen: self.gen + 1 } } }
impl P for NoDropBig { fn mk(v: u32) -> Self { NoDropBig { pad: [7; 40], v, gen: 0 } } fn val(&self) -> u32 { self.v + (self.pad[39] as u32 - 7) } fn set(&mut self, v: u32) { self.v = v } fn gen(&self) -> u32 { self.gen } }
struct WithDrop { v: u32, gen: u32, _b: Box<u32> }
impl Clone for WithDrop { fn clone(&self) -> Self { bump(); WithDrop { v: self.v, gen: self.gen + 1, _b: Box::new(self.v) } } }
impl Drop for WithDrop { fn drop(&mut self) {} }
impl P for WithDrop { fn mk(v: u32) -> Self { WithDrop { v, gen: 0, _b: Box::new(v) } } fn val(&self) -> u32 { self.v } fn set(&mut self, v: u32) { self.v = v } fn gen(&self) -> u32 { self.gen } }
struct Zst;
impl Clone for Zst { fn clone(&self) -> Self { bump(); Zst } }
impl P for Zst { fn mk(_: u32) -> Self { Zst } fn val(&self) -> u32 { 0 } fn set(&mut self, _: u32) {} fn gen(&self) -> u32 { 0 } }
#[repr(align(32))]
struct Wide { v: u32, gen: u32 }
impl Clone for Wide { fn clone(&self) -> Self { bump(); Wide { v: self.v, gen: self.gen + 1 } } }
impl P for Wide { fn mk(v: u32) -> Self { Wide { v, gen: 0 } } fn val(&self) -> u32 { self.v } fn set(&mut self, v: u32) { self.v = v } fn gen(&self) -> u32 { self.gen } }

enum Co<T> { A(Arc<T>), O(OffsetArc<T>), U(ArcUnion<T, u8>), R(*const T) }
impl<T> Co<T> {
    fn val(&self, f: impl Fn(&T) -> u32) -> u32 {
        match self { Co::A(a) => f(a), Co::O(o) => f(o), Co::U(u) => f(&u.as_first().unwrap()), Co::R(p) => f(unsafe { &**p }) }
    }
    fn cnt(&self) -> usize {
        match self { Co::A(a) => Arc::count(a), Co::O(o) => OffsetArc::strong_count(o), Co::U(u) => ArcUnion::strong_count(u),
                     Co::R(p) => { let a = std::mem::ManuallyDrop::new(unsafe { Arc::from_raw(*p) }); Arc::count(&a) } }
    }
    fn release(self) { if let Co::R(p) = self { drop(unsafe { Arc::from_raw(p) }) } }
}

fn run<T: P>(op: &str, owners: usize, kind: &str) -> String {
    CLONES.with(|c| c.set(0));
    let r = catch_unwind(AssertUnwindSafe(|| {
        let mut a = Arc::new(T::mk(5));
        let mut cos: Vec<Co<T>> = Vec::new();
        for _ in 1..owners {
            let c = a.clone();
            cos.push(match kind { "offset" => Co::O(Arc::into_raw_offset(c)), "union" => Co::U(ArcUnion::from_first(c)), "raw" => Co::R(Arc::into_raw(c)), _ => Co::A(c) });
        }
        let before = a.heap_ptr();
        let c0 = clones();
        let (mine, same, new_cnt, gen);
        match op {
            "make_mut" => { Arc::make_mut(&mut a).set(9); mine = a.val(); gen = a.gen(); same = a.heap_ptr() == before; new_cnt = Arc::count(&a); }
            "make_unique" => { Arc::make_unique(&mut a).set(9); mine = a.val(); gen = a.gen(); same = a.heap_ptr() == before; new_cnt = Arc::count(&a); }
            "offset_make_mut" => {
                let mut o = Arc::into_raw_offset(a);
                o.make_mut().set(9);
                a = Arc::from_raw_offset(o);
                mine = a.val(); gen = a.gen(); same = a.heap_ptr() == before; new_cnt = Arc::count(&a);
            }
            _ => {
                let p = a.heap_ptr();
                let v = Arc::unwrap_or_clone(a);
                mine = v.val(); gen = v.gen(); same = owners == 1; new_cnt = 0;
                let _ = p;
                a = Arc::new(v);
            }
        }
        let other = cos.first().map(|c| c.val(|t| t.val()) as i64).unwrap_or(-1);
        let old_cnt = cos.first().map(|c| c.cnt() as i64).unwrap_or(-1);
        let s = format!("st=ok clones={} same_alloc={} mine={} other={} old_cnt={} new_cnt={} gen={}", clones() - c0, same as u8, mine, other, old_cnt, new_cnt, gen);
        for c in cos { c.release(); }
        drop(a);
        s
    }));
    r.unwrap_or_else(|_| "st=panic".to_string())
}

fn main() {
    std::panic::set_hook(Box::new(|_| {}));
    let stdin = std::io::stdin();
    let out = std::io::stdout();
    for line in stdin.lock().lines() {
        let line = line.unwrap();
        let f: Vec<&str> = line.split_whitespace().collect();
        let res = if f.len() == 5 && f[0] == "cow" {
            let n: usize = f[3].parse().unwrap_or(0);
            if !(1..=3).contains(&n) { "st=bad".to_string() } else {
                match f[1] {
                    "nodrop" => run::<NoDrop>(f[2], n, f[4]),
                    "nodrop_big" => run::<NoDropBig>(f[2], n, f[4]),
                    "withdrop" => run::<WithDrop>(f[2], n, f[4]),
                    "zst" => run::<Zst>(f[2], n, f[4]),
                    "wide" => run::<Wide>(f[2], n, f[4]),
                    _ => "st=bad".to_string(),
                }
            }
        } else { "st=bad".to_string() };
        let mut l = out.lock();
        let _ = writeln!(l, "{}", res);
        let _ = l.flush();
    }
}
