"""C15 — uninitialised construction never destroys or exposes what was not written.

Deciding method: Lean theorems in Props/C15.lean over the sequential handle machine M1/M3 (invariant
`Inv` preserved by every op, by induction over histories of any length), tied to the code by the
history correspondence (Tie B): the same op lines run on the Lean driver and on the real library.
"""
from vlib import histcheck

MODULE = "TriompheModel.Props.C15"
EXTRA = ["TriompheModel.Proofs.HistVal", "TriompheModel.Props.Monitor"]
TAGS = ['C15']
WEIGHTS = {'create': 20, 'writeSlot': 26, 'conv': 18, 'drop': 12, 'clone': 8, 'tryUnique': 6}


H_CLASSES = ["unit", "u32", "b3", "loud", "zd"]
T_CLASSES = ["u32", "b3", "u64", "loud", "zd", "unit"]
HAS_DROP = {"loud": True, "zd": True}


def class_sweep(ctx):
    """the same abstract cases at every header / element class (no drop glue, drop glue, zero-sized with
    and without a destructor): the model is generic in the values, so its verdict (panic or not, how
    many header / element destructor runs) must carry over to every class."""
    import random
    from vlib import common, hist
    rng = random.Random(ctx.seed * 31 + 15)
    exe, out = common.cargo_build_bin(ctx, "uninit")
    if exe is None:
        ctx.oblige("corr:uninit-class-sweep-build", False, out[-1500:])
        ctx.defer_nfi("the element-class sweep harness does not build against this tree:\n" + out[-2500:])
        return
    model = common.lean_exe("drv_hist")
    lens = [0, 1, 2, 3] if not ctx.thorough() else [0, 1, 2, 3, 4, 5, 7]
    cases = []
    for h in H_CLASSES:
        for t in T_CLASSES:
            for n in lens:
                masks = list(range(1 << n)) if n <= 3 else [rng.randrange(1 << n) for _ in range(6)] + [(1 << n) - 1, 0]
                for m in masks:
                    cases.append(("hs", h, t, n, m, "drop"))
                cases.append(("hs", h, t, n, (1 << n) - 1, "init"))
    # impossible lengths (the byte size overflows / exceeds isize::MAX): whatever the constructor does — refuse with a
    # panic, or succeed for zero-sized elements — the header it was given is destroyed exactly once and no element is
    for h in H_CLASSES:
        for t in T_CLASSES:
            for n in (2 ** 62, 2 ** 63 - 1, 2 ** 64 - 1):      # every non-zero element size here is >= 3 bytes: the byte size is impossible
                cases.append(("hsov", h, t, n))
    for t in T_CLASSES:
        for n in [1, 2, 3]:
            for sh in (0, 1):
                for idx in range(n):
                    cases.append(("sl", t, n, sh, idx))
        for sh in (0, 1):
            cases.append(("un", t, sh))
    lines = []
    mhist = []
    for c in cases:
        lines.append(" ".join(str(x) for x in c) if c[0] != "hsov" else "hs %s %s %d 0 drop" % (c[1], c[2], c[3]))
        if c[0] == "hsov":
            ops = ["reset"]
        elif c[0] == "hs":
            _, h, t, n, m, fin = c
            ops = ["reset", "create 0 hsUninit 9:9 %d" % n] + ["writeSlot 0 %d %d:1" % (i, 100 + i) for i in range(n) if m >> i & 1]
            ops += ["drop 0"] if fin == "drop" else ["conv 0 assumeInit", "conv 0 shareable", "clone 1 0", "drop 0", "drop 1"]
        elif c[0] == "sl":
            _, t, n, sh, idx = c
            ops = ["reset", "create 0 newUninitSlice %d" % n] + ["writeSlot 0 %d %d:1" % (i, 100 + i) for i in range(n)] + (["clone 1 0"] if sh else []) + ["writeSlot 0 %d 999:9" % idx]
        else:
            _, t, sh = c
            ops = ["reset", "create 0 newUninit", "writeSlot 0 0 100:1"] + (["clone 1 0"] if sh else []) + ["writeSlot 0 0 999:9"]
        mhist.append(ops)
    ilines, irc = hist.run_batch(exe, "\n".join(lines) + "\n")
    mlines, mrc = hist.run_batch(model, "\n".join("\n".join(h) for h in mhist) + "\n")
    if mrc != 0:
        raise RuntimeError("model driver failed")
    mh = hist.split_histories(mlines, mhist)
    bad = []
    for k, c in enumerate(cases):
        obs = dict(x.split("=", 1) for x in (ilines[k].split() if k < len(ilines) else ["st=missing"]))
        mobs = [hist.parse_obs(x) for x in mh[k][1:]]
        if c[0] == "hsov":
            _, h, t, n = c
            why = []
            if obs.get("st") not in ("ok", "panic"):
                why.append("status %s" % obs.get("st"))
            if int(obs.get("hdrop", -1)) != (1 if HAS_DROP.get(h) else 0):
                why.append("length %d: the header was destroyed %s times (exactly once is required, also when the constructor refuses the length)" % (n, obs.get("hdrop")))
            if int(obs.get("edrop", 0)) != 0:
                why.append("%s element destructor runs although no element was ever written" % obs.get("edrop"))
        elif c[0] == "hs":
            _, h, t, n, m, fin = c
            m_hdr = sum(1 for o in mobs for e in o["ev"] if e == "drop:9")
            m_el = sum(1 for o in mobs for e in o["ev"] if e.startswith("drop:") and e != "drop:9")
            want_h = m_hdr if HAS_DROP.get(h) else 0
            want_e = m_el if HAS_DROP.get(t) else 0
            why = []
            if obs.get("st") != "ok":
                why.append("status %s" % obs.get("st"))
            if int(obs.get("hdrop_after_ctor", 0)) or int(obs.get("hdrop_after_writes", 0)) or int(obs.get("edrop_after_writes", 0)):
                why.append("a destructor ran while the uninitialised handle was alive (header %s/%s, elements %s)" % (
                    obs.get("hdrop_after_ctor"), obs.get("hdrop_after_writes"), obs.get("edrop_after_writes")))
            if int(obs.get("hdrop", -1)) != want_h:
                why.append("header destroyed %s times, model and property say %d" % (obs.get("hdrop"), want_h))
            if int(obs.get("edrop", -1)) != want_e:
                why.append("%s element destructor runs, model and property say %d" % (obs.get("edrop"), want_e))
            if fin == "init" and (obs.get("cont") != "1" or obs.get("cnt") != "2" or int(obs.get("hdrop_shared", 0)) or int(obs.get("edrop_shared", 0)) or int(obs.get("hdrop_one_left", 0))):
                why.append("after assume_init: contents ok=%s count=%s, destructor runs while owned: %s/%s/%s" % (
                    obs.get("cont"), obs.get("cnt"), obs.get("hdrop_shared"), obs.get("edrop_shared"), obs.get("hdrop_one_left")))
        else:
            shared = c[3] if c[0] == "sl" else c[2]
            m_st = mobs[-1]["status"]
            want = "panic" if m_st.startswith("panic") else "ok"
            why = []
            if obs.get("st") != want:
                why.append("deprecated write on a %s handle: %s, model says %s" % ("shared" if shared else "unique", obs.get("st"), m_st))
            if (want == "panic") != bool(shared):
                why.append("MODEL deviates from the property (panic iff shared)")
            if obs.get("other_changed") == "1":
                why.append("the write is visible through the other handle")
        if why:
            bad.append((lines[k], ilines[k] if k < len(ilines) else "", " ; ".join(mh[k]), why))
    ctx.oblige("corr:uninit-class-sweep", not bad, "%d failing cases" % len(bad))
    ctx.coverage["class_sweep"] = {"cases": len(cases), "header_classes": H_CLASSES, "element_classes": T_CLASSES, "failures": len(bad),
                                   "sample": {"case": lines[len(lines) // 2], "impl": ilines[len(lines) // 2] if len(ilines) > len(lines) // 2 else ""}}
    ctx.coverage["evaluations"] = ctx.coverage.get("evaluations", 0) + len(cases)
    if bad:
        bad.sort(key=lambda b: len(b[0]))
        body = ["uninitialised construction over header/element classes: the real crate vs the (value-generic) model and the property", ""]
        for (ln, il, mm, why) in bad[:6]:
            body += ["case : " + ln, "  impl : " + il, "  model: " + mm[-300:], "  PROPERTY C15 FAILS: " + "; ".join(why), ""]
        body.append("(%d failing cases in total)" % len(bad))
        ctx.violation("ops", "\n".join(body), True)


WR_CLASSES = ["w32", "w16d", "u32", "b3", "u64", "loud", "zd", "unit"]
WR_DROP = {"w16d", "loud", "zd"}


def write_readback_sweep(ctx):
    """build uninitialised, write every slot, read back through `as_mut_ptr` and — after `assume_init*` — through the initialised
    handle, then drop; for every element class incl. OVER-ALIGNED ones (data offset 16 / 32) and length 0; dev and release profile.
    The model (generic in the values and in the layout: M2 `dataAddr`, Props/C15.lean) says: what was written is what is seen, at the
    address `Deref` yields; the block is requested with the type's alignment and released with the layout it was requested with;
    each written element with drop glue is destroyed exactly once, with the block."""
    import subprocess
    from vlib import common
    cases = [(t, k, n) for t in WR_CLASSES for k in ("arc", "uniq") for n in (1,)] + \
            [(t, k, n) for t in WR_CLASSES for k in ("slice", "hs", "arcslice") for n in (0, 1, 3)]
    text = "".join("wr %s %s %d\n" % c for c in cases)
    bad, ran = [], 0
    for rel in (False, True):
        exe, out = common.cargo_build_bin(ctx, "uninit", release=rel)
        if exe is None:
            ctx.oblige("corr:uninit-write-readback-build", False, out[-1500:])
            ctx.defer_nfi("the uninit class sweep harness does not build against this tree:\n" + out[-2500:])
            return
        pr = subprocess.run([exe], input=text, capture_output=True, text=True, timeout=180)
        lines = pr.stdout.split("\n")
        for i, (t, k, n) in enumerate(cases):
            l = lines[i] if i < len(lines) and lines[i] else "st=crash(rc=%s)" % pr.returncode
            ran += 1
            kv = dict(x.split("=", 1) for x in l.split() if "=" in x)
            why = []
            if kv.get("st") != "ok":
                why.append("status %s (these constructors accept every length and element class here)" % kv.get("st"))
            else:
                if kv.get("val") != kv.get("want") or kv.get("raw") != kv.get("want"):
                    why.append("what was written (%s) is not what is read back (through as_mut_ptr: %s, after assume_init: %s)" % (kv.get("want"), kv.get("raw"), kv.get("val")))
                if kv.get("ptr_ok") != "1":
                    why.append("as_mut_ptr is not the address the value lives at")
                want_drops = (n if k in ("slice", "hs") else (1 if k in ("arc", "uniq") else 0)) if t in WR_DROP else 0
                if kv.get("edrop") != str(want_drops):
                    why.append("%s element destructor run(s), expected %d" % (kv.get("edrop"), want_drops))
            if kv.get("never_freed", "0") != "0" or kv.get("freed_twice", "0") != "0":
                why.append("the block was not returned exactly once (never_freed=%s freed_twice=%s)" % (kv.get("never_freed"), kv.get("freed_twice")))
            if kv.get("wrong_layout", "0") != "0":
                why.append("the block was released with a layout other than the requested one")
            if kv.get("st") == "ok" and kv.get("block_align", "0").isdigit() and int(kv["block_align"]) < int(kv.get("type_align", "0")) and int(kv["block_align"]) > 0:
                why.append("the block was requested with alignment %s, the element type needs %s" % (kv["block_align"], kv["type_align"]))
            if why:
                bad.append(("wr %s %s %d" % (t, k, n), "release" if rel else "dev", l, why))
    ctx.coverage["uninit_write_readback"] = {"cases": ran, "classes": WR_CLASSES, "failures": len(bad)}
    ctx.coverage["evaluations"] = ctx.coverage.get("evaluations", 0) + ran
    ctx.oblige("corr:uninit-write-readback", not bad, "%d failing" % len(bad))
    if bad:
        body = ["uninitialised construction, write, read back, assume_init, drop — over element classes incl. over-aligned ones and length 0:", ""]
        for ln, prof, l, why in bad[:8]:
            body += ["case : %s   [%s profile]" % (ln, prof), "  impl : " + l, "  PROPERTY C15 FAILS: " + "; ".join(why), ""]
        body.append("replay: printf '<case line>\\n' | <harness bin uninit>")
        ctx.violation("ops", "\n".join(body), True)


def run(ctx):
    histcheck.run(ctx, MODULE, WEIGHTS, TAGS, lean_extra=EXTRA,
                  release_quick_filter=lambda h: any(op.split()[0] in ('writeSlot',) for op in h))
    class_sweep(ctx)
    write_readback_sweep(ctx)
    # the last handle of an uninit-built allocation is released while the header's / an element's destructor panics: the header
    # is still destroyed exactly once, the elements (after assume_init) each once, "together with the allocation"
    from vlib.props import c05
    c05.drop_panic_pass(ctx, "C15", paths=c05.UNINIT_DP_PATHS)
    # the deprecated write against a reader that has just released its handle: the uniqueness check inside the call is
    # the only synchronisation (dev and release profile: a debug assertion re-loads the count with Acquire)
    from vlib import miri
    miri.simple_pass(ctx, "C15", ["deprecated_write_vs_reader", "deprecated_write_vs_reader@release"], 2 if not ctx.thorough() else 16, "deprecated-write-vs-reader")
    # the length is the caller's: impossible lengths (byte size overflowing / beyond isize::MAX) must be refused
    from vlib import layout_corr
    ok, stats, failures = layout_corr.uninit_ovf_pass(ctx)
    ctx.oblige("faults:uninit-constructors-refuse-impossible-lengths", ok, "%d failing" % len(failures))
    ctx.coverage["uninit_overflow_lengths"] = stats
    ctx.coverage["evaluations"] = ctx.coverage.get("evaluations", 0) + stats["cases"]
    if not ok:
        body = "uninitialised slice constructors at near-overflow lengths (one child process per case):\n\n" + "\n\n".join(f["text"] for f in failures[:4])
        if any(f.get("found_input") for f in failures):
            ctx.violation("shape", body, True)
        else:
            ctx.defer_nfi(body)


def replay(ctx, path):
    if "kind: miri" in open(path).read():
        from vlib import miri
        return miri.replay(ctx, path)
    histcheck.replay(ctx, path, TAGS)
