import TriompheModel.Proofs.HistLen
/-!
# C10 — a ThinArc is an exact one-word stand-in for the fat Arc

`ThinArc.thick` is `thin_to_thick` + `from_raw_inner` (the slice length is read from the length word
stored in the block); `ThinArc.of_arc` is the pointer cast of `protected_into_thin`.  The theorems
hold for every memory and every handle value.
-/
namespace M1
namespace C10

/-- a thin handle as the safe API produces it: one word, pointing at the block start -/
def ThinWF (t : HV) : Prop := t.kind = .thin ∧ t.ty = .hwl ∧ t.len = 0

/-- **thin → fat → thin returns the same word** and touches neither memory nor the count -/
theorem C10_roundtrip_thin (m : Mem) (t : HV) (h : ThinWF t) : ThinArc.of_arc (ThinArc.thick m t) = t := by
  obtain ⟨hk, hty, hl⟩ := h
  cases t; simp_all [ThinArc.of_arc, ThinArc.thick]

/-- **fat → thin → fat returns the same fat pointer** exactly when the recorded length equals the
fat pointer's length — which `into_thin` checks -/
theorem C10_roundtrip_fat (m : Mem) (a : HV) (hk : a.kind = .arc) (hty : a.ty = .hwl)
    (hrec : ((m.blocks[a.blk]?.bind (·.recLen))).getD 0 = a.len) :
    ThinArc.thick m (ThinArc.of_arc a) = a := by
  cases a; simp_all [ThinArc.of_arc, ThinArc.thick, viewLen]

/-- **same view**: dereferencing the thin handle shows the same header, the same number of
elements and the same elements as the fat Arc it stands for, at the same block -/
theorem C10_thin_eq_fat_view (m : Mem) (t : HV) (h : ThinWF t) :
    viewLen m (ThinArc.thick m t) = viewLen m t ∧ digest m (ThinArc.thick m t) = digest m t ∧
    (ThinArc.thick m t).blk = t.blk ∧ (ThinArc.thick m t).off = t.off := by
  obtain ⟨hk, hty, hl⟩ := h
  cases t; simp_all [ThinArc.thick, viewLen, digest, Ty.isSlicey, Ty.elemsInit]

/-- **`into_thin` accepts exactly the Arcs whose recorded length is right**, by a cast (memory
untouched, so the count is unchanged) -/
theorem C10_into_thin_ok (m : Mem) (a : HV)
    (hrec : ((m.blocks[a.blk]?.bind (·.recLen))).getD 0 = a.len) :
    Arc.into_thin m a = (m, some (ThinArc.of_arc a)) := by
  simp [Arc.into_thin, hrec]

/-- **a mismatch is refused with a panic that still releases the argument**: the only effect on
memory is one `Arc::drop` of that Arc -/
theorem C10_mismatch_refused_and_released (m : Mem) (a : HV)
    (hrec : ((m.blocks[a.blk]?.bind (·.recLen))).getD 0 ≠ a.len) :
    Arc.into_thin m a = (Arc.drop m a, none) := by
  simp [Arc.into_thin, hrec]

/-- at the op level: a refused `intoThin` removes exactly that slot -/
theorem C10_step_into_thin_mismatch (s : State) (src : Nat) (h : HV) (hs : lookup s src = some h)
    (hk : h.kind = .arc) (hty : h.ty = .hwl)
    (hrec : ((s.mem.blocks[h.blk]?.bind (·.recLen))).getD 0 ≠ h.len) :
    step s (.intoThin src) = (s.del (Arc.drop s.mem h) src, panicked "length-mismatch") := by
  simp [step, hs, hk, hty, Arc.into_thin, hrec]

/-- **clone and drop of a ThinArc are the fat Arc's**, on the same block -/
theorem C10_thin_clone_drop (m : Mem) (t : HV) :
    ThinArc.clone m t = (incr m t.blk, ThinArc.of_arc { ThinArc.thick m t with kind := .arc }) ∧
    ThinArc.drop m t = decr m t.blk .hwl (viewLen m (ThinArc.thick m t)) := by
  simp [ThinArc.clone, ThinArc.drop, Arc.clone, Arc.drop, ThinArc.thick]

example : ThinWF ⟨.thin, .hwl, 3, 0, 0⟩ := ⟨rfl, rfl, rfl⟩

/-- **the length invariant.**  For every ThinArc (or raw thin pointer) obtainable through ANY
history of the op language — i.e. through the safe API, incl. `with_arc_mut` callbacks that clone,
mutate, replace or panic, lying iterators, refused `into_thin`s — the length stored in the
allocation equals the real slice length. -/
theorem C10_len_invariant (ops : List Op) (i : Nat) (h : HV) (hl : lookup (run ops) i = some h)
    (hk : h.kind = .thin ∨ h.kind = .rawThin) :
    ∃ k, (run ops).mem.blocks[h.blk]? = some k ∧ k.recLen = some k.elems.length :=
  thin_len_correct ops i h hl hk

/-- … and every fat slice handle's pointer metadata is the real length too -/
theorem C10_fat_len (ops : List Op) (i : Nat) (h : HV) (hl : lookup (run ops) i = some h) :
    ∃ k, (run ops).mem.blocks[h.blk]? = some k ∧ viewLen (run ops).mem h = k.elems.length :=
  let ⟨k, hk, hv, _⟩ := (leninv_run ops).viewLen_eq hl
  ⟨k, hk, hv⟩

end C10
end M1
