/-!
Types of the trait / signature / repr *facts* that the translator `/verif/extract_traits` (Tie A)
reads out of `<repo>/src` on every run and writes into
`TriompheModel/Generated/{Traits,Signatures,Reprs,Impls}.lean`.
Nothing here is specific to the current source: these are only the shapes of the tables.
Import-free (core Lean only) so that `drv_traits` links.

Fail-closed convention: whatever the translator cannot classify becomes an `unknown` / `other`
constructor; every obligation of `Props/C13.lean` over such a constructor is false.
-/
namespace FactsTraits

/-- One bound on a type parameter, as written inline (`T: Send`) or in a `where` clause; the
translator merges both places and sorts, so the order of writing is invisible. -/
inductive Bound
  | send
  | sync
  | qsized                    -- `?Sized`
  | sized                     -- explicit `Sized`
  | outlives (lt : String)    -- `T: 'a`, `'a` a named lifetime
  | static                    -- `T: 'static`
  | other (s : String)        -- any other trait bound, normalised token string (fail closed)
deriving DecidableEq, Repr, Inhabited

inductive ParamKind | type | lifetime | const
deriving DecidableEq, Repr, Inhabited

/-- a generic parameter of a struct / impl with its (merged, sorted, de-duplicated) bounds -/
structure Param where
  name : String
  kind : ParamKind
  bounds : List Bound
deriving DecidableEq, Repr, Inhabited

/-- a region (lifetime) position as written in the source -/
inductive Region
  | elided                    -- `&T`, `'_`, or a lifetime argument left out (`ArcBorrow<T>`)
  | named (n : String)        -- `'a`
  | static                    -- `'static`
  | unknown                   -- a position the translator cannot resolve (e.g. `impl Trait` output)
deriving DecidableEq, Repr, Inhabited

/-- the small type grammar of field types -/
inductive Ty
  | param (name : String)                      -- a generic type parameter in scope
  | nonNull (t : Ty)                           -- `NonNull<X>`
  | phantom (t : Ty)                           -- `PhantomData<X>`
  | ref (r : Region) (mutable : Bool) (t : Ty) -- `&'a X` / `&'a mut X`
  | rawPtr (mutable : Bool) (t : Ty)           -- `*const X` / `*mut X`
  | tuple (ts : List Ty)
  | atomicUsize
  | prim (name : String)                       -- usize, u8, bool, str, c_void, String …: Send + Sync
  | named (name : String) (lts : List Region) (args : List Ty)   -- crate-local struct/enum with args
  | array (t : Ty)                             -- `[X; n]`
  | slice (t : Ty)                             -- `[X]`
  | unknown (s : String)                       -- anything else (fail closed: neither Send nor Sync)
deriving Repr, Inhabited

structure Field where
  name : String               -- field name, tuple index, or `Variant.index` for enums
  ty : Ty
deriving Repr, Inhabited

inductive ItemKind | struct | enum | union
deriving DecidableEq, Repr, Inhabited

/-- a struct / enum definition (outside `#[cfg(test)]`) -/
structure StructDef where
  file : String
  line : Nat
  name : String
  kind : ItemKind
  isPub : Bool                -- `pub` (not `pub(crate)`)
  params : List Param
  fields : List Field
  repr : List String          -- contents of `#[repr(..)]`, e.g. ["C"], ["transparent"]
  derives : List String
deriving Repr, Inhabited

inductive TraitId | send | sync | copy | clone
deriving DecidableEq, Repr, Inhabited

/-- header of an impl of an auto trait (`Send`/`Sync`) or of `Copy`/`Clone` -/
structure ImplHdr where
  file : String
  line : Nat
  trait_ : TraitId
  isUnsafe : Bool
  negative : Bool             -- `impl !Send for ..`
  selfTy : String             -- head identifier of the self type ("Arc"); the token string if not a path
  generic : Bool              -- the self type is `Head<'l.., P..>` with pairwise distinct impl parameters
  selfLts : List String       -- lifetime arguments of the self type
  selfArgs : List String      -- type arguments of the self type (impl parameter names), in order
  params : List Param         -- the impl's parameters, bounds merged from inline and `where`
  whereOther : List String    -- `where` predicates whose subject is not a bare type parameter (fail closed)
deriving Repr, Inhabited

/-! ### signatures -/

/-- a region position inside a type of a signature -/
structure RegionOcc where
  region : Region
  payload : Bool              -- the type under this region mentions a generic type parameter or `Self`
  what : String               -- the type, for the reader
deriving DecidableEq, Repr, Inhabited

inductive RecvForm
  | refSelf                   -- `&self`, `&'a self`, `self: &Self`
  | refMutSelf                -- `&mut self`
  | thisRef                   -- first argument `this: &Self` / `x: &Arc<T>` (the impl's self type)
  | thisRefMut                -- `this: &mut Self`
  | byValue                   -- `self` / `this: Self`
  | none                      -- no handle-typed first argument
  | other                     -- `self: Pin<&mut Self>` etc. (fail closed)
deriving DecidableEq, Repr, Inhabited

/-- a callback parameter `F: FnOnce(&X) -> U` -/
structure Callback where
  param : String              -- `F`
  fnTrait : String            -- `FnOnce` / `FnMut` / `Fn`
  forLts : List String        -- explicit `for<'x>` binders of the bound
  argRegions : List RegionOcc -- region positions in the argument types
deriving DecidableEq, Repr, Inhabited

/-- signature of a function that returns something carrying a region, or takes a callback -/
structure Sig where
  file : String
  line : Nat
  key : String                -- `Head::name`, e.g. "Arc::borrow_arc", "ArcBorrow::get"; free fns: "::name"
  selfTy : String             -- full self type of the impl as written, e.g. "Arc<MaybeUninit<T>>"
  trait_ : String             -- "" for inherent / free functions, else "Deref", "Borrow", …
  isPub : Bool                -- reachable by clients: `pub fn` on a `pub` type, or a trait method
  isUnsafe : Bool
  implLts : List String       -- lifetime parameters of the impl
  selfLts : List String       -- lifetimes occurring in the impl's self type
  fnLts : List String         -- lifetime parameters of the function
  outlives : List (String × String)   -- declared `'a: 'b` (a outlives b), impl and fn generics
  recv : RecvForm
  recvRegion : Region         -- region of the receiver reference (`unknown` if not a reference)
  otherInputs : List RegionOcc  -- region positions in the remaining argument types
  outRegions : List RegionOcc   -- region positions in the return type
  outShape : String           -- the return type, for the reader
  callbacks : List Callback
deriving Repr, Inhabited

/-! ### reprs and delegation forms (used by C05/C10/C11 and C14/C17) -/

structure ReprFact where
  name : String
  repr : List String
  fieldOrder : List String
deriving DecidableEq, Repr, Inhabited

/-- normalised one-line body of a comparison / formatting / serde method -/
inductive DelegForm
  | derefEq            -- `*(*self) == *(*other)` (also through the raw pointer)
  | derefNe            -- `*(*self) != *(*other)`
  | ptrEqOrDerefEq     -- `Self::ptr_eq(self, other) || *(*self) == *(*other)`
  | ptrNeAndDerefNe    -- `!Self::ptr_eq(self, other) && *(*self) != *(*other)`
  | derefCmp           -- `*(*self) < *(*other)` with the operator of the method (lt ↦ `<`, …)
  | derefCall          -- `(**self).m(&**other)` / `(**self).m(state)` with `m` the method itself
  | derefFmt           -- `fmt::X::fmt(&**self, f)` with `X` the trait itself
  | viaWithArc         -- `ThinArc::with_arc(self, |a| ThinArc::with_arc(other, |b| a.m(b)))`, `m` the method
  | viaBorrow          -- through `self.borrow()` (ArcUnion)
  | pointerOfPtr       -- `fmt::Pointer::fmt(&self.ptr(), f)`
  | selfDeref          -- `self` / `&**self` (Borrow, AsRef)
  | derefSerialize     -- `(**self).serialize(serializer)`
  | mapNew             -- `T::deserialize(deserializer).map(X::new)`
  | derived            -- `#[derive(..)]`
  | marker             -- impl without methods (`Eq`)
  | other              -- anything else
deriving DecidableEq, Repr, Inhabited

structure ImplFact where
  file : String
  line : Nat
  trait_ : String             -- "PartialEq", "Debug", …
  selfHead : String           -- "Arc"
  selfTy : String             -- "Arc<T>", "HeaderSlice<HeaderWithLength<H>,T>"
  method : String             -- "eq", "fmt", …; "*" for derives, "" for marker impls
  form : DelegForm
  body : String               -- normalised token string of the body (truncated), for the reader
deriving DecidableEq, Repr, Inhabited

end FactsTraits
