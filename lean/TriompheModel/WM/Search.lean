import TriompheModel.WM.FinExec
/-!
# Witness search: which orderings make a small program race?

Given the three orderings the translator extracts from the source —

* `decOrd`  : the `fetch_sub` in `drop_inner`,
* `fence`   : the load / fence between that decrement and destruction (`none`: there is none),
* `gateOrd` : the load in `is_unique`,

`raceWitnesses decOrd fence gateOrd` enumerates the executions of a *fixed family of small programs*
(templates P1, P2, P3 below; every modification order of the decrements and every `rf` choice for the
loads), builds happens-before as `closure (program order ∪ hand-over ∪ synchronises-with)` with the
synchronises-with edges computed exactly as `Consistent.sw_load` / `Consistent.sw_rmw` dictate, keeps
the candidates that pass `checkConsistent ∧ checkRfInRange ∧ checkProtocol decOrd fence ∧ checkCoRW ∧
checkViaBorn`, and
returns those that contain two conflicting events unordered by happens-before in both directions.

**Status of the two directions.**

* A returned witness is a *proved* counterexample: by `raceWitnesses_sound` (which only uses the
  soundness theorems of `WM/FinExec.lean`) its execution is `Consistent` (also in the primitive
  release-sequence form `ConsistentPrim` of `WM/RelSeq.lean`), follows `Protocol decOrd fence`,
  satisfies `CoRW` and `ViaBorn`, and its two events are not ordered by `hb` either way.
* Emptiness of the result for the good orderings `(release, some acquire, acquire)` is a **test over
  this template family, not a theorem about all executions**.  The unbounded claims are
  `destroy_after_all`, `destroy_unique` (WM/Graph.lean), `unique_verdict_exclusive` (WM/Unique.lean),
  `consume_*` (WM/Consume.lean) and `later_sharers_after_write`,
  `no_access_concurrent_with_granted_write` (WM/Later.lean).

Templates (thread A owns h0; RMW 0 = `inc 1 0` clones it into h1, which is handed to thread B — the
hand-over is a synchronisation outside the count: `rmw0 → B's first event`):

* **P1** "clone, hand over, both read, both drop": B: access h1; dec h1.  A: access h0; dec h0.  The
  thread whose decrement reads 1 runs the fence load (if any) and `destroy`.  Both modification
  orders of the two decrements.  Conflict: a payload access vs `destroy`.
* **P2** "poll `get_mut` and write": B: access h1; dec h1.  A: load through h0 with `gateOrd`; if it
  reads the value 1: access h0 (the granted write).  Conflict: B's access vs the granted write.
* **P3** "`try_unwrap` vs drop": as P2 with the consuming gate: on success A moves the value out
  (access h0) and never releases h0; on failure A gets its handle back and drops it, so the run
  continues as P1 (both modification orders).  Conflicts: B's access vs the move-out, resp. vs `destroy`.
-/
open Facts
namespace WM
namespace Search

/-- events before the bound `n` of the execution is known -/
inductive RawEv where
  | r (i : Nat)
  | e (a : Nat)

def rawToEv (n : Nat) : RawEv → Option (Ev (Fin n))
  | .r i => some (.rmw i)
  | .e a => if h : a < n then some (.oth ⟨a, h⟩) else none

/-- a program run before closing: RMWs in modification order, events, program order and hand-over
edges, and the pairs of events that conflict (same location, one a write / the deallocation) -/
structure Skel where
  name : String
  ops : List Op
  ords : List MemOrd
  kinds : List AKind
  po : List (RawEv × RawEv)
  conflicts : List (Nat × Nat)

/-- synchronises-with, exactly as `Consistent.sw_load` and `Consistent.sw_rmw` dictate -/
def swEdges (nops : Nat) (ords : List MemOrd) (kinds : List AKind) : List (RawEv × RawEv) :=
  ((List.range kinds.length).flatMap fun a =>
    match (nthD (.access 0) kinds a).loadInfo with
    | some (o, some j) =>
      if o.isAcq then
        (List.range (j+1)).filterMap fun i => if (nthD .relaxed ords i).isRel then some (.r i, .e a) else none
      else []
    | _ => []) ++
  ((List.range nops).flatMap fun j =>
    if (nthD .relaxed ords j).isAcq then
      (List.range j).filterMap fun i => if (nthD .relaxed ords i).isRel then some (.r i, .r j) else none
    else [])

def Skel.toExec (s : Skel) : FinExec where
  n := s.kinds.length
  ops := s.ops
  ords := s.ords
  kinds := s.kinds
  pairs := closure ((s.po ++ swEdges s.ops.length s.ords s.kinds).filterMap fun p =>
    match rawToEv s.kinds.length p.1, rawToEv s.kinds.length p.2 with
    | some x, some y => some (x, y)
    | _, _ => none)

/-- a candidate race: an execution and two of its events -/
structure Witness where
  name : String
  F : FinExec
  a : Fin F.n
  b : Fin F.n

def Skel.cands (s : Skel) : List Witness :=
  let F := s.toExec
  s.conflicts.filterMap fun p =>
    if ha : p.1 < F.n then if hb : p.2 < F.n then some ⟨s.name, F, ⟨p.1, ha⟩, ⟨p.2, hb⟩⟩ else none else none

/-- the two events conflict: a payload access against the destruction, or against a payload access
through a different handle (one of them being the write granted by a gate / the move-out) -/
def conflictKinds : AKind → AKind → Bool
  | .access _, .destroy _ => true
  | .access h, .access h' => !(Nat.beq h h')
  | _, _ => false

/-- consistent, protocol-following, and the two events conflict and are unordered -/
def Witness.valid (decOrd : MemOrd) (fence : Option MemOrd) (w : Witness) : Bool :=
  -- `forcePairs l k = k l`: evaluate `closure …` once (matters for kernel evaluation only)
  forcePairs w.F.pairs fun ps =>
    let F : FinExec := ⟨w.F.n, w.F.ops, w.F.ords, w.F.kinds, ps⟩
    F.checkConsistent && F.checkRfInRange && F.checkProtocol decOrd fence && F.checkCoRW && F.checkViaBorn &&
    conflictKinds (F.kind w.a) (F.kind w.b) &&
    !(F.hbB (.oth w.a) (.oth w.b)) && !(F.hbB (.oth w.b) (.oth w.a))

/-! ## the templates -/

abbrev R (i : Nat) : RawEv := .r i
abbrev E (a : Nat) : RawEv := .e a

/-- what a load may read from: the initialising store or any of the RMWs -/
def rfChoices (nops : Nat) : List (Option Nat) := none :: (List.range nops).map some

/-- the destroyer's tail after its decrement `k`: the fence load (if any) and `destroy`.  `base` is
the index of the first new event.  Returns kinds, program-order edges, index of `destroy`. -/
def tail (k base : Nat) (fence : Option MemOrd) (rf : Option Nat) : List AKind × List (RawEv × RawEv) × Nat :=
  match fence with
  | some o => ([AKind.fenceLoad k o rf, AKind.destroy k], [(R k, E base), (E base, E (base+1))], base + 1)
  | none => ([AKind.destroy k], [(R k, E base)], base)

/-- P1.  Events: 0 = B's access through h1, 1 = A's access through h0, then the destroyer's tail. -/
def p1 (decOrd : MemOrd) (fence : Option MemOrd) : List Skel :=
  (match fence with | some _ => rfChoices 3 | none => [none]).flatMap fun rf =>
    let (tk, tpo, d) := tail 2 2 fence rf
    [ { name := "P1 clone/hand-over/read/drop; mo: dec h1 (B), dec h0 (A); A destroys"
        ops := [Op.inc 1 0, Op.dec 1, Op.dec 0]
        ords := [MemOrd.relaxed, decOrd, decOrd]
        kinds := [AKind.access 1, AKind.access 0] ++ tk
        po := [(R 0, E 0), (E 0, R 1), (R 0, E 1), (E 1, R 2)] ++ tpo
        conflicts := [(0, d), (1, d)] : Skel },
      { name := "P1 clone/hand-over/read/drop; mo: dec h0 (A), dec h1 (B); B destroys"
        ops := [Op.inc 1 0, Op.dec 0, Op.dec 1]
        ords := [MemOrd.relaxed, decOrd, decOrd]
        kinds := [AKind.access 1, AKind.access 0] ++ tk
        po := [(R 0, E 0), (E 0, R 2), (R 0, E 1), (E 1, R 1)] ++ tpo
        conflicts := [(0, d), (1, d)] : Skel } ]

/-- P2 (`consuming = false`) and the success branch of P3 (`consuming = true`).
Events: 0 = B's access through h1, 1 = A's gate load through h0, 2 = the granted write / move-out
(present iff the gate read the value 1). -/
def gateProg (name : String) (decOrd gateOrd : MemOrd) (keepFailed : Bool) : List Skel :=
  let ops := [Op.inc 1 0, Op.dec 1]
  (rfChoices 2).filterMap fun rf =>
    let granted := decide (valRead ops rf = 1)
    if granted || keepFailed then
      some { name := name
             ops := ops
             ords := [MemOrd.relaxed, decOrd]
             kinds := [AKind.access 1, AKind.load 0 gateOrd rf] ++ (if granted then [AKind.access 0] else [])
             po := [(R 0, E 0), (E 0, R 1), (R 0, E 1)] ++ (if granted then [(E 1, E 2)] else [])
             conflicts := if granted then [(0, 2)] else [] : Skel }
    else none

def p2 (decOrd gateOrd : MemOrd) : List Skel :=
  gateProg "P2 poll get_mut and write (write iff the gate read 1)" decOrd gateOrd true

/-- P3, failure branch: the gate did not read 1, A gets its handle back and drops it.
Events: 0 = B's access through h1, 1 = A's failed gate load through h0, then the destroyer's tail. -/
def p3err (decOrd : MemOrd) (fence : Option MemOrd) (gateOrd : MemOrd) : List Skel :=
  (rfChoices 3).flatMap fun rfG =>
  (match fence with | some _ => rfChoices 3 | none => [none]).flatMap fun rf =>
    let (tk, tpo, d) := tail 2 2 fence rf
    let opsBA := [Op.inc 1 0, Op.dec 1, Op.dec 0]
    let opsAB := [Op.inc 1 0, Op.dec 0, Op.dec 1]
    (if decide (valRead opsBA rfG = 1) then [] else
      [ { name := "P3 try_unwrap fails, then drop; mo: dec h1 (B), dec h0 (A); A destroys"
          ops := opsBA
          ords := [MemOrd.relaxed, decOrd, decOrd]
          kinds := [AKind.access 1, AKind.load 0 gateOrd rfG] ++ tk
          po := [(R 0, E 0), (E 0, R 1), (R 0, E 1), (E 1, R 2)] ++ tpo
          conflicts := [(0, d)] : Skel } ]) ++
    (if decide (valRead opsAB rfG = 1) then [] else
      [ { name := "P3 try_unwrap fails, then drop; mo: dec h0 (A), dec h1 (B); B destroys"
          ops := opsAB
          ords := [MemOrd.relaxed, decOrd, decOrd]
          kinds := [AKind.access 1, AKind.load 0 gateOrd rfG] ++ tk
          po := [(R 0, E 0), (E 0, R 2), (R 0, E 1), (E 1, R 1)] ++ tpo
          conflicts := [(0, d)] : Skel } ])

def p3 (decOrd : MemOrd) (fence : Option MemOrd) (gateOrd : MemOrd) : List Skel :=
  gateProg "P3 try_unwrap succeeds: value moved out, h0 never released" decOrd gateOrd false ++
  p3err decOrd fence gateOrd

/-- every run of every template -/
def programs (decOrd : MemOrd) (fence : Option MemOrd) (gateOrd : MemOrd) : List Skel :=
  p1 decOrd fence ++ p2 decOrd gateOrd ++ p3 decOrd fence gateOrd

/-- every (execution, conflicting pair) of the family, before any filtering -/
def candidates (decOrd : MemOrd) (fence : Option MemOrd) (gateOrd : MemOrd) : List Witness :=
  (programs decOrd fence gateOrd).flatMap Skel.cands

/-- consistent protocol-following executions of the template family that contain a data race -/
def raceWitnesses (decOrd : MemOrd) (fence : Option MemOrd) (gateOrd : MemOrd) : List Witness :=
  (candidates decOrd fence gateOrd).filter (Witness.valid decOrd fence)

/-- how many executions of the family are consistent and follow the protocol (sanity: the search is
not empty-handed because everything was filtered out) -/
def admitted (decOrd : MemOrd) (fence : Option MemOrd) (gateOrd : MemOrd) : Nat :=
  ((programs decOrd fence gateOrd).filter fun s =>
    let F := s.toExec
    F.checkConsistent && F.checkRfInRange && F.checkProtocol decOrd fence && F.checkCoRW && F.checkViaBorn).length

/-- **a reported witness is a proved race**: a consistent, protocol-following execution with two
conflicting events that happens-before does not order. -/
theorem raceWitnesses_sound {decOrd : MemOrd} {fence : Option MemOrd} {gateOrd : MemOrd} {w : Witness}
    (h : w ∈ raceWitnesses decOrd fence gateOrd) :
    Consistent w.F.toExec ∧ ConsistentPrim w.F.toExec ∧ Protocol w.F.toExec decOrd fence ∧ CoRW w.F.toExec ∧ ViaBorn w.F.toExec ∧
    conflictKinds (w.F.toExec.kind w.a) (w.F.toExec.kind w.b) = true ∧
    ¬ w.F.toExec.hb (.oth w.a) (.oth w.b) ∧ ¬ w.F.toExec.hb (.oth w.b) (.oth w.a) := by
  have hv := (List.mem_filter.1 h).2
  simp only [Witness.valid, forcePairs_eq, Bool.and_eq_true, Bool.not_eq_true'] at hv
  obtain ⟨⟨⟨⟨⟨⟨⟨h1, hr⟩, h2⟩, h3⟩, h4⟩, h5⟩, h6⟩, h7⟩ := hv
  exact ⟨FinExec.checkConsistent_sound h1, FinExec.checkConsistentPrim_sound h1 hr, FinExec.checkProtocol_sound h2, FinExec.checkCoRW_sound h3,
    FinExec.checkViaBorn_sound h4, h5, FinExec.not_hb_of_hbB h6, FinExec.not_hb_of_hbB h7⟩

/-! ## rendering -/

def showOrd : MemOrd → String
  | .relaxed => "relaxed" | .acquire => "acquire" | .release => "release"
  | .acqrel => "acqrel" | .seqcst => "seqcst" | .unknown => "unknown"

def parseOrd : String → Option MemOrd
  | "relaxed" => some .relaxed | "acquire" => some .acquire | "release" => some .release
  | "acqrel" => some .acqrel | "seqcst" => some .seqcst | "unknown" => some .unknown
  | _ => none

def showOp : Op → String
  | .inc c s => s!"inc(h{c} cloned from h{s})"
  | .dec h => s!"dec(h{h})"

def showRf : Option Nat → String
  | none => "init"
  | some j => s!"rmw{j}"

def showKind : AKind → String
  | .load h o rf => s!"load via h{h} {showOrd o} rf={showRf rf}"
  | .access h => s!"access via h{h}"
  | .fenceLoad k o rf => s!"fenceLoad after rmw{k} {showOrd o} rf={showRf rf}"
  | .destroy k => s!"destroy after rmw{k}"

def showEv {n : Nat} : Ev (Fin n) → String
  | .rmw i => s!"rmw{i}"
  | .oth a => s!"e{a.val}"

def renderExec (F : FinExec) : List String :=
  ["  ops (modification order):"] ++
  (indexed F.ops 0).map (fun io => s!"    rmw{io.1} = {showOp io.2} [{showOrd (F.ordR io.1)}]") ++
  ["  events:"] ++
  (List.range F.n).map (fun a => s!"    e{a} = {showKind (nthD (.access 0) F.kinds a)}") ++
  ["  hb: " ++ " ".intercalate (F.pairs.map fun p => s!"{showEv p.1}<{showEv p.2}")]

def Witness.render (w : Witness) : List String :=
  [s!"witness: {w.name}"] ++ renderExec w.F ++
  [s!"  race: e{w.a.val} ({showKind (w.F.kind w.a)}) || e{w.b.val} ({showKind (w.F.kind w.b)}): unordered by hb"]

def report (decOrd : MemOrd) (fence : Option MemOrd) (gateOrd : MemOrd) : List String :=
  let ws := raceWitnesses decOrd fence gateOrd
  s!"witnesses={ws.length}" :: ws.flatMap Witness.render

/-! ## tests over the template family -/

-- the orderings of the crate: no race in any run of any template (a test over the template family,
-- not a theorem about all executions — see the module docstring) …
#guard (raceWitnesses .release (some .acquire) .acquire).length == 0
#guard (raceWitnesses .acqrel none .acquire).length == 0
#guard (raceWitnesses .seqcst (some .seqcst) .seqcst).length == 0
-- … although plenty of runs are admitted (the filter does not reject everything)
#guard admitted .release (some .acquire) .acquire ≥ 6
-- weakening any one of the three orderings yields a race
#guard (raceWitnesses .relaxed (some .acquire) .acquire).length > 0
#guard (raceWitnesses .release none .acquire).length > 0
#guard (raceWitnesses .release (some .relaxed) .acquire).length > 0
#guard (raceWitnesses .release (some .acquire) .relaxed).length > 0
-- an Acquire-only decrement (no release) races as well
#guard (raceWitnesses .acquire (some .acquire) .acquire).length > 0

end Search
end WM

#print axioms WM.Search.raceWitnesses_sound
