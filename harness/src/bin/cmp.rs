//! C14 correspondence harness: comparison, ordering, hashing and formatting of every handle kind of
//! the real crate, behind the line protocol of the Lean driver `drv_cmp` (see
//! `lean/TriompheModel/Driver/Cmp.lean`).
//!
//! For every query the answer line carries several `#`-separated sections:
//!   `R|..`  the 11 observers evaluated on the HANDLES (what the model predicts),
//!   `V|..`  the same observers evaluated directly on the VALUES the handles hold (`&*a`, `&*b`),
//!   `S|..`  for header-slice kinds: the observers on the plain tuple (header, slice[, length]),
//!   `XH|..`/`XV|..` extra formatter-flag observations on handle / value (`{:>7}`, `{:#?}`),
//!   `LH|..`/`LV|..` for the scripted payload: which payload methods each observer called.
//! Every single observer call runs under `catch_unwind`.
#![allow(unused_mut, unused_variables)]
use std::cell::RefCell;
use std::cmp::Ordering;
use std::collections::{BTreeMap, HashMap};
use std::fmt;
use std::hash::{Hash, Hasher};
use std::io::{BufRead, Write};
use std::panic::{catch_unwind, AssertUnwindSafe};

use triomphe::{Arc, ArcUnion, HeaderSlice, HeaderWithLength, ThinArc};

// ------------------------------------------------------------------------------------------------
// the scripted payload: every trait method answers from its own table and logs the call

#[derive(Default, Clone)]
struct Tables {
    n: usize,
    eq: Vec<bool>,
    ne: Vec<bool>,
    lt: Vec<bool>,
    le: Vec<bool>,
    gt: Vec<bool>,
    ge: Vec<bool>,
    pc: Vec<Option<Ordering>>,
    cm: Vec<Ordering>,
    hs: Vec<Vec<u8>>,
    db: Vec<String>,
    dp: Vec<String>,
}
thread_local! {
    static TAB: RefCell<Tables> = RefCell::new(Tables::default());
    static LOG: RefCell<Vec<String>> = const { RefCell::new(Vec::new()) };
}
fn log2(m: &str, a: &S, b: &S) { LOG.with(|l| l.borrow_mut().push(format!("{}({},{})", m, a.0, b.0))) }
fn log1(m: &str, a: &S) { LOG.with(|l| l.borrow_mut().push(format!("{}({})", m, a.0))) }
fn idx(a: &S, b: &S) -> usize { TAB.with(|t| t.borrow().n * a.0 as usize + b.0 as usize) }

#[derive(Clone, Copy)]
struct S(u8);
impl PartialEq for S {
    fn eq(&self, o: &S) -> bool { log2("eq", self, o); let i = idx(self, o); TAB.with(|t| t.borrow().eq.get(i).copied().unwrap_or(false)) }
    #[allow(clippy::partialeq_ne_impl)]
    fn ne(&self, o: &S) -> bool { log2("ne", self, o); let i = idx(self, o); TAB.with(|t| t.borrow().ne.get(i).copied().unwrap_or(false)) }
}
impl Eq for S {}
impl PartialOrd for S {
    fn partial_cmp(&self, o: &S) -> Option<Ordering> { log2("pc", self, o); let i = idx(self, o); TAB.with(|t| t.borrow().pc.get(i).copied().unwrap_or(None)) }
    fn lt(&self, o: &S) -> bool { log2("lt", self, o); let i = idx(self, o); TAB.with(|t| t.borrow().lt.get(i).copied().unwrap_or(false)) }
    fn le(&self, o: &S) -> bool { log2("le", self, o); let i = idx(self, o); TAB.with(|t| t.borrow().le.get(i).copied().unwrap_or(false)) }
    fn gt(&self, o: &S) -> bool { log2("gt", self, o); let i = idx(self, o); TAB.with(|t| t.borrow().gt.get(i).copied().unwrap_or(false)) }
    fn ge(&self, o: &S) -> bool { log2("ge", self, o); let i = idx(self, o); TAB.with(|t| t.borrow().ge.get(i).copied().unwrap_or(false)) }
}
impl Ord for S {
    fn cmp(&self, o: &S) -> Ordering { log2("cm", self, o); let i = idx(self, o); TAB.with(|t| t.borrow().cm.get(i).copied().unwrap_or(Ordering::Equal)) }
}
impl Hash for S {
    fn hash<H: Hasher>(&self, st: &mut H) {
        log1("hs", self);
        let bytes = TAB.with(|t| t.borrow().hs.get(self.0 as usize).cloned().unwrap_or_default());
        for b in bytes { st.write_u8(b); }
    }
}
impl fmt::Debug for S {
    fn fmt(&self, f: &mut fmt::Formatter) -> fmt::Result {
        log1("db", self);
        let s = TAB.with(|t| t.borrow().db.get(self.0 as usize).cloned().unwrap_or_default());
        f.pad(&s)
    }
}
impl fmt::Display for S {
    fn fmt(&self, f: &mut fmt::Formatter) -> fmt::Result {
        log1("dp", self);
        let s = TAB.with(|t| t.borrow().dp.get(self.0 as usize).cloned().unwrap_or_default());
        f.pad(&s)
    }
}

// ------------------------------------------------------------------------------------------------
// a hasher that records the write stream, call by call

#[derive(Default)]
struct RecHasher { calls: Vec<Vec<u8>> }
impl Hasher for RecHasher {
    fn finish(&self) -> u64 { 0 }
    fn write(&mut self, bytes: &[u8]) { self.calls.push(bytes.to_vec()); }
}
fn hex(b: &[u8]) -> String { b.iter().map(|x| format!("{:02x}", x)).collect() }
fn hash_of<T: Hash + ?Sized>(x: &T) -> String {
    let mut h = RecHasher::default();
    x.hash(&mut h);
    if h.calls.iter().all(|c| c.is_empty()) { return "_".to_string(); }
    h.calls.iter().map(|c| hex(c)).collect::<Vec<_>>().join(".")
}

// ------------------------------------------------------------------------------------------------
// observations

const NAMES: [&str; 14] = ["eq", "ne", "lt", "le", "gt", "ge", "pc", "cm", "ha", "hb", "da", "db", "pa", "pb"];
struct Obs { f: Vec<Option<(String, String)>>, xw: Option<(String, String)>, xd: Option<(String, String)> }
impl Obs {
    fn new() -> Self { Obs { f: vec![None; 14], xw: None, xd: None } }
    fn line(&self, tag: &str) -> String {
        let mut s = String::from(tag);
        for (i, n) in NAMES.iter().enumerate() {
            s.push('|'); s.push_str(n); s.push('=');
            match &self.f[i] { Some((v, _)) => s.push_str(v), None => s.push('-') }
        }
        s
    }
    fn logs(&self, tag: &str) -> String {
        let mut s = String::from(tag);
        for (i, n) in NAMES.iter().enumerate() {
            s.push('|'); s.push_str(n); s.push('=');
            match &self.f[i] { Some((_, l)) => s.push_str(l), None => s.push('-') }
        }
        s
    }
    fn extras(&self, tag: &str) -> String {
        let g = |o: &Option<(String, String)>| o.as_ref().map(|x| x.0.clone()).unwrap_or_else(|| "-".into());
        format!("{}|xw={}|xd={}", tag, g(&self.xw), g(&self.xd))
    }
}
fn run(f: impl FnOnce() -> String) -> Option<(String, String)> {
    LOG.with(|l| l.borrow_mut().clear());
    let r = catch_unwind(AssertUnwindSafe(f)).unwrap_or_else(|_| "!panic".to_string());
    let l = LOG.with(|l| l.borrow().join(";"));
    Some((r.replace('\n', "~").replace('|', "!bar"), l))
}
fn fb(b: bool) -> String { if b { "1".into() } else { "0".into() } }
fn fo(o: Option<Ordering>) -> String {
    match o { None => "N", Some(Ordering::Less) => "L", Some(Ordering::Equal) => "E", Some(Ordering::Greater) => "G" }.into()
}

/// `obs!(&x, &y; E O C H D P W A)`: evaluate the listed observer groups on the pair through the
/// trait methods themselves (fully qualified: no auto-deref can pick another impl).
/// E = eq ne, O = lt le gt ge partial_cmp, C = cmp, H = hash, D = Debug, P = Display,
/// W = Display with width/alignment flags, A = alternate Debug.
macro_rules! obs {
    ($a:expr, $b:expr; $($g:ident)*) => {{
        let mut o = Obs::new();
        let (a, b) = ($a, $b);
        $( obs!(@$g o, a, b); )*
        o
    }};
    (@E $o:ident, $a:ident, $b:ident) => {
        $o.f[0] = run(|| fb(PartialEq::eq($a, $b)));
        $o.f[1] = run(|| fb(PartialEq::ne($a, $b)));
    };
    (@O $o:ident, $a:ident, $b:ident) => {
        $o.f[2] = run(|| fb(PartialOrd::lt($a, $b)));
        $o.f[3] = run(|| fb(PartialOrd::le($a, $b)));
        $o.f[4] = run(|| fb(PartialOrd::gt($a, $b)));
        $o.f[5] = run(|| fb(PartialOrd::ge($a, $b)));
        $o.f[6] = run(|| fo(PartialOrd::partial_cmp($a, $b)));
    };
    (@C $o:ident, $a:ident, $b:ident) => {
        $o.f[7] = run(|| fo(Some(Ord::cmp($a, $b))));
    };
    (@H $o:ident, $a:ident, $b:ident) => {
        $o.f[8] = run(|| hash_of($a));
        $o.f[9] = run(|| hash_of($b));
    };
    (@D $o:ident, $a:ident, $b:ident) => {
        $o.f[10] = run(|| format!("{:?}", $a));
        $o.f[11] = run(|| format!("{:?}", $b));
    };
    (@P $o:ident, $a:ident, $b:ident) => {
        $o.f[12] = run(|| format!("{}", $a));
        $o.f[13] = run(|| format!("{}", $b));
    };
    (@W $o:ident, $a:ident, $b:ident) => {
        $o.xw = run(|| format!("{:>7}/{:<6}/{:^5}", $a, $b, $a));
    };
    (@A $o:ident, $a:ident, $b:ident) => {
        $o.xd = run(|| format!("{:#?}/{:>9?}", $a, $b));
    };
}

struct Val<T> { h: T, s: Vec<T>, len: usize }

fn parse_val<T: Copy>(pe: &dyn Fn(&str) -> Option<T>, s: &str) -> Option<Val<T>> {
    let parts: Vec<&str> = s.split(':').collect();
    match parts.len() {
        1 => Some(Val { h: pe(parts[0])?, s: vec![], len: 0 }),
        3 => {
            let h = pe(parts[0])?;
            let xs: Vec<T> = if parts[1] == "_" { vec![] } else { parts[1].split(',').map(pe).collect::<Option<Vec<T>>>()? };
            let len = if parts[2] == "=" { xs.len() } else { parts[2].parse().ok()? };
            Some(Val { h, s: xs, len })
        }
        _ => None,
    }
}

struct Ans { h: Obs, v: Option<Obs>, s: Option<Obs> }

/// One query function per payload type; `$x` are the observer groups the payload type has beyond
/// PartialEq/PartialOrd/Debug/Display (C = Ord, H = Hash).
macro_rules! gen_query {
    ($fname:ident, $T:ty, [$($x:ident)*]) => {
        fn $fname(kind: &str, same: bool, a: &Val<$T>, b: &Val<$T>) -> Option<Ans> {
            let b = if same { a } else { b };
            Some(match kind {
                "arc" => {
                    let x = Arc::new(a.h);
                    let y = if same { x.clone() } else { Arc::new(b.h) };
                    Ans { h: obs!(&x, &y; E O $($x)* D P W A), v: Some(obs!(&a.h, &b.h; E O $($x)* D P W A)), s: None }
                }
                "offset" => {
                    let x = Arc::into_raw_offset(Arc::new(a.h));
                    let y = if same { x.clone() } else { Arc::into_raw_offset(Arc::new(b.h)) };
                    Ans { h: obs!(&x, &y; E D A), v: Some(obs!(&a.h, &b.h; E D A)), s: None }
                }
                "borrow" => {
                    let x = Arc::new(a.h);
                    let y = if same { x.clone() } else { Arc::new(b.h) };
                    let (bx, by) = (x.borrow_arc(), y.borrow_arc());
                    Ans { h: obs!(&bx, &by; E D A), v: Some(obs!(&a.h, &b.h; E D A)), s: None }
                }
                "u11" | "u12" | "u21" | "u22" => {
                    let mk = |first: bool, v: $T| -> ArcUnion<$T, $T> {
                        if first { ArcUnion::from_first(Arc::new(v)) } else { ArcUnion::from_second(Arc::new(v)) }
                    };
                    let (fa, fb_) = (&kind[1..2] == "1", &kind[2..3] == "1");
                    if same && fa != fb_ { return None; }
                    let x = mk(fa, a.h);
                    let y = if same { x.clone() } else { mk(fb_, b.h) };
                    Ans { h: obs!(&x, &y; E D), v: if fa == fb_ { Some(obs!(&a.h, &b.h; E D)) } else { Some(obs!(&a.h, &b.h; D)) }, s: None }
                }
                "thin" => {
                    let x = ThinArc::from_header_and_slice(a.h, &a.s);
                    let y = if same { x.clone() } else { ThinArc::from_header_and_slice(b.h, &b.s) };
                    let (ta, tb) = ((&a.h, &a.s[..]), (&b.h, &b.s[..]));
                    Ans { h: obs!(&x, &y; E O $($x)* D A), v: Some(obs!(&*x, &*y; E O $($x)* D A)), s: Some(obs!(&ta, &tb; E O $($x)*)) }
                }
                "prot" => {
                    let x = Arc::protected_from_thin(ThinArc::from_header_and_slice(a.h, &a.s));
                    let y = if same { x.clone() } else { Arc::protected_from_thin(ThinArc::from_header_and_slice(b.h, &b.s)) };
                    let (ta, tb) = ((&a.h, &a.s[..]), (&b.h, &b.s[..]));
                    Ans { h: obs!(&x, &y; E O $($x)* D A), v: Some(obs!(&*x, &*y; E O $($x)* D A)), s: Some(obs!(&ta, &tb; E O $($x)*)) }
                }
                "hs" => {
                    let x: Arc<HeaderSlice<$T, [$T]>> = Arc::from_header_and_slice(a.h, &a.s);
                    let y = if same { x.clone() } else { Arc::from_header_and_slice(b.h, &b.s) };
                    let (ta, tb) = ((&a.h, &a.s[..]), (&b.h, &b.s[..]));
                    Ans { h: obs!(&x, &y; E O $($x)* D A), v: Some(obs!(&*x, &*y; E O $($x)* D A)), s: Some(obs!(&ta, &tb; E O $($x)*)) }
                }
                "hswl" => {
                    // publicly constructible with ANY recorded length
                    let x: Arc<HeaderSlice<HeaderWithLength<$T>, [$T]>> =
                        Arc::from_header_and_slice(HeaderWithLength::new(a.h, a.len), &a.s);
                    let y = if same { x.clone() } else { Arc::from_header_and_slice(HeaderWithLength::new(b.h, b.len), &b.s) };
                    // spec: ordering (header, slice, recorded length); hash stream in field order
                    // (header, recorded length, slice)
                    let (ta, tb) = ((&a.h, &a.s[..], &a.len), (&b.h, &b.s[..], &b.len));
                    let (ha, hb) = ((&a.h, &a.len, &a.s[..]), (&b.h, &b.len, &b.s[..]));
                    let mut s = obs!(&ta, &tb; E O $($x)*);
                    let hs_ = obs!(&ha, &hb; $($x)*);
                    s.f[8] = hs_.f[8].clone();
                    s.f[9] = hs_.f[9].clone();
                    Ans { h: obs!(&x, &y; E O $($x)* D A), v: Some(obs!(&*x, &*y; E O $($x)* D A)), s: Some(s) }
                }
                "slice" => {
                    let x: Arc<[$T]> = Arc::from(a.s.clone());
                    let y = if same { x.clone() } else { Arc::from(b.s.clone()) };
                    Ans { h: obs!(&x, &y; E O $($x)* D A), v: Some(obs!(&a.s[..], &b.s[..]; E O $($x)* D A)), s: None }
                }
                _ => return None,
            })
        }
    };
}
gen_query!(q_int, i32, [C H]);
gen_query!(q_flt, f32, []);
gen_query!(q_tab, S, [C H]);

fn pe_int(s: &str) -> Option<i32> { s.parse().ok() }
fn pe_flt(s: &str) -> Option<f32> {
    match s { "nan" => Some(f32::NAN), "nz" => Some(-0.0), _ => s.parse::<i32>().ok().map(|k| k as f32 / 2.0) }
}
fn pe_tab(s: &str) -> Option<S> { s.parse::<u8>().ok().map(S) }

fn render(ans: Ans, logs: bool) -> String {
    let mut out = ans.h.line("R");
    if let Some(v) = &ans.v { out.push_str(" # "); out.push_str(&v.line("V")); }
    if let Some(s) = &ans.s { out.push_str(" # "); out.push_str(&s.line("S")); }
    out.push_str(" # "); out.push_str(&ans.h.extras("XH"));
    if let Some(v) = &ans.v { out.push_str(" # "); out.push_str(&v.extras("XV")); }
    if logs {
        out.push_str(" # "); out.push_str(&ans.h.logs("LH"));
        if let Some(v) = &ans.v { out.push_str(" # "); out.push_str(&v.logs("LV")); }
    }
    out
}

fn do_q(t: &[&str]) -> Option<String> {
    let (kind, alloc, dom, a, b) = (t[1], t[2], t[3], t[4], t[5]);
    let same = match alloc { "same" => true, "dist" => false, _ => return None };
    match dom {
        "int" => Some(render(q_int(kind, same, &parse_val(&pe_int, a)?, &parse_val(&pe_int, b)?)?, false)),
        "flt" => Some(render(q_flt(kind, same, &parse_val(&pe_flt, a)?, &parse_val(&pe_flt, b)?)?, false)),
        "tab" => Some(render(q_tab(kind, same, &parse_val(&pe_tab, a)?, &parse_val(&pe_tab, b)?)?, true)),
        _ => None,
    }
}

fn parse_tables(toks: &[&str]) -> Tables {
    let mut t = Tables::default();
    let bits = |v: &str| v.chars().map(|c| c == '1').collect::<Vec<bool>>();
    for tok in toks {
        let Some((k, v)) = tok.split_once('=') else { continue };
        match k {
            "eq" => t.eq = bits(v), "ne" => t.ne = bits(v), "lt" => t.lt = bits(v),
            "le" => t.le = bits(v), "gt" => t.gt = bits(v), "ge" => t.ge = bits(v),
            "pc" => t.pc = v.chars().map(|c| match c { 'L' => Some(Ordering::Less), 'E' => Some(Ordering::Equal), 'G' => Some(Ordering::Greater), _ => None }).collect(),
            "cm" => t.cm = v.chars().map(|c| match c { 'L' => Ordering::Less, 'G' => Ordering::Greater, _ => Ordering::Equal }).collect(),
            "hs" => {
                t.hs = v.split('/').map(|e| if e == "_" { vec![] } else {
                    (0..e.len() / 2).map(|i| u8::from_str_radix(&e[2 * i..2 * i + 2], 16).unwrap_or(0)).collect() }).collect();
                t.n = t.hs.len();
            }
            "db" => t.db = v.split('/').map(String::from).collect(),
            "dp" => t.dp = v.split('/').map(String::from).collect(),
            _ => {}
        }
    }
    t
}

fn opt(v: Option<&usize>) -> String { v.map(|x| x.to_string()).unwrap_or_else(|| "-".into()) }

/// `M int <arc|hs> keys.. ? probes..`: HashMap / BTreeMap keyed by `Arc<T>`, probed with `&T` (Borrow)
fn do_m(t: &[&str]) -> Option<String> {
    if t[1] != "int" { return None; }
    let q = t.iter().position(|x| *x == "?")?;
    let keys: Vec<Val<i32>> = t[3..q].iter().map(|s| parse_val(&pe_int, s)).collect::<Option<_>>()?;
    let probes: Vec<Val<i32>> = t[q + 1..].iter().map(|s| parse_val(&pe_int, s)).collect::<Option<_>>()?;
    let (mut hres, mut bres) = (vec![], vec![]);
    let (mut br, mut ar) = (true, true);
    match t[2] {
        "arc" => {
            let mut hm: HashMap<Arc<i32>, usize> = HashMap::new();
            let mut bt: BTreeMap<Arc<i32>, usize> = BTreeMap::new();
            for (i, k) in keys.iter().enumerate() {
                let a = Arc::new(k.h);
                br &= std::ptr::eq(std::borrow::Borrow::<i32>::borrow(&a), &*a);
                ar &= std::ptr::eq(AsRef::<i32>::as_ref(&a), &*a);
                hm.insert(a, i);
                bt.insert(Arc::new(k.h), i);
            }
            for p in &probes {
                let pv: i32 = p.h;
                hres.push(catch_unwind(AssertUnwindSafe(|| opt(hm.get(&pv)))).unwrap_or_else(|_| "!panic".into()));
                bres.push(catch_unwind(AssertUnwindSafe(|| opt(bt.get(&pv)))).unwrap_or_else(|_| "!panic".into()));
            }
        }
        "hs" => {
            type K = HeaderSlice<i32, [i32]>;
            let mut hm: HashMap<Arc<K>, usize> = HashMap::new();
            let mut bt: BTreeMap<Arc<K>, usize> = BTreeMap::new();
            for (i, k) in keys.iter().enumerate() {
                let a: Arc<K> = Arc::from_header_and_slice(k.h, &k.s);
                br &= std::ptr::eq(std::borrow::Borrow::<K>::borrow(&a), &*a);
                ar &= std::ptr::eq(AsRef::<K>::as_ref(&a), &*a);
                hm.insert(a, i);
                bt.insert(Arc::from_header_and_slice(k.h, &k.s), i);
            }
            for p in &probes {
                // a plain `&HeaderSlice<i32, [i32]>` (the type is unsized, so it has to live somewhere:
                // in a separate allocation that is not a key of the map)
                let pv: Arc<K> = Arc::from_header_and_slice(p.h, &p.s);
                let r: &K = &pv;
                hres.push(catch_unwind(AssertUnwindSafe(|| opt(hm.get(r)))).unwrap_or_else(|_| "!panic".into()));
                bres.push(catch_unwind(AssertUnwindSafe(|| opt(bt.get(r)))).unwrap_or_else(|_| "!panic".into()));
            }
        }
        _ => return None,
    }
    Some(format!("M|h={}|b={}|br={}|ar={}", hres.join(","), bres.join(","), br as u8, ar as u8))
}

fn main() {
    harness::quiet_panics();
    let stdin = std::io::stdin();
    let stdout = std::io::stdout();
    let mut out = std::io::BufWriter::new(stdout.lock());
    for line in stdin.lock().lines() {
        let Ok(line) = line else { break };
        let t: Vec<&str> = line.trim().split(' ').collect();
        let ans = match t[0] {
            "C" => Some("ok".to_string()),
            "T" => { let nt = parse_tables(&t[1..]); TAB.with(|x| *x.borrow_mut() = nt); Some("ok".to_string()) }
            "Q" if t.len() == 6 => catch_unwind(AssertUnwindSafe(|| do_q(&t))).unwrap_or_else(|_| Some("!panic-outside-observer".into())),
            "M" if t.len() >= 4 => catch_unwind(AssertUnwindSafe(|| do_m(&t))).unwrap_or_else(|_| Some("!panic-outside-observer".into())),
            _ => None,
        };
        writeln!(out, "{}", ans.unwrap_or_else(|| "bad".to_string())).unwrap();
    }
    out.flush().unwrap();
}
