//! C08 (single thread, for Miri's uninitialised-memory / provenance checks): `OffsetArc::make_mut` and
//! `Arc::make_mut` on OVER-ALIGNED payloads, where the count is NOT the word in front of the data (the
//! padding between them is never written: the value is built in place with `UniqueArc::new_uninit` + `write`).
//! Shared: the writer must move to a fresh copy and the other handles keep the old value.  Sole owner: in place.
use litmus::*;
use triomphe::{Arc, OffsetArc, UniqueArc};

#[derive(Clone, Debug, PartialEq)]
#[repr(align(64))]
struct Wide(u64);

#[derive(Clone, Debug, PartialEq)]
#[repr(align(16))]
struct Mid(u32);

fn build<T>(v: T) -> Arc<T> {
    let mut u = UniqueArc::<T>::new_uninit();
    u.write(v);
    unsafe { UniqueArc::assume_init(u) }.shareable()
}

fn main() {
    let mut t = Tally::new();
    for r in 0..rounds(3) as u64 {
        // shared OffsetArc<Wide>
        let a = build(Wide(r));
        let keep = a.clone();
        let mut o: OffsetArc<Wide> = Arc::into_raw_offset(a);
        OffsetArc::make_mut(&mut o).0 = r + 100;
        check(keep.0 == r && o.0 == r + 100, "a write through OffsetArc::make_mut is seen through another handle (or lost)");
        check(Arc::count(&keep) == 1 && OffsetArc::strong_count(&o) == 1, "counts after the copy-on-write are not 1 / 1");
        // sole owner: in place
        let before = &*o as *const Wide as usize;
        OffsetArc::make_mut(&mut o).0 = r + 200;
        check(&*o as *const Wide as usize == before && o.0 == r + 200, "sole owner did not keep its allocation");
        drop(o);
        drop(keep);
        // the same through Arc::make_mut / make_unique on a 16-aligned payload
        let mut m = build(Mid(r as u32));
        let other = m.clone();
        Arc::make_mut(&mut m).0 = 7;
        check(other.0 == r as u32 && m.0 == 7 && Arc::count(&other) == 1, "Arc::make_mut on a shared over-aligned payload");
        let mut n = other.clone();
        Arc::make_unique(&mut n).0 = 9;
        check(other.0 == r as u32 && n.0 == 9, "Arc::make_unique on a shared over-aligned payload");
    }
    t.shared(1);
    println!("LITMUS threads=1 destroyed=1");
    std::mem::forget(t);
}
