//! C09: T1 calls `Arc::unwrap_or_clone` while T2 reads and drops its handle: T1 ends up with the
//! value itself (no clone) or with a clone (and releases one owner); either way every value that
//! ever existed is destroyed exactly once and T1's value is intact and private.
use litmus::*;
use triomphe::Arc;

fn main() {
    let mut t = Tally::new();
    for r in 0..rounds(6) {
        let tag = 700 + r as u64;
        let a = Arc::new(Payload::new(tag));
        t.shared(2);
        let b = a.clone();
        let c0 = clones();
        std::thread::scope(|s| {
            s.spawn(move || {
                b.read_expect(tag);
                let b2 = b.clone();
                drop(b);
                b2.read_expect(tag);
                drop(b2);
            });
            if r % 2 == 1 {
                // give the other owner a chance to go away first, without synchronising
                let mut polls = 0u32;
                while Arc::strong_count(&a) != 1 && polls < 50 {
                    polls += 1;
                    spin();
                }
            }
            let mut v: Payload = Arc::unwrap_or_clone(a);
            v.read_expect(tag);
            v.rewrite(tag + 500);
            v.read_expect(tag + 500);
            drop(v);
        });
        let cloned = clones() - c0;
        check(cloned <= 1, "unwrap_or_clone cloned more than once");
        t.extra_values(cloned);
    }
    t.finish();
}
