import TriompheModel.Model.Ops
/-!
# Helper lemmas for C06 / C07 (constructors, M3)

Everything here is about the *frozen* definitions of `Model/Ops.lean`:
`runCtor`, `fillLoop`, `fromHeaderAndIterCore`, `collectAll`, `runIterCtor`, and the primitives
`allocBlock`, `Mem.upd`, `decr`, `payloadDrops`, `Arc.drop`, `Arc.into_thin` they use.

The central result is `runIterCtor_spec`: for EVERY memory, header, script (any `lens`, any `hints`,
any `panicAt`), profile flag and constructor, the result of `runIterCtor` has one of five explicit
shapes (`IterOut`).  The property theorems of `Props/C06.lean` and `Props/C07Iter.lean` are read off
that characterisation.
-/
namespace M1
open LY

/-! ## vocabulary used in the statements -/

/-- the `.drop` events of a list of values, in order -/
def dropsOf (vs : List Item) : List Event := vs.map fun v => Event.drop v.id

/-- the `.drop` event of an optional header -/
def hdrDrops (h : Option Item) : List Event :=
  match h with
  | some x => [Event.drop x.id]
  | none => []

/-- the events a transition added to the log -/
def added (m m' : Mem) : List Event := m'.log.drop m.log.length

def Event.dropId? : Event → Option Nat
  | .drop i => some i
  | _ => none

/-- identities destroyed by a list of events, in order, with multiplicity -/
def dropIds (es : List Event) : List Nat := es.filterMap Event.dropId?

def Event.isDropUninit : Event → Bool
  | .dropUninit _ _ => true
  | _ => false

def Event.isDrop : Event → Bool
  | .drop _ => true
  | _ => false

def CtorRes.mem : CtorRes → Mem
  | .built m _ => m
  | .panicked m _ => m

def CtorRes.handle? : CtorRes → Option HV
  | .built _ h => some h
  | .panicked _ _ => none

/-! ### static data of the plain constructors -/

/-- the constructors that take values (as opposed to the `new_uninit*` family) -/
def Ctor.takesValues : Ctor → Bool
  | .new _ | .newB _ | .fromBox _ | .uniqueNew _ | .fromVec _ | .hsFromVec _ _ | .hwlFromVec _ _ _ => true
  | _ => false

/-- the header handed to the constructor (`none` where the type has none) -/
def Ctor.hdr : Ctor → Option Item
  | .hsFromVec h _ | .hwlFromVec h _ _ | .hsUninit h _ => some h
  | _ => none

/-- the element values handed to the constructor, in order -/
def Ctor.vals : Ctor → List Item
  | .new v | .newB v | .fromBox v | .uniqueNew v => [v]
  | .fromVec vs | .hsFromVec _ vs | .hwlFromVec _ _ vs => vs
  | _ => []

/-- the length word written into the block -/
def Ctor.recLen : Ctor → Option Nat
  | .hwlFromVec _ r _ => some r
  | _ => none

/-- does the resulting handle carry a slice length? -/
def Ctor.isSlice : Ctor → Bool
  | .fromVec _ | .hsFromVec _ _ | .hwlFromVec _ _ _
  | .newUninitSlice _ | .uniqueNewUninitSlice _ | .hsUninit _ _ => true
  | _ => false

/-- number of (unwritten) slots of an uninit constructor -/
def Ctor.slots : Ctor → Nat
  | .newUninit | .uniqueNewUninit => 1
  | .newUninitSlice n | .uniqueNewUninitSlice n | .hsUninit _ n => n
  | _ => 0

/-! ### static data of the iterator-driven constructors -/

/-- header layout the constructor allocates for -/
def IterCtor.hdrLay : IterCtor → Layout
  | .hsFromIter => trackedLay
  | .thinFromIter => Ty.hwl.hdrLay
  | .fromIter | .uniqueFromIter => unitLayout

/-- the header stored in the block (`FromIterator` has none: the argument is ignored) -/
def IterCtor.hdrOf : IterCtor → Option Item → Option Item
  | .hsFromIter, h | .thinFromIter, h => h
  | _, _ => none

def IterCtor.kind : IterCtor → Kind
  | .hsFromIter | .fromIter => .arc
  | .thinFromIter => .thin
  | .uniqueFromIter => .uniq

def IterCtor.ty : IterCtor → Ty
  | .hsFromIter => .hs
  | .thinFromIter => .hwl
  | .fromIter | .uniqueFromIter => .slice

/-- the length word stored in the block on success -/
def IterCtor.recOf : IterCtor → Nat → Option Nat
  | .thinFromIter, n => some n
  | _, _ => none

/-- the fat-pointer length of the returned handle (a ThinArc carries none) -/
def IterCtor.lenOf : IterCtor → Nat → Nat
  | .thinFromIter, _ => 0
  | _, n => n

/-! ## lists -/

theorem modify_length_append {α} (l : List α) (x : α) (f : α → α) :
    (l ++ [x]).modify l.length f = l ++ [f x] := by
  induction l with
  | nil => rfl
  | cons a l ih => simp [List.modify_succ_cons, ih]

theorem getElem?_modify_of_lt {α} (l : List α) (b j : Nat) (f : α → α) (h : j < b) :
    (l.modify b f)[j]? = l[j]? := by
  rw [List.getElem?_modify]
  have : b ≠ j := by omega
  simp [this]

theorem nthOrLast_all {α} (l : List α) (i : Nat) (d : α) (h : ∀ x ∈ l, x = d) :
    nthOrLast l i d = d := by
  unfold nthOrLast
  split
  · next x hx => exact h x (List.mem_of_getElem? hx)
  · cases hl : l.getLast? with
    | none => rfl
    | some x => exact h x (List.mem_of_getLast? hl)

theorem nthOrLast_cons_zero {α} (a : α) (l : List α) (d : α) : nthOrLast (a :: l) 0 d = a := rfl

theorem take_drop_succ_of_getElem? {α} (l : List α) (c : Nat) (v : α) (h : l[c]? = some v) :
    l.drop c = v :: l.drop (c + 1) := by
  have hc : c < l.length := by
    rcases Nat.lt_or_ge c l.length with h' | h'
    · exact h'
    · rw [List.getElem?_eq_none h'] at h; cases h
  rw [List.drop_eq_getElem_cons hc]
  rw [List.getElem?_eq_getElem hc] at h
  cases h; rfl

theorem mem_take_drop_some {α} (l : List α) (c n : Nat) :
    ∀ v, some v ∈ ((l.drop c).take n).map some → v ∈ l.take (c + n) := by
  intro v hv
  obtain ⟨w, hw, hwv⟩ := List.mem_map.1 hv
  cases hwv
  rw [List.take_drop] at hw
  exact List.mem_of_mem_drop hw

/-! ## the iterator -/

theorem next_eq (it : IterSt) :
    it.next =
      if it.sc.panicAt = some it.nextCalls then (.panic, it)
      else match it.sc.items[it.nextCalls]? with
        | some v => (.yield v, { it with nextCalls := it.nextCalls + 1 })
        | none => (.done, { it with nextCalls := it.nextCalls + 1 }) := rfl

theorem next_yield {it it' : IterSt} {v : Item} (h : it.next = (.yield v, it')) :
    it.sc.items[it.nextCalls]? = some v ∧ it.sc.panicAt ≠ some it.nextCalls ∧
      it' = { it with nextCalls := it.nextCalls + 1 } := by
  rw [next_eq] at h
  split at h
  · cases h
  · split at h
    · next w hw => cases h; exact ⟨hw, by assumption, rfl⟩
    · cases h

theorem next_done {it it' : IterSt} (h : it.next = (.done, it')) :
    it.sc.items.length ≤ it.nextCalls ∧ it.sc.panicAt ≠ some it.nextCalls ∧
      it' = { it with nextCalls := it.nextCalls + 1 } := by
  rw [next_eq] at h
  split at h
  · cases h
  · split at h
    · cases h
    · next hw => cases h; exact ⟨by simpa using hw, by assumption, rfl⟩

theorem next_panic {it it' : IterSt} (h : it.next = (.panic, it')) :
    it.sc.panicAt = some it.nextCalls ∧ it' = it := by
  rw [next_eq] at h
  split at h
  · cases h; exact ⟨by assumption, rfl⟩
  · split at h <;> cases h

/-- `next()` never yields an item twice: the item yielded is the one at index `nextCalls`, and the
index strictly increases on `yield`/`done` and is unchanged by a panicking call -/
theorem next_index (it : IterSt) :
    (it.next).2.sc = it.sc ∧ (it.next).2.lenCalls = it.lenCalls ∧ (it.next).2.hintCalls = it.hintCalls ∧
    match (it.next).1 with
    | .yield v => it.sc.items[it.nextCalls]? = some v ∧ (it.next).2.nextCalls = it.nextCalls + 1
    | .done => it.sc.items.length ≤ it.nextCalls ∧ (it.next).2.nextCalls = it.nextCalls + 1
    | .panic => it.sc.panicAt = some it.nextCalls ∧ (it.next).2.nextCalls = it.nextCalls := by
  cases h : it.next with
  | mk r it' =>
    cases r with
    | yield v => obtain ⟨a, _, rfl⟩ := next_yield h; exact ⟨rfl, rfl, rfl, a, rfl⟩
    | done => obtain ⟨a, _, rfl⟩ := next_done h; exact ⟨rfl, rfl, rfl, a, rfl⟩
    | panic => obtain ⟨a, rfl⟩ := next_panic h; exact ⟨rfl, rfl, rfl, a, rfl⟩

theorem next_of_no_panic_lt {it : IterSt} (hp : it.sc.panicAt = none) (v : Item)
    (h : it.sc.items[it.nextCalls]? = some v) :
    it.next = (.yield v, { it with nextCalls := it.nextCalls + 1 }) := by
  rw [next_eq]
  simp [hp, h]

theorem next_of_no_panic_ge {it : IterSt} (hp : it.sc.panicAt = none)
    (h : it.sc.items.length ≤ it.nextCalls) :
    it.next = (.done, { it with nextCalls := it.nextCalls + 1 }) := by
  rw [next_eq]
  simp [hp, List.getElem?_eq_none h]

/-! ## the write loop -/

/-- `fillLoop`, any script, success: exactly `n` further items were taken, in order, all slots of
the result are written -/
theorem fillLoop_ok_inv : ∀ (n : Nat) (it : IterSt) (acc : List (Option Item))
    (elems : List (Option Item)) (it' : IterSt),
    fillLoop n it acc = (.ok elems, it') →
      it' = { it with nextCalls := it.nextCalls + n } ∧
      (0 < n → it.nextCalls + n ≤ it.sc.items.length) ∧
      elems = acc ++ ((it.sc.items.drop it.nextCalls).take n).map some := by
  intro n
  induction n with
  | zero =>
    intro it acc elems it' h
    simp [fillLoop] at h
    obtain ⟨rfl, rfl⟩ := h
    simp
  | succ n ih =>
    intro it acc elems it' h
    unfold fillLoop at h
    split at h
    · next v it1 hn =>
      obtain ⟨hv, _, rfl⟩ := next_yield hn
      obtain ⟨h1, h2, h3⟩ := ih _ _ _ _ h
      have hlt : it.nextCalls < it.sc.items.length := by
        rcases Nat.lt_or_ge it.nextCalls it.sc.items.length with h' | h'
        · exact h'
        · rw [List.getElem?_eq_none h'] at hv; cases hv
      refine ⟨?_, ?_, ?_⟩
      · rw [h1]; simp [Nat.add_assoc, Nat.add_comm 1 n]
      · intro _
        rcases Nat.eq_zero_or_pos n with h0 | h0
        · omega
        · have := h2 h0; simp at this; omega
      · rw [h3, take_drop_succ_of_getElem? _ _ _ hv]
        simp [List.take_succ_cons]
    · cases h
    · cases h

/-- all slots of a successful `fillLoop` are written (given that the accumulator's are) and there
are `acc.length + n` of them -/
theorem fillLoop_ok_all_some {n : Nat} {it it' : IterSt} {acc elems : List (Option Item)}
    (h : fillLoop n it acc = (.ok elems, it')) (hacc : ∀ e ∈ acc, e.isSome = true) :
    (∀ e ∈ elems, e.isSome = true) ∧ elems.length = acc.length + n := by
  obtain ⟨_, hle, rfl⟩ := fillLoop_ok_inv n it acc elems it' h
  have hle' : n = 0 ∨ it.nextCalls + n ≤ it.sc.items.length := by
    rcases Nat.eq_zero_or_pos n with h0 | h0
    · exact Or.inl h0
    · exact Or.inr (hle h0)
  constructor
  · intro e he
    rcases List.mem_append.1 he with he | he
    · exact hacc e he
    · obtain ⟨v, _, rfl⟩ := List.mem_map.1 he; rfl
  · simp; omega

/-- `fillLoop`, any script, failure: the iterator state records how many items were taken (`j`):
either the `j`-th further call panicked (state index unchanged by that call) or the items ran out -/
theorem fillLoop_error_inv : ∀ (n : Nat) (it : IterSt) (acc : List (Option Item))
    (cls : String) (it' : IterSt),
    fillLoop n it acc = (.error cls, it') →
      it'.sc = it.sc ∧ it.nextCalls ≤ it'.nextCalls ∧ it'.nextCalls ≤ it.nextCalls + n ∧
      ((cls = "scripted" ∧ it.sc.panicAt = some it'.nextCalls) ∨
       (cls = "over-reported" ∧ it.sc.items.length < it'.nextCalls)) := by
  intro n
  induction n with
  | zero => intro it acc cls it' h; simp [fillLoop] at h
  | succ n ih =>
    intro it acc cls it' h
    unfold fillLoop at h
    split at h
    · next v it1 hn =>
      obtain ⟨_, _, rfl⟩ := next_yield hn
      obtain ⟨h1, h2, h3, h4⟩ := ih _ _ _ _ h
      simp at h1 h2 h3 h4
      exact ⟨h1, by omega, by omega, h4⟩
    · next it1 hn =>
      obtain ⟨hd, _, rfl⟩ := next_done hn
      cases h
      exact ⟨rfl, by simp, by simp, Or.inr ⟨rfl, by simp; omega⟩⟩
    · next it1 hn =>
      obtain ⟨hp, rfl⟩ := next_panic hn
      cases h
      exact ⟨rfl, Nat.le_refl _, by omega, Or.inl ⟨rfl, hp⟩⟩

/-- `fillLoop` on an iterator that does not panic and has at least `n` items left -/
theorem fillLoop_ok : ∀ (n : Nat) (it : IterSt) (acc : List (Option Item)),
    it.sc.panicAt = none → it.nextCalls + n ≤ it.sc.items.length →
    fillLoop n it acc =
      (.ok (acc ++ ((it.sc.items.drop it.nextCalls).take n).map some),
       { it with nextCalls := it.nextCalls + n }) := by
  intro n
  induction n with
  | zero => intro it acc _ _; simp [fillLoop]
  | succ n ih =>
    intro it acc hp hle
    have hlt : it.nextCalls < it.sc.items.length := by omega
    have hv : it.sc.items[it.nextCalls]? = some it.sc.items[it.nextCalls] :=
      List.getElem?_eq_getElem hlt
    unfold fillLoop
    rw [next_of_no_panic_lt hp _ hv]
    simp only
    rw [ih { it with nextCalls := it.nextCalls + 1 } _ hp (by simp; omega)]
    simp only [take_drop_succ_of_getElem? _ _ _ hv, List.take_succ_cons, List.map_cons,
      List.append_assoc, List.singleton_append]
    simp [Nat.add_assoc, Nat.add_comm 1 n]

/-! ## collect -/

/-- `collectAll`, any script, success: a run of items in order, ended by exhaustion of the items or
of the fuel -/
theorem collectAll_some_inv : ∀ (fuel : Nat) (it : IterSt) (acc vs : List Item) (it' : IterSt),
    collectAll fuel it acc = (some vs, it') →
      ∃ j, j ≤ fuel ∧ vs = acc ++ (it.sc.items.drop it.nextCalls).take j ∧
        (j = fuel ∨ it.sc.items.length ≤ it.nextCalls + j) := by
  intro fuel
  induction fuel with
  | zero =>
    intro it acc vs it' h
    simp [collectAll] at h
    exact ⟨0, Nat.le_refl _, by simp [h.1], Or.inl rfl⟩
  | succ f ih =>
    intro it acc vs it' h
    unfold collectAll at h
    split at h
    · next v it1 hn =>
      obtain ⟨hv, _, rfl⟩ := next_yield hn
      obtain ⟨j, hj, h2, h3⟩ := ih _ _ _ _ h
      refine ⟨j + 1, by omega, ?_, ?_⟩
      · rw [h2, take_drop_succ_of_getElem? _ _ _ hv]; simp [List.take_succ_cons]
      · simp at h3; omega
    · next it1 hn =>
      obtain ⟨hd, _, rfl⟩ := next_done hn
      simp at h
      exact ⟨0, by omega, by simp [h.1], Or.inr (by omega)⟩
    · simp at h

/-- with fuel exceeding the number of remaining items, a successful `collectAll` returns all of them -/
theorem collectAll_some_all {fuel : Nat} {it it' : IterSt} {acc vs : List Item}
    (h : collectAll fuel it acc = (some vs, it')) (hf : it.sc.items.length < it.nextCalls + fuel) :
    vs = acc ++ it.sc.items.drop it.nextCalls := by
  obtain ⟨j, _, rfl, h3⟩ := collectAll_some_inv _ _ _ _ _ h
  congr 1
  apply List.take_of_length_le
  simp; omega

/-- `collectAll`, any script, panic: the state index is the index of the panicking call, i.e. the
number of items already collected past the start -/
theorem collectAll_none_inv : ∀ (fuel : Nat) (it : IterSt) (acc : List Item) (it' : IterSt),
    collectAll fuel it acc = (none, it') →
      it'.sc = it.sc ∧ it.nextCalls ≤ it'.nextCalls ∧ it.sc.panicAt = some it'.nextCalls := by
  intro fuel
  induction fuel with
  | zero => intro it acc it' h; simp [collectAll] at h
  | succ f ih =>
    intro it acc it' h
    unfold collectAll at h
    split at h
    · next v it1 hn =>
      obtain ⟨_, _, rfl⟩ := next_yield hn
      obtain ⟨h1, h2, h3⟩ := ih _ _ _ h
      simp at h1 h2 h3
      exact ⟨h1, by omega, h3⟩
    · simp at h
    · next it1 hn =>
      obtain ⟨hp, rfl⟩ := next_panic hn
      simp at h
      subst h
      exact ⟨rfl, Nat.le_refl _, hp⟩

/-- `collectAll` on an iterator that does not panic, with enough fuel: all remaining items -/
theorem collectAll_ok : ∀ (fuel : Nat) (it : IterSt) (acc : List Item),
    it.sc.panicAt = none → it.sc.items.length < it.nextCalls + fuel →
    ∃ it', collectAll fuel it acc = (some (acc ++ it.sc.items.drop it.nextCalls), it') := by
  intro fuel
  induction fuel with
  | zero =>
    intro it acc _ hf
    have hge : it.sc.items.length ≤ it.nextCalls := by omega
    exact ⟨it, by simp [collectAll, List.drop_eq_nil_of_le hge]⟩
  | succ f ih =>
    intro it acc hp hf
    unfold collectAll
    rcases Nat.lt_or_ge it.nextCalls it.sc.items.length with hlt | hge
    · have hv : it.sc.items[it.nextCalls]? = some it.sc.items[it.nextCalls] :=
        List.getElem?_eq_getElem hlt
      rw [next_of_no_panic_lt hp _ hv]
      simp only
      obtain ⟨it', h'⟩ := ih { it with nextCalls := it.nextCalls + 1 } (acc ++ [it.sc.items[it.nextCalls]]) hp
        (by simp; omega)
      refine ⟨it', ?_⟩
      rw [h', take_drop_succ_of_getElem? _ _ _ hv]
      simp
    · rw [next_of_no_panic_ge hp hge]
      refine ⟨{ it with nextCalls := it.nextCalls + 1 }, ?_⟩
      simp [List.drop_eq_nil_of_le hge]

/-! ## memory primitives on a freshly appended block -/

theorem allocBlock_eq (m : Mem) (lay : Layout) (hdr : Option Item) (rl : Option Nat)
    (es : List (Option Item)) :
    allocBlock m lay hdr rl es =
      (⟨m.blocks ++ [⟨1, true, lay, hdr, rl, es, false⟩],
        m.log ++ [.alloc m.blocks.length lay.size lay.align], m.nextClone⟩, m.blocks.length) := rfl

theorem upd_new (bs : List Block) (log : List Event) (nc : Nat) (k : Block) (f : Block → Block) :
    (Mem.mk (bs ++ [k]) log nc).upd bs.length f = ⟨bs ++ [f k], log, nc⟩ := by
  simp [Mem.upd, modify_length_append]

theorem getElem?_new (bs : List Block) (k : Block) : (bs ++ [k])[bs.length]? = some k := by
  simp

/-- `drop_inner` through the only handle of the block appended last -/
theorem decr_new (bs : List Block) (log : List Event) (nc : Nat) (k : Block) (hk : k.count = 1)
    (t : Ty) (len : Nat) :
    decr ⟨bs ++ [k], log, nc⟩ bs.length t len =
      ⟨bs ++ [{ k with count := 0, live := false }],
       log ++ (payloadDrops bs.length k t len ++
         [.dealloc bs.length (t.releaseLayout len).size (t.releaseLayout len).align]), nc⟩ := by
  unfold decr
  simp only [getElem?_new, hk, if_true, upd_new, Mem.emit]

/-! ## payload destructors -/

theorem zipIdx_map_some (F : Option Item × Nat → Event)
    (hF : ∀ v i, F (some v, i) = Event.drop v.id) :
    ∀ (vs : List Item) (i : Nat), ((vs.map some).zipIdx i).map F = vs.map fun v => Event.drop v.id
  | [], _ => rfl
  | v :: vs, i => by
    simp only [List.map_cons, List.zipIdx_cons, hF]
    rw [zipIdx_map_some F hF vs (i + 1)]

/-- dropping the payload of a fully written block through a view that considers the elements
initialised: the header (if any), then every element, once each, in order; no `.dropUninit` -/
theorem payloadDrops_written (b : Nat) (k : Block) (t : Ty) (len : Nat) (vs : List Item)
    (hk : k.elems = vs.map some) (ht : t.elemsInit = true) (hl : len = vs.length) :
    payloadDrops b k t len = hdrDrops k.hdr ++ dropsOf vs := by
  unfold payloadDrops hdrDrops dropsOf
  have htake : (vs.map some).take len = vs.map some := by
    apply List.take_of_length_le; simp [hl]
  rw [hk, htake]
  simp only [ht, if_true]
  congr 1
  exact zipIdx_map_some _ (fun _ _ => rfl) vs 0

theorem all_some_eq_map {es : List (Option Item)} (h : ∀ e ∈ es, e.isSome = true) :
    ∃ vs : List Item, es = vs.map some := by
  induction es with
  | nil => exact ⟨[], rfl⟩
  | cons e es ih =>
    obtain ⟨vs, rfl⟩ := ih (fun x hx => h x (List.mem_cons_of_mem _ hx))
    cases e with
    | none => exact absurd (h none (List.mem_cons_self ..)) (by simp)
    | some v => exact ⟨v :: vs, rfl⟩

/-! ## log bookkeeping -/

theorem added_append (m : Mem) (bs : List Block) (es : List Event) (nc : Nat) :
    added m ⟨bs, m.log ++ es, nc⟩ = es := by
  simp [added]

theorem dropIds_append (a b : List Event) : dropIds (a ++ b) = dropIds a ++ dropIds b := by
  simp [dropIds]

theorem dropIds_dropsOf (vs : List Item) : dropIds (dropsOf vs) = vs.map (·.id) := by
  induction vs with
  | nil => rfl
  | cons v vs ih =>
    simp only [dropsOf, dropIds, List.map_cons, List.filterMap_cons, Event.dropId?] at ih ⊢
    rw [ih]

theorem dropIds_alloc (b s a : Nat) : dropIds [Event.alloc b s a] = [] := rfl
theorem dropIds_dealloc (b s a : Nat) : dropIds [Event.dealloc b s a] = [] := rfl

theorem dropIds_hdrDrops (h : Option Item) : dropIds (hdrDrops h) = h.toList.map (·.id) := by
  cases h <;> rfl

theorem no_uninit_dropsOf (vs : List Item) : ∀ e ∈ dropsOf vs, e.isDropUninit = false := by
  intro e he
  obtain ⟨v, _, rfl⟩ := List.mem_map.1 he
  rfl

theorem no_uninit_hdrDrops (h : Option Item) : ∀ e ∈ hdrDrops h, e.isDropUninit = false := by
  intro e he
  cases h with
  | none => cases he
  | some x => simp [hdrDrops] at he; subst he; rfl

/-! ## `from_header_and_iter` -/

/-- the possible results of `fromHeaderAndIterCore`, for every script and every reported length `n` -/
inductive CoreOut (m : Mem) (hdrLay : Layout) (hdr : Option Item) (recLen : Option Nat) (ty : Ty)
    (n : Nat) (it : IterSt) : CtorRes → Prop
  /-- success: the reported length was exactly the number of items left, the block holds them all -/
  | built (lay : Layout) :
      allocLayoutHeaderSlice bits hdrLay trackedLay n = some lay →
      n = it.sc.items.length - it.nextCalls →
      CoreOut m hdrLay hdr recLen ty n it
        (.built ⟨m.blocks ++ [⟨1, true, lay, hdr, recLen, (it.sc.items.drop it.nextCalls).map some, false⟩],
                 m.log ++ [.alloc m.blocks.length lay.size lay.align], m.nextClone⟩
                ⟨.arc, ty, m.blocks.length, 0, n⟩)
  /-- the layout computation panics before anything is allocated; unwinding drops the iterator (its
  unyielded items) and then the header, both still owned by the constructor's frame -/
  | noAlloc :
      allocLayoutHeaderSlice bits hdrLay trackedLay n = none →
      CoreOut m hdrLay hdr recLen ty n it
        (.panicked ⟨m.blocks, m.log ++ (dropsOf (it.sc.items.drop it.nextCalls) ++ hdrDrops hdr), m.nextClone⟩
          "layout-overflow")
  /-- a panic after the allocation: the block is leaked; the items not yet moved into it (those
  from index `k` on) are dropped with the iterator; what was written into the block comes from
  the items before index `k` -/
  | leaked (lay : Layout) (es : List (Option Item)) (k : Nat) (cls : String) :
      allocLayoutHeaderSlice bits hdrLay trackedLay n = some lay →
      it.nextCalls ≤ k →
      (∀ v, some v ∈ es → v ∈ it.sc.items.take k) →
      CoreOut m hdrLay hdr recLen ty n it
        (.panicked ⟨m.blocks ++ [⟨1, true, lay, hdr, recLen, es, true⟩],
                    m.log ++ [.alloc m.blocks.length lay.size lay.align] ++ dropsOf (it.sc.items.drop k),
                    m.nextClone⟩ cls)

theorem core_spec (m : Mem) (hdrLay : Layout) (hdr : Option Item) (recLen : Option Nat) (ty : Ty)
    (n : Nat) (it : IterSt) :
    CoreOut m hdrLay hdr recLen ty n it (fromHeaderAndIterCore m hdrLay hdr recLen ty n it) := by
  unfold fromHeaderAndIterCore
  split
  · next hal =>
    have : (hdr.toList.map fun h => Event.drop h.id) = hdrDrops hdr := by cases hdr <;> rfl
    rw [this]
    exact .noAlloc hal
  · next lay hal =>
    simp only [allocBlock_eq]
    split
    · next cls it' hf =>
      obtain ⟨hsc, h1, _, _⟩ := fillLoop_error_inv _ _ _ _ _ hf
      simp only [Mem.leak, upd_new, Mem.emit, IterSt.dropRest, hsc]
      exact .leaked lay _ it'.nextCalls cls hal h1 (by simp)
    · next elems it' hf =>
      obtain ⟨rfl, h2, rfl⟩ := fillLoop_ok_inv _ _ _ _ _ hf
      simp only [upd_new, List.nil_append]
      split
      · next it2 hn =>
        obtain ⟨hd, _, _⟩ := next_done hn
        simp only at hd
        have hn' : n = it.sc.items.length - it.nextCalls := by
          rcases Nat.eq_zero_or_pos n with h0 | h0
          · omega
          · have := h2 h0; omega
        have htk : (it.sc.items.drop it.nextCalls).take n = it.sc.items.drop it.nextCalls := by
          apply List.take_of_length_le; simp; omega
        rw [htk]
        exact .built lay hal hn'
      · next v it2 hn =>
        obtain ⟨hv, _, rfl⟩ := next_yield hn
        simp only at hv
        simp only [Mem.leak, upd_new, Mem.emit, IterSt.dropRest]
        have : [Event.drop v.id] ++ (it.sc.items.drop (it.nextCalls + n + 1)).map (fun v => Event.drop v.id)
            = dropsOf (it.sc.items.drop (it.nextCalls + n)) := by
          rw [take_drop_succ_of_getElem? _ _ _ hv]; rfl
        rw [this]
        exact .leaked lay _ (it.nextCalls + n) _ hal (by omega) (mem_take_drop_some _ _ _)
      · next it2 hn =>
        obtain ⟨_, rfl⟩ := next_panic hn
        simp only [Mem.leak, upd_new, Mem.emit, IterSt.dropRest]
        exact .leaked lay _ (it.nextCalls + n) _ hal (by omega) (mem_take_drop_some _ _ _)

/-- the write loop and the exhaustion check on an honest iterator with exactly `n` items left -/
theorem core_honest (m : Mem) (hdrLay : Layout) (hdr : Option Item) (recLen : Option Nat) (ty : Ty)
    (it : IterSt) (lay : Layout) (hp : it.sc.panicAt = none) (hc : it.nextCalls = 0)
    (hal : allocLayoutHeaderSlice bits hdrLay trackedLay it.sc.items.length = some lay) :
    fromHeaderAndIterCore m hdrLay hdr recLen ty it.sc.items.length it =
      .built ⟨m.blocks ++ [⟨1, true, lay, hdr, recLen, it.sc.items.map some, false⟩],
              m.log ++ [.alloc m.blocks.length lay.size lay.align], m.nextClone⟩
             ⟨.arc, ty, m.blocks.length, 0, it.sc.items.length⟩ := by
  unfold fromHeaderAndIterCore
  rw [hal]
  simp only [allocBlock_eq]
  rw [fillLoop_ok _ _ _ hp (by omega)]
  simp only [upd_new, List.nil_append]
  rw [next_of_no_panic_ge (it := { it with nextCalls := it.nextCalls + it.sc.items.length }) hp
    (by simp)]
  simp [hc]

/-! ## the four iterator-driven constructors: every possible result -/

/-- the possible results of `runIterCtor m dbg which h sc`, for EVERY script `sc`.
`b = m.blocks.length` is the index of the block the constructor may allocate. -/
inductive IterOut (m : Mem) (which : IterCtor) (h : Option Item) (sc : IterScript) : CtorRes → Prop
  /-- a handle is returned: one new block, holding exactly the header and ALL the iterator's
  items, in order, every slot written; one `.alloc` event and nothing else -/
  | built (lay : Layout) :
      allocLayoutHeaderSlice bits which.hdrLay trackedLay sc.items.length = some lay →
      IterOut m which h sc
        (.built ⟨m.blocks ++ [⟨1, true, lay, which.hdrOf h, which.recOf sc.items.length,
                               sc.items.map some, false⟩],
                 m.log ++ [.alloc m.blocks.length lay.size lay.align], m.nextClone⟩
                ⟨which.kind, which.ty, m.blocks.length, 0, which.lenOf sc.items.length⟩)
  /-- a panic without any allocation outside `from_header_and_iter` (a `debug_assert` of
  `FromIterator`, a panic while collecting into the `Vec`, the `Vec` path's layout): the items from
  some index `k` on are dropped (by dropping the iterator / the partially collected `Vec`); these
  paths own no header -/
  | noBlock (k : Nat) (cls : String) :
      IterOut m which h sc
        (.panicked ⟨m.blocks, m.log ++ dropsOf (sc.items.drop k), m.nextClone⟩ cls)
  /-- the layout computation of `from_header_and_iter` for the reported length `n` overflows: the
  `unwrap()` panics before anything is allocated and before any `next()` call; unwinding drops the
  iterator — ALL its items — and then the header the constructor owns -/
  | noAlloc (n : Nat) :
      allocLayoutHeaderSlice bits which.hdrLay trackedLay n = none →
      IterOut m which h sc
        (.panicked ⟨m.blocks, m.log ++ (dropsOf sc.items ++ hdrDrops (which.hdrOf h)), m.nextClone⟩
          "layout-overflow")
  /-- a panic after the allocation: the half-built block is leaked (never destroyed); the items
  from some index `k` on are dropped with the iterator; whatever was written into the block
  comes from the items before index `k` -/
  | leaked (lay : Layout) (rl : Option Nat) (es : List (Option Item)) (k : Nat) (cls : String) :
      (∀ v, some v ∈ es → v ∈ sc.items.take k) →
      IterOut m which h sc
        (.panicked ⟨m.blocks ++ [⟨1, true, lay, which.hdrOf h, rl, es, true⟩],
                    m.log ++ [.alloc m.blocks.length lay.size lay.align] ++ dropsOf (sc.items.drop k),
                    m.nextClone⟩ cls)
  /-- `ThinArc::from_header_and_iter` with `len()` answers that disagree: the block is fully and
  correctly built (all items), then `into_thin`'s `assert_eq!` panics and the `Arc` is dropped
  properly: header and every element once, then the deallocation -/
  | thinMismatch (lay : Layout) (n1 : Nat) :
      which = .thinFromIter → n1 ≠ sc.items.length →
      allocLayoutHeaderSlice bits which.hdrLay trackedLay sc.items.length = some lay →
      IterOut m which h sc
        (.panicked ⟨m.blocks ++ [⟨0, false, lay, h, some n1, sc.items.map some, false⟩],
                    m.log ++ [.alloc m.blocks.length lay.size lay.align] ++
                      (hdrDrops h ++ dropsOf sc.items ++
                        [.dealloc m.blocks.length (Ty.hwl.releaseLayout sc.items.length).size
                          (Ty.hwl.releaseLayout sc.items.length).align]),
                    m.nextClone⟩ "length-mismatch")

theorem panicked_self_eq (m : Mem) (n : Nat) (cls : String) (items : List Item)
    (hn : items.length ≤ n) :
    CtorRes.panicked m cls =
      CtorRes.panicked ⟨m.blocks, m.log ++ dropsOf (items.drop n), m.nextClone⟩ cls := by
  simp [dropsOf, List.drop_eq_nil_of_le hn]

theorem fromIter_spec (m : Mem) (dbg : Bool) (which : IterCtor)
    (hw : which = .fromIter ∨ which = .uniqueFromIter) (h : Option Item) (sc : IterScript) :
    IterOut m which h sc (runIterCtor m dbg which h sc) := by
  rcases hw with rfl | rfl
  all_goals
    simp only [runIterCtor, IterSt.sizeHint, reduceCtorEq, if_false, if_true]
    split
    · split
      · exact .noBlock 0 _
      · split
        · exact .noBlock 0 _
        · generalize hN : (nthOrLast sc.hints (0 + 1 + 1) (sc.items.length, some sc.items.length)).1 = N
          have hs := core_spec m unitLayout none none .uslice N
            { sc := sc, hintCalls := 0 + 1 + 1 + 1 }
          generalize fromHeaderAndIterCore m unitLayout none none .uslice N
            { sc := sc, hintCalls := 0 + 1 + 1 + 1 } = r at hs
          cases hs with
          | built lay hal hn =>
            have hn' : N = sc.items.length := hn
            subst hn'
            exact .built lay hal
          | noAlloc hal => exact .noAlloc _ hal
          | leaked lay es k cls hal hk hes => exact .leaked lay _ es k cls hes
    · split
      · next it' hc =>
        obtain ⟨hsc, _, _⟩ := collectAll_none_inv _ _ _ _ hc
        simp only [IterSt.dropRest, hsc, ← List.map_append, List.take_append_drop, Mem.emit]
        exact .noBlock 0 _
      · next vs it' hc =>
        have hvs := collectAll_some_all hc (by simp)
        simp only [List.nil_append, List.drop_zero] at hvs
        subst hvs
        simp only [runCtor, allocHeaderSlice, List.length_map]
        cases hal : allocLayoutHeaderSlice bits unitLayout trackedLay sc.items.length with
        | none =>
          simp only [Option.map_none]
          rw [panicked_self_eq m sc.items.length _ sc.items (Nat.le_refl _)]
          exact .noBlock _ _
        | some lay =>
          simp only [Option.map_some, allocBlock_eq]
          exact .built lay hal

theorem runIterCtor_spec (m : Mem) (dbg : Bool) (which : IterCtor) (h : Option Item)
    (sc : IterScript) : IterOut m which h sc (runIterCtor m dbg which h sc) := by
  cases which with
  | fromIter => exact fromIter_spec m dbg _ (Or.inl rfl) h sc
  | uniqueFromIter => exact fromIter_spec m dbg _ (Or.inr rfl) h sc
  | hsFromIter =>
    simp only [runIterCtor, IterSt.len]
    generalize nthOrLast sc.lens 0 sc.items.length = N
    have hs := core_spec m trackedLay h none .hs N { sc := sc, lenCalls := 0 + 1 }
    generalize fromHeaderAndIterCore m trackedLay h none .hs N { sc := sc, lenCalls := 0 + 1 } = r at hs
    cases hs with
    | built lay hal hn =>
      have hn' : N = sc.items.length := hn
      subst hn'
      exact .built lay hal
    | noAlloc hal => exact .noAlloc _ hal
    | leaked lay es k cls hal hk hes => exact .leaked lay _ es k cls hes
  | thinFromIter =>
    simp only [runIterCtor, IterSt.len]
    generalize nthOrLast sc.lens 0 sc.items.length = N1
    generalize nthOrLast sc.lens (0 + 1) sc.items.length = N2
    have hs := core_spec m Ty.hwl.hdrLay h (some N1) .hwl N2 { sc := sc, lenCalls := 0 + 1 + 1 }
    generalize fromHeaderAndIterCore m Ty.hwl.hdrLay h (some N1) .hwl N2
      { sc := sc, lenCalls := 0 + 1 + 1 } = r at hs
    cases hs with
    | noAlloc hal => exact .noAlloc _ hal
    | leaked lay es k cls hal hk hes => exact .leaked lay _ es k cls hes
    | built lay hal hn =>
      have hn' : N2 = sc.items.length := hn
      subst hn'
      simp only [Arc.into_thin, getElem?_new, Option.bind_some, Option.getD_some, List.drop_zero]
      by_cases hN : N1 = sc.items.length
      · subst hN
        simp only [if_true]
        exact .built lay hal
      · simp only [hN, if_false, Arc.drop, viewLen, Ty.isSlicey, if_true]
        rw [decr_new _ _ _ _ rfl,
          payloadDrops_written _ _ _ _ sc.items rfl rfl rfl]
        exact .thinMismatch lay N1 rfl hN hal

/-! ## the plain constructors -/

/-- the handle value a constructor returns for block `b` -/
def Ctor.handle (b : Nat) : Ctor → HV
  | .new _ => ⟨.arc, .sized, b, 0, 0⟩
  | .newB _ => ⟨.arc, .sizedB, b, 0, 0⟩
  | .fromBox _ => ⟨.arc, .sized, b, 0, 0⟩
  | .uniqueNew _ => ⟨.uniq, .sized, b, 0, 0⟩
  | .fromVec vs => ⟨.arc, .slice, b, 0, vs.length⟩
  | .hsFromVec _ vs => ⟨.arc, .hs, b, 0, vs.length⟩
  | .hwlFromVec _ _ vs => ⟨.arc, .hwl, b, 0, vs.length⟩
  | .newUninit => ⟨.arc, .mu, b, 0, 0⟩
  | .uniqueNewUninit => ⟨.uniq, .mu, b, 0, 0⟩
  | .newUninitSlice n => ⟨.arc, .muSlice, b, 0, n⟩
  | .uniqueNewUninitSlice n => ⟨.uniq, .muSlice, b, 0, n⟩
  | .hsUninit _ n => ⟨.uniq, .hsMu, b, 0, n⟩

/-- the layout a constructor requests (`none` = the layout computation overflows: the Rust panics
before allocating) -/
def Ctor.lay? : Ctor → Option Layout
  | .new _ | .uniqueNew _ | .newUninit => some (allocLayoutBoxNew bits trackedLay)
  | .newB _ => some (allocLayoutBoxNew bits trackedBLay)
  | .fromBox _ => allocLayoutFor bits trackedLay
  | .uniqueNewUninit => some (allocLayoutNewUninit bits trackedLay)
  | .fromVec vs => allocLayoutHeaderSlice bits unitLayout trackedLay vs.length
  | .hsFromVec _ vs => allocLayoutHeaderSlice bits trackedLay trackedLay vs.length
  | .hwlFromVec _ _ vs => allocLayoutHeaderSlice bits Ty.hwl.hdrLay trackedLay vs.length
  | .newUninitSlice n | .uniqueNewUninitSlice n => allocLayoutHeaderSlice bits unitLayout trackedLay n
  | .hsUninit _ n => allocLayoutHeaderSlice bits trackedLay trackedLay n

/-- the slots of the new block -/
def Ctor.elems (c : Ctor) : List (Option Item) :=
  if c.takesValues then c.vals.map some else List.replicate c.slots none

/-- complete characterisation of `runCtor` -/
theorem runCtor_eq (m : Mem) (c : Ctor) :
    runCtor m c = c.lay?.map fun lay =>
      (⟨m.blocks ++ [⟨1, true, lay, c.hdr, c.recLen, c.elems, false⟩],
        m.log ++ [.alloc m.blocks.length lay.size lay.align], m.nextClone⟩,
       c.handle m.blocks.length) := by
  cases c with
  | new v => rfl
  | newB v => rfl
  | uniqueNew v => rfl
  | newUninit => rfl
  | uniqueNewUninit => rfl
  | fromBox v =>
    simp only [runCtor, Ctor.lay?]
    cases allocLayoutFor bits trackedLay <;> rfl
  | fromVec vs =>
    simp only [runCtor, Ctor.lay?, allocHeaderSlice, List.length_map]
    cases allocLayoutHeaderSlice bits unitLayout trackedLay vs.length <;> rfl
  | hsFromVec h vs =>
    simp only [runCtor, Ctor.lay?, allocHeaderSlice, List.length_map]
    cases allocLayoutHeaderSlice bits trackedLay trackedLay vs.length <;> rfl
  | hwlFromVec h r vs =>
    simp only [runCtor, Ctor.lay?, allocHeaderSlice, List.length_map]
    cases allocLayoutHeaderSlice bits Ty.hwl.hdrLay trackedLay vs.length <;> rfl
  | newUninitSlice n =>
    simp only [runCtor, Ctor.lay?, allocHeaderSlice, List.length_replicate]
    cases allocLayoutHeaderSlice bits unitLayout trackedLay n <;> rfl
  | uniqueNewUninitSlice n =>
    simp only [runCtor, Ctor.lay?, allocHeaderSlice, List.length_replicate]
    cases allocLayoutHeaderSlice bits unitLayout trackedLay n <;> rfl
  | hsUninit h n =>
    simp only [runCtor, Ctor.lay?, allocHeaderSlice, List.length_replicate]
    cases allocLayoutHeaderSlice bits trackedLay trackedLay n <;> rfl

/-! ## honest iterators -/

/-- an honest script: every `len()` answer is the number of items, every `size_hint()` answer is the
exact pair, no `next()` call panics (`lens = []` / `hints = []` mean "the default answer") -/
def IterScript.Honest (sc : IterScript) : Prop :=
  (∀ x ∈ sc.lens, x = sc.items.length) ∧
  (∀ x ∈ sc.hints, x = (sc.items.length, some sc.items.length)) ∧
  sc.panicAt = none

instance (sc : IterScript) : Decidable sc.Honest := by unfold IterScript.Honest; infer_instance

/-- the result an honest run must produce -/
def IterCtor.builtRes (which : IterCtor) (m : Mem) (h : Option Item) (items : List Item)
    (lay : Layout) : CtorRes :=
  .built ⟨m.blocks ++ [⟨1, true, lay, which.hdrOf h, which.recOf items.length, items.map some, false⟩],
          m.log ++ [.alloc m.blocks.length lay.size lay.align], m.nextClone⟩
         ⟨which.kind, which.ty, m.blocks.length, 0, which.lenOf items.length⟩

theorem runIterCtor_honest (m : Mem) (dbg : Bool) (which : IterCtor) (h : Option Item)
    (sc : IterScript) (hh : sc.Honest) (lay : Layout)
    (hal : allocLayoutHeaderSlice bits which.hdrLay trackedLay sc.items.length = some lay) :
    runIterCtor m dbg which h sc = which.builtRes m h sc.items lay := by
  obtain ⟨hl, hs, hp⟩ := hh
  cases which with
  | hsFromIter =>
    simp only [runIterCtor, IterSt.len, nthOrLast_all _ _ _ hl]
    exact core_honest m trackedLay h none .hs { sc := sc, lenCalls := 0 + 1 } lay hp rfl hal
  | thinFromIter =>
    simp only [runIterCtor, IterSt.len, nthOrLast_all _ _ _ hl]
    rw [show fromHeaderAndIterCore m Ty.hwl.hdrLay h (some sc.items.length) .hwl sc.items.length
          { sc := sc, lenCalls := 0 + 1 + 1 } = _ from
        core_honest m Ty.hwl.hdrLay h (some sc.items.length) .hwl
          { sc := sc, lenCalls := 0 + 1 + 1 } lay hp rfl hal]
    simp only [Arc.into_thin, getElem?_new, Option.bind_some, Option.getD_some, if_true]
    rfl
  | fromIter =>
    simp only [runIterCtor, IterSt.sizeHint, nthOrLast_all _ _ _ hs, ne_eq, not_true_eq_false,
      decide_false, Bool.and_false, Bool.false_eq_true, if_false, if_true]
    rw [show fromHeaderAndIterCore m unitLayout none none .uslice sc.items.length
          { sc := sc, hintCalls := 0 + 1 + 1 + 1 } = _ from
        core_honest m unitLayout none none .uslice
          { sc := sc, hintCalls := 0 + 1 + 1 + 1 } lay hp rfl hal]
    rfl
  | uniqueFromIter =>
    simp only [runIterCtor, IterSt.sizeHint, nthOrLast_all _ _ _ hs, ne_eq, not_true_eq_false,
      decide_false, Bool.and_false, Bool.false_eq_true, if_false, if_true, reduceCtorEq]
    rw [show fromHeaderAndIterCore m unitLayout none none .uslice sc.items.length
          { sc := sc, hintCalls := 0 + 1 + 1 + 1 } = _ from
        core_honest m unitLayout none none .uslice
          { sc := sc, hintCalls := 0 + 1 + 1 + 1 } lay hp rfl hal]
    rfl

/-- `FromIterator` with an inexact first `size_hint()` answer and an iterator that does not panic:
the collect-to-`Vec` fallback, then `From<Vec>` (whatever `len()` and later hints say) -/
theorem runIterCtor_inexact (m : Mem) (dbg : Bool) (which : IterCtor)
    (hw : which = .fromIter ∨ which = .uniqueFromIter) (h : Option Item) (sc : IterScript)
    (lo : Nat) (hi : Option Nat) (rest : List (Nat × Option Nat))
    (hhint : sc.hints = (lo, hi) :: rest) (hne : some lo ≠ hi) (hp : sc.panicAt = none) (lay : Layout)
    (hal : allocLayoutHeaderSlice bits which.hdrLay trackedLay sc.items.length = some lay) :
    runIterCtor m dbg which h sc = which.builtRes m h sc.items lay := by
  obtain ⟨it', hc⟩ := collectAll_ok (sc.items.length + 1) { sc := sc, hintCalls := 0 + 1 } [] hp
    (by simp)
  simp only [List.nil_append, List.drop_zero] at hc
  rcases hw with rfl | rfl
  all_goals
    simp only [runIterCtor, IterSt.sizeHint, hhint, nthOrLast_cons_zero, hne, if_false, hc,
      reduceCtorEq, if_true, runCtor_eq, Ctor.lay?]
    rw [show allocLayoutHeaderSlice bits unitLayout trackedLay sc.items.length = some lay from hal]
    rfl

/-! ## destroying a fully written block through its only handle -/

/-- `Drop` of the only `Arc`/`UniqueArc` handle of the block appended last, all of whose slots are
written: the header and every element are destroyed once, in order, then one `.dealloc` -/
theorem dropHandle_sole (bs : List Block) (log : List Event) (nc : Nat) (k : Block) (hv : HV)
    (vs : List Item) (hk1 : k.count = 1) (hke : k.elems = vs.map some) (hb : hv.blk = bs.length)
    (hkind : hv.kind = .arc ∨ hv.kind = .uniq) (hinit : hv.ty.elemsInit = true)
    (hlen : (if hv.ty.isSlicey then hv.len else 1) = vs.length) :
    dropHandle ⟨bs ++ [k], log, nc⟩ hv =
      some ⟨bs ++ [{ k with count := 0, live := false }],
        log ++ (hdrDrops k.hdr ++ dropsOf vs ++
          [.dealloc bs.length (hv.ty.releaseLayout vs.length).size (hv.ty.releaseLayout vs.length).align]),
        nc⟩ := by
  have hvl : viewLen ⟨bs ++ [k], log, nc⟩ hv = vs.length := by
    unfold viewLen
    rcases hkind with hk | hk <;> simp only [hk, hlen]
  have : dropHandle ⟨bs ++ [k], log, nc⟩ hv = some (Arc.drop ⟨bs ++ [k], log, nc⟩ hv) := by
    unfold dropHandle
    rcases hkind with hk | hk <;> simp only [hk]
  rw [this, Arc.drop, hvl, hb, decr_new _ _ _ _ hk1, payloadDrops_written _ _ _ _ vs hke hinit rfl]

/-- the same through the only `ThinArc` handle: the length is read from the block -/
theorem dropHandle_sole_thin (bs : List Block) (log : List Event) (nc : Nat) (k : Block) (hv : HV)
    (vs : List Item) (hk1 : k.count = 1) (hke : k.elems = vs.map some) (hb : hv.blk = bs.length)
    (hkind : hv.kind = .thin) (hrec : k.recLen = some vs.length) :
    dropHandle ⟨bs ++ [k], log, nc⟩ hv =
      some ⟨bs ++ [{ k with count := 0, live := false }],
        log ++ (hdrDrops k.hdr ++ dropsOf vs ++
          [.dealloc bs.length (Ty.hwl.releaseLayout vs.length).size (Ty.hwl.releaseLayout vs.length).align]),
        nc⟩ := by
  have hvl : viewLen ⟨bs ++ [k], log, nc⟩ hv = vs.length := by
    simp only [viewLen, hkind, hb, getElem?_new, Option.bind_some, hrec, Option.getD_some]
  simp only [dropHandle, hkind, ThinArc.drop, ThinArc.thick, Arc.drop, hvl]
  simp only [viewLen, Ty.isSlicey, if_true, hb]
  rw [decr_new _ _ _ _ hk1, payloadDrops_written _ _ _ _ vs hke rfl rfl]

/-! ## the layout computation does not overflow for any realistic length -/

theorem hwl_hdrLay : Ty.hwl.hdrLay = ⟨16, 8⟩ := by decide

theorem roundUp_lt' (n a : Nat) (ha : 0 < a) : roundUp n a < n + a := by
  unfold roundUp
  have := Nat.div_mul_le_self (n + a - 1) a
  omega

theorem layout_ok_aux (o A n : Nat) (ho : o ≤ 16) (hA : A = 4 ∨ A = 8) (hn : n ≤ 2 ^ 59)
    (hs ha : Nat) (hoff : roundUp hs 4 = o) (hal : max ha 4 = A) :
    (allocLayoutHeaderSlice 64 ⟨hs, ha⟩ ⟨8, 4⟩ n).isSome = true := by
  have h59 : (2:Nat) ^ 59 = 576460752303423488 := by decide
  rw [h59] at hn
  have harr : Layout.array 64 ⟨8, 4⟩ n = some ⟨8 * n, 4⟩ :=
    if_pos (show 8 * n ≤ 2 ^ 63 - 4 by omega)
  have hext : Layout.extend 64 ⟨hs, ha⟩ ⟨8 * n, 4⟩ = some (⟨o + 8 * n, A⟩, o) := by
    unfold Layout.extend
    simp only [hoff, hal]
    exact if_pos (show o + 8 * n ≤ 2 ^ 63 - A by omega)
  have hv : headerSliceValueLayout 64 ⟨hs, ha⟩ ⟨8, 4⟩ n = some ⟨roundUp (o + 8 * n) A, A⟩ := by
    simp only [headerSliceValueLayout, harr, hext, Option.map_some, Layout.padToAlign]
  have hr := roundUp_lt' (o + 8 * n) A (by omega)
  have h8 : roundUp 8 A = 8 := by rcases hA with rfl | rfl <;> decide
  have hm : max 8 A = 8 := by omega
  have hext2 : (Layout.extend 64 (wordLayout 64) ⟨roundUp (o + 8 * n) A, A⟩).isSome = true := by
    have hc : roundUp 8 A + roundUp (o + 8 * n) A ≤ 2 ^ 63 - max 8 A := by omega
    have : Layout.extend 64 (wordLayout 64) ⟨roundUp (o + 8 * n) A, A⟩ =
        some (⟨roundUp 8 A + roundUp (o + 8 * n) A, max 8 A⟩, roundUp 8 A) := if_pos hc
    rw [this]; rfl
  simp only [allocLayoutHeaderSlice, hv, allocLayoutFor, Option.isSome_map, hext2]

/-- `allocate_for_header_and_slice` succeeds for each of the three header shapes of the history
model and every length up to 2^59 (the first failure is beyond 2^60 - 4 elements of 8 bytes) -/
theorem layout_ok_unit (n : Nat) (hn : n ≤ 2 ^ 59) :
    (allocLayoutHeaderSlice bits unitLayout trackedLay n).isSome = true :=
  layout_ok_aux 0 4 n (by omega) (Or.inl rfl) hn 0 1 (by decide) (by decide)

theorem layout_ok_tracked (n : Nat) (hn : n ≤ 2 ^ 59) :
    (allocLayoutHeaderSlice bits trackedLay trackedLay n).isSome = true :=
  layout_ok_aux 8 4 n (by omega) (Or.inl rfl) hn 8 4 (by decide) (by decide)

theorem layout_ok_hwl (n : Nat) (hn : n ≤ 2 ^ 59) :
    (allocLayoutHeaderSlice bits Ty.hwl.hdrLay trackedLay n).isSome = true := by
  rw [hwl_hdrLay]
  exact layout_ok_aux 16 8 n (by omega) (Or.inr rfl) hn 16 8 (by decide) (by decide)

theorem layout_ok (which : IterCtor) (n : Nat) (hn : n ≤ 2 ^ 59) :
    (allocLayoutHeaderSlice bits which.hdrLay trackedLay n).isSome = true := by
  cases which
  · exact layout_ok_tracked n hn
  · exact layout_ok_hwl n hn
  · exact layout_ok_unit n hn
  · exact layout_ok_unit n hn

theorem ctor_layout_ok (c : Ctor) (hv : c.vals.length ≤ 2 ^ 59) (hs : c.slots ≤ 2 ^ 59) :
    c.lay?.isSome = true := by
  cases c with
  | fromBox v => exact (by decide : (allocLayoutFor bits trackedLay).isSome = true)
  | fromVec vs => exact layout_ok_unit _ hv
  | hsFromVec h vs => exact layout_ok_tracked _ hv
  | hwlFromVec h r vs => exact layout_ok_hwl _ hv
  | newUninitSlice n => exact layout_ok_unit _ hs
  | uniqueNewUninitSlice n => exact layout_ok_unit _ hs
  | hsUninit h n => exact layout_ok_tracked _ hs
  | _ => rfl

end M1

