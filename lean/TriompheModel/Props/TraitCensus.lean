import TriompheModel.Generated.Impls
/-!
# Census of overridden provided trait methods (Tie A for C04, C12, C14, C16)

The correspondence harnesses call the *required* methods of the handle types' trait impls and the provided
methods the crate overrides today (`ne` for Arc / ArcBorrow / OffsetArc, `lt le gt ge` for Arc).  A provided
method that is NOT overridden is the standard library's / serde's / arc-swap's default, expressed through the
required ones — so what the harnesses establish for `eq`, `partial_cmp`, `clone`, `deserialize`, `into_ptr` …
carries over to `ne`, `clone_from`, `deserialize_in_place`, `RefCnt::inc` ….  An override is a new entry point
with its own body: this obligation demands that the set of overrides is exactly the known one, re-extracted
from the source on every run (`Generated.implForms`, by `decide`).
-/
open FactsTraits
namespace TraitCensus

/-- provided methods of the traits the handle types implement -/
def provided : List (String × String) :=
  [("PartialEq", "ne"), ("PartialOrd", "lt"), ("PartialOrd", "le"), ("PartialOrd", "gt"), ("PartialOrd", "ge"),
   ("Ord", "max"), ("Ord", "min"), ("Ord", "clamp"), ("Hash", "hash_slice"), ("Clone", "clone_from"),
   ("Deserialize", "deserialize_in_place"), ("RefCnt", "inc"), ("RefCnt", "dec"),
   ("Debug", "fmt_"), ("Default", "default_")]

def overrides : List (String × String × String) :=
  (Generated.implForms.filter (fun r => provided.contains (r.trait_, r.method))).map
    (fun r => (r.trait_, r.selfHead, r.method))

/-- the overrides the harnesses exercise directly (cmp.rs / the `cmp` history op call every operator) -/
def expected : List (String × String × String) :=
  [("PartialEq", "Arc", "ne"), ("PartialOrd", "Arc", "lt"), ("PartialOrd", "Arc", "le"), ("PartialOrd", "Arc", "gt"),
   ("PartialOrd", "Arc", "ge"), ("PartialEq", "ArcBorrow", "ne"), ("PartialEq", "OffsetArc", "ne")]

def censusOk : Bool :=
  overrides.all (fun o => expected.contains o) && expected.all (fun e => overrides.contains e)

/-- **no provided trait method is overridden beyond the known, exercised ones** -/
theorem obl_provided_method_overrides : censusOk = true := by decide

/-- the required methods the harnesses drive exist: `Clone::clone` for every owning handle kind and `RefCnt`'s
three methods for `Arc` and `ThinArc` -/
def requiredPresent : Bool :=
  ["Arc", "ArcBorrow", "ArcUnion", "OffsetArc", "ThinArc"].all (fun t =>
    Generated.implForms.any (fun r => r.trait_ == "Clone" && r.selfHead == t && r.method == "clone")) &&
  ["Arc", "ThinArc"].all (fun t => ["into_ptr", "as_ptr", "from_ptr"].all (fun m =>
    Generated.implForms.any (fun r => r.trait_ == "RefCnt" && r.selfHead == t && r.method == m)))
theorem obl_required_methods_present : requiredPresent = true := by decide

end TraitCensus
