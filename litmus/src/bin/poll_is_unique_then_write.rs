//! C03: even rounds: poll `is_unique()` then write through `get_unique` (a `&mut UniqueArc`);
//! odd rounds: poll `Arc::try_unique` (handle comes back unchanged on failure), write through the
//! `UniqueArc`, make it shareable again.  Readers read through clones and drop them concurrently.
use litmus::*;
use triomphe::Arc;

fn main() {
    let mut t = Tally::new();
    for r in 0..rounds(6) {
        let old = 200 + r as u64;
        let new = old + 500;
        let a = Arc::new(Payload::new(old));
        t.shared(3);
        let readers: Vec<_> = (0..2).map(|_| a.clone()).collect();
        let a = std::thread::scope(|s| {
            let mut a = a;
            for h in readers {
                s.spawn(move || {
                    h.read_expect(old);
                    drop(h);
                });
            }
            let mut polls = 0u32;
            if r % 2 == 0 {
                while !a.is_unique() {
                    polls += 1;
                    check(polls < 100_000, "is_unique never true");
                    spin();
                }
                let u = Arc::get_unique(&mut a);
                check(u.is_some(), "get_unique declined right after is_unique() held for the sole owner");
                u.unwrap().rewrite(new);
            } else {
                let before = a.heap_ptr();
                let mut cur = a;
                let mut u = loop {
                    match Arc::try_unique(cur) {
                        Ok(u) => break u,
                        Err(back) => {
                            check(back.heap_ptr() == before, "try_unique failure returned a different handle");
                            cur = back;
                        }
                    }
                    polls += 1;
                    check(polls < 100_000, "try_unique never succeeded");
                    spin();
                };
                u.rewrite(new);
                a = u.shareable();
                check(a.heap_ptr() == before, "try_unique success moved the value");
            }
            a.read_expect(new);
            a
        });
        drop(a);
    }
    t.finish();
}
