import TriompheModel.WM.Consume
import TriompheModel.WM.Later
import TriompheModel.WM.ExampleConsume
import TriompheModel.Generated.Atomics
/-!
Obligations on the *generated* gate facts shared by C03, C08 and C09: every count load that a
uniqueness gate can reach through the crate-local call graph is at least Acquire, the verdict comes
from `Arc::is_unique`, and `is_unique` compares the count with the literal 1.  Each is a `decide` on
constants the translator regenerates from `/repo/src` on every run.
-/
open Facts WM
namespace Gates

/-- the gate is present, reaches a count load, every load it reaches is an acquire, and its verdict
is `Arc::is_unique`'s -/
def gateOk (name : String) : Bool :=
  Generated.gates.any (fun g => g.name == name && !g.loads.isEmpty && g.loads.all (·.isAcq) && g.viaIsUnique)

/-- `is_unique` is "count == 1" -/
theorem obl_verdict_is_eq_one : Generated.isUniqueGuard = ⟨.eq, some 1⟩ := by decide
/-- the decrement every former sharer performed is a release (what the gate's acquire pairs with) -/
theorem obl_dec_release : Generated.decOrd.isRel = true := by decide
/-- no gate anywhere reaches a non-acquire load -/
theorem obl_no_weak_gate : Generated.gates.all (fun g => g.loads.all (·.isAcq)) = true := by decide

theorem acq_of_gateOk {name : String} (h : gateOk name = true) :
    ∃ g ∈ Generated.gates, g.name = name ∧ g.loads ≠ [] ∧ (∀ o ∈ g.loads, o.isAcq = true) ∧ g.viaIsUnique = true := by
  unfold gateOk at h
  obtain ⟨g, hg, hp⟩ := List.any_eq_true.1 h
  simp only [Bool.and_eq_true, beq_iff_eq, Bool.not_eq_true', List.all_eq_true] at hp
  refine ⟨g, hg, hp.1.1.1, ?_, hp.1.2, hp.2⟩
  intro he
  have := hp.1.1.2
  rw [he] at this
  simp at this

variable {X : CountExec} {fenceOrd : Option MemOrd}

/-- **Exclusivity after a successful verdict**, at the orderings found in the source: if a count
load made by gate `name` through handle `h` returns 1, every access ever made through any other
handle that existed where the load read from happens-before the load — hence before the mutable
access / move that the verdict licenses.  Holds for every consistent execution. -/
theorem exclusive_after_verdict {name : String} (hg : gateOk name = true)
    (hc : Consistent X) (hp : Protocol X Generated.decOrd fenceOrd) (hrw : CoRW X) (hvb : ViaBorn X)
    {l : X.A} {h : H} {o : MemOrd} {rf : Option Nat}
    (hl : X.kind l = .load h o rf)
    (ho : ∀ g ∈ Generated.gates, g.name = name → o ∈ g.loads)
    (hone : valRead X.ops rf = 1) :
    ∀ (a : X.A) (h' : H), (X.kind a).via = some h' → h' ≠ h →
      (h' = 0 ∨ ∃ j, rf = some j ∧ h' ∈ kids (X.ops.take (j+1))) → X.hb (.oth a) (.oth l) := by
  obtain ⟨g, hgm, hn, _, hacq, _⟩ := acq_of_gateOk hg
  exact unique_verdict_exclusive hc hp hrw hvb obl_dec_release hl (hacq o (ho g hgm hn)) hone

/-- **No access through another handle is concurrent with the granted write**, at the orderings found in
the source: with respect to a gate `name` that saw the count 1 through `h` and the write `w` it
grants, every other handle is either a former sharer (all its accesses happen-before the write) or a
later sharer — created beyond the point the gate read from, hence a descendant of `h` made after the
`&mut` borrow ended (`MutExcl`) — all of whose accesses happen-after the write. -/
theorem no_concurrent_access_after_verdict {name : String} (hg : gateOk name = true)
    (hc : Consistent X) (hp : Protocol X Generated.decOrd fenceOrd) (hrw : CoRW X) (hvb : ViaBorn X)
    {l w : X.A} {h : H} {o : MemOrd} {rf : Option Nat}
    (hl : X.kind l = .load h o rf)
    (ho : ∀ g ∈ Generated.gates, g.name = name → o ∈ g.loads)
    (hone : valRead X.ops rf = 1) (hlw : X.hb (.oth l) (.oth w)) (hex : MutExcl X l w h) :
    ∀ (a : X.A) (h' : H), (X.kind a).via = some h' → h' ≠ h →
      X.hb (.oth a) (.oth w) ∨ X.hb (.oth w) (.oth a) := by
  obtain ⟨g, hgm, hn, _, hacq, _⟩ := acq_of_gateOk hg
  exact no_access_concurrent_with_granted_write hc hp hrw hvb obl_dec_release hl (hacq o (ho g hgm hn)) hone hlw hex

end Gates
