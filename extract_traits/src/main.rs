//! extract_traits --repo <path> --out <dir>
//!
//! Tie A translator for property C13 (thread-safety and borrow lifetimes are enforced by the type
//! system), plus the repr / delegation-form tables other properties consult.  Reads every `*.rs`
//! under `<repo>/src`, skips `#[cfg(test)]`, and writes
//!   <out>/facts-traits.json, <out>/Traits.lean, <out>/Signatures.lean, <out>/Reprs.lean, <out>/Impls.lean
//! Output is a deterministic function of the source text.  Shapes that are not understood become
//! `unknown` / `other` constructors (fail closed); valid Rust never makes the translator panic —
//! only a file that does not parse is an error (exit 3).
mod conv;
mod emit;
mod extract;
mod forms;
mod model;

use std::path::{Path, PathBuf};

fn rs_files(dir: &Path, out: &mut Vec<PathBuf>) {
    let mut es: Vec<PathBuf> = match std::fs::read_dir(dir) {
        Ok(rd) => rd.filter_map(|e| e.ok().map(|e| e.path())).collect(),
        Err(_) => return,
    };
    es.sort();
    for p in es {
        if p.is_dir() {
            rs_files(&p, out);
        } else if p.extension().map(|e| e == "rs").unwrap_or(false) {
            out.push(p);
        }
    }
}

fn main() {
    let args: Vec<String> = std::env::args().collect();
    let mut repo = None;
    let mut outd = None;
    let mut i = 1;
    while i < args.len() {
        match args[i].as_str() {
            "--repo" => {
                repo = args.get(i + 1).cloned();
                i += 1;
            }
            "--out" => {
                outd = args.get(i + 1).cloned();
                i += 1;
            }
            _ => {}
        }
        i += 1;
    }
    let (repo, outd) = match (repo, outd) {
        (Some(r), Some(o)) => (PathBuf::from(r), PathBuf::from(o)),
        _ => {
            eprintln!("usage: extract_traits --repo <path> --out <dir>");
            std::process::exit(2);
        }
    };
    let src = repo.join("src");
    let mut files = Vec::new();
    rs_files(&src, &mut files);
    if files.is_empty() {
        eprintln!("no .rs files under {}", src.display());
        std::process::exit(3);
    }
    let mut srcs = Vec::new();
    for f in &files {
        let text = match std::fs::read_to_string(f) {
            Ok(t) => t,
            Err(e) => {
                eprintln!("cannot read {}: {}", f.display(), e);
                std::process::exit(3);
            }
        };
        let parsed = match syn::parse_file(&text) {
            Ok(p) => p,
            Err(e) => {
                eprintln!("cannot parse {}: {}", f.display(), e);
                std::process::exit(3);
            }
        };
        let rel = f.strip_prefix(&src).unwrap_or(f).to_string_lossy().to_string();
        srcs.push(extract::Src { rel, file: parsed });
    }
    let facts = extract::Extractor::new().run(&srcs);
    std::fs::create_dir_all(&outd).expect("create out dir");
    let w = |name: &str, text: String| {
        std::fs::write(outd.join(name), text).unwrap_or_else(|e| {
            eprintln!("cannot write {}: {}", name, e);
            std::process::exit(3);
        })
    };
    w("facts-traits.json", serde_json::to_string_pretty(&emit::to_json(&facts)).unwrap() + "\n");
    w("Traits.lean", emit::traits_lean(&facts));
    w("Signatures.lean", emit::sigs_lean(&facts));
    w("Reprs.lean", emit::reprs_lean(&facts));
    w("Impls.lean", emit::impls_lean(&facts));
    println!(
        "extract_traits: {} files, {} structs, {} Send/Sync impls, {} signatures, {} impl forms",
        facts.files.len(), facts.structs.len(), facts.auto_impls.len(), facts.sigs.len(), facts.impls.len()
    );
}
