import TriompheModel.Generated.Signatures
/-!
# Shape of the public API that the history model relies on (Tie A, for additive changes)

The history model M1 has no operation that makes an owning handle out of a `UniqueArc` other than by consuming it
(`shareable`, `into_inner`), and none that writes the recorded length of a ThinArc's allocation.  Its invariants
(`kind = unique → count = 1`; recorded length = slice length) would be false of a crate that offers such an operation.
The harnesses can only call the API they know; a NEW safe accessor is invisible to them.  These obligations, `decide`d
on the signature table the translator regenerates on every run, say that no such accessor exists.
-/
open FactsTraits
namespace ApiShape

/-- `pat` occurs in `s` (on character lists: reduces in the kernel) -/
def hasInfix (pat : List Char) : List Char → Bool
  | [] => pat.isEmpty
  | c :: r => (pat.isPrefixOf (c :: r)) || hasInfix pat r
def has (s pat : String) : Bool := hasInfix pat.toList s.toList
def starts (s pat : String) : Bool := pat.toList.isPrefixOf s.toList

/-- pub safe fns on `UniqueArc` whose return type lends an `ArcBorrow` / `&Arc` / `OffsetArc`: from any of those a
second OWNING handle can be made (`clone_arc`, `Arc::clone`) while the UniqueArc still claims sole ownership -/
def uniqueLeaks : List String :=
  (Generated.sigs.filter fun s => s.isPub && !s.isUnsafe && starts s.selfTy "UniqueArc" &&
     (has s.outShape "ArcBorrow" || has s.outShape "&Arc<" || has s.outShape "OffsetArc")).map (·.key)
theorem obl_unique_arc_lends_no_arc : uniqueLeaks = [] := by decide

/-- pub safe fns on ThinArc / the protected payload that hand out `&mut` to the UNPROTECTED `HeaderSlice<HeaderWithLength<H>, [T]>`:
its public `length` field is what `ThinArc` trusts when it rebuilds the fat pointer (and the layout it frees with) -/
def thinLengthLeaks : List String :=
  (Generated.sigs.filter fun s => s.isPub && !s.isUnsafe && has s.outShape "&mut" &&
      -- ThinArc itself hands out no `&mut` at all (its one mutation path is the callback of `with_arc_mut`, through the
      -- Protected wrapper); and nothing hands out `&mut` to the unprotected header-with-length payload of a protected Arc
      (starts s.selfTy "ThinArc" ||
       (has s.outShape "HeaderWithLength" && !has s.outShape "Protected" && has s.selfTy "Protected"))).map (·.key)
theorem obl_thin_length_not_writable : thinLengthLeaks = [] := by decide

/-- the public functions that lend a handle to a client callback: each is an op of the history correspondence
(`cb:rawOffset`, `cb:borrowWithArc`, `cb:offsetWithArc`, `cb:thinWithArc`, `cb:thinWithArcMut`) and of the model (`CbApi`),
where the count inside the callback, the unwind path and — for the `&mut` one — the write-back are compared with the model.
A further lending function would be a borrow the correspondence does not drive: C04's "inside every borrow callback" and
C03/C10's write-back statement would not be shown for it. -/
def lendingFns : List String :=
  (Generated.sigs.filter fun s => s.isPub && !s.callbacks.isEmpty).map (·.key)
def knownLendingFns : List String :=
  ["Arc::with_raw_offset_arc", "ArcBorrow::with_arc", "OffsetArc::with_arc", "ThinArc::with_arc", "ThinArc::with_arc_mut"]
theorem obl_lending_fn_census :
    (lendingFns.all fun k => knownLendingFns.contains k) = true ∧ (knownLendingFns.all fun k => lendingFns.contains k) = true := by
  decide
end ApiShape
