import TriompheModel.Proofs.HistLenBase
/-!
# Addresses stored in handle values (helper file 1 for `Proofs/HistOff.lean`)

`h.off` is the offset of the address stored in a handle value from the start of its block.
`OffOk h`: handles of the block-address kinds (`Arc`, `UniqueArc`, `ThinArc`, raw thin pointer)
store the block start; handles of the data-address kinds (raw pointer, `OffsetArc`, `ArcUnion` word)
store the address of the value, `dataOff` of their view.  This file shows that every handle
function of the model preserves it, and the pure round-trip facts (`M1.Off.*`).
-/
namespace M1
open LY

/-- the slice length a fat (non-thin) handle's view sees: a function of the handle alone -/
def fatLen (h : HV) : Nat := if h.ty.isSlicey then h.len else 1

def Kind.isBlockAddr : Kind → Bool
  | .arc | .uniq | .thin | .rawThin => true
  | _ => false

theorem isThin_blockAddr {k : Kind} (h : k.isThin = true) : k.isBlockAddr = true := by
  cases k <;> first | rfl | cases h

structure OffOk (h : HV) : Prop where
  blk : h.kind.isBlockAddr = true → h.off = 0
  data : h.kind.isBlockAddr = false → h.off = h.ty.dataOff (fatLen h)

theorem viewLen_eq_fatLen {m : Mem} {h : HV} (hk : h.kind.isThin = false) : viewLen m h = fatLen h :=
  viewLen_fat hk

theorem nonthin_of_data {k : Kind} (h : k.isBlockAddr = false) : k.isThin = false := by
  cases k <;> first | rfl | cases h

namespace Off

/-! ## offsets computed by the primitive functions -/

theorem as_ptr_off_eq (m : Mem) {a : HV} (hk : a.kind.isThin = false) :
    Arc.as_ptr_off m a = a.off + a.ty.dataOff (fatLen a) := by
  simp only [Arc.as_ptr_off, viewLen_eq_fatLen hk]

theorem into_raw_off (m : Mem) {a : HV} (hk : a.kind.isThin = false) :
    (Arc.into_raw m a).off = a.off + a.ty.dataOff (fatLen a) := as_ptr_off_eq m hk

theorem from_raw_off (m : Mem) {p : HV} (hk : p.kind.isThin = false) :
    (Arc.from_raw m p).off = p.off - p.ty.dataOff (fatLen p) := by
  simp only [Arc.from_raw, viewLen_eq_fatLen hk]

/-! ## pure round trips -/

/-- `Arc::from_raw(Arc::into_raw(a)) = a`: the pointer subtraction undoes the field offset -/
theorem from_raw_into_raw_id (m : Mem) (a : HV) (hk : a.kind = .arc) :
    Arc.from_raw m (Arc.into_raw m a) = a := by
  have hnt : a.kind.isThin = false := by rw [hk]; rfl
  have h1 : viewLen m (Arc.into_raw m a) = viewLen m a := by
    rw [viewLen_eq_fatLen (h := Arc.into_raw m a) rfl, viewLen_eq_fatLen hnt]; rfl
  cases a with
  | mk kind ty blk off len =>
    simp only at hk; subst hk
    simp only [Arc.from_raw, h1]
    simp [Arc.into_raw, Arc.as_ptr_off]

/-- `Arc::into_raw(Arc::from_raw(p)) = p` for a pointer that `into_raw` produced (`off = dataOff`) -/
theorem into_raw_from_raw_id (m : Mem) (p : HV) (hk : p.kind = .raw)
    (hoff : p.ty.dataOff (fatLen p) ≤ p.off) : Arc.into_raw m (Arc.from_raw m p) = p := by
  have hnt : p.kind.isThin = false := by rw [hk]; rfl
  have e1 : Arc.from_raw m p = { p with kind := .arc, off := p.off - p.ty.dataOff (fatLen p) } := by
    simp only [Arc.from_raw, viewLen_eq_fatLen hnt]
  rw [e1]
  have e2 : viewLen m ({ p with kind := .arc, off := p.off - p.ty.dataOff (fatLen p) } : HV) = fatLen p :=
    viewLen_eq_fatLen (h := { p with kind := .arc, off := p.off - p.ty.dataOff (fatLen p) }) rfl
  simp only [Arc.into_raw, Arc.as_ptr_off, e2]
  cases p with
  | mk kind ty blk off len =>
    simp only at hk hoff; subst hk
    simp only [HV.mk.injEq, true_and, and_true]
    omega

/-- `Arc::from_raw_offset(Arc::into_raw_offset(a)) = a` -/
theorem from_raw_offset_into_raw_offset_id (m : Mem) (a : HV) (hk : a.kind = .arc) :
    Arc.from_raw_offset m (Arc.into_raw_offset m a) = a := by
  have : ({ Arc.into_raw_offset m a with kind := Kind.raw } : HV) = Arc.into_raw m a := rfl
  unfold Arc.from_raw_offset
  rw [this]; exact from_raw_into_raw_id m a hk

/-- `ThinArc::from_raw(ThinArc::into_raw(t)) = t` -/
theorem thin_from_raw_into_raw_id (t : HV) (hk : t.kind = .thin) : ThinArc.from_raw (ThinArc.into_raw t) = t := by
  cases t; simp only at hk; subst hk; rfl

theorem thin_into_raw_from_raw_id (p : HV) (hk : p.kind = .rawThin) : ThinArc.into_raw (ThinArc.from_raw p) = p := by
  cases p; simp only at hk; subst hk; rfl

/-- `into_thin(thin_to_thick(t)) = t` for a well-formed ThinArc value -/
theorem of_arc_thick_id (m : Mem) (t : HV) (hk : t.kind = .thin) (hty : t.ty = .hwl) (hl : t.len = 0) :
    ThinArc.of_arc (ThinArc.thick m t) = t := by
  cases t; simp only at hk hty hl; subst hk hty hl; rfl

/-- `thin_to_thick(into_thin(a)) = a` when the stored length is the fat pointer's length -/
theorem thick_of_arc_id (m : Mem) (a : HV) (hk : a.kind = .arc) (hty : a.ty = .hwl)
    (hl : ((m.blocks[a.blk]?.bind (·.recLen))).getD 0 = a.len) : ThinArc.thick m (ThinArc.of_arc a) = a := by
  cases a with
  | mk kind ty blk off len =>
    simp only at hk hty hl; subst hk hty
    simp only [ThinArc.thick, ThinArc.of_arc, viewLen, hl]

end Off

/-! ## the handle functions preserve `OffOk` -/

theorem OffOk.of_blk {h : HV} (hk : h.kind.isBlockAddr = true) (ho : h.off = 0) : OffOk h where
  blk := fun _ => ho
  data := fun h' => by rw [hk] at h'; cases h'

theorem OffOk.of_data {h : HV} (hk : h.kind.isBlockAddr = false) (ho : h.off = h.ty.dataOff (fatLen h)) : OffOk h where
  blk := fun h' => by rw [hk] at h'; cases h'
  data := fun _ => ho

section
variable {m : Mem} {h : HV}

/-- the `Arc` every owning handle stands for stores the block start (`from_raw` & co. recover it) -/
theorem asArc_off (ho : OffOk h) : (asArc m h).off = 0 := by
  unfold asArc
  cases hk : h.kind <;> simp only
  case arc => exact ho.blk (by rw [hk]; rfl)
  case uniq => exact ho.blk (by rw [hk]; rfl)
  case thin => exact ho.blk (by rw [hk]; rfl)
  case rawThin => exact ho.blk (by rw [hk]; rfl)
  case raw =>
    rw [Off.from_raw_off m (by rw [hk]; rfl), ho.data (by rw [hk]; rfl)]; exact Nat.sub_self _
  case offset =>
    show (Arc.from_raw m { h with kind := .raw }).off = 0
    rw [Off.from_raw_off m (p := { h with kind := .raw }) rfl]
    have := ho.data (by rw [hk]; rfl)
    show h.off - h.ty.dataOff (fatLen h) = 0
    omega
  case unionA =>
    show (Arc.from_raw m { h with kind := .raw }).off = 0
    rw [Off.from_raw_off m (p := { h with kind := .raw }) rfl]
    have := ho.data (by rw [hk]; rfl)
    show h.off - h.ty.dataOff (fatLen h) = 0
    omega
  case unionB =>
    show (Arc.from_raw m { h with kind := .raw }).off = 0
    rw [Off.from_raw_off m (p := { h with kind := .raw }) rfl]
    have := ho.data (by rw [hk]; rfl)
    show h.off - h.ty.dataOff (fatLen h) = 0
    omega

/-- `into_raw`-style: a block-address fat handle becomes a data-address one -/
theorem OffOk.toData (ho : OffOk h) (hk : h.kind = .arc) {h' : HV} (hk' : h'.kind.isBlockAddr = false)
    (hty : h'.ty = h.ty) (hlen : h'.len = h.len) (hoff : h'.off = Arc.as_ptr_off m h) : OffOk h' := by
  apply OffOk.of_data hk'
  have hnt : h.kind.isThin = false := by rw [hk]; rfl
  have h0 : h.off = 0 := ho.blk (by rw [hk]; rfl)
  have hf : fatLen h' = fatLen h := by simp only [fatLen, hty, hlen]
  rw [hoff, Off.as_ptr_off_eq m hnt, h0, hty, hf, Nat.zero_add]

/-- `from_raw`-style: a data-address handle becomes a block-address one -/
theorem OffOk.toBlk (ho : OffOk h) (hk : h.kind.isBlockAddr = false) {h' : HV} (hk' : h'.kind.isBlockAddr = true)
    (hoff : h'.off = h.off - h.ty.dataOff (fatLen h)) : OffOk h' := by
  apply OffOk.of_blk hk'
  rw [hoff, ho.data hk]; exact Nat.sub_self _

/-- block-address kind to block-address kind, same stored address -/
theorem OffOk.blkBlk (ho : OffOk h) (hk : h.kind.isBlockAddr = true) {h' : HV} (hk' : h'.kind.isBlockAddr = true)
    (hoff : h'.off = h.off) : OffOk h' :=
  OffOk.of_blk hk' (by rw [hoff]; exact ho.blk hk)

/-- data-address kind to data-address kind, same view, same stored address -/
theorem OffOk.dataData (ho : OffOk h) (hk : h.kind.isBlockAddr = false) {h' : HV} (hk' : h'.kind.isBlockAddr = false)
    (hty : h'.ty = h.ty) (hlen : h'.len = h.len) (hoff : h'.off = h.off) : OffOk h' := by
  apply OffOk.of_data hk'
  have hf : fatLen h' = fatLen h := by simp only [fatLen, hty, hlen]
  rw [hoff, hty, hf]; exact ho.data hk

theorem dataOff_dyn_sized (n n' : Nat) : Ty.dyn.dataOff n = Ty.sized.dataOff n' := rfl

theorem cloneHandle_off {m' : Mem} {c : HV} (hc : cloneHandle m h = some (m', c)) (ho : OffOk h) : OffOk c := by
  unfold cloneHandle at hc
  split at hc
  all_goals
    rename_i hkd
    cases hc
  · exact ho.blkBlk (by rw [hkd]; rfl) rfl rfl
  · exact ho.blkBlk (by rw [hkd]; rfl) rfl rfl
  · -- OffsetArc::clone: from_raw, clone, into_raw
    have hd : h.kind.isBlockAddr = false := by rw [hkd]; rfl
    apply OffOk.of_data (h := (OffsetArc.clone m h).2) rfl
    show (h.off - h.ty.dataOff (viewLen m { h with kind := .raw })) +
        h.ty.dataOff (viewLen (incr m _) (Arc.clone m (OffsetArc.transient m h)).2) = h.ty.dataOff (fatLen h)
    rw [viewLen_eq_fatLen (h := { h with kind := .raw }) rfl,
      viewLen_eq_fatLen (h := (Arc.clone m (OffsetArc.transient m h)).2) rfl]
    have := ho.data hd
    show (h.off - h.ty.dataOff (fatLen h)) + h.ty.dataOff (fatLen h) = h.ty.dataOff (fatLen h)
    omega
  · have hd : h.kind.isBlockAddr = false := by rw [hkd]; rfl
    simp only [hkd, if_true]
    apply OffOk.of_data (h := ArcUnion.from_first _ _) rfl
    show (h.off - h.ty.dataOff (viewLen m { h with kind := .raw })) +
        h.ty.dataOff (viewLen (incr m _) (Arc.from_raw m (ArcUnion.borrow h))) = h.ty.dataOff (fatLen h)
    rw [viewLen_eq_fatLen (h := { h with kind := .raw }) rfl,
      viewLen_eq_fatLen (h := Arc.from_raw m (ArcUnion.borrow h)) rfl]
    have := ho.data hd
    show (h.off - h.ty.dataOff (fatLen h)) + h.ty.dataOff (fatLen h) = h.ty.dataOff (fatLen h)
    omega
  · have hd : h.kind.isBlockAddr = false := by rw [hkd]; rfl
    simp only [hkd]
    apply OffOk.of_data (h := ArcUnion.from_second _ _) rfl
    show (h.off - h.ty.dataOff (viewLen m { h with kind := .raw })) +
        h.ty.dataOff (viewLen (incr m _) (Arc.from_raw m (ArcUnion.borrow h))) = h.ty.dataOff (fatLen h)
    rw [viewLen_eq_fatLen (h := { h with kind := .raw }) rfl,
      viewLen_eq_fatLen (h := Arc.from_raw m (ArcUnion.borrow h)) rfl]
    have := ho.data hd
    show (h.off - h.ty.dataOff (fatLen h)) + h.ty.dataOff (fatLen h) = h.ty.dataOff (fatLen h)
    omega

theorem runConv_off {h' : HV} {c : Conv} (hc : runConv m h c = some h') (ho : OffOk h) : OffOk h' := by
  cases c <;> simp only [runConv] at hc
  case intoRaw =>
    split at hc
    · rename_i hcond; cases hc
      exact ho.toData (m := m) hcond.1 rfl rfl rfl rfl
    · cases hc
  case fromRaw =>
    split at hc
    · rename_i hcond; cases hc
      exact ho.toBlk (by rw [hcond]; rfl) rfl (Off.from_raw_off m (by rw [hcond]; rfl))
    · cases hc
  case intoRawOffset =>
    split at hc
    · rename_i hcond; cases hc
      exact ho.toData (m := m) hcond.1 rfl rfl rfl rfl
    · cases hc
  case fromRawOffset =>
    split at hc
    · rename_i hcond; cases hc
      exact ho.toBlk (by rw [hcond]; rfl) rfl (Off.from_raw_off m (p := { h with kind := .raw }) rfl)
    · cases hc
  case fromThin =>
    split at hc
    · rename_i hcond; cases hc
      exact ho.blkBlk (by rw [hcond]; rfl) rfl rfl
    · cases hc
  case thinIntoRaw =>
    split at hc
    · rename_i hcond; cases hc
      exact ho.blkBlk (by rw [hcond]; rfl) rfl rfl
    · cases hc
  case thinFromRaw =>
    split at hc
    · rename_i hcond; cases hc
      exact ho.blkBlk (by rw [hcond]; rfl) rfl rfl
    · cases hc
  case unionFirst =>
    split at hc
    · rename_i hcond; cases hc
      exact ho.toData (m := m) hcond.1 rfl rfl rfl rfl
    · cases hc
  case unionSecond =>
    split at hc
    · rename_i hcond; cases hc
      exact ho.toData (m := m) hcond.1 rfl rfl rfl rfl
    · cases hc
  case eraseHeader =>
    split at hc
    · rename_i hcond; cases hc
      exact ho.blkBlk (by rw [hcond.1]; rfl) (h' := Arc.erase_header h) (by
        show h.kind.isBlockAddr = true
        rw [hcond.1]; rfl) rfl
    · cases hc
  case addHeader =>
    split at hc
    · rename_i hcond; cases hc
      exact ho.blkBlk (by rw [hcond.1]; rfl) (h' := Arc.add_unit_header h) (by
        show h.kind.isBlockAddr = true
        rw [hcond.1]; rfl) rfl
    · cases hc
  case shareable =>
    split at hc
    · rename_i hcond; cases hc
      exact ho.blkBlk (by rw [hcond.1]; rfl) rfl rfl
    · cases hc
  case assumeInit =>
    split at hc
    · rename_i hcond
      have hb : h.kind.isBlockAddr = true := by rcases hcond.1 with h1 | h1 <;> rw [h1] <;> rfl
      split at hc
      · cases hc; exact ho.blkBlk hb (h' := { h with ty := .sized }) hb rfl
      · cases hc; exact ho.blkBlk hb (h' := { h with ty := .slice }) hb rfl
      · split at hc
        · cases hc; exact ho.blkBlk hb (h' := { h with ty := .hs }) hb rfl
        · cases hc
      · cases hc
    · cases hc
  case toDyn =>
    split at hc
    · rename_i hcond; cases hc
      -- into_raw through the sized view, from_raw through the dyn view: the same field offset
      apply OffOk.of_blk (h := Arc.from_raw m { Arc.into_raw m h with ty := .dyn }) rfl
      have hnt : h.kind.isThin = false := by rw [hcond.1]; rfl
      rw [Off.from_raw_off m (p := { Arc.into_raw m h with ty := .dyn }) rfl]
      show (Arc.into_raw m h).off - Ty.dyn.dataOff _ = 0
      rw [Off.into_raw_off m hnt, ho.blk (by rw [hcond.1]; rfl), hcond.2, Nat.zero_add,
        dataOff_dyn_sized _ (fatLen h)]
      exact Nat.sub_self _
    · split at hc
      · rename_i hcond; cases hc
        -- the unsizing coercion of a `UniqueArc` keeps the stored (block) address
        have hb : h.kind.isBlockAddr = true := by rw [hcond.1]; rfl
        exact ho.blkBlk hb (h' := { h with ty := .dyn }) hb rfl
      · cases hc

end

end M1
