import TriompheModel.WM.FinExec
/-!
# An operational, ownership-typed semantics of handle programs, and `Protocol` derived from it

`WM/Graph.lean` *assumes* `Protocol X decOrd fenceOrd` ("what safe Rust's ownership discipline and the shape of
`Clone`/`drop_inner` provide") and `WM/Unique.lean` assumes `ViaBorn X`.  This file derives both.

* `Cfg`, `Instr`, `step`, `exec`, `Run`: a small-step semantics of multi-threaded programs over the handles of ONE
  allocation.  Every instruction is executed by a thread that *owns* the handle it names; ownership moves only by
  `clone` (the new handle belongs to the cloning thread) and `send` (hand-over to another thread, a
  synchronisation outside the count word).  The semantics records the modification order of the count, the
  non-RMW events, and two edge lists: program order `po` and the hand-over edges `sw`.
* `execOf c hb`: the `CountExec` induced by a configuration and ANY relation `hb` on its events.
* `protocol_of_run`, `viaBorn_of_run`: for every run and every transitive `hb ⊇ po ∪ sw`, the induced execution
  satisfies `Protocol` and `ViaBorn`.  `mutExcl_of_run`: `MutExcl` for a load/access pair with no clone of the
  handle between them.

The proof is the *ownership chain*: invariant `InvB.cov` says that every event that touches a handle `h` (its birth,
every access through it, every clone taken from it) is hb-before the *current position* of the thread that owns `h`
(`Cov`), `InvB.dead` that it is hb-before the release of `h` once `h` has been dropped.
-/
open Facts
namespace WM
namespace Own

/-- events of the allocation, non-RMW events identified by their index in `Cfg.kinds` -/
abbrev E := Ev Nat

/-! ## syntax and configurations -/

inductive Instr where
  /-- `let ch = h.clone()` -/
  | clone (h ch : H)
  /-- a payload access through `h` -/
  | access (h : H)
  /-- a load of the count through `h`, reading from `rf` (unconstrained here; `Consistent` restricts it) -/
  | load (h : H) (o : MemOrd) (rf : Option Nat)
  /-- `drop(h)`; `frf` is what the fence load (if any) reads from -/
  | drop (h : H) (frf : Option Nat)
  /-- hand `h` over to thread `to` (channel send + receive, spawn, join, …) -/
  | send (h : H) (to : Nat)
  /-- a synchronisation with thread `to` that moves no handle -/
  | sync (to : Nat)

structure Cfg where
  /-- the thread owning a handle (`none`: not yet born, or released) -/
  own : Nat → Option Nat
  /-- events of a thread, most recent first -/
  hist : Nat → List E
  /-- events whose hand-over edge to the thread's next event is pending -/
  pend : Nat → List E
  /-- RMWs on the count so far = its modification order -/
  ops : List Op
  ords : List MemOrd
  /-- non-RMW events so far -/
  kinds : List AKind
  /-- `stamps[a]` = number of RMWs performed when event `a` was issued -/
  stamps : List Nat
  /-- program order: every earlier event of the same thread → the event -/
  po : List (E × E)
  /-- hand-over edges: the giver's last event → the taker's next event -/
  sw : List (E × E)

def upd {α : Type} (f : Nat → α) (k : Nat) (v : α) : Nat → α := fun x => if x = k then v else f x

@[simp] theorem upd_same {α : Type} (f : Nat → α) (k : Nat) (v : α) : upd f k v k = v := by simp [upd]
theorem upd_other {α : Type} (f : Nat → α) {k x : Nat} (v : α) (h : x ≠ k) : upd f k v x = f x := by simp [upd, h]

def Cfg.init : Cfg where
  own := fun h => if h = 0 then some 0 else none
  hist := fun _ => []
  pend := fun _ => []
  ops := []
  ords := []
  kinds := []
  stamps := []
  po := []
  sw := []

def lastEv : List E → List E
  | [] => []
  | e :: _ => [e]

/-- the immediate hb-predecessors of thread `t`'s next event -/
def front (c : Cfg) (t : Nat) : List E := lastEv (c.hist t) ++ c.pend t

/-- thread `t` issues event `e` -/
def emit (c : Cfg) (t : Nat) (e : E) : Cfg :=
  { c with hist := upd c.hist t (e :: c.hist t), pend := upd c.pend t [],
           po := c.po ++ (c.hist t).map (fun x => (x, e)),
           sw := c.sw ++ (c.pend t).map (fun x => (x, e)) }

/-- thread `t` synchronises with `t'`: whatever precedes `t`'s position precedes `t'`'s next event -/
def give (c : Cfg) (t t' : Nat) : Cfg := { c with pend := upd c.pend t' (front c t ++ c.pend t') }

def pushOp (c : Cfg) (o : Op) (m : MemOrd) : Cfg := { c with ops := c.ops ++ [o], ords := c.ords ++ [m] }
def pushKind (c : Cfg) (k : AKind) : Cfg :=
  { c with kinds := c.kinds ++ [k], stamps := c.stamps ++ [c.ops.length] }
def setOwn (c : Cfg) (h : H) (v : Option Nat) : Cfg := { c with own := upd c.own h v }

/-- an event through `h` by its owner -/
def useStep (c : Cfg) (t : Nat) (k : AKind) : Cfg := emit (pushKind c k) t (.oth c.kinds.length)
def cloneStep (c : Cfg) (t : Nat) (h ch : H) : Cfg :=
  setOwn (emit (pushOp c (Op.inc ch h) .relaxed) t (.rmw c.ops.length)) ch (some t)
def decStep (decOrd : MemOrd) (c : Cfg) (t : Nat) (h : H) : Cfg :=
  setOwn (emit (pushOp c (Op.dec h) decOrd) t (.rmw c.ops.length)) h none
def fenceStep (fenceOrd : Option MemOrd) (c : Cfg) (t : Nat) (k : Nat) (frf : Option Nat) : Cfg :=
  match fenceOrd with
  | some o => useStep c t (.fenceLoad k o frf)
  | none => c
def destroyStep (c : Cfg) (t : Nat) (k : Nat) : Cfg := useStep c t (.destroy k)

section
variable (decOrd : MemOrd) (fenceOrd : Option MemOrd)

/-- one instruction of thread `t` -/
def step (c : Cfg) (t : Nat) : Instr → Option Cfg
  | .clone h ch => if c.own h = some t ∧ ch ≠ 0 ∧ ch ∉ kids c.ops then some (cloneStep c t h ch) else none
  | .access h => if c.own h = some t then some (useStep c t (.access h)) else none
  | .load h o rf => if c.own h = some t then some (useStep c t (.load h o rf)) else none
  | .drop h frf =>
    if c.own h = some t then
      if (run c.ops).val = 1 then
        some (destroyStep (fenceStep fenceOrd (decStep decOrd c t h) t c.ops.length frf) t c.ops.length)
      else some (decStep decOrd c t h)
    else none
  | .send h t' => if c.own h = some t then some (setOwn (give c t t') h (some t')) else none
  | .sync t' => some (give c t t')

def exec : Cfg → List (Nat × Instr) → Option Cfg
  | c, [] => some c
  | c, (t, i) :: r => match step decOrd fenceOrd c t i with
    | some c' => exec c' r
    | none => none

/-- a finite run from the initial configuration (thread 0 owns handle 0, count 1, no RMW yet) -/
structure Run where
  steps : List (Nat × Instr)
  final : Cfg
  ok : exec decOrd fenceOrd Cfg.init steps = some final
end

/-! ## list facts -/

theorem getElem?_snoc {α : Type} {l : List α} {a b : α} {i : Nat} :
    (l ++ [a])[i]? = some b ↔ l[i]? = some b ∨ (i = l.length ∧ a = b) := by
  rw [List.getElem?_append]
  by_cases h : i < l.length
  · rw [if_pos h]
    constructor
    · exact Or.inl
    · rintro (h' | ⟨rfl, _⟩)
      · exact h'
      · omega
  · rw [if_neg h]
    have hn : l[i]? = none := List.getElem?_eq_none (by omega)
    by_cases e : i = l.length
    · subst e; simp
    · have : i - l.length ≠ 0 := by omega
      constructor
      · intro h'
        cases hk : i - l.length with
        | zero => omega
        | succ k => rw [hk] at h'; simp at h'
      · rintro (h' | ⟨rfl, _⟩)
        · rw [hn] at h'; cases h'
        · omega

theorem lt_of_getElem? {α : Type} {l : List α} {i : Nat} {a : α} (h : l[i]? = some a) : i < l.length := by
  cases Nat.lt_or_ge i l.length with
  | inl h' => exact h'
  | inr hge => rw [List.getElem?_eq_none hge] at h; cases h

theorem nthD_of_getElem? {α : Type} (d : α) : ∀ {l : List α} {i : Nat} {a : α}, l[i]? = some a → nthD d l i = a
  | [], _, _, h => by simp at h
  | x :: r, 0, a, h => by simp at h; simp [nthD, h]
  | x :: r, i+1, a, h => by
    simp at h
    simp only [nthD]
    exact nthD_of_getElem? d h

theorem getElem?_nthD {α : Type} (d : α) : ∀ {l : List α} {i : Nat}, i < l.length → l[i]? = some (nthD d l i)
  | [], _, h => by simp at h
  | x :: r, 0, _ => by simp [nthD]
  | x :: r, i+1, h => by
    simp only [nthD, List.getElem?_cons_succ]
    exact getElem?_nthD d (by simpa using h)

/-! ## which handle an event touches -/

/-- event `x` is performed *through* handle `h`: an access or load via `h`, or a clone taken from `h` -/
def Uses (ops : List Op) (kinds : List AKind) : E → H → Prop
  | .rmw j, h => ∃ ch : H, ops[j]? = some (Op.inc ch h)
  | .oth a, h => ∃ k : AKind, kinds[a]? = some k ∧ k.via = some h

/-- event `x` is the birth of `h` -/
def Born (ops : List Op) : E → H → Prop
  | .rmw i, h => ∃ s : H, ops[i]? = some (Op.inc h s)
  | .oth _, _ => False

def Touch (c : Cfg) (x : E) (h : H) : Prop := Uses c.ops c.kinds x h ∨ Born c.ops x h

theorem uses_snoc_op {ops : List Op} {kinds : List AKind} {o : Op} {x : E} {h : H} :
    Uses (ops ++ [o]) kinds x h ↔ Uses ops kinds x h ∨ (x = .rmw ops.length ∧ ∃ ch : H, o = Op.inc ch h) := by
  cases x with
  | oth a => simp [Uses]
  | rmw j =>
    simp only [Uses, getElem?_snoc]
    constructor
    · rintro ⟨ch, h1 | ⟨rfl, rfl⟩⟩
      · exact Or.inl ⟨ch, h1⟩
      · exact Or.inr ⟨rfl, ch, rfl⟩
    · rintro (⟨ch, h1⟩ | ⟨e, ch, rfl⟩)
      · exact ⟨ch, Or.inl h1⟩
      · cases e; exact ⟨ch, Or.inr ⟨rfl, rfl⟩⟩

theorem uses_snoc_kind {ops : List Op} {kinds : List AKind} {k : AKind} {x : E} {h : H} :
    Uses ops (kinds ++ [k]) x h ↔ Uses ops kinds x h ∨ (x = .oth kinds.length ∧ k.via = some h) := by
  cases x with
  | rmw j => simp [Uses]
  | oth a =>
    simp only [Uses, getElem?_snoc]
    constructor
    · rintro ⟨k', (h1 | ⟨rfl, rfl⟩), hv⟩
      · exact Or.inl ⟨k', h1, hv⟩
      · exact Or.inr ⟨rfl, hv⟩
    · rintro (⟨k', h1, hv⟩ | ⟨e, hv⟩)
      · exact ⟨k', Or.inl h1, hv⟩
      · cases e; exact ⟨k, Or.inr ⟨rfl, rfl⟩, hv⟩

theorem born_snoc_op {ops : List Op} {o : Op} {x : E} {h : H} :
    Born (ops ++ [o]) x h ↔ Born ops x h ∨ (x = .rmw ops.length ∧ ∃ s : H, o = Op.inc h s) := by
  cases x with
  | oth a => simp [Born]
  | rmw j =>
    simp only [Born, getElem?_snoc]
    constructor
    · rintro ⟨s, h1 | ⟨rfl, rfl⟩⟩
      · exact Or.inl ⟨s, h1⟩
      · exact Or.inr ⟨rfl, s, rfl⟩
    · rintro (⟨s, h1⟩ | ⟨e, s, rfl⟩)
      · exact ⟨s, Or.inl h1⟩
      · cases e; exact ⟨s, Or.inr ⟨rfl, rfl⟩⟩

theorem born_mem_kids {ops : List Op} {x : E} {h : H} (hb : Born ops x h) : h ∈ kids ops := by
  cases x with
  | oth a => cases hb
  | rmw i => obtain ⟨s, hs⟩ := hb; exact mem_kids.2 ⟨s, mem_of_getElem? hs⟩

theorem exists_born {ops : List Op} {h : H} (hk : h ∈ kids ops) : ∃ (i : Nat) (s : H), ops[i]? = some (Op.inc h s) := by
  obtain ⟨s, hs⟩ := mem_kids.1 hk
  obtain ⟨i, hi⟩ := List.mem_iff_getElem?.1 hs
  exact ⟨i, s, hi⟩

/-! ## the current position of a thread -/

/-- `x` is (or is hb-before) one of the events of `l` -/
def CovL (R : E → E → Prop) (l : List E) (x : E) : Prop := ∃ y, y ∈ l ∧ (x = y ∨ R x y)

/-- `x` happens-before the current position of thread `t` -/
def Cov (R : E → E → Prop) (c : Cfg) (t : Nat) (x : E) : Prop := CovL R (front c t) x

/-- `R` contains the edges generated so far -/
def EdgesIn (R : E → E → Prop) (c : Cfg) : Prop := ∀ p, p ∈ c.po ∨ p ∈ c.sw → R p.1 p.2

theorem mem_lastEv {l : List E} {y : E} (h : y ∈ lastEv l) : y ∈ l := by
  cases l with
  | nil => simp [lastEv] at h
  | cons a r => simp [lastEv] at h; simp [h]

theorem front_emit_self (c : Cfg) (t : Nat) (e : E) : front (emit c t e) t = [e] := by
  simp [front, emit, lastEv]

theorem front_emit_other (c : Cfg) {t t' : Nat} (e : E) (h : t' ≠ t) : front (emit c t e) t' = front c t' := by
  simp [front, emit, upd_other _ _ h]

theorem front_edge {R : E → E → Prop} {c : Cfg} {t : Nat} {e y : E} (hy : y ∈ front c t)
    (hE : EdgesIn R (emit c t e)) : R y e := by
  simp only [front, List.mem_append] at hy
  rcases hy with hy | hy
  · exact hE (y, e) (Or.inl (by simp only [emit, List.mem_append, List.mem_map]; exact Or.inr ⟨y, mem_lastEv hy, rfl⟩))
  · exact hE (y, e) (Or.inr (by simp only [emit, List.mem_append, List.mem_map]; exact Or.inr ⟨y, hy, rfl⟩))

theorem cov_R {R : E → E → Prop} (hT : ∀ a b c, R a b → R b c → R a c) {c : Cfg} {t : Nat} {e x : E}
    (hc : Cov R c t x) (hE : EdgesIn R (emit c t e)) : R x e := by
  obtain ⟨y, hy, h⟩ := hc
  have := front_edge hy hE
  rcases h with rfl | h
  · exact this
  · exact hT _ _ _ h this

theorem cov_emit_new (R : E → E → Prop) (c : Cfg) (t : Nat) (e : E) : Cov R (emit c t e) t e := by
  refine ⟨e, ?_, Or.inl rfl⟩
  show e ∈ front (emit c t e) t
  rw [front_emit_self]; simp

theorem cov_emit_mono {R : E → E → Prop} (hT : ∀ a b c, R a b → R b c → R a c) {c : Cfg} {t t' : Nat} {e x : E}
    (hc : Cov R c t' x) (hE : EdgesIn R (emit c t e)) : Cov R (emit c t e) t' x := by
  by_cases h : t' = t
  · subst h
    refine ⟨e, ?_, Or.inr (cov_R hT hc hE)⟩
    show e ∈ front (emit c t' e) t'
    rw [front_emit_self]; simp
  · show CovL R (front (emit c t e) t') x
    rw [front_emit_other c e h]; exact hc

theorem front_give (c : Cfg) (t t' t'' : Nat) :
    front (give c t t') t'' = if t'' = t' then lastEv (c.hist t') ++ (front c t ++ c.pend t') else front c t'' := by
  by_cases h : t'' = t'
  · subst h; simp [front, give]
  · simp [front, give, upd_other _ _ h, h]

theorem cov_give_mono {R : E → E → Prop} {c : Cfg} {t t' t'' : Nat} {x : E}
    (hc : Cov R c t'' x) : Cov R (give c t t') t'' x := by
  obtain ⟨y, hy, h⟩ := hc
  refine ⟨y, ?_, h⟩
  rw [front_give]
  by_cases e : t'' = t'
  · subst e
    rw [if_pos rfl]
    simp only [front, List.mem_append] at hy ⊢
    rcases hy with hy | hy
    · exact Or.inl hy
    · exact Or.inr (Or.inr hy)
  · rw [if_neg e]; exact hy

theorem cov_give {R : E → E → Prop} {c : Cfg} {t t' : Nat} {x : E}
    (hc : Cov R c t x) : Cov R (give c t t') t' x := by
  obtain ⟨y, hy, h⟩ := hc
  refine ⟨y, ?_, h⟩
  rw [front_give, if_pos rfl]
  simp only [List.mem_append]
  exact Or.inr (Or.inl (by simpa [front] using hy))

/-! ## the data invariant (no happens-before involved) -/

structure InvA (decOrd : MemOrd) (c : Cfg) : Prop where
  own_live : ∀ {h t : Nat}, c.own h = some t → (h = 0 ∨ h ∈ kids c.ops) ∧ h ∉ deads c.ops
  dead_born : ∀ {h : H}, h ∈ deads c.ops → h = 0 ∨ h ∈ kids c.ops
  uses_born : ∀ {x : E} {h : H}, Uses c.ops c.kinds x h → h = 0 ∨ h ∈ kids c.ops
  fresh : ∀ {i j : Nat} {ch s s' : H}, c.ops[i]? = some (Op.inc ch s) → c.ops[j]? = some (Op.inc ch s') → i = j
  kid_ne_zero : ∀ {i : Nat} {ch s : H}, c.ops[i]? = some (Op.inc ch s) → ch ≠ 0
  dec_once : ∀ {i j : Nat} {h : H}, c.ops[i]? = some (Op.dec h) → c.ops[j]? = some (Op.dec h) → i = j
  ords_len : c.ords.length = c.ops.length
  dec_ord : ∀ {i : Nat} {h : H}, c.ops[i]? = some (Op.dec h) → c.ords[i]? = some decOrd
  stamps_len : c.stamps.length = c.kinds.length
  stamp_le : ∀ {a n : Nat}, c.stamps[a]? = some n → n ≤ c.ops.length
  destroy_data : ∀ {f k : Nat}, c.kinds[f]? = some (AKind.destroy k) →
      (∃ h : H, c.ops[k]? = some (Op.dec h)) ∧ (run (c.ops.take k)).val = 1
  destroy_inj : ∀ {f₁ f₂ k : Nat}, c.kinds[f₁]? = some (AKind.destroy k) → c.kinds[f₂]? = some (AKind.destroy k) → f₁ = f₂

variable {decOrd : MemOrd} {fenceOrd : Option MemOrd}

theorem invA_init : InvA decOrd Cfg.init := by
  refine ⟨?_, ?_, ?_, ?_, ?_, ?_, rfl, ?_, rfl, ?_, ?_, ?_⟩
  · intro h t ho
    simp only [Cfg.init] at ho
    by_cases e : h = 0
    · exact ⟨Or.inl e, by simp [Cfg.init, deads]⟩
    · rw [if_neg e] at ho; cases ho
  · intro h hd; simp [Cfg.init, deads] at hd
  · intro x h hu
    cases x with
    | rmw j => obtain ⟨ch, hc⟩ := hu; simp [Cfg.init] at hc
    | oth a => obtain ⟨k, hk, _⟩ := hu; simp [Cfg.init] at hk
  all_goals (intros; simp [Cfg.init] at *)

theorem take_snoc_of_get {l : List Op} {k : Nat} {o x : Op} (h : l[k]? = some x) : (l ++ [o]).take k = l.take k :=
  List.take_append_of_le_length (Nat.le_of_lt (lt_of_getElem? h))

theorem invA_pushKind {c : Cfg} (hA : InvA decOrd c) (k : AKind)
    (hv : ∀ h, k.via = some h → h = 0 ∨ h ∈ kids c.ops)
    (hd : ∀ k', k = AKind.destroy k' → ((∃ h : H, c.ops[k']? = some (Op.dec h)) ∧ (run (c.ops.take k')).val = 1) ∧
      ∀ f : Nat, c.kinds[f]? ≠ some (AKind.destroy k')) :
    InvA decOrd (pushKind c k) := by
  refine ⟨hA.own_live, hA.dead_born, ?_, hA.fresh, hA.kid_ne_zero, hA.dec_once, hA.ords_len, hA.dec_ord, ?_, ?_, ?_, ?_⟩
  · intro x h hu
    rcases uses_snoc_kind.1 hu with hu | ⟨_, hu⟩
    · exact hA.uses_born hu
    · exact hv h hu
  · simp [pushKind, hA.stamps_len]
  · intro a n hs
    rcases getElem?_snoc.1 hs with hs | ⟨_, rfl⟩
    · exact hA.stamp_le hs
    · exact Nat.le_refl _
  · intro f k' hf
    rcases getElem?_snoc.1 hf with hf | ⟨_, rfl⟩
    · exact hA.destroy_data hf
    · exact (hd k' rfl).1
  · intro f₁ f₂ k' h₁ h₂
    rcases getElem?_snoc.1 h₁ with g₁ | ⟨e₁, q₁⟩
    · rcases getElem?_snoc.1 h₂ with g₂ | ⟨e₂, q₂⟩
      · exact hA.destroy_inj g₁ g₂
      · exact absurd g₁ ((hd k' q₂).2 f₁)
    · rcases getElem?_snoc.1 h₂ with g₂ | ⟨e₂, _⟩
      · exact absurd g₂ ((hd k' q₁).2 f₂)
      · rw [e₁, e₂]

theorem invA_clone {c : Cfg} (hA : InvA decOrd c) {t : Nat} {h ch : H} (m : MemOrd) (ho : c.own h = some t)
    (h0 : ch ≠ 0) (hf : ch ∉ kids c.ops) : InvA decOrd (setOwn (pushOp c (Op.inc ch h) m) ch (some t)) := by
  have hkids : kids (c.ops ++ [Op.inc ch h]) = kids c.ops ++ [ch] := by simp [kids_append, kids]
  have hdeads : deads (c.ops ++ [Op.inc ch h]) = deads c.ops := by simp [deads_append, deads]
  have hgrow : ∀ x, (x = 0 ∨ x ∈ kids c.ops) → (x = 0 ∨ x ∈ kids (c.ops ++ [Op.inc ch h])) := by
    intro x hx; rw [hkids]; rcases hx with hx | hx
    · exact Or.inl hx
    · exact Or.inr (List.mem_append_left _ hx)
  refine ⟨?_, ?_, ?_, ?_, ?_, ?_, ?_, ?_, hA.stamps_len, ?_, ?_, hA.destroy_inj⟩
  · intro h' t' ho'
    show (h' = 0 ∨ h' ∈ kids (c.ops ++ [Op.inc ch h])) ∧ h' ∉ deads (c.ops ++ [Op.inc ch h])
    rw [hdeads]
    by_cases e : h' = ch
    · subst e
      refine ⟨Or.inr (by rw [hkids]; simp), ?_⟩
      intro hd
      rcases hA.dead_born hd with h1 | h1
      · exact h0 h1
      · exact hf h1
    · have : c.own h' = some t' := by simpa [setOwn, pushOp, upd_other _ _ e] using ho'
      exact ⟨hgrow _ (hA.own_live this).1, (hA.own_live this).2⟩
  · intro h' hd
    have hd : h' ∈ deads (c.ops ++ [Op.inc ch h]) := hd
    rw [hdeads] at hd
    exact hgrow _ (hA.dead_born hd)
  · intro x h' hu
    have hu : Uses (c.ops ++ [Op.inc ch h]) c.kinds x h' := hu
    rcases uses_snoc_op.1 hu with hu | ⟨_, ch', e⟩
    · exact hgrow _ (hA.uses_born hu)
    · cases e; exact hgrow _ (hA.own_live ho).1
  · intro i j ch' s s' hi hj
    rcases getElem?_snoc.1 hi with hi | ⟨ei, hi⟩ <;> rcases getElem?_snoc.1 hj with hj | ⟨ej, hj⟩
    · exact hA.fresh hi hj
    · cases hj; exact absurd (mem_kids.2 ⟨s, mem_of_getElem? hi⟩) hf
    · cases hi; exact absurd (mem_kids.2 ⟨s', mem_of_getElem? hj⟩) hf
    · rw [ei, ej]
  · intro i ch' s hi
    rcases getElem?_snoc.1 hi with hi | ⟨_, hi⟩
    · exact hA.kid_ne_zero hi
    · cases hi; exact h0
  · intro i j h' hi hj
    rcases getElem?_snoc.1 hi with hi | ⟨_, hi⟩
    · rcases getElem?_snoc.1 hj with hj | ⟨_, hj⟩
      · exact hA.dec_once hi hj
      · cases hj
    · cases hi
  · simp [setOwn, pushOp, hA.ords_len]
  · intro i h' hi
    rcases getElem?_snoc.1 hi with hi | ⟨_, hi⟩
    · exact getElem?_snoc.2 (Or.inl (hA.dec_ord hi))
    · cases hi
  · intro a n hs
    have := hA.stamp_le hs
    simp only [setOwn, pushOp, List.length_append, List.length_singleton]; omega
  · intro f k hf
    obtain ⟨⟨h', hk⟩, hval⟩ := hA.destroy_data hf
    refine ⟨⟨h', getElem?_snoc.2 (Or.inl hk)⟩, ?_⟩
    show (run ((c.ops ++ [Op.inc ch h]).take k)).val = 1
    rw [take_snoc_of_get hk]; exact hval

theorem invA_dec {c : Cfg} (hA : InvA decOrd c) {t : Nat} {h : H} (ho : c.own h = some t) :
    InvA decOrd (setOwn (pushOp c (Op.dec h) decOrd) h none) := by
  have hkids : kids (c.ops ++ [Op.dec h]) = kids c.ops := by simp [kids_append, kids]
  have hdeads : deads (c.ops ++ [Op.dec h]) = deads c.ops ++ [h] := by simp [deads_append, deads]
  refine ⟨?_, ?_, ?_, ?_, ?_, ?_, ?_, ?_, hA.stamps_len, ?_, ?_, hA.destroy_inj⟩
  · intro h' t' ho'
    show (h' = 0 ∨ h' ∈ kids (c.ops ++ [Op.dec h])) ∧ h' ∉ deads (c.ops ++ [Op.dec h])
    rw [hkids, hdeads]
    by_cases e : h' = h
    · subst e; simp [setOwn] at ho'
    · have : c.own h' = some t' := by simpa [setOwn, pushOp, upd_other _ _ e] using ho'
      refine ⟨(hA.own_live this).1, ?_⟩
      simp only [List.mem_append, List.mem_singleton]
      rintro (hd | hd)
      · exact (hA.own_live this).2 hd
      · exact e hd
  · intro h' hd
    have hd : h' ∈ deads (c.ops ++ [Op.dec h]) := hd
    show h' = 0 ∨ h' ∈ kids (c.ops ++ [Op.dec h])
    rw [hkids]
    rw [hdeads] at hd
    simp only [List.mem_append, List.mem_singleton] at hd
    rcases hd with hd | rfl
    · exact hA.dead_born hd
    · exact (hA.own_live ho).1
  · intro x h' hu
    have hu : Uses (c.ops ++ [Op.dec h]) c.kinds x h' := hu
    show h' = 0 ∨ h' ∈ kids (c.ops ++ [Op.dec h])
    rw [hkids]
    rcases uses_snoc_op.1 hu with hu | ⟨_, ch', e⟩
    · exact hA.uses_born hu
    · cases e
  · intro i j ch' s s' hi hj
    rcases getElem?_snoc.1 hi with hi | ⟨_, hi⟩
    · rcases getElem?_snoc.1 hj with hj | ⟨_, hj⟩
      · exact hA.fresh hi hj
      · cases hj
    · cases hi
  · intro i ch' s hi
    rcases getElem?_snoc.1 hi with hi | ⟨_, hi⟩
    · exact hA.kid_ne_zero hi
    · cases hi
  · intro i j h' hi hj
    rcases getElem?_snoc.1 hi with hi | ⟨ei, hi⟩ <;> rcases getElem?_snoc.1 hj with hj | ⟨ej, hj⟩
    · exact hA.dec_once hi hj
    · cases hj; exact absurd (mem_deads.2 (mem_of_getElem? hi)) (hA.own_live ho).2
    · cases hi; exact absurd (mem_deads.2 (mem_of_getElem? hj)) (hA.own_live ho).2
    · rw [ei, ej]
  · simp [setOwn, pushOp, hA.ords_len]
  · intro i h' hi
    rcases getElem?_snoc.1 hi with hi | ⟨ei, _⟩
    · exact getElem?_snoc.2 (Or.inl (hA.dec_ord hi))
    · exact getElem?_snoc.2 (Or.inr ⟨by rw [ei, hA.ords_len], rfl⟩)
  · intro a n hs
    have := hA.stamp_le hs
    simp only [setOwn, pushOp, List.length_append, List.length_singleton]; omega
  · intro f k hf
    obtain ⟨⟨h', hk⟩, hval⟩ := hA.destroy_data hf
    refine ⟨⟨h', getElem?_snoc.2 (Or.inl hk)⟩, ?_⟩
    show (run ((c.ops ++ [Op.dec h]).take k)).val = 1
    rw [take_snoc_of_get hk]; exact hval

theorem invA_move {c : Cfg} (hA : InvA decOrd c) {t : Nat} {h : H} (t' : Nat) (ho : c.own h = some t) :
    InvA decOrd (setOwn c h (some t')) := by
  refine ⟨?_, hA.dead_born, hA.uses_born, hA.fresh, hA.kid_ne_zero, hA.dec_once, hA.ords_len, hA.dec_ord,
    hA.stamps_len, hA.stamp_le, hA.destroy_data, hA.destroy_inj⟩
  intro h' t'' ho'
  by_cases e : h' = h
  · subst e; exact hA.own_live ho
  · have : c.own h' = some t'' := by simpa [setOwn, upd_other _ _ e] using ho'
    exact hA.own_live this

/-! ## the ownership-chain invariant -/

/-- the edges `destroy_shape` asks for -/
def DestroyEdges (fenceOrd : Option MemOrd) (R : E → E → Prop) (kinds : List AKind) (k f : Nat) : Prop :=
  match fenceOrd with
  | some o => ∃ (l : Nat) (rf : Option Nat), kinds[l]? = some (AKind.fenceLoad k o rf) ∧ R (.rmw k) (.oth l) ∧ R (.oth l) (.oth f)
  | none => R (.rmw k) (.oth f)

theorem destroyEdges_snoc {R : E → E → Prop} {kinds : List AKind} {k f : Nat} (x : AKind)
    (h : DestroyEdges fenceOrd R kinds k f) : DestroyEdges fenceOrd R (kinds ++ [x]) k f := by
  cases fenceOrd with
  | none => exact h
  | some o =>
    obtain ⟨l, rf, h1, h2⟩ := h
    exact ⟨l, rf, getElem?_snoc.2 (Or.inl h1), h2⟩

structure InvB (fenceOrd : Option MemOrd) (R : E → E → Prop) (c : Cfg) : Prop where
  /-- **owner chain**: whatever touched `h` so far is hb-before the current position of `h`'s owner -/
  cov : ∀ {h t : Nat} {x : E}, c.own h = some t → Touch c x h → Cov R c t x
  /-- whatever touched a released handle is hb-before its release -/
  dead : ∀ {k : Nat} {h : H} {x : E}, c.ops[k]? = some (Op.dec h) → Touch c x h → R x (.rmw k)
  /-- the birth of a handle is hb-before every event through it -/
  born : ∀ {x : E} {h : H} {i : Nat} {s : H}, Uses c.ops c.kinds x h → c.ops[i]? = some (Op.inc h s) → R (.rmw i) x
  destroy_edges : ∀ {f k : Nat}, c.kinds[f]? = some (AKind.destroy k) → DestroyEdges fenceOrd R c.kinds k f
  /-- a non-RMW event through `h` is hb-ordered with every RMW touching `h`, the way round the run performed them -/
  seq : ∀ {a n i : Nat} {h : H}, c.stamps[a]? = some n → Uses c.ops c.kinds (.oth a) h → Touch c (.rmw i) h →
      (i < n → R (.rmw i) (.oth a)) ∧ (n ≤ i → R (.oth a) (.rmw i))

theorem touch_born {c : Cfg} (hA : InvA decOrd c) {x : E} {h : H} (ht : Touch c x h) : h = 0 ∨ h ∈ kids c.ops := by
  rcases ht with hu | hb
  · exact hA.uses_born hu
  · exact Or.inr (born_mem_kids hb)

theorem touch_rmw_lt {c : Cfg} {i : Nat} {h : H} (ht : Touch c (.rmw i) h) : i < c.ops.length := by
  rcases ht with ⟨_, hu⟩ | ⟨_, hb⟩
  · exact lt_of_getElem? hu
  · exact lt_of_getElem? hb

theorem uses_oth_lt {ops : List Op} {kinds : List AKind} {a : Nat} {h : H} (hu : Uses ops kinds (.oth a) h) :
    a < kinds.length := by
  obtain ⟨_, hk, _⟩ := hu
  exact lt_of_getElem? hk

theorem invB_init (R : E → E → Prop) : InvB fenceOrd R Cfg.init := by
  have hu : ∀ x h, ¬ Touch Cfg.init x h := by
    intro x h ht
    cases x with
    | rmw j => exact absurd (touch_rmw_lt ht) (by simp [Cfg.init])
    | oth a =>
      rcases ht with hu | hb
      · exact absurd (uses_oth_lt hu) (by simp [Cfg.init])
      · cases hb
  refine ⟨?_, ?_, ?_, ?_, ?_⟩
  · intro h t x _ ht; exact absurd ht (hu _ _)
  · intro k h x _ ht; exact absurd ht (hu _ _)
  · intro x h i s hx _; exact absurd (Or.inl hx) (hu x h)
  · intro f k hf; simp [Cfg.init] at hf
  · intro a n i h hs; simp [Cfg.init] at hs

theorem edgesIn_of_emit {R : E → E → Prop} {c : Cfg} {t : Nat} {e : E} (hE : EdgesIn R (emit c t e)) : EdgesIn R c := by
  intro p hp
  apply hE p
  rcases hp with hp | hp
  · exact Or.inl (by simp only [emit, List.mem_append]; exact Or.inl hp)
  · exact Or.inr (by simp only [emit, List.mem_append]; exact Or.inl hp)

theorem touch_useStep {c : Cfg} {t : Nat} {k : AKind} {x : E} {h : H} :
    Touch (useStep c t k) x h ↔ Touch c x h ∨ (x = .oth c.kinds.length ∧ k.via = some h) := by
  show (Uses c.ops (c.kinds ++ [k]) x h ∨ Born c.ops x h) ↔ _
  rw [uses_snoc_kind]
  simp only [Touch]
  constructor
  · rintro ((h1 | h1) | h1)
    · exact Or.inl (Or.inl h1)
    · exact Or.inr h1
    · exact Or.inl (Or.inr h1)
  · rintro ((h1 | h1) | h1)
    · exact Or.inl (Or.inl h1)
    · exact Or.inr h1
    · exact Or.inl (Or.inr h1)

/-- what must hold before a `destroy k` event is issued by `t` -/
def DestroyPre (fenceOrd : Option MemOrd) (R : E → E → Prop) (c : Cfg) (t k : Nat) : Prop :=
  match fenceOrd with
  | some o => ∃ (l : Nat) (rf : Option Nat), c.kinds[l]? = some (AKind.fenceLoad k o rf) ∧ R (.rmw k) (.oth l) ∧
      Ev.oth l ∈ front c t
  | none => Ev.rmw k ∈ front c t

theorem invB_useStep {R : E → E → Prop} (hT : ∀ a b c, R a b → R b c → R a c) {c : Cfg}
    (hA : InvA decOrd c) (hB : InvB fenceOrd R c) {t : Nat} (k : AKind)
    (hv : ∀ h, k.via = some h → c.own h = some t)
    (hd : ∀ k', k = AKind.destroy k' → DestroyPre fenceOrd R c t k')
    (hE : EdgesIn R (useStep c t k)) : InvB fenceOrd R (useStep c t k) := by
  have hE' : EdgesIn R (emit (pushKind c k) t (.oth c.kinds.length)) := hE
  refine ⟨?_, ?_, ?_, ?_, ?_⟩
  · intro h t' x ho ht
    have ho : c.own h = some t' := ho
    rcases touch_useStep.1 ht with ht | ⟨rfl, hvia⟩
    · exact cov_emit_mono hT (c := pushKind c k) (hB.cov ho ht) hE'
    · have := hv h hvia
      rw [ho] at this; cases this
      exact cov_emit_new R _ _ _
  · intro k0 h x hk ht
    have hk : c.ops[k0]? = some (Op.dec h) := hk
    rcases touch_useStep.1 ht with ht | ⟨rfl, hvia⟩
    · exact hB.dead hk ht
    · exact absurd (mem_deads.2 (mem_of_getElem? hk)) (hA.own_live (hv h hvia)).2
  · intro x h i s hu hi
    have hi : c.ops[i]? = some (Op.inc h s) := hi
    have hu : Uses c.ops (c.kinds ++ [k]) x h := hu
    rcases uses_snoc_kind.1 hu with hu | ⟨rfl, hvia⟩
    · exact hB.born hu hi
    · have hc : Cov R (pushKind c k) t (.rmw i) := hB.cov (hv h hvia) (Or.inr ⟨s, hi⟩)
      exact cov_R hT hc hE'
  · intro f k' hf
    have hf : (c.kinds ++ [k])[f]? = some (AKind.destroy k') := hf
    show DestroyEdges fenceOrd R (c.kinds ++ [k]) k' f
    rcases getElem?_snoc.1 hf with hf | ⟨rfl, hkk⟩
    · exact destroyEdges_snoc _ (hB.destroy_edges hf)
    · have hp := hd k' hkk
      unfold DestroyPre at hp
      unfold DestroyEdges
      cases fenceOrd with
      | none => exact front_edge (c := pushKind c k) hp hE'
      | some o =>
        obtain ⟨l, rf, h1, h2, h3⟩ := hp
        exact ⟨l, rf, getElem?_snoc.2 (Or.inl h1), h2, front_edge (c := pushKind c k) h3 hE'⟩
  · intro a n i h hs hu ht
    have hs : (c.stamps ++ [c.ops.length])[a]? = some n := hs
    have hu : Uses c.ops (c.kinds ++ [k]) (.oth a) h := hu
    have ht : Touch c (.rmw i) h := by
      rcases touch_useStep.1 ht with ht | ⟨e, _⟩
      · exact ht
      · cases e
    rcases getElem?_snoc.1 hs with hs | ⟨ea, en⟩
    · rcases uses_snoc_kind.1 hu with hu | ⟨e, _⟩
      · exact hB.seq hs hu ht
      · have := lt_of_getElem? hs
        rw [hA.stamps_len] at this
        cases e; omega
    · rcases uses_snoc_kind.1 hu with hu | ⟨e, hvia⟩
      · have := uses_oth_lt hu
        rw [hA.stamps_len] at ea; omega
      · have hlt := touch_rmw_lt ht
        cases e
        refine ⟨fun _ => ?_, fun hle => by omega⟩
        have hc : Cov R (pushKind c k) t (.rmw i) := hB.cov (hv h hvia) ht
        exact cov_R hT hc hE'

theorem touch_cloneStep {c : Cfg} {t : Nat} {h ch : H} {x : E} {h' : H} :
    Touch (cloneStep c t h ch) x h' ↔ Touch c x h' ∨ (x = .rmw c.ops.length ∧ (h' = h ∨ h' = ch)) := by
  show (Uses (c.ops ++ [Op.inc ch h]) c.kinds x h' ∨ Born (c.ops ++ [Op.inc ch h]) x h') ↔ _
  rw [uses_snoc_op, born_snoc_op]
  simp only [Touch]
  constructor
  · rintro ((h1 | ⟨e, ch', q⟩) | (h1 | ⟨e, s, q⟩))
    · exact Or.inl (Or.inl h1)
    · cases q; exact Or.inr ⟨e, Or.inl rfl⟩
    · exact Or.inl (Or.inr h1)
    · cases q; exact Or.inr ⟨e, Or.inr rfl⟩
  · rintro ((h1 | h1) | ⟨e, rfl | rfl⟩)
    · exact Or.inl (Or.inl h1)
    · exact Or.inr (Or.inl h1)
    · exact Or.inl (Or.inr ⟨e, ch, rfl⟩)
    · exact Or.inr (Or.inr ⟨e, h, rfl⟩)

theorem invB_clone {R : E → E → Prop} (hT : ∀ a b c, R a b → R b c → R a c) {c : Cfg}
    (hA : InvA decOrd c) (hB : InvB fenceOrd R c) {t : Nat} {h ch : H} (ho : c.own h = some t)
    (h0 : ch ≠ 0) (hf : ch ∉ kids c.ops)
    (hE : EdgesIn R (cloneStep c t h ch)) : InvB fenceOrd R (cloneStep c t h ch) := by
  have hE' : EdgesIn R (emit (pushOp c (Op.inc ch h) .relaxed) t (.rmw c.ops.length)) := hE
  have hnt : ∀ x, ¬ Touch c x ch := by
    intro x ht
    rcases touch_born hA ht with h1 | h1
    · exact h0 h1
    · exact hf h1
  have hne : h ≠ ch := by
    rintro rfl
    rcases (hA.own_live ho).1 with h1 | h1
    · exact h0 h1
    · exact hf h1
  refine ⟨?_, ?_, ?_, ?_, ?_⟩
  · intro h' t' x ho' ht
    have go : upd c.own ch (some t) h' = some t' := ho'
    by_cases e : h' = ch
    · rw [e, upd_same] at go; cases go
      rcases touch_cloneStep.1 ht with gt | ⟨rfl, _⟩
      · rw [e] at gt; exact absurd gt (hnt _)
      · exact cov_emit_new R _ _ _
    · rw [upd_other _ _ e] at go
      rcases touch_cloneStep.1 ht with gt | ⟨rfl, e' | e'⟩
      · exact cov_emit_mono hT (c := pushOp c (Op.inc ch h) .relaxed) (hB.cov go gt) hE'
      · rw [e', ho] at go; cases go
        exact cov_emit_new R _ _ _
      · exact absurd e' e
  · intro k0 h' x hk ht
    have gk : (c.ops ++ [Op.inc ch h])[k0]? = some (Op.dec h') := hk
    rcases getElem?_snoc.1 gk with gk | ⟨_, q⟩
    · have hdead : h' ∈ deads c.ops := mem_deads.2 (mem_of_getElem? gk)
      rcases touch_cloneStep.1 ht with gt | ⟨_, e' | e'⟩
      · exact hB.dead gk gt
      · rw [e'] at hdead; exact absurd hdead (hA.own_live ho).2
      · rw [e'] at hdead
        rcases hA.dead_born hdead with h1 | h1
        · exact absurd h1 h0
        · exact absurd h1 hf
    · cases q
  · intro x h' i s hu hi
    have gu : Uses (c.ops ++ [Op.inc ch h]) c.kinds x h' := hu
    have gi : (c.ops ++ [Op.inc ch h])[i]? = some (Op.inc h' s) := hi
    rcases uses_snoc_op.1 gu with gu | ⟨ex, ch', q⟩
    · rcases getElem?_snoc.1 gi with gi | ⟨_, q⟩
      · exact hB.born gu gi
      · have e' : ch = h' := by cases q; rfl
        rw [← e'] at gu; exact absurd (Or.inl gu) (hnt _)
    · have e' : h = h' := by cases q; rfl
      rcases getElem?_snoc.1 gi with gi | ⟨_, q'⟩
      · rw [← e'] at gi
        have hc : Cov R (pushOp c (Op.inc ch h) .relaxed) t (.rmw i) := hB.cov ho (Or.inr ⟨s, gi⟩)
        rw [ex]; exact cov_R hT hc hE'
      · have e'' : ch = h' := by cases q'; rfl
        exact absurd (e'.trans e''.symm) hne
  · intro f k hf'; exact hB.destroy_edges hf'
  · intro a n i h' hs hu ht
    have gs : c.stamps[a]? = some n := hs
    have gu0 : Uses (c.ops ++ [Op.inc ch h]) c.kinds (.oth a) h' := hu
    have gu : Uses c.ops c.kinds (.oth a) h' := by
      rcases uses_snoc_op.1 gu0 with gu | ⟨e, _⟩
      · exact gu
      · cases e
    rcases touch_cloneStep.1 ht with gt | ⟨e, e' | e'⟩
    · exact hB.seq gs gu gt
    · have ei : i = c.ops.length := by cases e; rfl
      have := hA.stamp_le gs
      refine ⟨fun hlt => by omega, fun _ => ?_⟩
      rw [e'] at gu
      have hc : Cov R (pushOp c (Op.inc ch h) .relaxed) t (.oth a) := hB.cov ho (Or.inl gu)
      rw [ei]; exact cov_R hT hc hE'
    · rw [e'] at gu; exact absurd (Or.inl gu) (hnt _)

theorem touch_decStep {c : Cfg} {t : Nat} {h : H} {x : E} {h' : H} :
    Touch (decStep decOrd c t h) x h' ↔ Touch c x h' := by
  show (Uses (c.ops ++ [Op.dec h]) c.kinds x h' ∨ Born (c.ops ++ [Op.dec h]) x h') ↔ _
  rw [uses_snoc_op, born_snoc_op]
  simp only [Touch]
  constructor
  · rintro ((h1 | ⟨_, _, q⟩) | (h1 | ⟨_, _, q⟩))
    · exact Or.inl h1
    · cases q
    · exact Or.inr h1
    · cases q
  · rintro (h1 | h1)
    · exact Or.inl (Or.inl h1)
    · exact Or.inr (Or.inl h1)

theorem invB_dec {R : E → E → Prop} (hT : ∀ a b c, R a b → R b c → R a c) {c : Cfg}
    (hB : InvB fenceOrd R c) {t : Nat} {h : H} (ho : c.own h = some t)
    (hE : EdgesIn R (decStep decOrd c t h)) : InvB fenceOrd R (decStep decOrd c t h) := by
  have hE' : EdgesIn R (emit (pushOp c (Op.dec h) decOrd) t (.rmw c.ops.length)) := hE
  refine ⟨?_, ?_, ?_, ?_, ?_⟩
  · intro h' t' x ho' ht
    have ho' : upd c.own h none h' = some t' := ho'
    by_cases e : h' = h
    · subst e; rw [upd_same] at ho'; cases ho'
    · rw [upd_other _ _ e] at ho'
      exact cov_emit_mono hT (c := pushOp c (Op.dec h) decOrd) (hB.cov ho' (touch_decStep.1 ht)) hE'
  · intro k0 h' x hk ht
    have hk : (c.ops ++ [Op.dec h])[k0]? = some (Op.dec h') := hk
    have ht := touch_decStep.1 ht
    rcases getElem?_snoc.1 hk with hk | ⟨rfl, q⟩
    · exact hB.dead hk ht
    · cases q
      have hc : Cov R (pushOp c (Op.dec h) decOrd) t x := hB.cov ho ht
      exact cov_R hT hc hE'
  · intro x h' i s hu hi
    have hu : Uses (c.ops ++ [Op.dec h]) c.kinds x h' := hu
    have hi : (c.ops ++ [Op.dec h])[i]? = some (Op.inc h' s) := hi
    rcases uses_snoc_op.1 hu with hu | ⟨_, _, q⟩
    · rcases getElem?_snoc.1 hi with hi | ⟨_, q⟩
      · exact hB.born hu hi
      · cases q
    · cases q
  · intro f k hf'; exact hB.destroy_edges hf'
  · intro a n i h' hs hu ht
    have hu : Uses (c.ops ++ [Op.dec h]) c.kinds (.oth a) h' := hu
    have hu : Uses c.ops c.kinds (.oth a) h' := by
      rcases uses_snoc_op.1 hu with hu | ⟨e, _⟩
      · exact hu
      · cases e
    exact hB.seq hs hu (touch_decStep.1 ht)

theorem invB_send {R : E → E → Prop} {c : Cfg} (hB : InvB fenceOrd R c) {t : Nat} {h : H} (t' : Nat)
    (ho : c.own h = some t) : InvB fenceOrd R (setOwn (give c t t') h (some t')) := by
  refine ⟨?_, hB.dead, hB.born, hB.destroy_edges, hB.seq⟩
  intro h' t'' x ho' ht
  have ho' : upd c.own h (some t') h' = some t'' := ho'
  have ht : Touch c x h' := ht
  by_cases e : h' = h
  · subst e; rw [upd_same] at ho'; cases ho'
    exact cov_give (hB.cov ho ht)
  · rw [upd_other _ _ e] at ho'
    exact cov_give_mono (hB.cov ho' ht)

theorem invB_sync {R : E → E → Prop} {c : Cfg} (hB : InvB fenceOrd R c) (t t' : Nat) :
    InvB fenceOrd R (give c t t') := by
  refine ⟨?_, hB.dead, hB.born, hB.destroy_edges, hB.seq⟩
  intro h' t'' x ho' ht
  exact cov_give_mono (hB.cov ho' ht)

/-! ## one step preserves both invariants -/

theorem invA_congr {c c' : Cfg} (hA : InvA decOrd c) (h1 : c'.own = c.own) (h2 : c'.ops = c.ops) (h3 : c'.ords = c.ords)
    (h4 : c'.kinds = c.kinds) (h5 : c'.stamps = c.stamps) : InvA decOrd c' := by
  cases c; cases c'
  simp only at h1 h2 h3 h4 h5
  subst h1 h2 h3 h4 h5
  exact ⟨hA.own_live, hA.dead_born, hA.uses_born, hA.fresh, hA.kid_ne_zero, hA.dec_once, hA.ords_len, hA.dec_ord,
    hA.stamps_len, hA.stamp_le, hA.destroy_data, hA.destroy_inj⟩

theorem invA_useStep {c : Cfg} (hA : InvA decOrd c) (t : Nat) (k : AKind)
    (hv : ∀ h, k.via = some h → h = 0 ∨ h ∈ kids c.ops)
    (hd : ∀ k', k = AKind.destroy k' → ((∃ h : H, c.ops[k']? = some (Op.dec h)) ∧ (run (c.ops.take k')).val = 1) ∧
      ∀ f : Nat, c.kinds[f]? ≠ some (AKind.destroy k')) :
    InvA decOrd (useStep c t k) :=
  invA_congr (invA_pushKind hA k hv hd) rfl rfl rfl rfl rfl

theorem mem_front_emit (c : Cfg) (t : Nat) (e : E) : e ∈ front (emit c t e) t := by
  rw [front_emit_self]; simp

/-- the fence load and the `destroy` event after a decrement that read 1 -/
theorem inv_destroy {R : E → E → Prop} (hT : ∀ a b c, R a b → R b c → R a c) {c : Cfg} {t : Nat} {h : H}
    (frf : Option Nat) (hA : InvA decOrd c) (ho : c.own h = some t) (hval : (run c.ops).val = 1)
    (hB1 : InvB fenceOrd R (decStep decOrd c t h))
    (hE : EdgesIn R (destroyStep (fenceStep fenceOrd (decStep decOrd c t h) t c.ops.length frf) t c.ops.length)) :
    InvA decOrd (destroyStep (fenceStep fenceOrd (decStep decOrd c t h) t c.ops.length frf) t c.ops.length) ∧
    InvB fenceOrd R (destroyStep (fenceStep fenceOrd (decStep decOrd c t h) t c.ops.length frf) t c.ops.length) := by
  have hA1 : InvA decOrd (decStep decOrd c t h) := invA_congr (invA_dec hA ho) rfl rfl rfl rfl rfl
  have hE2 : EdgesIn R (fenceStep fenceOrd (decStep decOrd c t h) t c.ops.length frf) := edgesIn_of_emit hE
  have hops : ∀ k : AKind, (∃ h' : H, (c.ops ++ [Op.dec h])[c.ops.length]? = some (Op.dec h')) ∧
      (run ((c.ops ++ [Op.dec h]).take c.ops.length)).val = 1 := by
    intro _
    refine ⟨⟨h, getElem?_snoc.2 (Or.inr ⟨rfl, rfl⟩)⟩, ?_⟩
    rw [List.take_left' rfl]; exact hval
  have hnod : ∀ f : Nat, c.kinds[f]? ≠ some (AKind.destroy c.ops.length) := by
    intro f hf
    obtain ⟨⟨_, hk⟩, _⟩ := hA.destroy_data hf
    exact absurd (lt_of_getElem? hk) (Nat.lt_irrefl _)
  have hfr : Ev.rmw c.ops.length ∈ front (decStep decOrd c t h) t :=
    mem_front_emit (pushOp c (Op.dec h) decOrd) t _
  cases fenceOrd with
  | none =>
    refine ⟨invA_useStep hA1 t _ (by intro _ hv; cases hv) ?_, invB_useStep hT hA1 hB1 _ (by intro _ hv; cases hv) ?_ hE⟩
    · intro k' e; cases e
      exact ⟨hops (.destroy c.ops.length), hnod⟩
    · intro k' e; cases e
      exact hfr
  | some o =>
    have hA2 : InvA decOrd (useStep (decStep decOrd c t h) t (.fenceLoad c.ops.length o frf)) :=
      invA_useStep hA1 t _ (by intro _ hv; cases hv) (by intro _ e; cases e)
    have hB2 : InvB (some o) R (useStep (decStep decOrd c t h) t (.fenceLoad c.ops.length o frf)) :=
      invB_useStep hT hA1 hB1 _ (by intro _ hv; cases hv) (by intro _ e; cases e) hE2
    refine ⟨invA_useStep hA2 t _ (by intro _ hv; cases hv) ?_, invB_useStep hT hA2 hB2 _ (by intro _ hv; cases hv) ?_ hE⟩
    · intro k' e; cases e
      refine ⟨hops (.destroy c.ops.length), ?_⟩
      intro f hf
      have hf : (c.kinds ++ [AKind.fenceLoad c.ops.length o frf])[f]? = some (AKind.destroy c.ops.length) := hf
      rcases getElem?_snoc.1 hf with hf | ⟨_, q⟩
      · exact hnod f hf
      · cases q
    · intro k' e; cases e
      refine ⟨c.kinds.length, frf, ?_, ?_, ?_⟩
      · show (c.kinds ++ [AKind.fenceLoad c.ops.length o frf])[c.kinds.length]? = _
        exact getElem?_snoc.2 (Or.inr ⟨rfl, rfl⟩)
      · exact front_edge (c := pushKind (decStep decOrd c t h) (.fenceLoad c.ops.length o frf)) hfr hE2
      · exact mem_front_emit (pushKind (decStep decOrd c t h) (.fenceLoad c.ops.length o frf)) t _

theorem inv_step {R : E → E → Prop} (hT : ∀ a b c, R a b → R b c → R a c) {c c' : Cfg} {t : Nat} {ins : Instr}
    (hA : InvA decOrd c) (hB : InvB fenceOrd R c)
    (hs : step decOrd fenceOrd c t ins = some c') (hE : EdgesIn R c') :
    InvA decOrd c' ∧ InvB fenceOrd R c' := by
  cases ins with
  | clone h ch =>
    simp only [step] at hs
    split at hs
    · rename_i hg
      obtain ⟨ho, h0, hf⟩ := hg
      cases hs
      exact ⟨invA_congr (invA_clone hA .relaxed ho h0 hf) rfl rfl rfl rfl rfl, invB_clone hT hA hB ho h0 hf hE⟩
    · cases hs
  | access h =>
    simp only [step] at hs
    split at hs
    · rename_i ho
      cases hs
      exact ⟨invA_useStep hA t _ (by intro h' hv; cases hv; exact (hA.own_live ho).1) (by intro _ e; cases e),
        invB_useStep hT hA hB _ (by intro h' hv; cases hv; exact ho) (by intro _ e; cases e) hE⟩
    · cases hs
  | load h o rf =>
    simp only [step] at hs
    split at hs
    · rename_i ho
      cases hs
      exact ⟨invA_useStep hA t _ (by intro h' hv; cases hv; exact (hA.own_live ho).1) (by intro _ e; cases e),
        invB_useStep hT hA hB _ (by intro h' hv; cases hv; exact ho) (by intro _ e; cases e) hE⟩
    · cases hs
  | drop h frf =>
    simp only [step] at hs
    split at hs
    · rename_i ho
      split at hs
      · rename_i hval
        cases hs
        have hE1 : EdgesIn R (decStep decOrd c t h) := by
          have h2 : EdgesIn R (fenceStep fenceOrd (decStep decOrd c t h) t c.ops.length frf) := edgesIn_of_emit hE
          cases fenceOrd with
          | none => exact h2
          | some o => exact edgesIn_of_emit h2
        exact inv_destroy hT frf hA ho hval (invB_dec hT hB ho hE1) hE
      · cases hs
        exact ⟨invA_congr (invA_dec hA ho) rfl rfl rfl rfl rfl, invB_dec hT hB ho hE⟩
    · cases hs
  | send h t' =>
    simp only [step] at hs
    split at hs
    · rename_i ho
      cases hs
      exact ⟨invA_congr (invA_move hA t' ho) rfl rfl rfl rfl rfl, invB_send hB t' ho⟩
    · cases hs
  | sync t' =>
    simp only [step] at hs
    cases hs
    exact ⟨invA_congr hA rfl rfl rfl rfl rfl, invB_sync hB t t'⟩

theorem edgesIn_of_step {R : E → E → Prop} {c c' : Cfg} {t : Nat} {ins : Instr}
    (hs : step decOrd fenceOrd c t ins = some c') (hE : EdgesIn R c') : EdgesIn R c := by
  cases ins with
  | clone h ch =>
    simp only [step] at hs
    split at hs
    · cases hs; exact edgesIn_of_emit (c := pushOp c (Op.inc ch h) .relaxed) hE
    · cases hs
  | access h =>
    simp only [step] at hs
    split at hs
    · cases hs; exact edgesIn_of_emit (c := pushKind c (.access h)) hE
    · cases hs
  | load h o rf =>
    simp only [step] at hs
    split at hs
    · cases hs; exact edgesIn_of_emit (c := pushKind c (.load h o rf)) hE
    · cases hs
  | drop h frf =>
    simp only [step] at hs
    split at hs
    · split at hs
      · cases hs
        have h2 : EdgesIn R (fenceStep fenceOrd (decStep decOrd c t h) t c.ops.length frf) := edgesIn_of_emit hE
        have h1 : EdgesIn R (decStep decOrd c t h) := by
          cases fenceOrd with
          | none => exact h2
          | some o => exact edgesIn_of_emit h2
        exact edgesIn_of_emit (c := pushOp c (Op.dec h) decOrd) h1
      · cases hs; exact edgesIn_of_emit (c := pushOp c (Op.dec h) decOrd) hE
    · cases hs
  | send h t' =>
    simp only [step] at hs
    split at hs
    · cases hs; exact hE
    · cases hs
  | sync t' =>
    simp only [step] at hs
    cases hs; exact hE

theorem inv_exec {R : E → E → Prop} (hT : ∀ a b c, R a b → R b c → R a c) :
    ∀ (l : List (Nat × Instr)) {c c' : Cfg}, InvA decOrd c → InvB fenceOrd R c →
      exec decOrd fenceOrd c l = some c' → EdgesIn R c' → (InvA decOrd c' ∧ InvB fenceOrd R c') ∧ EdgesIn R c
  | [], c, c', hA, hB, he, hE => by
    simp only [exec] at he; cases he; exact ⟨⟨hA, hB⟩, hE⟩
  | (t, i) :: r, c, c', hA, hB, he, hE => by
    simp only [exec] at he
    split at he
    · rename_i c1 hs
      -- the edges of the intermediate configuration are among those of the final one
      have hE1 : EdgesIn R c1 := edges_exec r he hE
      obtain ⟨hA1, hB1⟩ := inv_step hT hA hB hs hE1
      exact ⟨(inv_exec hT r hA1 hB1 he hE).1, edgesIn_of_step hs hE1⟩
    · cases he
where
  edges_exec : ∀ (l : List (Nat × Instr)) {c c' : Cfg}, exec decOrd fenceOrd c l = some c' → EdgesIn R c' → EdgesIn R c
  | [], c, c', he, hE => by simp only [exec] at he; cases he; exact hE
  | (t, i) :: r, c, c', he, hE => by
    simp only [exec] at he
    split at he
    · rename_i c1 hs
      exact edgesIn_of_step hs (edges_exec r he hE)
    · cases he

/-! ## every recorded edge joins events that exist -/

def InR (n : Nat) : E → Prop
  | .rmw _ => True
  | .oth a => a < n

theorem InR_mono {n m : Nat} (h : n ≤ m) {e : E} (he : InR n e) : InR m e := by
  cases e with
  | rmw _ => trivial
  | oth a => exact Nat.lt_of_lt_of_le he h

structure InvC (c : Cfg) : Prop where
  hist_in : ∀ {t : Nat} {e : E}, e ∈ c.hist t → InR c.kinds.length e
  pend_in : ∀ {t : Nat} {e : E}, e ∈ c.pend t → InR c.kinds.length e
  po_in : ∀ {p : E × E}, p ∈ c.po → InR c.kinds.length p.1 ∧ InR c.kinds.length p.2
  sw_in : ∀ {p : E × E}, p ∈ c.sw → InR c.kinds.length p.1 ∧ InR c.kinds.length p.2

theorem invC_init : InvC Cfg.init := by
  refine ⟨?_, ?_, ?_, ?_⟩ <;> intros <;> simp [Cfg.init] at *

theorem invC_emit {c : Cfg} (hC : InvC c) (t : Nat) {e : E} (he : InR c.kinds.length e) : InvC (emit c t e) := by
  refine ⟨?_, ?_, ?_, ?_⟩
  · intro t' x hx
    have hx : x ∈ upd c.hist t (e :: c.hist t) t' := hx
    by_cases h : t' = t
    · subst h; rw [upd_same] at hx
      rcases List.mem_cons.1 hx with rfl | hx
      · exact he
      · exact hC.hist_in hx
    · rw [upd_other _ _ h] at hx; exact hC.hist_in hx
  · intro t' x hx
    have hx : x ∈ upd c.pend t [] t' := hx
    by_cases h : t' = t
    · subst h; rw [upd_same] at hx; cases hx
    · rw [upd_other _ _ h] at hx; exact hC.pend_in hx
  · intro p hp
    have hp : p ∈ c.po ++ (c.hist t).map (fun x => (x, e)) := hp
    rcases List.mem_append.1 hp with hp | hp
    · exact hC.po_in hp
    · obtain ⟨x, hx, rfl⟩ := List.mem_map.1 hp
      exact ⟨hC.hist_in hx, he⟩
  · intro p hp
    have hp : p ∈ c.sw ++ (c.pend t).map (fun x => (x, e)) := hp
    rcases List.mem_append.1 hp with hp | hp
    · exact hC.sw_in hp
    · obtain ⟨x, hx, rfl⟩ := List.mem_map.1 hp
      exact ⟨hC.pend_in hx, he⟩

theorem invC_pushKind {c : Cfg} (hC : InvC c) (k : AKind) : InvC (pushKind c k) := by
  have hle : c.kinds.length ≤ (c.kinds ++ [k]).length := by simp
  exact ⟨fun hx => InR_mono hle (hC.hist_in hx), fun hx => InR_mono hle (hC.pend_in hx),
    fun hp => ⟨InR_mono hle (hC.po_in hp).1, InR_mono hle (hC.po_in hp).2⟩,
    fun hp => ⟨InR_mono hle (hC.sw_in hp).1, InR_mono hle (hC.sw_in hp).2⟩⟩

theorem invC_pushOp {c : Cfg} (hC : InvC c) (o : Op) (m : MemOrd) : InvC (pushOp c o m) :=
  ⟨hC.hist_in, hC.pend_in, hC.po_in, hC.sw_in⟩

theorem invC_setOwn {c : Cfg} (hC : InvC c) (h : H) (v : Option Nat) : InvC (setOwn c h v) :=
  ⟨hC.hist_in, hC.pend_in, hC.po_in, hC.sw_in⟩

theorem invC_give {c : Cfg} (hC : InvC c) (t t' : Nat) : InvC (give c t t') := by
  refine ⟨hC.hist_in, ?_, hC.po_in, hC.sw_in⟩
  intro t'' x hx
  have hx : x ∈ upd c.pend t' (front c t ++ c.pend t') t'' := hx
  by_cases h : t'' = t'
  · subst h; rw [upd_same] at hx
    simp only [front, List.mem_append] at hx
    rcases hx with (hx | hx) | hx
    · exact hC.hist_in (mem_lastEv hx)
    · exact hC.pend_in hx
    · exact hC.pend_in hx
  · rw [upd_other _ _ h] at hx; exact hC.pend_in hx

theorem invC_useStep {c : Cfg} (hC : InvC c) (t : Nat) (k : AKind) : InvC (useStep c t k) :=
  invC_emit (invC_pushKind hC k) t (by show c.kinds.length < (c.kinds ++ [k]).length; simp)

theorem invC_step {c c' : Cfg} {t : Nat} {ins : Instr} (hC : InvC c)
    (hs : step decOrd fenceOrd c t ins = some c') : InvC c' := by
  cases ins with
  | clone h ch =>
    simp only [step] at hs
    split at hs
    · cases hs; exact invC_setOwn (invC_emit (invC_pushOp hC _ _) t (e := .rmw c.ops.length) trivial) _ _
    · cases hs
  | access h =>
    simp only [step] at hs
    split at hs
    · cases hs; exact invC_useStep hC t _
    · cases hs
  | load h o rf =>
    simp only [step] at hs
    split at hs
    · cases hs; exact invC_useStep hC t _
    · cases hs
  | drop h frf =>
    have h1 : InvC (decStep decOrd c t h) := invC_setOwn (invC_emit (invC_pushOp hC _ _) t (e := .rmw c.ops.length) trivial) _ _
    simp only [step] at hs
    split at hs
    · split at hs
      · cases hs
        refine invC_useStep ?_ t _
        cases fenceOrd with
        | none => exact h1
        | some o => exact invC_useStep h1 t _
      · cases hs; exact h1
    · cases hs
  | send h t' =>
    simp only [step] at hs
    split at hs
    · cases hs; exact invC_setOwn (invC_give hC t t') _ _
    · cases hs
  | sync t' =>
    simp only [step] at hs
    cases hs; exact invC_give hC t t'

theorem invC_exec : ∀ (l : List (Nat × Instr)) {c c' : Cfg}, InvC c → exec decOrd fenceOrd c l = some c' → InvC c'
  | [], c, c', hC, he => by simp only [exec] at he; cases he; exact hC
  | (t, i) :: r, c, c', hC, he => by
    simp only [exec] at he
    split at he
    · rename_i c1 hs
      exact invC_exec r (invC_step hC hs) he
    · cases he

/-! ## the induced execution -/

def lift {n : Nat} : Ev (Fin n) → E
  | .rmw i => .rmw i
  | .oth a => .oth a.val

theorem lift_inj {n : Nat} {x y : Ev (Fin n)} (h : lift x = lift y) : x = y := by
  cases x <;> cases y <;> simp [lift] at h
  · rw [h]
  · rw [Fin.ext h]

theorem exists_lift {n : Nat} {e : E} (h : InR n e) : ∃ x : Ev (Fin n), lift x = e := by
  cases e with
  | rmw i => exact ⟨.rmw i, rfl⟩
  | oth a => exact ⟨.oth ⟨a, h⟩, rfl⟩

/-- a relation on the events of the execution, seen as a relation on raw events -/
def liftRel {n : Nat} (hb : Ev (Fin n) → Ev (Fin n) → Prop) : E → E → Prop :=
  fun x y => ∃ x' y', lift x' = x ∧ lift y' = y ∧ hb x' y'

theorem hb_of_liftRel {n : Nat} {hb : Ev (Fin n) → Ev (Fin n) → Prop} {x y : Ev (Fin n)}
    (h : liftRel hb (lift x) (lift y)) : hb x y := by
  obtain ⟨x', y', ex, ey, h⟩ := h
  rw [lift_inj ex, lift_inj ey] at h; exact h

theorem liftRel_trans {n : Nat} {hb : Ev (Fin n) → Ev (Fin n) → Prop} (ht : ∀ x y z, hb x y → hb y z → hb x z) :
    ∀ a b c, liftRel hb a b → liftRel hb b c → liftRel hb a c := by
  rintro a b c ⟨x, y, rfl, rfl, h1⟩ ⟨y', z, ey, rfl, h2⟩
  rw [lift_inj ey] at h2
  exact ⟨x, z, rfl, rfl, ht _ _ _ h1 h2⟩

/-- the execution induced by a configuration and a happens-before relation on its events -/
def execOf (c : Cfg) (hb : Ev (Fin c.kinds.length) → Ev (Fin c.kinds.length) → Prop) : CountExec where
  A := Fin c.kinds.length
  ops := c.ops
  ordR := fun i => nthD .relaxed c.ords i
  kind := fun a => nthD (.access 0) c.kinds a.val
  hb := hb

theorem kind_get (c : Cfg) (a : Fin c.kinds.length) : c.kinds[a.val]? = some (nthD (.access 0) c.kinds a.val) :=
  getElem?_nthD _ a.isLt

section
variable {c : Cfg} {hb : Ev (Fin c.kinds.length) → Ev (Fin c.kinds.length) → Prop}

theorem uses_of_via {a : (execOf c hb).A} {h : H} (hv : ((execOf c hb).kind a).via = some h) :
    Uses c.ops c.kinds (.oth a.val) h := ⟨_, kind_get c a, hv⟩

/-- **`Protocol` from the invariants.** -/
theorem protocol_of_inv (hA : InvA decOrd c) (hB : InvB fenceOrd (liftRel hb) c) :
    Protocol (execOf c hb) decOrd fenceOrd := by
  refine ⟨hA.fresh, hA.kid_ne_zero, hA.dec_once, ?_, ?_, ?_, ?_, ?_, ?_, ?_, ?_⟩
  · intro j h hj hne
    have hj : c.ops[j]? = some (Op.dec h) := hj
    rcases hA.dead_born (mem_deads.2 (mem_of_getElem? hj)) with h0 | hk
    · exact absurd h0 hne
    · obtain ⟨i, s, hi⟩ := exists_born hk
      exact ⟨i, s, hi, hb_of_liftRel (x := .rmw i) (y := .rmw j) (hB.dead hj (Or.inr ⟨s, hi⟩))⟩
  · intro j ch s hj hne
    have hu : Uses c.ops c.kinds (.rmw j) s := ⟨ch, hj⟩
    rcases hA.uses_born hu with h0 | hk
    · exact absurd h0 hne
    · obtain ⟨i, s', hi⟩ := exists_born hk
      exact ⟨i, s', hi, hb_of_liftRel (x := .rmw i) (y := .rmw j) (hB.born hu hi)⟩
  · intro j ch s k hj hk
    have hu : Uses c.ops c.kinds (.rmw j) s := ⟨ch, hj⟩
    exact hb_of_liftRel (x := .rmw j) (y := .rmw k) (hB.dead hk (Or.inl hu))
  · intro i h hi
    exact nthD_of_getElem? _ (hA.dec_ord hi)
  · intro a h hv
    exact hA.uses_born (uses_of_via hv)
  · intro a h k hv hk
    exact hb_of_liftRel (x := .oth a) (y := .rmw k) (hB.dead hk (Or.inl (uses_of_via hv)))
  · intro f k hf
    have hf' : c.kinds[f.val]? = some (AKind.destroy k) := by
      have := kind_get c f
      rw [this]; exact congrArg some hf
    obtain ⟨hd1, hd2⟩ := hA.destroy_data hf'
    refine ⟨hd1, hd2, ?_⟩
    have he := hB.destroy_edges hf'
    unfold DestroyEdges at he
    cases fenceOrd with
    | none => exact hb_of_liftRel (x := .rmw k) (y := .oth f) he
    | some o =>
      obtain ⟨l, rf, hl, h1, h2⟩ := he
      refine ⟨⟨l, lt_of_getElem? hl⟩, rf, nthD_of_getElem? _ hl, ?_, ?_⟩
      · exact hb_of_liftRel (x := .rmw k) (y := .oth ⟨l, lt_of_getElem? hl⟩) h1
      · exact hb_of_liftRel (x := .oth ⟨l, lt_of_getElem? hl⟩) (y := .oth f) h2
  · intro f₁ f₂ k h₁ h₂
    have g₁ : c.kinds[f₁.val]? = some (AKind.destroy k) := by rw [kind_get c f₁]; exact congrArg some h₁
    have g₂ : c.kinds[f₂.val]? = some (AKind.destroy k) := by rw [kind_get c f₂]; exact congrArg some h₂
    exact Fin.ext (hA.destroy_inj g₁ g₂)

/-- **`ViaBorn` from the invariants.** -/
theorem viaBorn_of_inv (hA : InvA decOrd c) (hB : InvB fenceOrd (liftRel hb) c) : ViaBorn (execOf c hb) := by
  intro a h hv hne
  have hu := uses_of_via hv
  rcases hA.uses_born hu with h0 | hk
  · exact absurd h0 hne
  · obtain ⟨i, s, hi⟩ := exists_born hk
    exact ⟨i, s, hi, hb_of_liftRel (x := .rmw i) (y := .oth a) (hB.born hu hi)⟩

/-- `stamp a` = number of RMWs on the count performed before event `a` was issued -/
def stamp (c : Cfg) (a : Fin c.kinds.length) : Nat := nthD 0 c.stamps a.val

/-- **`MutExcl` from the invariants**: if the run performs no clone of `h` between the load `l` and the access `w`,
every clone of `h` is hb-before `l` or hb-after `w`. -/
theorem mutExcl_of_inv (hA : InvA decOrd c) (hB : InvB fenceOrd (liftRel hb) c)
    {l w : Fin c.kinds.length} {h : H}
    (hl : ((execOf c hb).kind l).via = some h) (hw : ((execOf c hb).kind w).via = some h)
    (hno : ∀ (i : Nat) (ch : H), c.ops[i]? = some (Op.inc ch h) → i < stamp c l ∨ stamp c w ≤ i) :
    MutExcl (execOf c hb) l w h := by
  intro i ch hi
  have hi : c.ops[i]? = some (Op.inc ch h) := hi
  have ht : Touch c (.rmw i) h := Or.inl ⟨ch, hi⟩
  have hsl : c.stamps[l.val]? = some (stamp c l) := getElem?_nthD _ (by rw [hA.stamps_len]; exact l.isLt)
  have hsw : c.stamps[w.val]? = some (stamp c w) := getElem?_nthD _ (by rw [hA.stamps_len]; exact w.isLt)
  rcases hno i ch hi with h1 | h1
  · exact Or.inl (hb_of_liftRel (x := .rmw i) (y := .oth l) ((hB.seq hsl (uses_of_via hl) ht).1 h1))
  · exact Or.inr (hb_of_liftRel (x := .oth w) (y := .rmw i) ((hB.seq hsw (uses_of_via hw) ht).2 h1))

end

/-! ## the theorems about runs -/

/-- a run given by its steps alone (the final configuration is computed) -/
def Run.ofSteps (decOrd : MemOrd) (fenceOrd : Option MemOrd) (steps : List (Nat × Instr))
    (h : (exec decOrd fenceOrd Cfg.init steps).isSome = true) : Run decOrd fenceOrd where
  steps := steps
  final := (exec decOrd fenceOrd Cfg.init steps).get h
  ok := by simp

section
variable (r : Run decOrd fenceOrd)
  (hb : Ev (Fin r.final.kinds.length) → Ev (Fin r.final.kinds.length) → Prop)

/-- the invariants hold at the end of every run, for every transitive relation containing program order and the
hand-over edges -/
theorem inv_of_run
    (hpo : ∀ x y, (lift x, lift y) ∈ r.final.po → hb x y)
    (hsw : ∀ x y, (lift x, lift y) ∈ r.final.sw → hb x y)
    (htrans : ∀ x y z, hb x y → hb y z → hb x z) :
    InvA decOrd r.final ∧ InvB fenceOrd (liftRel hb) r.final := by
  have hC : InvC r.final := invC_exec r.steps invC_init r.ok
  have hE : EdgesIn (liftRel hb) r.final := by
    intro p hp
    rcases hp with hp | hp
    · obtain ⟨x, hx⟩ := exists_lift (hC.po_in hp).1
      obtain ⟨y, hy⟩ := exists_lift (hC.po_in hp).2
      refine ⟨x, y, hx, hy, hpo x y ?_⟩
      rw [hx, hy]; exact hp
    · obtain ⟨x, hx⟩ := exists_lift (hC.sw_in hp).1
      obtain ⟨y, hy⟩ := exists_lift (hC.sw_in hp).2
      refine ⟨x, y, hx, hy, hsw x y ?_⟩
      rw [hx, hy]; exact hp
  exact (inv_exec (liftRel_trans htrans) r.steps invA_init (invB_init _) r.ok hE).1

/-- **`Protocol` is a theorem about the operational semantics**: for every run and every transitive `hb` that contains
program order and the hand-over edges, the induced execution follows the protocol. -/
theorem protocol_of_run
    (hpo : ∀ x y, (lift x, lift y) ∈ r.final.po → hb x y)
    (hsw : ∀ x y, (lift x, lift y) ∈ r.final.sw → hb x y)
    (htrans : ∀ x y z, hb x y → hb y z → hb x z) :
    Protocol (execOf r.final hb) decOrd fenceOrd :=
  protocol_of_inv (inv_of_run r hb hpo hsw htrans).1 (inv_of_run r hb hpo hsw htrans).2

theorem viaBorn_of_run
    (hpo : ∀ x y, (lift x, lift y) ∈ r.final.po → hb x y)
    (hsw : ∀ x y, (lift x, lift y) ∈ r.final.sw → hb x y)
    (htrans : ∀ x y z, hb x y → hb y z → hb x z) :
    ViaBorn (execOf r.final hb) :=
  viaBorn_of_inv (inv_of_run r hb hpo hsw htrans).1 (inv_of_run r hb hpo hsw htrans).2

/-- `MutExcl` for a load `l` and an access `w` through `h` such that the run performs no `clone h _` between them
(every clone of `h` has its place in modification order before `l` was issued or after `w` was). -/
theorem mutExcl_of_run
    (hpo : ∀ x y, (lift x, lift y) ∈ r.final.po → hb x y)
    (hsw : ∀ x y, (lift x, lift y) ∈ r.final.sw → hb x y)
    (htrans : ∀ x y z, hb x y → hb y z → hb x z)
    {l w : Fin r.final.kinds.length} {h : H}
    (hl : ((execOf r.final hb).kind l).via = some h) (hw : ((execOf r.final hb).kind w).via = some h)
    (hno : ∀ (i : Nat) (ch : H), r.final.ops[i]? = some (Op.inc ch h) → i < stamp r.final l ∨ stamp r.final w ≤ i) :
    MutExcl (execOf r.final hb) l w h :=
  mutExcl_of_inv (inv_of_run r hb hpo hsw htrans).1 (inv_of_run r hb hpo hsw htrans).2 hl hw hno

end

/-! ### the individual fields, as statements about runs (for reference) -/

section
variable (r : Run decOrd fenceOrd)

/-- facts that do not mention happens-before hold outright -/
theorem run_invA : InvA decOrd r.final := by
  have := inv_of_run r (fun _ _ => True) (fun _ _ _ => trivial) (fun _ _ _ => trivial) (fun _ _ _ _ _ => trivial)
  exact this.1

theorem run_fresh {i j : Nat} {ch s s' : H} (hi : r.final.ops[i]? = some (Op.inc ch s))
    (hj : r.final.ops[j]? = some (Op.inc ch s')) : i = j := (run_invA r).fresh hi hj

theorem run_dec_once {i j : Nat} {h : H} (hi : r.final.ops[i]? = some (Op.dec h))
    (hj : r.final.ops[j]? = some (Op.dec h)) : i = j := (run_invA r).dec_once hi hj

/-- the modification order of a run is a well-formed counting history (without `Consistent`) -/
theorem run_owned_live {h t : Nat} (ho : r.final.own h = some t) :
    (h = 0 ∨ h ∈ kids r.final.ops) ∧ h ∉ deads r.final.ops := (run_invA r).own_live ho
end

/-! ## the modification order of a run is a well-formed counting history (no `Consistent` needed) -/

theorem enabled_of_owned {c : Cfg} (hA : InvA decOrd c) (hw : WF c.ops) {h t : Nat} (ho : c.own h = some t) :
    h ∈ (run c.ops).live := by
  rw [(live_iff hw).1, born_run]
  exact hA.own_live ho

theorem wf_step {c c' : Cfg} {t : Nat} {ins : Instr} (hA : InvA decOrd c) (hw : WF c.ops)
    (hs : step decOrd fenceOrd c t ins = some c') : WF c'.ops := by
  cases ins with
  | clone h ch =>
    simp only [step] at hs
    split at hs
    · rename_i hg
      obtain ⟨ho, h0, hf⟩ := hg
      cases hs
      refine WF.snoc hw ⟨enabled_of_owned hA hw ho, ?_⟩
      rw [born_run]
      rintro (h1 | h1)
      · exact h0 h1
      · exact hf h1
    · cases hs
  | access h =>
    simp only [step] at hs
    split at hs
    · cases hs; exact hw
    · cases hs
  | load h o rf =>
    simp only [step] at hs
    split at hs
    · cases hs; exact hw
    · cases hs
  | drop h frf =>
    simp only [step] at hs
    split at hs
    · rename_i ho
      have h1 : WF (c.ops ++ [Op.dec h]) := WF.snoc hw (enabled_of_owned hA hw ho)
      split at hs
      · cases hs
        cases fenceOrd with
        | none => exact h1
        | some o => exact h1
      · cases hs; exact h1
    · cases hs
  | send h t' =>
    simp only [step] at hs
    split at hs
    · cases hs; exact hw
    · cases hs
  | sync t' =>
    simp only [step] at hs
    cases hs; exact hw

/-- every run's modification order is a well-formed counting history: in particular the value a decrement reads
is the number of live handles, and `drop` sees 1 exactly when it releases the last handle -/
theorem run_wf (r : Run decOrd fenceOrd) : WF r.final.ops := by
  have key : ∀ (l : List (Nat × Instr)) {c c' : Cfg}, InvA decOrd c → InvB fenceOrd (fun _ _ => True) c → WF c.ops →
      exec decOrd fenceOrd c l = some c' → WF c'.ops := by
    intro l
    induction l with
    | nil => intro c c' _ _ hw he; simp only [exec] at he; cases he; exact hw
    | cons x r ih =>
      intro c c' hA hB hw he
      obtain ⟨t, i⟩ := x
      simp only [exec] at he
      split at he
      · rename_i c1 hs
        obtain ⟨hA1, hB1⟩ := inv_step (R := fun _ _ => True) (fun _ _ _ _ _ => trivial) hA hB hs (fun _ _ => trivial)
        exact ih hA1 hB1 (wf_step hA hw hs) he
      · cases he
  exact key r.steps invA_init (invB_init _) WF.nil r.ok

/-! ## bridge to the finite executions of `WM/FinExec.lean` (for examples) -/

/-- the configuration's data with a finite happens-before -/
def finOf (c : Cfg) (pairs : List (Ev (Fin c.kinds.length) × Ev (Fin c.kinds.length))) : FinExec where
  n := c.kinds.length
  ops := c.ops
  ords := c.ords
  kinds := c.kinds
  pairs := pairs

theorem finOf_toExec (c : Cfg) (pairs : List (Ev (Fin c.kinds.length) × Ev (Fin c.kinds.length))) :
    (finOf c pairs).toExec = execOf c (fun x y => (x, y) ∈ pairs) := rfl

def liftPairs {n : Nat} (l : List (Ev (Fin n) × Ev (Fin n))) : List (E × E) := l.map fun p => (lift p.1, lift p.2)

theorem mem_of_lift_mem {n : Nat} {l : List (Ev (Fin n) × Ev (Fin n))} {x y : Ev (Fin n)}
    (h : (lift x, lift y) ∈ liftPairs l) : (x, y) ∈ l := by
  obtain ⟨⟨x', y'⟩, hm, he⟩ := List.mem_map.1 h
  simp only [Prod.mk.injEq] at he
  rw [← lift_inj he.1, ← lift_inj he.2]; exact hm

/-- raw events back to events of an execution with `n` non-RMW events (`none` if out of range) -/
def unlift {n : Nat} : E → Option (Ev (Fin n))
  | .rmw i => some (.rmw i)
  | .oth a => if h : a < n then some (.oth ⟨a, h⟩) else none

def unliftPairs {n : Nat} (l : List (E × E)) : List (Ev (Fin n) × Ev (Fin n)) :=
  l.filterMap fun p => match unlift p.1, unlift p.2 with
    | some x, some y => some (x, y)
    | _, _ => none

/-- the smallest happens-before of a configuration with `n` events that contains the extra edges `extra` (e.g. the
synchronises-with edges): the closure of program order ∪ hand-over edges ∪ `extra`.  (Executable helper; `coversB` and
the `FinExec` checker re-validate what is needed.) -/
def hbPairs {n : Nat} (c : Cfg) (extra : List (Ev (Fin n) × Ev (Fin n))) : List (Ev (Fin n) × Ev (Fin n)) :=
  closure (unliftPairs (c.po ++ c.sw) ++ extra)

/-- every recorded edge of `es` is one of `pairs` -/
def coversB {n : Nat} (es : List (E × E)) (pairs : List (Ev (Fin n) × Ev (Fin n))) : Bool :=
  es.all fun p => decide (p ∈ liftPairs pairs)

theorem coversB_sound {n : Nat} {es : List (E × E)} {pairs : List (Ev (Fin n) × Ev (Fin n))}
    (h : coversB es pairs = true) : ∀ x y : Ev (Fin n), (lift x, lift y) ∈ es → (x, y) ∈ pairs := by
  intro x y hm
  have := List.all_eq_true.1 h _ hm
  exact mem_of_lift_mem (of_decide_eq_true this)

end Own
end WM

#print axioms WM.Own.protocol_of_run
#print axioms WM.Own.viaBorn_of_run
#print axioms WM.Own.mutExcl_of_run
