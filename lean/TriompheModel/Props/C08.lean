import TriompheModel.Props.Gates
import TriompheModel.Proofs.HistCow
import TriompheModel.Props.C03
/-!
# C08 — copy-on-write: a write through make_mut is never seen through another handle

History half: what `Arc::make_mut` / `make_unique` / `OffsetArc::make_mut` do to memory and to the
handle, in ANY state (the theorems quantify over all memories and handles): sole owner ⇒ same
allocation, no clone, no allocation; shared ⇒ exactly one `Clone`, a fresh block with count 1, one
decrement on the old block, and nothing else in the old block touched.  With the invariant `M1.Inv`
(count word = number of owners) "sole owner" is `owners = 1` (Props/C03.lean `C03_is_unique_iff`).
Schedule half: the in-place branch is licensed by the same Acquire gate as `get_mut`
(`C08_exclusive_after_verdict`); the fresh-block branch touches only thread-local memory plus one
release decrement, which is C02's theorem.
-/
open Facts WM Gates
namespace C08

theorem obl_gate_make_mut : gateOk "Arc::make_mut" = true := by decide
theorem obl_gate_make_unique : gateOk "Arc::make_unique" = true := by decide
theorem obl_gate_offset_make_mut : gateOk "OffsetArc::make_mut" = true := by decide
theorem obl_verdict_is_eq_one : Generated.isUniqueGuard = ⟨.eq, some 1⟩ := Gates.obl_verdict_is_eq_one
theorem obl_dec_release : Generated.decOrd.isRel = true := Gates.obl_dec_release

variable {X : CountExec} {fenceOrd : Option MemOrd}

/-- **C08 (schedules), in-place branch.** -/
theorem C08_exclusive_after_verdict (hc : Consistent X) (hp : Protocol X Generated.decOrd fenceOrd)
    (hrw : CoRW X) (hvb : ViaBorn X) {l : X.A} {h : H} {o : MemOrd} {rf : Option Nat}
    (hl : X.kind l = .load h o rf)
    (ho : ∀ g ∈ Generated.gates, g.name = "Arc::make_mut" → o ∈ g.loads)
    (hone : valRead X.ops rf = 1) :
    ∀ (a : X.A) (h' : H), (X.kind a).via = some h' → h' ≠ h →
      (h' = 0 ∨ ∃ j, rf = some j ∧ h' ∈ kids (X.ops.take (j+1))) → X.hb (.oth a) (.oth l) :=
  exclusive_after_verdict obl_gate_make_mut hc hp hrw hvb hl ho hone

/-- **C08 (schedules), in-place branch, both directions: "visible through that handle and through
nothing else" under every schedule.**  The write `w` that `make_mut` grants in place is concurrent
with no access through any other handle: handles that existed when the gate read the count are
former sharers (their accesses happen-before `w`), handles created later descend from the writer's
own handle after its `&mut` borrow ended and their accesses happen-after `w`. -/
theorem C08_in_place_write_races_with_nothing (hc : Consistent X) (hp : Protocol X Generated.decOrd fenceOrd)
    (hrw : CoRW X) (hvb : ViaBorn X) {l w : X.A} {h : H} {o : MemOrd} {rf : Option Nat}
    (hl : X.kind l = .load h o rf)
    (ho : ∀ g ∈ Generated.gates, g.name = "Arc::make_mut" → o ∈ g.loads)
    (hone : valRead X.ops rf = 1) (hlw : X.hb (.oth l) (.oth w)) (hex : MutExcl X l w h) :
    ∀ (a : X.A) (h' : H), (X.kind a).via = some h' → h' ≠ h →
      X.hb (.oth a) (.oth w) ∨ X.hb (.oth w) (.oth a) :=
  no_concurrent_access_after_verdict obl_gate_make_mut hc hp hrw hvb hl ho hone hlw hex

open M1

/-- **sole owner: the allocation is kept and the value is not cloned** (no event, no allocation) -/
theorem C08_unique_in_place (m : Mem) (a : HV) (cp : Bool) (hu : Arc.is_unique m a = true) :
    Arc.make_mut m a cp = (m, some a) := by
  simp [Arc.make_mut, hu]

/-- **`Clone` panics: nothing has happened yet** (the old handle and memory are untouched) -/
theorem C08_clone_panic_no_effect (m : Mem) (a : HV) (hu : Arc.is_unique m a = false) :
    Arc.make_mut m a true = (m, none) := by
  simp [Arc.make_mut, hu]

/-- **shared: redirected to a fresh, solely-owned copy; the old block loses exactly one count** -/
theorem C08_shared_redirects (m : Mem) (a : HV) (hu : Arc.is_unique m a = false) :
    ∃ m₁ v m₂ fresh,
      cloneValue m a.blk = (m₁, v) ∧                       -- exactly one `Clone::clone`
      Arc.new m₁ a.ty v = (m₂, fresh) ∧                    -- a new block, count 1
      fresh.blk = m₁.blocks.length ∧
      Arc.make_mut m a false = (Arc.drop m₂ a, some fresh) -- then the old handle value is dropped
      := by
  refine ⟨(cloneValue m a.blk).1, (cloneValue m a.blk).2, (Arc.new (cloneValue m a.blk).1 a.ty (cloneValue m a.blk).2).1,
    (Arc.new (cloneValue m a.blk).1 a.ty (cloneValue m a.blk).2).2, rfl, rfl, ?_, ?_⟩
  · simp [Arc.new, allocBlock]
  · simp [Arc.make_mut, hu]

/-! ### after any history -/

/-- **every other handle keeps observing the old, unmodified value**: whatever `make_mut` does
(in-place write for a sole owner, redirect + write for a shared handle, or a panic in `Clone`), every
OTHER slot keeps its handle value and sees exactly the contents it saw before — for co-owners of any
kind, leaked raw pointers included. -/
theorem C08_others_unchanged (ops : List M1.Op) (src v : Nat) (cp : Bool) (h : HV)
    (hs : lookup (M1.run ops) src = some h) (hc : (h.kind = .arc ∧ h.ty = .sized) ∨ h.kind = .offset)
    (i : Nat) (hv : HV) (hne : i ≠ src) (hl : lookup (M1.run ops) i = some hv) :
    lookup (step (M1.run ops) (.makeMut src v cp)).1 i = some hv ∧
    digest (step (M1.run ops) (.makeMut src v cp)).1.mem hv = digest (M1.run ops).mem hv :=
  makeMut_frame (M1.run ops) src v cp h (inv_run ops) hs hc i hv hne hl

theorem C08_others_unchanged_make_unique (ops : List M1.Op) (src v : Nat) (cp : Bool) (h : HV)
    (hs : lookup (M1.run ops) src = some h) (hc : h.kind = .arc ∧ h.ty = .sized)
    (i : Nat) (hv : HV) (hne : i ≠ src) (hl : lookup (M1.run ops) i = some hv) :
    lookup (step (M1.run ops) (.makeUnique src v cp)).1 i = some hv ∧
    digest (step (M1.run ops) (.makeUnique src v cp)).1.mem hv = digest (M1.run ops).mem hv :=
  makeUnique_frame (M1.run ops) src v cp h (inv_run ops) hs hc i hv hne hl

/-- **shared ⇒ the previous allocation loses exactly one owner and the handle now solely owns a fresh
block** (`owners ≠ 1` is "another owning handle of any kind exists", by the invariant) -/
theorem C08_shared_owner_accounting (ops : List M1.Op) (src v : Nat) (h : HV)
    (hs : lookup (M1.run ops) src = some h) (hc : (h.kind = .arc ∧ h.ty = .sized) ∨ h.kind = .offset)
    (hsh : owners (M1.run ops) h.blk ≠ 1) :
    owners (step (M1.run ops) (.makeMut src v false)).1 h.blk = owners (M1.run ops) h.blk - 1 ∧
    owners (step (M1.run ops) (.makeMut src v false)).1 (M1.run ops).mem.blocks.length = 1 ∧
    ∃ h', lookup (step (M1.run ops) (.makeMut src v false)).1 src = some h' ∧ h'.blk = (M1.run ops).mem.blocks.length :=
  makeMut_shared_owners (M1.run ops) src v h (inv_run ops) hs hc hsh

/-- **sole owner ⇔ in place**: with the invariant, `is_unique` is `owners = 1` -/
theorem C08_sole_owner_in_place (ops : List M1.Op) (src : Nat) (h : HV) (cp : Bool)
    (hs : lookup (M1.run ops) src = some h) (ho : owners (M1.run ops) h.blk = 1) :
    Arc.make_mut (M1.run ops).mem h cp = ((M1.run ops).mem, some h) :=
  C08_unique_in_place _ _ _ ((M1.C03H.C03_verdict_iff_sole_owner ops src h hs).2 ho)

end C08
