"""Probe programs for property C13: small Rust programs compiled against the CURRENT crate with rustc
as the implementation under test.

Every probe carries
  * `src`      the program,
  * `expect`   what the PROPERTY demands (accept / reject) — computed here from the property text only,
               never from the model or the extracted tables (this is the independent monitor),
  * `eclass`   for rejections, the error family that counts as "rejected for the right reason"
               (`auto` = E0277, `borrow` = borrow-check family),
  * `queries`  lines for the Lean driver `drv_traits` and `predict`, how the model's answers turn into
               the model's accept/reject prediction,
  * `triple`   (kind, class-or-accessor, route) — the coverage key,
  * `needs`    signature keys that must exist in the extracted table (probes for accessors the crate
               no longer has are skipped and reported, not failed),
  * `strict`   False for API-shape controls whose failure is not a soundness statement.
"""

PRELUDE = """#![allow(warnings)]
extern crate triomphe;
use triomphe::*;
use std::cell::Cell;
use std::rc::Rc;
use std::any::Any;
use std::ops::{Deref, DerefMut};
struct SyncOnly(*const u8);
unsafe impl Sync for SyncOnly {}
fn assert_send<T: ?Sized + Send>() {}
fn assert_sync<T: ?Sized + Sync>() {}
fn touch<T: ?Sized>(_: &T) {}
struct Loud<'a>(&'a u32);
impl<'a> Drop for Loud<'a> { fn drop(&mut self) { touch(self.0); } }
"""

# ---------------------------------------------------------------------------------------------------
# auto-trait half

# witness payloads of each class: (send?, sync?) -> sized / unsized type expressions
WITNESS = {
    (True, True): {"z": ["u32", "String", "&'static str"], "u": ["[u32]", "str", "dyn Any + Send + Sync"]},
    (True, False): {"z": ["Cell<u32>", "std::cell::RefCell<u8>"], "u": ["[Cell<u32>]", "dyn Any + Send"]},
    (False, True): {"z": ["SyncOnly", "std::sync::MutexGuard<'static, u32>"], "u": ["[SyncOnly]", "dyn Any + Sync"]},
    (False, False): {"z": ["Rc<u32>", "*const u8"], "u": ["[Rc<u32>]", "dyn Any"]},
}
CLASSES = [(True, True), (True, False), (False, True), (False, False)]


def ctok(c, unsized=False):
    return ("s" if c[0] else "n") + ("s" if c[1] else "n") + ("u" if unsized else "")


KINDS1 = {  # one type parameter: type expression, admits ?Sized
    "Arc": ("Arc<{0}>", True),
    "OffsetArc": ("OffsetArc<{0}>", False),
    "ArcBorrow": ("ArcBorrow<'static, {0}>", True),
    "UniqueArc": ("UniqueArc<{0}>", True),
}
KINDS2 = {
    "ThinArc": "ThinArc<{0}, {1}>",
    "ArcUnion": "ArcUnion<{0}, {1}>",
    "ArcUnionBorrow": "ArcUnionBorrow<'static, {0}, {1}>",
}
GEN1 = {  # generic forms: (lifetime params, type expression)
    "Arc": ("", "Arc<T>"),
    "OffsetArc": ("", "OffsetArc<T>"),
    "ArcBorrow": ("'a, ", "ArcBorrow<'a, T>"),
    "UniqueArc": ("", "UniqueArc<T>"),
}
GEN2 = {
    "ThinArc": ("", "ThinArc<H, T>"),
    "ArcUnion": ("", "ArcUnion<H, T>"),
    "ArcUnionBorrow": ("'a, ", "ArcUnionBorrow<'a, H, T>"),
}


def property_says(kind, tr, classes):
    """The property statement, verbatim: Arc, ThinArc, OffsetArc, ArcBorrow, ArcUnion (and the borrowed
    view of ArcUnion) are Send and Sync exactly when every payload type is both; UniqueArc is Send when
    its payload is Send and Sync when its payload is Sync."""
    if kind == "UniqueArc":
        return all(c[0] for c in classes) if tr == "send" else all(c[1] for c in classes)
    return all(c[0] and c[1] for c in classes)


def auto_probe(pid, family, kind, tr, classes, unsized, body, route):
    exp = property_says(kind, tr, classes)
    q = "%s %s %s" % (tr, kind, " ".join(ctok(c, u) for c, u in zip(classes, unsized)))
    return {
        "id": pid, "family": family, "src": PRELUDE + body,
        "expect": "accept" if exp else "reject", "eclass": "auto",
        "queries": [q], "predict": {"accept_if_all": ["true"]},
        "triple": (kind, tr + ":" + "/".join(ctok(c, u) for c, u in zip(classes, unsized)), route),
        "needs": [], "strict": True,
    }


def bound_str(c, unsized, extra=""):
    bs = ([extra] if extra else []) + (["?Sized"] if unsized else []) + (["Send"] if c[0] else []) + (["Sync"] if c[1] else [])
    return (": " + " + ".join(bs)) if bs else ""


def auto_probes(thorough, rng=None):
    out = []
    nwit = 3 if thorough else 1
    for tr in ("send", "sync"):
        for kind, (tmpl, unsz) in KINDS1.items():
            for c in CLASSES:
                for u in ([False, True] if unsz else [False]):
                    ws = list(enumerate(WITNESS[c]["u" if u else "z"]))
                    if not thorough and rng is not None:
                        ws = [rng.choice(ws)]      # quick: one witness per class, varied by VERIF_SEED
                    for wi, w in ws[:nwit]:
                        ty = tmpl.format(w)
                        body = "fn main() { assert_%s::<%s>(); }\n" % (tr, ty)
                        out.append(auto_probe("auto-%s-%s-%s-w%d" % (kind, tr, ctok(c, u), wi), "auto-concrete",
                                              kind, tr, [c], [u], body, "assert:" + w))
                    # generic form: for all T satisfying the bound
                    lts, gty = GEN1[kind]
                    b = bound_str(c, u, "'a" if lts else "")
                    body = "fn f<%sT%s>() { assert_%s::<%s>(); }\nfn main() {}\n" % (lts, b, tr, gty)
                    out.append(auto_probe("gen-%s-%s-%s" % (kind, tr, ctok(c, u)), "auto-generic",
                                          kind, tr, [c], [u], body, "generic"))
        for kind, tmpl in KINDS2.items():
            for c1 in CLASSES:
                for c2 in CLASSES:
                    pick = (lambda l: rng.choice(l)) if rng is not None else (lambda l: l[0])
                    ty = tmpl.format(pick(WITNESS[c1]["z"]), pick(WITNESS[c2]["z"]))
                    body = "fn main() { assert_%s::<%s>(); }\n" % (tr, ty)
                    out.append(auto_probe("auto-%s-%s-%s-%s" % (kind, tr, ctok(c1), ctok(c2)), "auto-concrete",
                                          kind, tr, [c1, c2], [False, False], body, "assert"))
                    lts, gty = GEN2[kind]
                    ex = "'a" if lts else ""
                    body = "fn f<%sH%s, T%s>() { assert_%s::<%s>(); }\nfn main() {}\n" % (
                        lts, bound_str(c1, False, ex), bound_str(c2, False, ex), tr, gty)
                    out.append(auto_probe("gen-%s-%s-%s-%s" % (kind, tr, ctok(c1), ctok(c2)), "auto-generic",
                                          kind, tr, [c1, c2], [False, False], body, "generic"))
    # the thread route: really move / share a handle across threads
    mk = {
        "Arc": "Arc::new({0})", "OffsetArc": "Arc::into_raw_offset(Arc::new({0}))",
        "ThinArc": "ThinArc::from_header_and_slice({0}, &[1u8])", "ArcUnion": "ArcUnion::<_, u8>::from_first(Arc::new({0}))",
        "UniqueArc": "UniqueArc::new({0})",
    }
    vals = {(True, True): "5u32", (True, False): "Cell::new(5u32)", (False, True): "SyncOnly(std::ptr::null())",
            (False, False): "Rc::new(5u32)"}
    for kind, m in mk.items():
        for c in CLASSES:
            classes = [c] if kind in KINDS1 else [c, (True, True)]
            uns = [False] * len(classes)
            body = "fn main() { let h = %s; std::thread::spawn(move || { touch(&h); }); }\n" % m.format(vals[c])
            out.append(auto_probe("thread-move-%s-%s" % (kind, ctok(c)), "auto-thread", kind, "send", classes, uns, body, "thread::spawn move"))
            body = "fn main() { let h = %s; std::thread::scope(|s| { s.spawn(|| { touch(&h); }); }); }\n" % m.format(vals[c])
            out.append(auto_probe("thread-share-%s-%s" % (kind, ctok(c)), "auto-thread", kind, "sync", classes, uns, body, "thread::scope share"))
    return out


# ---------------------------------------------------------------------------------------------------
# lifetime half

def borrow_probe(pid, family, kind, accessor, route, body, queries, good, needs, expect="reject", strict=True, predict=None):
    return {
        "id": pid, "family": family, "src": PRELUDE + body, "expect": expect, "eclass": "borrow",
        "queries": queries,
        "predict": predict if predict is not None else {"reject_if_all": good},
        "triple": (kind, accessor, route), "needs": needs, "strict": strict,
    }


MK = {
    "Arc": "Arc::new(5u32)",
    "OffsetArc": "Arc::into_raw_offset(Arc::new(5u32))",
    "ThinArc": "ThinArc::from_header_and_slice(1u32, &[2u32, 3u32])",
    "ArcUnion": "ArcUnion::<u32, u64>::from_first(Arc::new(5u32))",
    "UniqueArc": "UniqueArc::new(5u32)",
    "ArcMU": "Arc::<std::mem::MaybeUninit<u32>>::new_uninit()",
    "ArcMUS": "Arc::<[std::mem::MaybeUninit<u32>]>::new_uninit_slice(2)",
    "UniqueMU": "UniqueArc::<u32>::new_uninit()",
    "Prot": "Arc::from_header_and_slice(HeaderWithLength::new(1u32, 2), &[2u32, 3u32])",
}
THIN_T = "HeaderSlice<HeaderWithLength<u32>, [u32]>"

# accessor table: key -> (kind, how to make the handle, accessor expression on `h`, type of the borrow
# with lifetime 'x, is it a mutable borrow)
ACCESSORS = [
    ("Arc::deref", "Arc", MK["Arc"], "&*h", "&'x u32", False),
    ("Arc::deref", "Arc", MK["Arc"], "h.deref()", "&'x u32", False),
    ("Arc::borrow_arc", "Arc", MK["Arc"], "h.borrow_arc()", "ArcBorrow<'x, u32>", False),
    ("Arc::as_ref", "Arc", MK["Arc"], "AsRef::<u32>::as_ref(&h)", "&'x u32", False),
    ("Arc::borrow", "Arc", MK["Arc"], "std::borrow::Borrow::<u32>::borrow(&h)", "&'x u32", False),
    ("Arc::get_mut", "Arc", MK["Arc"], "Arc::get_mut(&mut h).unwrap()", "&'x mut u32", True),
    ("Arc::make_mut", "Arc", MK["Arc"], "Arc::make_mut(&mut h)", "&'x mut u32", True),
    ("Arc::get_unique", "Arc", MK["Arc"], "Arc::get_unique(&mut h).unwrap()", "&'x mut UniqueArc<u32>", True),
    ("Arc::make_unique", "Arc", MK["Arc"], "Arc::make_unique(&mut h)", "&'x mut UniqueArc<u32>", True),
    ("Arc::write", "Arc", MK["ArcMU"], "h.write(7u32)", "&'x mut u32", True),
    ("Arc::as_mut_slice", "Arc", MK["ArcMUS"], "h.as_mut_slice()", "&'x mut [std::mem::MaybeUninit<u32>]", True),
    ("OffsetArc::deref", "OffsetArc", MK["OffsetArc"], "&*h", "&'x u32", False),
    ("OffsetArc::borrow_arc", "OffsetArc", MK["OffsetArc"], "h.borrow_arc()", "ArcBorrow<'x, u32>", False),
    ("OffsetArc::make_mut", "OffsetArc", MK["OffsetArc"], "h.make_mut()", "&'x mut u32", True),
    ("ThinArc::deref", "ThinArc", MK["ThinArc"], "&*h", "&'x " + THIN_T, False),
    ("ThinArc::deref", "ThinArc", MK["ThinArc"], "&h.slice", "&'x [u32]", False),
    ("ArcUnion::borrow", "ArcUnion", MK["ArcUnion"], "h.borrow()", "ArcUnionBorrow<'x, u32, u64>", False),
    ("ArcUnion::as_first", "ArcUnion", MK["ArcUnion"], "h.as_first().unwrap()", "ArcBorrow<'x, u32>", False),
    ("ArcUnion::as_second", "ArcUnion", MK["ArcUnion"], "h.as_second()", "Option<ArcBorrow<'x, u64>>", False),
    ("UniqueArc::deref", "UniqueArc", MK["UniqueArc"], "&*h", "&'x u32", False),
    ("UniqueArc::deref_mut", "UniqueArc", MK["UniqueArc"], "&mut *h", "&'x mut u32", True),
    ("UniqueArc::write", "UniqueArc", MK["UniqueMU"], "h.write(7u32)", "&'x mut u32", True),
    ("HeaderSliceWithLengthProtected::header", "Protected", "Arc::protected_from_thin(" + MK["ThinArc"] + ")", "h.header()", "&'x u32", False),
    ("HeaderSliceWithLengthProtected::slice", "Protected", "Arc::protected_from_thin(" + MK["ThinArc"] + ")", "h.slice()", "&'x [u32]", False),
]


def accessor_probes(thorough):
    out = []
    seen = {}
    for key, kind, mk, acc, rty, is_mut in ACCESSORS:
        n = seen.get(key, 0)
        seen[key] = n + 1
        tag = key.replace("::", "-") + ("" if n == 0 else "-%d" % n)
        q = ["region " + key]
        good = ["bounded"]
        extra_needs = []
        if kind == "Protected":
            extra_needs = ["Arc::deref"]
        needs = [key] + extra_needs
        # route 1: return the borrow from the function that owns the handle
        body = "fn esc<'x>() -> %s { let mut h = %s; let r = %s; r }\nfn main() {}\n" % (rty, mk, acc)
        out.append(borrow_probe("esc-return-" + tag, "escape-return", kind, key, "return from owner fn", body, q, good, needs))
        # route 2: store in an outer variable that outlives the handle
        body = "fn main() { let r; { let mut h = %s; r = %s; } touch(&r); }\n" % (mk, acc)
        out.append(borrow_probe("esc-outer-" + tag, "escape-outer", kind, key, "outer variable outlives handle", body, q, good, needs))
        # route 3: handle moved / dropped while the borrow is alive
        body = "fn main() { let mut h = %s; let r = %s; drop(h); touch(&r); }\n" % (mk, acc)
        out.append(borrow_probe("esc-drop-" + tag, "escape-drop", kind, key, "handle dropped while borrowed", body, q, good, needs))
        if is_mut:
            # route 4: two live mutable borrows / shared use while mutably borrowed
            body = "fn main() { let mut h = %s; let r1 = %s; let r2 = %s; touch(&r1); touch(&r2); }\n" % (mk, acc, acc)
            out.append(borrow_probe("esc-alias-" + tag, "escape-alias", kind, key, "two live &mut", body, q, good, needs))
            body = "fn main() { let mut h = %s; let r = %s; let c = &h; touch(&r); touch(&c); }\n" % (mk, acc)
            out.append(borrow_probe("esc-shared-" + tag, "escape-alias", kind, key, "shared use while &mut live", body, q, good, needs))
        if thorough:
            # route 5: smuggle through a struct field / a Vec / a closure capture that outlives the handle
            body = "struct Keep<R>(R);\nfn main() { let k; { let mut h = %s; k = Keep(%s); } touch(&k.0); }\n" % (mk, acc)
            out.append(borrow_probe("esc-field-" + tag, "escape-outer", kind, key, "struct field outlives handle", body, q, good, needs))
            body = "fn main() { let mut v = Vec::new(); { let mut h = %s; v.push(%s); } touch(&v); }\n" % (mk, acc)
            out.append(borrow_probe("esc-vec-" + tag, "escape-outer", kind, key, "Vec outlives handle", body, q, good, needs))
            body = "fn main() { let f; { let mut h = %s; let r = %s; f = move || { touch(&r); }; } f(); }\n" % (mk, acc)
            out.append(borrow_probe("esc-closure-" + tag, "escape-outer", kind, key, "closure capture outlives handle", body, q, good, needs))
            body = "fn main() { let mut h = %s; let r = %s; std::thread::spawn(move || { touch(&r); }); }\n" % (mk, acc)
            p = borrow_probe("esc-thread-" + tag, "escape-thread", kind, key, "borrow sent to a 'static thread", body, q, good, needs)
            out.append(p)
        # positive control: use the borrow while the handle is alive
        body = "fn main() { let mut h = %s; { let r = %s; touch(&r); } touch(&h); }\n" % (mk, acc)
        out.append(borrow_probe("ctl-use-" + tag, "control", kind, key, "use within scope", body, [], [], needs,
                                expect="accept", predict={"const": "accept"}))
    return out


# callbacks: key -> (kind, make, call prefix, closure parameter type, deref to payload)
CALLBACKS = [
    ("Arc::with_raw_offset_arc", "Arc", MK["Arc"], "h.with_raw_offset_arc", "&OffsetArc<u32>", "&'static OffsetArc<u32>", False),
    ("ArcBorrow::with_arc", "ArcBorrow", None, "h.with_arc", "&Arc<u32>", "&'static Arc<u32>", False),
    ("OffsetArc::with_arc", "OffsetArc", MK["OffsetArc"], "h.with_arc", "&Arc<u32>", "&'static Arc<u32>", False),
    ("ThinArc::with_arc", "ThinArc", MK["ThinArc"], "h.with_arc", "&Arc<%s>" % THIN_T, "&'static Arc<%s>" % THIN_T, False),
    ("ThinArc::with_arc_mut", "ThinArc", MK["ThinArc"], "h.with_arc_mut",
     "&mut Arc<HeaderSliceWithLengthProtected<u32, u32>>", "&'static mut Arc<HeaderSliceWithLengthProtected<u32, u32>>", True),
]


def callback_probes(thorough):
    out = []
    for key, kind, mk, call, pty, sty, is_mut in CALLBACKS:
        tag = key.replace("::", "-")
        if mk is None:
            setup = "let a = Arc::new(5u32); let h = a.borrow_arc();"
            needs = [key, "Arc::borrow_arc"]
        else:
            setup = "let mut h = %s;" % mk
            needs = [key]
        q = ["hr " + key]
        good = ["hr"]
        # (a) return the argument itself as the callback's result
        body = "fn main() { %s let r = %s(|x| x); touch(&r); }\n" % (setup, call)
        out.append(borrow_probe("cb-return-" + tag, "callback-return", kind, key, "callback returns its argument", body, q, good, needs))
        # (b) store it in an outer Option
        body = "fn main() { %s let mut out = None; %s(|x: %s| { out = Some(x); }); touch(&out); }\n" % (setup, call, pty)
        out.append(borrow_probe("cb-outer-" + tag, "callback-outer", kind, key, "outer Option captures the argument", body, q, good, needs))
        # (c) return a reference into the payload
        body = "fn main() { %s let r = %s(|x| &**x); touch(&r); }\n" % (setup, call)
        out.append(borrow_probe("cb-inner-" + tag, "callback-return", kind, key, "callback returns a reference into the payload", body, q, good, needs))
        # (d) demand a 'static argument
        body = "fn main() { %s %s(|x: %s| { touch(&x); }); }\n" % (setup, call, sty)
        # (rejected whether the bound is higher-ranked or names the receiver's region: constant prediction)
        out.append(borrow_probe("cb-static-" + tag, "callback-static", kind, key, "callback demands a 'static argument", body, [], [], needs,
                                predict={"const": "reject"}))
        if thorough:
            body = "fn main() { %s let mut v = Vec::new(); %s(|x: %s| { v.push(x); }); touch(&v); }\n" % (setup, call, pty)
            out.append(borrow_probe("cb-vec-" + tag, "callback-outer", kind, key, "outer Vec captures the argument", body, q, good, needs))
            body = ("fn main() { %s let cell: Cell<Option<%s>> = Cell::new(None); %s(|x| { cell.set(Some(x)); }); }\n"
                    % (setup, pty.replace("&", "&'static ", 1), call))
            out.append(borrow_probe("cb-cell-" + tag, "callback-outer", kind, key, "Cell captures the argument", body, q, good, needs))
        # control: clone inside the callback and return the owned clone
        inner = "x.clone()"
        if is_mut:
            body = "fn main() { %s let n = %s(|x| x.slice().len()); touch(&n); }\n" % (setup, call)
        else:
            body = "fn main() { %s let c = %s(|x| %s); touch(&c); }\n" % (setup, call, inner)
        out.append(borrow_probe("ctl-cb-" + tag, "control", kind, key, "callback returns an owned value", body, [], [], needs,
                                expect="accept", predict={"const": "accept"}))
    return out


def arcborrow_probes(thorough):
    out = []
    k = "ArcBorrow"
    ba = "Arc::borrow_arc"
    # ArcBorrow::get outliving the Arc
    body = "fn main() { let r; { let a = Arc::new(5u32); let b = a.borrow_arc(); r = b.get(); } touch(&r); }\n"
    out.append(borrow_probe("ab-get-outlives-arc", "arcborrow", k, "ArcBorrow::get", "get() outlives the Arc", body,
                            ["region " + ba, "region ArcBorrow::get"], ["bounded"], [ba, "ArcBorrow::get"]))
    body = "fn esc() -> &'static u32 { let a = Arc::new(5u32); let b = a.borrow_arc(); b.get() }\nfn main() {}\n"
    out.append(borrow_probe("ab-get-static", "arcborrow", k, "ArcBorrow::get", "get() returned as 'static", body,
                            ["region " + ba, "region ArcBorrow::get"], ["bounded"], [ba, "ArcBorrow::get"]))
    body = "fn main() { let a = Arc::new(5u32); let b = a.borrow_arc(); let r = b.get(); drop(a); touch(&r); }\n"
    out.append(borrow_probe("ab-get-arc-dropped", "arcborrow", k, "ArcBorrow::get", "Arc dropped while get() borrow lives", body,
                            ["region " + ba, "region ArcBorrow::get"], ["bounded"], [ba, "ArcBorrow::get"]))
    # copies of the ArcBorrow
    body = "fn main() { let a = Arc::new(5u32); let b = a.borrow_arc(); let c = b; drop(a); touch(&*c); }\n"
    out.append(borrow_probe("ab-copy-arc-dropped", "arcborrow", k, "ArcBorrow::copy", "copied, then the Arc dropped", body,
                            ["region " + ba], ["bounded"], [ba]))
    body = "fn main() { let a = Arc::new(5u32); let b = a.borrow_arc(); let c = b.clone(); drop(a); touch(&*c); }\n"
    out.append(borrow_probe("ab-clone-arc-dropped", "arcborrow", k, "ArcBorrow::clone", "cloned, then the Arc dropped", body,
                            ["region " + ba, "region ArcBorrow::clone"], ["bounded"], [ba, "ArcBorrow::clone"]))
    body = "fn main() { let c; { let a = Arc::new(5u32); let b = a.borrow_arc(); c = b; } touch(&*c); }\n"
    out.append(borrow_probe("ab-copy-outlives-arc", "arcborrow", k, "ArcBorrow::copy", "copy outlives the Arc", body,
                            ["region " + ba], ["bounded"], [ba]))
    body = "fn main() { let a = Arc::new(5u32); let b = a.borrow_arc(); let c = b.clone_arc(); drop(a); touch(&*c); }\n"
    out.append(borrow_probe("ctl-ab-clone-arc", "control", k, "ArcBorrow::clone_arc", "clone_arc yields an owner", body, [], [], [ba],
                            expect="accept", predict={"const": "accept"}))
    # deref is tied to the ArcBorrow itself, get() to 'a
    body = "fn main() { let a = Arc::new(5u32); let r: &u32; { let b = a.borrow_arc(); r = &*b; } touch(&r); }\n"
    out.append(borrow_probe("ab-deref-outlives-borrow", "arcborrow", k, "ArcBorrow::deref", "deref outlives the ArcBorrow", body,
                            ["tie ArcBorrow::deref"], ["recv"], ["ArcBorrow::deref", ba], strict=False))
    body = "fn main() { let a = Arc::new(5u32); let r: &u32; { let b = a.borrow_arc(); r = b.get(); } touch(&r); }\n"
    out.append(borrow_probe("ctl-ab-get-outlives-borrow", "control", k, "ArcBorrow::get", "get() outlives the ArcBorrow, not the Arc", body,
                            ["tie ArcBorrow::get"], [], ["ArcBorrow::get", ba], expect="accept", strict=False,
                            predict={"accept_if_all": ["selflt", "unbounded"]}))
    # feature `unsize`: the coerced borrow (to a slice / a trait object / a fn object) must keep the region of the borrow
    UNS = "extern crate unsize;\nuse unsize::{CoerceUnsize, Coercion};\n"
    rp = "ArcBorrow::replace_ptr"
    for tag, ty, mk, co in (("slice", "[u8]", "Arc::new([1u8, 2])", "Coercion::to_slice()"),
                            ("any", "dyn Any", "Arc::new(5u32)", "Coercion::to_any()"),
                            ("fn", "dyn Fn() -> u32", "Arc::new(|| 42u32)", "Coercion::<_, dyn Fn() -> u32>::to_fn()")):
        body = UNS + "fn main() { let c: ArcBorrow<%s>; { let a = %s; let b = a.borrow_arc(); c = b.unsize(%s); } touch(&c); }\n" % (ty, mk, co)
        out.append(borrow_probe("ab-unsize-%s-outlives-arc" % tag, "arcborrow", k, rp, "unsized borrow outlives the Arc", body,
                                ["region " + ba, "region " + rp], ["bounded"], [ba, rp]))
        body = UNS + "fn main() { let a = %s; let b = a.borrow_arc(); let c: ArcBorrow<%s> = b.unsize(%s); drop(a); touch(&c); }\n" % (mk, ty, co)
        out.append(borrow_probe("ab-unsize-%s-arc-dropped" % tag, "arcborrow", k, rp, "Arc dropped while the unsized borrow lives", body,
                                ["region " + ba, "region " + rp], ["bounded"], [ba, rp]))
        body = UNS + "fn main() { let a = %s; let b = a.borrow_arc(); let c: ArcBorrow<%s> = b.unsize(%s); touch(&c); drop(a); }\n" % (mk, ty, co)
        out.append(borrow_probe("ctl-ab-unsize-%s" % tag, "control", k, rp, "unsized borrow used while the Arc lives", body, [], [], [ba, rp],
                                expect="accept", predict={"const": "accept"}))
    body = UNS + "fn esc() -> ArcBorrow<'static, [u8]> { let a = Arc::new([1u8, 2]); let b = a.borrow_arc(); b.unsize(Coercion::to_slice()) }\nfn main() {}\n"
    out.append(borrow_probe("ab-unsize-static", "arcborrow", k, rp, "unsized borrow returned as 'static", body,
                            ["region " + ba, "region " + rp], ["bounded"], [ba, rp]))
    # through OffsetArc / ArcUnion
    body = "fn main() { let r; { let o = %s; let b = o.borrow_arc(); r = b.get(); } touch(&r); }\n" % MK["OffsetArc"]
    out.append(borrow_probe("ab-get-outlives-offset", "arcborrow", "OffsetArc", "ArcBorrow::get", "get() outlives the OffsetArc", body,
                            ["region OffsetArc::borrow_arc", "region ArcBorrow::get"], ["bounded"], ["OffsetArc::borrow_arc", "ArcBorrow::get"]))
    body = "fn main() { let r; { let u = %s; let b = u.as_first().unwrap(); r = b.get(); } touch(&r); }\n" % MK["ArcUnion"]
    out.append(borrow_probe("ab-get-outlives-union", "arcborrow", "ArcUnion", "ArcBorrow::get", "get() outlives the ArcUnion", body,
                            ["region ArcUnion::as_first", "region ArcBorrow::get"], ["bounded"], ["ArcUnion::as_first", "ArcBorrow::get"]))
    body = ("fn main() { let r; { let u = %s; r = match u.borrow() { ArcUnionBorrow::First(b) => *b.get(), ArcUnionBorrow::Second(_) => 0 }; } touch(&r); }\n"
            % MK["ArcUnion"])
    out.append(borrow_probe("ctl-union-borrow-copy-out", "control", "ArcUnion", "ArcUnion::borrow", "copy the value out", body, [], [],
                            ["ArcUnion::borrow"], expect="accept", predict={"const": "accept"}))
    return out


# a handle cannot outlive data that its payload borrows
PAYLOAD_MK = {
    "Arc": "Arc::new({0})",
    "OffsetArc": "Arc::into_raw_offset(Arc::new({0}))",
    "ThinArc": "ThinArc::from_header_and_slice({0}, &[1u8])",
    "ThinArc-slice": "ThinArc::from_header_and_iter(1u8, vec![{0}].into_iter())",
    "ArcUnion": "ArcUnion::<_, u8>::from_first(Arc::new({0}))",
    "ArcUnion-second": "ArcUnion::<u8, _>::from_second(Arc::new({0}))",
    "UniqueArc": "UniqueArc::new({0})",
}


def payload_probes(thorough, eyepatch=False):
    """`eyepatch`: the probes run against the crate built with nightly + unstable_dropck_eyepatch, where
    `#[may_dangle] T` on `Drop for Arc` makes the PhantomData<T> ownership marker the thing that keeps the
    drop check honest; there the model's `owns` verdict is the prediction."""
    out = []
    for name, mk in PAYLOAD_MK.items():
        kind = name.split("-")[0]
        for pay, pname in (("&x", "ref"), ("Loud(&x)", "droppy")):
            h = mk.format(pay)
            tag = "%s-%s" % (name, pname)
            # used after the referent died
            body = "fn main() { let h; { let x = 5u32; h = %s; } touch(&h); }\n" % h
            out.append(borrow_probe("payload-use-" + tag, "payload-borrow", kind, "payload " + pname, "handle used after referent died", body,
                                    [], [], [], predict={"const": "reject"}))
            # only dropped after the referent died: the drop check
            body = "fn main() { let h; { let x = 5u32; h = %s; } }\n" % h
            if pname == "droppy":
                # the payload's destructor reads the referent: must be rejected in every configuration
                if eyepatch:
                    out.append(borrow_probe("payload-drop-" + tag, "payload-dropck", kind, "payload " + pname, "handle dropped after referent died", body,
                                            ["owns " + kind], ["true"], []))
                else:
                    out.append(borrow_probe("payload-drop-" + tag, "payload-dropck", kind, "payload " + pname, "handle dropped after referent died", body,
                                            [], [], [], predict={"const": "reject"}))
            elif not eyepatch:
                # a plain reference has no destructor; the stable `impl Drop` (no may_dangle) is conservative and refuses it anyway
                out.append(borrow_probe("payload-drop-" + tag, "payload-dropck", kind, "payload " + pname, "handle dropped after referent died", body,
                                        [], [], [], predict={"const": "reject"}))
            if thorough:
                body = "fn esc<'x>() -> impl Sized + 'x { let x = 5u32; %s }\nfn main() {}\n" % h
                out.append(borrow_probe("payload-return-" + tag, "payload-borrow", kind, "payload " + pname, "handle returned past referent", body,
                                        [], [], [], predict={"const": "reject"}))
            # control
            body = "fn main() { let x = 5u32; let h = %s; touch(&h); }\n" % h
            out.append(borrow_probe("ctl-payload-" + tag, "control", kind, "payload " + pname, "referent outlives handle", body, [], [], [],
                                    expect="accept", predict={"const": "accept"}))
    return out


def misc_controls():
    out = []
    ctl = [
        ("ctl-thread-arc", "Arc", "fn main() { let a = Arc::new(5u32); let b = a.clone(); let t = std::thread::spawn(move || { touch(&*b); }); t.join().unwrap(); touch(&*a); }\n"),
        ("ctl-thread-thin", "ThinArc", "fn main() { let a = %s; let b = a.clone(); let t = std::thread::spawn(move || { touch(&b.slice); }); t.join().unwrap(); }\n" % MK["ThinArc"]),
        ("ctl-unique-cell-move", "UniqueArc", "fn main() { let u = UniqueArc::new(Cell::new(5u32)); std::thread::spawn(move || { u.set(6); }); }\n"),
        ("ctl-get-mut-seq", "Arc", "fn main() { let mut a = Arc::new(5u32); *Arc::get_mut(&mut a).unwrap() = 6; *Arc::make_mut(&mut a) = 7; let c = a.clone(); touch(&c); }\n"),
        ("ctl-borrow-arc-fn", "Arc", "fn show(b: ArcBorrow<'_, u32>) -> u32 { *b }\nfn main() { let a = Arc::new(5u32); let n = show(a.borrow_arc()); drop(a); touch(&n); }\n"),
        ("ctl-borrow-return-tied", "Arc", "fn first<'a>(a: &'a Arc<u32>) -> ArcBorrow<'a, u32> { a.borrow_arc() }\nfn main() { let a = Arc::new(5u32); let b = first(&a); touch(&*b); }\n"),
        ("ctl-deref-return-tied", "Arc", "fn inner<'a>(a: &'a Arc<String>) -> &'a str { &**a }\nfn main() { let a = Arc::new(String::from(\"x\")); touch(inner(&a)); }\n"),
        ("ctl-unsized", "Arc", "fn main() { let a: Arc<[u32]> = Arc::from(vec![1u32, 2]); let t = std::thread::spawn(move || { touch(&a[..]); }); t.join().unwrap(); }\n"),
    ]
    for pid, kind, body in ctl:
        out.append(borrow_probe(pid, "control", kind, "normal use", pid, body, [], [], [], expect="accept", predict={"const": "accept"}))
    return out


def all_probes(thorough=False, rng=None):
    ps = auto_probes(thorough, rng) + accessor_probes(thorough) + callback_probes(thorough) + arcborrow_probes(thorough) \
        + payload_probes(thorough, False) + misc_controls()
    ids = set()
    for p in ps:
        assert p["id"] not in ids, p["id"]
        ids.add(p["id"])
    return ps


if __name__ == "__main__":
    import sys
    ps = all_probes("--thorough" in sys.argv)
    fam = {}
    for p in ps:
        fam[p["family"]] = fam.get(p["family"], 0) + 1
    print(len(ps), fam)
