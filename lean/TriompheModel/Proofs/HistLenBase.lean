import TriompheModel.Model.Ops
import TriompheModel.Props.C05
/-!
# Length / layout typing of handle values (helper file 1 for `Proofs/HistLen.lean`)

`Shape` is the part of a block that never changes after its allocation: the number of payload
slots, the stored length word, the layout requested from the allocator.  `LenOk h sh` says that the
handle value `h` views a block of shape `sh` at its real length; `LayOk h sh` that the release side
(`Layout::for_value` through `h`'s `Arc` view) computes the requested layout.  This file proves that
every handle-to-handle function of `Model/Handles.lean` / `runConv` preserves both.
-/
namespace M1
open LY

structure Shape where
  n : Nat               -- number of payload slots (`elems.length`)
  rl : Option Nat       -- the stored length word
  lay : Layout          -- the layout requested from the allocator
deriving DecidableEq

def Block.shape (k : Block) : Shape := ⟨k.elems.length, k.recLen, k.lay⟩

def Kind.isThin : Kind → Bool
  | .thin | .rawThin => true
  | _ => false

/-- the handle views a block of shape `sh` at its real length -/
structure LenOk (h : HV) (sh : Shape) : Prop where
  /-- thin pointers: the view type is the `HeaderWithLength` one and the stored length is real -/
  thin : h.kind.isThin = true → h.ty = .hwl ∧ sh.rl = some sh.n
  /-- fat pointers carry the real length -/
  fat : h.kind.isThin = false → h.ty.isSlicey = true → h.len = sh.n
  /-- sized views are only used on one-slot blocks -/
  one : h.ty.isSlicey = false → sh.n = 1
  /-- a `HeaderWithLength` view is only used on blocks that store a length word -/
  hasRl : h.ty = .hwl → sh.rl ≠ none
  /-- `OffsetArc` exists only for the sized payload type -/
  off : h.kind = .offset → h.ty = .sized

/-- the release side computes the requested layout -/
def LayOk (h : HV) (sh : Shape) : Prop := h.ty.releaseLayout sh.n = sh.lay

/-- `wl` switches the layout clause on (one case analysis serves `LenInv` alone and `LenInv ∧ LayInv`) -/
def Ok (wl : Prop) (h : HV) (sh : Shape) : Prop := LenOk h sh ∧ (wl → LayOk h sh)

/-! ## `viewLen` through a well-typed handle -/

theorem viewLen_thin {m : Mem} {h : HV} (hk : h.kind.isThin = true) :
    viewLen m h = ((m.blocks[h.blk]?.bind (·.recLen))).getD 0 := by
  unfold viewLen
  cases hkd : h.kind <;> simp_all [Kind.isThin]

theorem viewLen_fat {m : Mem} {h : HV} (hk : h.kind.isThin = false) :
    viewLen m h = if h.ty.isSlicey then h.len else 1 := by
  unfold viewLen
  cases hkd : h.kind <;> simp_all [Kind.isThin]

theorem hwl_slicey : Ty.hwl.isSlicey = true := rfl

theorem viewLen_of_ok {m : Mem} {h : HV} {k : Block} (hk : m.blocks[h.blk]? = some k)
    (ho : LenOk h k.shape) : viewLen m h = k.elems.length := by
  cases ht : h.kind.isThin with
  | true =>
    rw [viewLen_thin ht, hk]
    have := (ho.thin ht).2
    simp only [Block.shape] at this
    simp [this]
  | false =>
    rw [viewLen_fat ht]
    cases hs : h.ty.isSlicey with
    | true => simpa [Block.shape] using ho.fat ht hs
    | false => simpa [Block.shape] using (ho.one hs).symm

/-! ## layout equalities between the view types a conversion may swap -/

theorem trackedLay_alignIs : trackedLay.AlignIs 2 := by decide
theorem trackedLay_wf : trackedLay.WF := by decide

theorem release_uslice_slice (n : Nat) : Ty.uslice.releaseLayout n = Ty.slice.releaseLayout n := by
  have h := C05.C05_erase_slice (T := trackedLay) trackedLay_alignIs trackedLay_wf n
  simp only [Ty.releaseLayout, Ty.valueLayout, Ty.hdrLay, Ty.elemLay, h]

theorem release_muSlice_slice (n : Nat) : Ty.muSlice.releaseLayout n = Ty.slice.releaseLayout n := rfl
theorem release_mu_sized (n : Nat) : Ty.mu.releaseLayout n = Ty.sized.releaseLayout n := rfl
theorem release_dyn_sized (n : Nat) : Ty.dyn.releaseLayout n = Ty.sized.releaseLayout n := rfl
theorem release_hsMu_hs (n : Nat) : Ty.hsMu.releaseLayout n = Ty.hs.releaseLayout n := rfl

/-- a sized view releases with `ArcInner<T>`'s layout, which is what `Box::new` requested -/
theorem release_nonslicey {t : Ty} (ht : t.isSlicey = false) (n : Nat) :
    t.releaseLayout n = allocLayoutBoxNew bits t.elemLay := by
  cases t <;> first | rfl | (simp [Ty.isSlicey] at ht)

/-! ## a `dyn` view of a sized payload (`Arc<dyn Tr>`, `UniqueArc<dyn Tr>`)

It sees one element, considers it initialised, and releases exactly like the sized view: same
destructor events, same `dealloc` layout. -/

theorem dyn_elemsInit : Ty.dyn.elemsInit = true := rfl

theorem viewLen_dyn {m : Mem} {h : HV} (hk : h.kind.isThin = false) : viewLen m { h with ty := .dyn } = 1 := by
  rw [viewLen_fat (h := { h with ty := .dyn }) hk]; rfl

theorem decr_dyn_sized (m : Mem) (b n : Nat) : decr m b .dyn n = decr m b .sized n := rfl

/-- `UniqueArc<T>` → `UniqueArc<dyn Tr>` applies to every unique handle of a sized payload -/
theorem toDyn_uniq {m : Mem} {h : HV} (hk : h.kind = .uniq) (hty : h.ty = .sized) :
    runConv m h .toDyn = some { h with ty := .dyn } := by
  simp [runConv, hk, hty]

/-- … and the result can be made shareable: an `Arc<dyn Tr>` to the same block -/
theorem shareable_uniq_dyn {m : Mem} {h : HV} (hk : h.kind = .uniq) :
    runConv m { h with ty := .dyn } .shareable = some { h with kind := .arc, ty := .dyn } := by
  simp [runConv, hk, UniqueArc.shareable]

/-- dropping the `UniqueArc<dyn Tr>` does to memory exactly what dropping the `UniqueArc<T>` does -/
theorem dropHandle_uniq_dyn {m : Mem} {h : HV} (hk : h.kind = .uniq) (hty : h.ty = .sized) :
    dropHandle m { h with ty := .dyn } = dropHandle m h := by
  have hnt : h.kind.isThin = false := by rw [hk]; rfl
  have h1 : viewLen m h = 1 := by rw [viewLen_fat hnt, hty]; rfl
  simp only [dropHandle, hk, Arc.drop, viewLen_dyn hnt, h1, hty]
  rfl

/-- `Deref` through the `dyn` view shows the same value -/
theorem digest_uniq_dyn {m : Mem} {h : HV} (hk : h.kind = .uniq) (hty : h.ty = .sized) :
    digest m { h with ty := .dyn } = digest m h := by
  have hnt : h.kind.isThin = false := by rw [hk]; rfl
  have h1 : viewLen m h = 1 := by rw [viewLen_fat hnt, hty]; rfl
  simp only [digest, viewLen_dyn hnt, h1, hty]
  rfl

/-! ## handle transformations -/

namespace Ok
variable {wl : Prop} {h h' : HV} {sh : Shape}

/-- fat → fat: same length, a view type with the same release layout -/
theorem retype (ho : Ok wl h sh) (hk : h.kind.isThin = false) (hk' : h'.kind.isThin = false)
    (hlen : h'.len = h.len) (hsl : h'.ty.isSlicey = h.ty.isSlicey) (hhwl : h'.ty = .hwl → h.ty = .hwl)
    (hrel : ∀ n, h'.ty.releaseLayout n = h.ty.releaseLayout n) (hoff : h'.kind = .offset → h'.ty = .sized) :
    Ok wl h' sh := by
  refine ⟨⟨?_, ?_, ?_, ?_, hoff⟩, ?_⟩
  · intro ht; rw [hk'] at ht; cases ht
  · intro _ hs; rw [hlen]; exact ho.1.fat hk (hsl ▸ hs)
  · intro hs; exact ho.1.one (hsl ▸ hs)
  · intro ht; exact ho.1.hasRl (hhwl ht)
  · intro hw; unfold LayOk; rw [hrel]; exact ho.2 hw

/-- fat → fat with the same view type -/
theorem rekind (ho : Ok wl h sh) (hk : h.kind.isThin = false) (hk' : h'.kind.isThin = false)
    (hlen : h'.len = h.len) (hty : h'.ty = h.ty) (hoff : h'.kind = .offset → h.ty = .sized) :
    Ok wl h' sh :=
  ho.retype hk hk' hlen (by rw [hty]) (by rw [hty]; exact id) (by rw [hty]; intro _; rfl)
    (by rw [hty]; exact hoff)

/-- fat `HeaderWithLength` view → thin, allowed when the stored length is the real one -/
theorem toThin (ho : Ok wl h sh) (hty : h.ty = .hwl) (hrec : sh.rl = some sh.n)
    (hk' : h'.kind.isThin = true) (hty' : h'.ty = .hwl) : Ok wl h' sh := by
  refine ⟨⟨?_, ?_, ?_, ?_, ?_⟩, ?_⟩
  · intro _; exact ⟨hty', hrec⟩
  · intro ht; rw [hk'] at ht; cases ht
  · intro hs; rw [hty'] at hs; cases hs
  · intro _; rw [hrec]; simp
  · intro ho'; rw [ho'] at hk'; cases hk'
  · intro hw; unfold LayOk; rw [hty', ← hty]; exact ho.2 hw

/-- thin → fat: the length is read from the block -/
theorem fromThin (ho : Ok wl h sh) (hk : h.kind.isThin = true) (hk' : h'.kind.isThin = false)
    (hty' : h'.ty = .hwl) (hlen : h'.len = sh.n) (hoff : h'.kind ≠ .offset) : Ok wl h' sh := by
  obtain ⟨hty, hrec⟩ := ho.1.thin hk
  refine ⟨⟨?_, ?_, ?_, ?_, ?_⟩, ?_⟩
  · intro ht; rw [hk'] at ht; cases ht
  · intro _ _; exact hlen
  · intro hs; rw [hty'] at hs; cases hs
  · intro _; rw [hrec]; simp
  · intro ho'; exact absurd ho' hoff
  · intro hw; unfold LayOk; rw [hty', ← hty]; exact ho.2 hw

/-- thin → thin -/
theorem thinThin (ho : Ok wl h sh) (hk : h.kind.isThin = true) (hk' : h'.kind.isThin = true)
    (hty' : h'.ty = .hwl) : Ok wl h' sh :=
  ho.toThin (ho.1.thin hk).1 (ho.1.thin hk).2 hk' hty'

end Ok

/-! ## the handle functions of the model -/

section
variable {wl : Prop} {m : Mem} {h : HV} {k : Block}

theorem isThin_of_eq {h : HV} {kd : Kind} (hk : h.kind = kd) (hkd : kd.isThin = false) :
    h.kind.isThin = false := by rw [hk]; exact hkd

/-- the release side through a fat `Arc` view computes the requested layout -/
theorem Ok.release (ho : Ok wl h k.shape) (hk : m.blocks[h.blk]? = some k) (hw : wl) :
    h.ty.releaseLayout (viewLen m h) = k.lay := by
  rw [viewLen_of_ok hk ho.1]; exact ho.2 hw

theorem thick_ok (ho : Ok wl h k.shape) (hk : m.blocks[h.blk]? = some k) (ht : h.kind.isThin = true) :
    Ok wl (ThinArc.thick m h) k.shape :=
  ho.fromThin ht rfl rfl (viewLen_of_ok hk ho.1) (by simp [ThinArc.thick])

theorem asArc_ok (ho : Ok wl h k.shape) (hk : m.blocks[h.blk]? = some k) :
    Ok wl (asArc m h) k.shape ∧ (asArc m h).kind.isThin = false := by
  unfold asArc
  cases hkd : h.kind <;> simp only
  case arc => exact ⟨ho.rekind (isThin_of_eq hkd rfl) rfl rfl rfl (by intro h; cases h), rfl⟩
  case uniq => exact ⟨ho.rekind (isThin_of_eq hkd rfl) rfl rfl rfl (by intro h; cases h), rfl⟩
  case thin => exact ⟨thick_ok ho hk (by rw [hkd]; rfl), rfl⟩
  case offset => exact ⟨ho.rekind (isThin_of_eq hkd rfl) rfl rfl rfl (by intro h; cases h), rfl⟩
  case unionA => exact ⟨ho.rekind (isThin_of_eq hkd rfl) rfl rfl rfl (by intro h; cases h), rfl⟩
  case unionB => exact ⟨ho.rekind (isThin_of_eq hkd rfl) rfl rfl rfl (by intro h; cases h), rfl⟩
  case raw => exact ⟨ho.rekind (isThin_of_eq hkd rfl) rfl rfl rfl (by intro h; cases h), rfl⟩
  case rawThin =>
    have h1 : Ok wl (ThinArc.from_raw h) k.shape := ho.thinThin (by rw [hkd]; rfl) rfl (ho.1.thin (by rw [hkd]; rfl)).1
    exact ⟨thick_ok (h := ThinArc.from_raw h) h1 hk rfl, rfl⟩

theorem cloneHandle_ok {m' : Mem} {c : HV} (hc : cloneHandle m h = some (m', c))
    (ho : Ok wl h k.shape) : Ok wl c k.shape := by
  unfold cloneHandle at hc
  split at hc
  all_goals
    rename_i hkd
    cases hc
  · exact ho.rekind (isThin_of_eq hkd rfl) rfl rfl rfl (by intro h; cases h)
  · have ht : h.kind.isThin = true := by rw [hkd]; rfl
    exact ho.thinThin ht rfl rfl
  · exact ho.rekind (isThin_of_eq hkd rfl) rfl rfl rfl (fun _ => ho.1.off hkd)
  · simp only [hkd, if_true]
    exact ho.rekind (isThin_of_eq hkd rfl) rfl rfl rfl (by intro h; cases h)
  · simp only [hkd]
    exact ho.rekind (isThin_of_eq hkd rfl) rfl rfl rfl (by intro h; cases h)

theorem runConv_ok {h' : HV} {c : Conv} (hc : runConv m h c = some h') (ho : Ok wl h k.shape)
    (hk : m.blocks[h.blk]? = some k) : Ok wl h' k.shape := by
  cases c <;> simp only [runConv] at hc
  case intoRaw =>
    split at hc
    · rename_i hcond; cases hc
      exact ho.rekind (isThin_of_eq hcond.1 rfl) rfl rfl rfl (by intro h; cases h)
    · cases hc
  case fromRaw =>
    split at hc
    · rename_i hcond; cases hc
      exact ho.rekind (isThin_of_eq hcond rfl) rfl rfl rfl (by intro h; cases h)
    · cases hc
  case intoRawOffset =>
    split at hc
    · rename_i hcond; cases hc
      exact ho.rekind (isThin_of_eq hcond.1 rfl) rfl rfl rfl (fun _ => hcond.2)
    · cases hc
  case fromRawOffset =>
    split at hc
    · rename_i hcond; cases hc
      exact ho.rekind (isThin_of_eq hcond rfl) rfl rfl rfl (by intro h; cases h)
    · cases hc
  case fromThin =>
    split at hc
    · rename_i hcond; cases hc
      exact thick_ok ho hk (by rw [hcond]; rfl)
    · cases hc
  case thinIntoRaw =>
    split at hc
    · rename_i hcond; cases hc
      have ht : h.kind.isThin = true := by rw [hcond]; rfl
      exact ho.thinThin ht rfl (ho.1.thin ht).1
    · cases hc
  case thinFromRaw =>
    split at hc
    · rename_i hcond; cases hc
      have ht : h.kind.isThin = true := by rw [hcond]; rfl
      exact ho.thinThin ht rfl (ho.1.thin ht).1
    · cases hc
  case unionFirst =>
    split at hc
    · rename_i hcond; cases hc
      exact ho.rekind (isThin_of_eq hcond.1 rfl) rfl rfl rfl (by intro h; cases h)
    · cases hc
  case unionSecond =>
    split at hc
    · rename_i hcond; cases hc
      exact ho.rekind (isThin_of_eq hcond.1 rfl) rfl rfl rfl (by intro h; cases h)
    · cases hc
  case eraseHeader =>
    split at hc
    · rename_i hcond; cases hc
      refine ho.retype (h' := Arc.erase_header h) (isThin_of_eq hcond.1 rfl) (isThin_of_eq hcond.1 rfl) rfl ?_ ?_ ?_ ?_
      · simp [Arc.erase_header, hcond.2, Ty.isSlicey]
      · intro h; cases h
      · intro n; simp only [Arc.erase_header, hcond.2]; exact (release_uslice_slice n).symm
      · intro hq; have : h.kind = .offset := hq
        rw [hcond.1] at this; cases this
    · cases hc
  case addHeader =>
    split at hc
    · rename_i hcond; cases hc
      refine ho.retype (h' := Arc.add_unit_header h) (isThin_of_eq hcond.1 rfl) (isThin_of_eq hcond.1 rfl) rfl ?_ ?_ ?_ ?_
      · simp [Arc.add_unit_header, hcond.2, Ty.isSlicey]
      · intro h; cases h
      · intro n; simp only [Arc.add_unit_header, hcond.2]; exact release_uslice_slice n
      · intro hq; have : h.kind = .offset := hq
        rw [hcond.1] at this; cases this
    · cases hc
  case shareable =>
    split at hc
    · rename_i hcond; cases hc
      exact ho.rekind (isThin_of_eq hcond.1 rfl) rfl rfl rfl (by intro h; cases h)
    · cases hc
  case assumeInit =>
    split at hc
    · rename_i hcond
      have hnt : h.kind.isThin = false := by rcases hcond.1 with h1 | h1 <;> rw [h1] <;> rfl
      have hno : h.kind ≠ .offset := by rcases hcond.1 with h1 | h1 <;> rw [h1] <;> decide
      split at hc
      · rename_i hty; cases hc
        refine ho.retype (h' := { h with ty := .sized }) hnt hnt rfl ?_ ?_ ?_ ?_
        · simp [hty, Ty.isSlicey]
        · intro h; cases h
        · intro n; simp only [hty]; exact (release_mu_sized n).symm
        · intro h; exact absurd h hno
      · rename_i hty; cases hc
        refine ho.retype (h' := { h with ty := .slice }) hnt hnt rfl ?_ ?_ ?_ ?_
        · simp [hty, Ty.isSlicey]
        · intro h; cases h
        · intro n; simp only [hty]; exact (release_muSlice_slice n).symm
        · intro h; exact absurd h hno
      · rename_i hty
        split at hc
        · cases hc
          refine ho.retype (h' := { h with ty := .hs }) hnt hnt rfl ?_ ?_ ?_ ?_
          · simp [hty, Ty.isSlicey]
          · intro h; cases h
          · intro n; simp only [hty]; exact (release_hsMu_hs n).symm
          · intro h; exact absurd h hno
        · cases hc
      · cases hc
    · cases hc
  case toDyn =>
    split at hc
    · rename_i hcond; cases hc
      refine ho.retype (h' := Arc.from_raw m { Arc.into_raw m h with ty := .dyn })
        (isThin_of_eq hcond.1 rfl) rfl rfl ?_ ?_ ?_ ?_
      · simp [Arc.from_raw, hcond.2, Ty.isSlicey]
      · intro h; cases h
      · intro n; simp only [Arc.from_raw, hcond.2]; exact release_dyn_sized n
      · intro h; cases h
    · split at hc
      · rename_i hcond; cases hc
        -- `UniqueArc<T>` → `UniqueArc<dyn Tr>`: same length-free pointer, same release layout
        refine ho.retype (h' := { h with ty := .dyn })
          (isThin_of_eq hcond.1 rfl) (isThin_of_eq hcond.1 rfl) rfl ?_ ?_ ?_ ?_
        · simp [hcond.2, Ty.isSlicey]
        · intro h; cases h
        · intro n; simp only [hcond.2]; exact release_dyn_sized n
        · intro hq; have : h.kind = .offset := hq
          rw [hcond.1] at this; cases this
      · cases hc

end

end M1
