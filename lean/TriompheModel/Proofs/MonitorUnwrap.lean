import TriompheModel.Proofs.MonitorCow
import TriompheModel.Props.C15
/-!
# Soundness of the trace monitor, part 3: K8 (C09), K9 (C10), K10 (C15)
-/
namespace M1
namespace Mon
open LY

/-! ## reading an observation of the model off the step -/

theorem obs_badOp {s : State} {op : Op} (e : step s op = (s, badOp)) : (observe s op).badOp = true := by
  show isBadOpStatus (step s op).2.status = true
  rw [e]; exact isBadOp_badOp

theorem obs_ok {s s' : State} {op : Op} {x : String} (e : step s op = (s', ok x)) :
    (observe s op).badOp = false ∧ (observe s op).panicked = false := by
  constructor
  · show isBadOpStatus (step s op).2.status = false
    rw [e]; exact isBadOp_ok x
  · show isPanicStatus (step s op).2.status = false
    rw [e]; exact isPanic_ok x

theorem obs_panicked {s s' : State} {op : Op} {cls x : String} (e : step s op = (s', panicked cls x)) :
    (observe s op).panicked = true := by
  show isPanicStatus (step s op).2.status = true
  rw [e]; exact isPanic_panicked cls x

theorem obs_slots {s s' : State} {op : Op} {out : Out} (e : step s op = (s', out)) :
    (observe s op).slots = observeSlots s' := by
  show observeSlots (step s op).1 = _
  rw [e]

theorem obs_evs {s s' : State} {op : Op} {out : Out} {es : List Event} (e : step s op = (s', out))
    (h : s'.mem.log = s.mem.log ++ es) : (observe s op).evs = es := by
  apply observe_evs; rw [e]; exact h

theorem obs_evs_nil {s s' : State} {op : Op} {out : Out} (e : step s op = (s', out))
    (h : s'.mem.log = s.mem.log) : (observe s op).evs = [] :=
  obs_evs e (by rw [h]; simp)

theorem lookupO_pre {s : State} {src : Nat} {h : HV} (hs : lookup s src = some h) :
    lookupO (observeSlots s) src = some (slotObs s.mem h) := by
  rw [lookupO_observe, hs]; rfl

theorem lookupO_del_self (s : State) (m : Mem) (src : Nat) : lookupO (observeSlots (s.del m src)) src = none := by
  rw [lookupO_observe]
  show (lookupL (delL s.slots src) src).map _ = none
  rw [lookupL_delL]; simp

theorem lookupO_set_self {s : State} {src : Nat} {h : HV} (hs : lookup s src = some h) (m : Mem) (h' : HV) :
    lookupO (observeSlots (s.set m src h')) src = some (slotObs m h') := by
  rw [lookupO_observe]
  show (lookupL (setL s.slots src h') src).map _ = _
  rw [lookupL_setL_self]
  have : lookupL s.slots src = some h := hs
  rw [this]; rfl

theorem owners_del {s : State} (hi : Inv s) {src : Nat} {h : HV} (hs : lookup s src = some h) (m : Mem) :
    owners (s.del m src) h.blk + 1 = owners s h.blk := by
  have := ownersL_del hi.keys (lookup_mem hs) h.blk
  simp only [if_true] at this
  exact this

theorem owners_set {s : State} (hi : Inv s) {src : Nat} {h h' : HV} (hs : lookup s src = some h) (m : Mem)
    (hb : h'.blk = h.blk) : owners (s.set m src h') h.blk = owners s h.blk := by
  have := ownersL_set (h' := h') hi.keys (lookup_mem hs) h.blk
  simp only [hb, if_true] at this
  show ownersL (setL s.slots src h') h.blk = ownersL s.slots h.blk
  omega

/-- shared ⇔ the probe before the op shows another owner -/
theorem shared_owner {s : State} (hi : Inv s) {src : Nat} {h : HV} (hl : lookup s src = some h)
    (hu : Arc.is_unique s.mem h = false) : (ownersO (observeSlots s) h.blk == 1) = false := by
  have := sole_owner hi hl
  rw [hu] at this
  exact this.symm

theorem sole_owner' {s : State} (hi : Inv s) {src : Nat} {h : HV} (hl : lookup s src = some h)
    (hu : Arc.is_unique s.mem h = true) : (ownersO (observeSlots s) h.blk == 1) = true := by
  have := sole_owner hi hl
  rw [hu] at this
  exact this.symm


theorem isBadOp_panicked (cls o : String) : isBadOpStatus (panicked cls o).status = false := by
  have h : (panicked cls o).status.toList.take 5 = ['p', 'a', 'n', 'i', 'c'] := by
    simp [panicked, String.toList_append]
  unfold isBadOpStatus
  cases hb : ((panicked cls o).status == "bad-op") with
  | false => rfl
  | true =>
    rw [beq_iff_eq] at hb
    rw [hb] at h
    exact absurd h (by decide)

theorem obs_badOp_false_of_panicked {s s' : State} {op : Op} {cls x : String} (e : step s op = (s', panicked cls x)) :
    (observe s op).badOp = false := by
  show isBadOpStatus (step s op).2.status = false
  rw [e]; exact isBadOp_panicked cls x

theorem perm_isEmpty' {l l' : List Event} (h : l.Perm l') : l.isEmpty = l'.isEmpty := by
  have := h.length_eq
  cases l <;> cases l' <;> simp_all

/-! ## K8 (C09) -/

theorem k8_badOp {pre : List (Nat × SlotObs)} {op : Op} {o : Obs} (h : o.badOp = true) : checkK8 pre op o = [] := by
  unfold checkK8
  split <;> simp [h]

/-- `into_inner` on an existing block: one `dealloc` event of that block, nothing else -/
theorem into_inner_evs {m : Mem} {u : HV} {k : Block} (hk : m.blocks[u.blk]? = some k) :
    ∃ sz al, (UniqueArc.into_inner m u).1.log = m.log ++ [Event.dealloc u.blk sz al] := by
  rw [into_inner_log, hk]
  exact ⟨_, _, rfl⟩

theorem movedOut_single {b sz al : Nat} {o : Obs} (h : o.evs = [Event.dealloc b sz al]) : movedOut b o = true := by
  simp [movedOut, h, isDropEv, isDeallocEv]

/-- **K8 (C09)** on every state that satisfies the count invariant -/
theorem K8_sound {s : State} (hi : Inv s) (op : Op) : checkK8 (observeSlots s) op (observe s op) = [] := by
  have hbad : ∀ {op : Op}, step s op = (s, badOp) → checkK8 (observeSlots s) op (observe s op) = [] :=
    fun e => k8_badOp (obs_badOp e)
  cases op with
  | tryUnwrap src =>
    cases hl : lookup s src with
    | none => exact hbad (by simp [step, hl])
    | some h =>
      have hp := lookupO_pre hl
      by_cases hk : h.kind = .arc ∧ h.ty = .sized
      · obtain ⟨k, hkb, _⟩ := slot_block hi hl
        cases hu : Arc.is_unique s.mem h with
        | true =>
          have e : step s (.tryUnwrap src) = (s.del (UniqueArc.into_inner s.mem { h with kind := .uniq }).1 src,
              ok s!"ok={showItem (UniqueArc.into_inner s.mem { h with kind := .uniq }).2}") := by
            simp only [step, hl, hk, and_self, if_true, Arc.try_unwrap, Arc.try_unique, hu]
          obtain ⟨sz, al, hlog⟩ := into_inner_evs (u := { h with kind := .uniq }) hkb
          have hev := obs_evs e hlog
          have hv : (observe s (.tryUnwrap src)).verdict = some true := by
            show verdictOf (.tryUnwrap src) (step s (.tryUnwrap src)).2 = _
            rw [e]; exact verdict_tryUnwrap_ok src _
          have hmo : movedOut h.blk (observe s (.tryUnwrap src)) = true := movedOut_single hev
          simp [checkK8, (obs_ok e).1, hp, hv, slotObs, hmo]
        | false =>
          have e : step s (.tryUnwrap src) = (s, ok "err") := by
            simp [step, hl, hk, Arc.try_unwrap, Arc.try_unique, hu]
          have hv : (observe s (.tryUnwrap src)).verdict = some false := by
            show verdictOf (.tryUnwrap src) (step s (.tryUnwrap src)).2 = _
            rw [e]; exact verdict_tryUnwrap_err src
          simp [checkK8, hp, hv]
      · exact hbad (by simp [step, hl, hk])
  | intoInner src =>
    cases hl : lookup s src with
    | none => exact hbad (by simp [step, hl])
    | some h =>
      have hp := lookupO_pre hl
      by_cases hk : h.kind = .uniq ∧ h.ty = .sized
      · obtain ⟨k, hkb, _⟩ := slot_block hi hl
        have e : step s (.intoInner src) = (s.del (UniqueArc.into_inner s.mem h).1 src,
            ok s!"val={showItem (UniqueArc.into_inner s.mem h).2}") := by
          simp only [step, hl, hk, and_self, if_true]
        obtain ⟨sz, al, hlog⟩ := into_inner_evs (u := h) hkb
        have hev := obs_evs e hlog
        have hmo : movedOut h.blk (observe s (.intoInner src)) = true := movedOut_single hev
        simp [checkK8, (obs_ok e).1, hp, slotObs, hmo]
      · exact hbad (by simp [step, hl, hk])
  | unwrapOrClone src cp =>
    cases hl : lookup s src with
    | none => exact hbad (by simp [step, hl])
    | some h =>
      have hp := lookupO_pre hl
      by_cases hk : h.kind = .arc ∧ h.ty = .sized
      · obtain ⟨k, hkb, _, _, hcnt⟩ := slot_block hi hl
        cases hu : Arc.is_unique s.mem h with
        | true =>
          have e : step s (.unwrapOrClone src cp) = (s.del (UniqueArc.into_inner s.mem { h with kind := .uniq }).1 src,
              ok s!"val={showItem (UniqueArc.into_inner s.mem { h with kind := .uniq }).2}") := by
            simp only [step, hl, hk, and_self, if_true, Arc.try_unwrap, Arc.try_unique, hu]
          obtain ⟨sz, al, hlog⟩ := into_inner_evs (u := { h with kind := .uniq }) hkb
          have hev := obs_evs e hlog
          have hn := sole_owner' hi hl hu
          simp only [beq_iff_eq] at hn
          simp [checkK8, (obs_ok e).1, (obs_ok e).2, hp, slotObs, hn, hev, isCloneEv, isDropEv]
        | false =>
          have hne1 : k.count ≠ 1 := by
            intro h1
            have : Arc.is_unique s.mem h = true := by
              rw [is_unique_iff_loadCount]; simp [loadCount, hkb, h1]
            rw [hu] at this; cases this
          cases cp with
          | true =>
            have e : step s (.unwrapOrClone src true) = (s.del (Arc.drop s.mem h) src, panicked "scripted") := by
              simp [step, hl, hk, Arc.try_unwrap, Arc.try_unique, hu]
            simp [checkK8, obs_panicked e]
          | false =>
            have e : step s (.unwrapOrClone src false) =
                (s.del (Arc.drop (cloneValue s.mem h.blk).1 h) src,
                 ok s!"val={showItem (cloneValue s.mem h.blk).2}") := by
              simp only [step, hl, hk, and_self, if_true, Arc.try_unwrap, Arc.try_unique, hu]
              rfl
            obtain ⟨ce, hce, hcc, _⟩ := cloneValue_log s.mem h.blk
            have hk1 : (cloneValue s.mem h.blk).1.blocks[h.blk]? = some k := by rw [cloneValue_blocks]; exact hkb
            have hlog : (s.del (Arc.drop (cloneValue s.mem h.blk).1 h) src).mem.log = s.mem.log ++ ce := by
              show (Arc.drop (cloneValue s.mem h.blk).1 h).log = _
              rw [Arc.drop_eq, decr_not_last_drops_nothing _ _ _ _ k hk1 hne1, hce]
            have hev := obs_evs e hlog
            have hn := shared_owner hi hl hu
            have hvo : (observe s (.unwrapOrClone src false)).valOut = (cloneValue s.mem h.blk).2.isSome := by
              show valShown (step s (.unwrapOrClone src false)).2.out = _
              rw [e]; exact valShown_val _
            have hown : ownersO (observe s (.unwrapOrClone src false)).slots h.blk + 1
                = ownersO (observeSlots s) h.blk := by
              rw [obs_slots e, ownersO_observe, ownersO_observe]
              exact owners_del hi hl _
            simp only [beq_eq_false_iff_ne] at hn
            simp [checkK8, (obs_ok e).1, (obs_ok e).2, hp, slotObs, hn, hev, hvo, hcc, hown]
      · exact hbad (by simp [step, hl, hk])
  | _ => rfl

theorem checkK8_withEvs (pre : List (Nat × SlotObs)) (op : Op) (o : Obs) (evs' : List Event)
    (h : evs'.Perm o.evs) : checkK8 pre op (o.withEvs evs') = checkK8 pre op o := by
  unfold checkK8 movedOut Obs.withEvs
  simp only [h.countP_eq]

/-! ## K9 (C10) -/

theorem k9_badOp {pre : List (Nat × SlotObs)} {op : Op} {o : Obs} (h : o.badOp = true) : checkK9 pre op o = [] := by
  unfold checkK9
  split <;> simp [h]

/-- a step that only replaces the handle in slot `src` by one that views the same block at the same length through a
view of the same initialisation class, and leaves memory alone, keeps the view -/
theorem keptView_set {s : State} (hi : Inv s) {src : Nat} {h h' : HV} (hs : lookup s src = some h)
    (hb : h'.blk = h.blk) (hvl : viewLen s.mem h' = viewLen s.mem h) (hty : h'.ty.elemsInit = h.ty.elemsInit)
    {op : Op} {x : String} (e : step s op = (s.set s.mem src h', ok x)) :
    keptView (observeSlots s) src (slotObs s.mem h) (observe s op) = true := by
  have hq : lookupO (observe s op).slots src = some (slotObs s.mem h') := by
    rw [obs_slots e]; exact lookupO_set_self hs _ _
  have hev : (observe s op).evs = [] := obs_evs_nil e rfl
  have hown : ownersO (observe s op).slots h.blk = ownersO (observeSlots s) h.blk := by
    rw [obs_slots e, ownersO_observe, ownersO_observe]
    exact owners_set hi hs _ hb
  have hd : digObs s.mem h' = digObs s.mem h := by
    rw [digObs_eq, digObs_eq, hb, hvl, hty]
  simp [keptView, hq, slotObs, hb, hvl, hd, hev, hown]

/-- **K9 (C10)** on every state that satisfies the count invariant and the length typing -/
theorem K9_sound {s : State} (hi : Inv s) (hl : LenInv s) (op : Op) :
    checkK9 (observeSlots s) op (observe s op) = [] := by
  have hbad : ∀ {op : Op}, step s op = (s, badOp) → checkK9 (observeSlots s) op (observe s op) = [] :=
    fun e => k9_badOp (obs_badOp e)
  cases op with
  | conv src c =>
    by_cases htc : thinConv c = true
    · cases hs : lookup s src with
      | none => exact hbad (by simp [step, hs])
      | some h =>
        have hp := lookupO_pre hs
        cases hc : runConv s.mem h c with
        | none => exact hbad (by simp [step, hs, hc])
        | some h' =>
          have e : step s (.conv src c) = (s.set s.mem src h', ok) := by simp [step, hs, hc]
          obtain ⟨k, _, ho⟩ := hl.ok src h (lookup_mem hs)
          have hkv : keptView (observeSlots s) src (slotObs s.mem h) (observe s (.conv src c)) = true := by
            cases c
            case fromThin =>
              simp only [runConv] at hc
              split at hc
              · rename_i hk
                cases hc
                have hty : h.ty = .hwl := (ho.thin (by rw [hk]; rfl)).1
                refine keptView_set (h' := ThinArc.thick s.mem h) hi hs rfl ?_ ?_ e
                · simp [viewLen, ThinArc.thick, Ty.isSlicey]
                · show Ty.hwl.elemsInit = h.ty.elemsInit
                  rw [hty]
              · cases hc
            case thinIntoRaw =>
              simp only [runConv] at hc
              split at hc
              · rename_i hk
                cases hc
                refine keptView_set (h' := ThinArc.into_raw h) hi hs rfl ?_ rfl e
                simp [viewLen, ThinArc.into_raw, hk]
              · cases hc
            case thinFromRaw =>
              simp only [runConv] at hc
              split at hc
              · rename_i hk
                cases hc
                refine keptView_set (h' := ThinArc.from_raw h) hi hs rfl ?_ rfl e
                simp [viewLen, ThinArc.from_raw, hk]
              · cases hc
            all_goals exact absurd htc (by decide)
          simp [checkK9, htc, (obs_ok e).1, (obs_ok e).2, hp, hkv]
    · simp [checkK9, htc]
  | intoThin src =>
    cases hs : lookup s src with
    | none => exact hbad (by simp [step, hs])
    | some h =>
      have hp := lookupO_pre hs
      by_cases hk : h.kind = .arc ∧ h.ty = .hwl
      · by_cases hrec : ((s.mem.blocks[h.blk]?.bind (·.recLen))).getD 0 = h.len
        · have e : step s (.intoThin src) = (s.set s.mem src (ThinArc.of_arc h), ok) := by
            simp [step, hs, hk, Arc.into_thin, hrec]
          have hkv : keptView (observeSlots s) src (slotObs s.mem h) (observe s (.intoThin src)) = true := by
            refine keptView_set (h' := ThinArc.of_arc h) hi hs rfl ?_ rfl e
            simp [viewLen, ThinArc.of_arc, hk.1, hk.2, Ty.isSlicey, hrec]
          simp [checkK9, (obs_ok e).1, (obs_ok e).2, hp, hkv]
        · have e : step s (.intoThin src) = (s.del (Arc.drop s.mem h) src, panicked "length-mismatch") := by
            simp [step, hs, hk.1, hk.2, Arc.into_thin, hrec]
          have hi' : Inv (s.del (Arc.drop s.mem h) src) := by
            have := inv_step s (.intoThin src) hi
            rw [e] at this; exact this
          obtain ⟨k, hkb, _, _, hcnt⟩ := slot_block hi hs
          have hsl := obs_slots e
          have hown : ownersO (observe s (.intoThin src)).slots h.blk + 1 = ownersO (observeSlots s) h.blk := by
            rw [hsl, ownersO_observe, ownersO_observe]
            exact owners_del hi hs _
          have hrr : refusedReleased (observeSlots s) src (slotObs s.mem h) (observe s (.intoThin src)) = true := by
            simp only [refusedReleased, Bool.and_eq_true]
            refine ⟨⟨⟨?_, ?_⟩, ?_⟩, ?_⟩
            · rw [hsl, lookupO_del_self]; rfl
            · simpa [slotObs] using hown
            · rw [List.all_eq_true]
              intro e' he'
              rw [hsl] at he'
              obtain ⟨hv, hm, he2⟩ := mem_observe he'
              have hl' : lookup (s.del (Arc.drop s.mem h) src) e'.1 = some hv := mem_lookupL hi'.keys hm
              by_cases hbb : hv.blk = h.blk
              · have hlc := (count_eq_owners hi' hl').1
                have hcnt' : ∀ c, obsCnt (Arc.drop s.mem h) hv = some c → c + 1 = ownersO (observeSlots s) h.blk := by
                  intro c hc
                  have : c = loadCount (Arc.drop s.mem h) hv.blk := by
                    unfold obsCnt at hc
                    split at hc <;> simp_all
                  rw [this]
                  have hlc' : loadCount (Arc.drop s.mem h) hv.blk = owners (s.del (Arc.drop s.mem h) src) hv.blk := hlc
                  rw [hlc', hbb, ← hown, hsl, ownersO_observe]
                rw [he2]
                simp only [slotObs, Bool.or_eq_true, bne_iff_ne, ne_eq]
                right
                cases hoc : obsCnt (s.del (Arc.drop s.mem h) src).mem hv with
                | none => rfl
                | some c => simpa [slotObs] using hcnt' c hoc
              · rw [he2]; simp [slotObs, hbb]
            · simp only [slotObs, Bool.or_eq_true, bne_iff_ne, ne_eq]
              by_cases hn1 : ownersO (observeSlots s) h.blk = 1
              · right
                have hc1 : k.count = 1 := by rw [hcnt, ← ownersO_observe]; exact hn1
                have hlog : (s.del (Arc.drop s.mem h) src).mem.log = s.mem.log ++
                    (payloadDrops h.blk k h.ty (viewLen s.mem h) ++
                      [Event.dealloc h.blk (h.ty.releaseLayout (viewLen s.mem h)).size
                        (h.ty.releaseLayout (viewLen s.mem h)).align]) := by
                  show (Arc.drop s.mem h).log = _
                  rw [Arc.drop_eq, decr_log, hkb]
                  simp [hc1]
                rw [obs_evs e hlog, List.countP_append]
                simp [isDeallocEv]
              · left; exact hn1
          simp [checkK9, (obs_badOp_false_of_panicked e), obs_panicked e, hp, hrr]
      · exact hbad (by simp [step, hs, hk])
  | _ => rfl

theorem checkK9_withEvs (pre : List (Nat × SlotObs)) (op : Op) (o : Obs) (evs' : List Event)
    (h : evs'.Perm o.evs) : checkK9 pre op (o.withEvs evs') = checkK9 pre op o := by
  unfold checkK9 keptView refusedReleased Obs.withEvs
  simp only [h.countP_eq, perm_isEmpty' h]

/-! ## K10 (C15) -/

theorem k10_badOp {pre : List (Nat × SlotObs)} {op : Op} {o : Obs} (h : o.badOp = true) : checkK10 pre op o = [] := by
  unfold checkK10
  split <;> simp [h]

/-- the events of the last `drop_inner` through a view whose elements are `MaybeUninit`: the header's destructor (if
the payload has a header), then the `dealloc` — no element destructor -/
theorem uninit_release_no_element_drop (b : Nat) (k : Block) (t : Ty) (len sz al : Nat) (ht : t.elemsInit = false) :
    (payloadDrops b k t len ++ [Event.dealloc b sz al]).countP (isDropOther (k.hdr.map (·.id))) = 0 := by
  rw [C15.C15_drop_uninit_no_element_drop b k t len ht]
  cases k.hdr <;> simp [isDropOther]

/-- **K10 (C15)** on every state that satisfies the count invariant and the length typing -/
theorem K10_sound {s : State} (_hi : Inv s) (hl : LenInv s) (op : Op) :
    checkK10 (observeSlots s) op (observe s op) = [] := by
  have hbad : ∀ {op : Op}, step s op = (s, badOp) → checkK10 (observeSlots s) op (observe s op) = [] :=
    fun e => k10_badOp (obs_badOp e)
  cases op with
  | drop src =>
    cases hs : lookup s src with
    | none => exact hbad (by simp [step, hs])
    | some h =>
      have hp := lookupO_pre hs
      cases hd : dropHandle s.mem h with
      | none => exact hbad (by simp [step, hs, hd])
      | some m =>
        have e : step s (.drop src) = (s.del m src, ok) := by simp [step, hs, hd]
        cases hei : h.ty.elemsInit with
        | true => simp [checkK10, (obs_ok e).1, hp, slotObs, hei]
        | false =>
          obtain ⟨k, hkb, ho⟩ := hl.ok src h (lookup_mem hs)
          have hm : m = decr s.mem h.blk h.ty (viewLen s.mem (asArc s.mem h)) := by
            rw [dropHandle_eq hd, Arc.drop_eq, asArc_blk, asArc_ty ho]
          have hhdr : hdrIdO (slotObs s.mem h) = k.hdr.map (·.id) := by
            simp [hdrIdO, slotObs, digObs, hkb]
          have hcount : (observe s (.drop src)).evs.countP (isDropOther (k.hdr.map (·.id))) = 0 := by
            have hlog : (s.del m src).mem.log = s.mem.log ++
                (if k.count = 1 then
                  payloadDrops h.blk k h.ty (viewLen s.mem (asArc s.mem h)) ++
                    [Event.dealloc h.blk (h.ty.releaseLayout (viewLen s.mem (asArc s.mem h))).size
                      (h.ty.releaseLayout (viewLen s.mem (asArc s.mem h))).align]
                 else []) := by
              show m.log = _
              rw [hm, decr_log, hkb]
            rw [obs_evs e hlog]
            split
            · exact uninit_release_no_element_drop _ _ _ _ _ _ hei
            · rfl
          simp [checkK10, (obs_ok e).1, hp, hhdr, hcount]
  | conv src c =>
    by_cases hai : isAssumeInit c = true
    · cases c <;> first | exact absurd hai (by decide) | skip
      cases hs : lookup s src with
      | none => exact hbad (by simp [step, hs])
      | some h =>
        have hp := lookupO_pre hs
        cases hc : runConv s.mem h .assumeInit with
        | none => exact hbad (by simp [step, hs, hc])
        | some h' =>
          have e : step s (.conv src .assumeInit) = (s.set s.mem src h', ok) := by simp [step, hs, hc]
          obtain ⟨hb, _, _, hkd, _⟩ := C15.C15_assume_init_is_cast s.mem h h' hc
          have hq : lookupO (observe s (.conv src .assumeInit)).slots src = some (slotObs s.mem h') := by
            rw [obs_slots e]; exact lookupO_set_self hs _ _
          have hev : (observe s (.conv src .assumeInit)).evs = [] := obs_evs_nil e rfl
          have hcnt : obsCnt s.mem h' = obsCnt s.mem h := by simp [obsCnt, hkd, hb]
          simp [checkK10, isAssumeInit, (obs_ok e).1, (obs_ok e).2, hp, hq, slotObs, hb, hcnt, hev]
    · simp [checkK10, hai]
  | _ => rfl

theorem checkK10_withEvs (pre : List (Nat × SlotObs)) (op : Op) (o : Obs) (evs' : List Event)
    (h : evs'.Perm o.evs) : checkK10 pre op (o.withEvs evs') = checkK10 pre op o := by
  unfold checkK10 Obs.withEvs
  simp only [h.countP_eq, perm_isEmpty' h]

end Mon
end M1
