#!/usr/bin/env python3
"""Generate the adversarial mutants of the translator's regression suite.

Each mutant = one of the harmless rewrites (/verif/harmless/<base>/patch.diff) + one real breakage written
in the *refactored* idiom (renamed / extracted helpers).  The translator must see through the
refactoring and still flag the breakage.  Output: adversarial/<id>/patch.diff (against /repo HEAD),
adversarial/<id>/meta.json {"base", "what", "expect": [obligation name fragments, at least one must fail]}.

usage: gen.py            (re-creates every mutant; needs /repo, git, rsync)
"""
import json
import os
import shutil
import subprocess
import sys

HERE = os.path.dirname(os.path.abspath(__file__))
TMP = "/tmp/xr/advgen"


def sh(cmd, cwd=None):
    p = subprocess.run(cmd, cwd=cwd, stdout=subprocess.PIPE, stderr=subprocess.STDOUT, text=True)
    if p.returncode != 0:
        raise RuntimeError("%s: %s" % (cmd, p.stdout))
    return p.stdout


def sub(path, old, new, count=1):
    s = open(path).read()
    if s.count(old) < 1:
        raise RuntimeError("pattern not found in %s: %r" % (path, old))
    if count and s.count(old) != count:
        raise RuntimeError("pattern occurs %d times in %s (expected %d): %r" % (s.count(old), path, count, old))
    open(path, "w").write(s.replace(old, new))


MUTANTS = []


def mutant(ident, base, what, expect):
    def deco(fn):
        MUTANTS.append((ident, base, what, expect, fn))
        return fn
    return deco


# ------------------------------------------------------------------------------------------------ A-h1
@mutant("a01-relaxed-dec-in-release_ref", "A-h1", "fetch_sub(1, Relaxed) in the renamed decrement helper", ["obl_dec_release"])
def _(d):
    sub(d + "/src/arc.rs", "self.refcount().fetch_sub(1, Release)", "self.refcount().fetch_sub(1, Relaxed)")


@mutant("a02-relaxed-fence", "A-h1", "atomic::fence(Relaxed) before destroy", ["obl_acquire_before_destroy"])
def _(d):
    sub(d + "/src/arc.rs", "atomic::fence(Acquire);", "atomic::fence(Relaxed);")


@mutant("a03-was-last-le-1", "A-h1", "was_last_owner = owners_before <= 1", ["obl_dec_guard"])
def _(d):
    sub(d + "/src/arc.rs", "let was_last_owner = owners_before == 1;", "let was_last_owner = owners_before <= 1;")


@mutant("a04-destroy-outside-if", "A-h1", "destroy() after the `if was_last_owner { fence }`, i.e. unconditional", ["obl_skeleton", "obl_drop_skeleton"])
def _(d):
    sub(d + "/src/arc.rs", """            atomic::fence(Acquire);

            unsafe {
                self.destroy();
            }
        }
""", """            atomic::fence(Acquire);
        }

        unsafe {
            self.destroy();
        }
""")


@mutant("a05-acquire_ref-from-clone_arc", "A-h1", "ArcBorrow::clone_arc calls the increment helper itself (helper made pub(crate))", ["obl_census"])
def _(d):
    sub(d + "/src/arc.rs", "    fn acquire_ref(&self) {", "    pub(crate) fn acquire_ref(&self) {")
    sub(d + "/src/arc_borrow.rs", "mem::forget(arc.clone());", "arc.acquire_ref();")


@mutant("a06-release_ref-from-try_unwrap", "A-h1", "try_unwrap gives its reference back through the decrement helper", ["obl_census"])
def _(d):
    sub(d + "/src/arc.rs", """    pub fn try_unwrap(this: Self) -> Result<T, Self> {
        match Self::try_unique(this) {""", """    pub fn try_unwrap(this: Self) -> Result<T, Self> {
        let mut this = this;
        if Arc::strong_count(&this) > 1 {
            this.release_ref();
            this.acquire_ref();
        }
        match Self::try_unique(this) {""")


@mutant("a07-guard-panics-in-acquire_ref", "A-h1", "overflow guard in the helper panics instead of aborting", ["obl_action_abort"])
def _(d):
    sub(d + "/src/arc.rs", """        if owners_before > MAX_REFCOUNT {
            abort();
        }""", """        if owners_before > MAX_REFCOUNT {
            panic!("too many references");
        }""")


@mutant("a08-is_unique-relaxed", "A-h1", "is_unique loads Relaxed through the accessor", ["obl_no_weak_gate", "obl_gate"])
def _(d):
    sub(d + "/src/arc.rs", "let observed = self.refcount().load(Acquire);", "let observed = self.refcount().load(Relaxed);")


@mutant("a09-is_unique-le-1", "A-h1", "is_unique: observed <= 1", ["obl_verdict_is_eq_one", "obl_is_unique_guard"])
def _(d):
    sub(d + "/src/arc.rs", "        observed == 1\n", "        observed <= 1\n")


@mutant("a10-ensure_unique-strong_count", "A-h1", "the extracted COW helper decides on strong_count (Relaxed)", ["obl_gate_make_mut", "obl_no_weak_gate"])
def _(d):
    sub(d + "/src/arc.rs", """        if this.is_unique() {
            return;
        }

        // Another pointer exists; clone""", """        if Arc::strong_count(this) == 1 {
            return;
        }

        // Another pointer exists; clone""")


@mutant("a11-raw-write-through-accessor", "A-h1", "get_mut resets the count through a `&mut AtomicUsize` accessor", ["obl_census"])
def _(d):
    sub(d + "/src/arc.rs", """    fn refcount(&self) -> &atomic::AtomicUsize {
        &self.inner().count
    }
""", """    fn refcount(&self) -> &atomic::AtomicUsize {
        &self.inner().count
    }

    #[inline]
    fn refcount_mut(&mut self) -> &mut atomic::AtomicUsize {
        unsafe { &mut (*self.ptr()).count }
    }
""")
    sub(d + "/src/arc.rs", """        if !this.is_unique() {
            return None;
        }
""", """        if !this.is_unique() {
            return None;
        }
        *this.refcount_mut().get_mut() = 1;
""")


@mutant("a12-eyepatch-drop-differs", "A-h1", "the dropck-eyepatch Drop impl uses a second, Relaxed decrement helper", ["obl_skeleton", "obl_drop_skeleton", "obl_one_inc_one_dec"])
def _(d):
    sub(d + "/src/arc.rs", """    /// Gives up one owner of the allocation (the `Drop` half of the reference""", """    #[allow(dead_code)]
    fn release_ref_fast(&mut self) {
        if self.refcount().fetch_sub(1, Relaxed) == 1 {
            unsafe {
                self.destroy();
            }
        }
    }

    /// Gives up one owner of the allocation (the `Drop` half of the reference""")
    s = open(d + "/src/arc.rs").read()
    i = s.rindex("self.release_ref();")
    s = s[:i] + "self.release_ref_fast();" + s[i + len("self.release_ref();"):]
    open(d + "/src/arc.rs", "w").write(s)


@mutant("a13-loose-caller", "A-h1", "the increment helper is also called where the receiver type cannot be inferred", ["obl_census"])
def _(d):
    sub(d + "/src/arc.rs", "    fn acquire_ref(&self) {", "    pub(crate) fn acquire_ref(&self) {")
    sub(d + "/src/arc_borrow.rs", "mem::forget(arc.clone());", "let a = Some(&arc).unwrap();\n        a.acquire_ref();")


@mutant("a14-fence-before-dec", "A-h1", "the acquire fence is issued before the decrement, nothing after it", ["obl_acquire_before_destroy", "obl_skeleton"])
def _(d):
    sub(d + "/src/arc.rs", "        let owners_before = self.refcount().fetch_sub(1, Release);", "        atomic::fence(Acquire);\n        let owners_before = self.refcount().fetch_sub(1, Release);")
    sub(d + "/src/arc.rs", "            atomic::fence(Acquire);\n\n            unsafe {", "            unsafe {")


# ------------------------------------------------------------------------------------------------ B-h3
@mutant("b01-overflow-helper-panics", "B-h3", "refcount_overflow() panics instead of aborting", ["obl_action_abort"])
def _(d):
    sub(d + "/src/arc.rs", "fn refcount_overflow() -> ! {\n    abort()\n}", "fn refcount_overflow() -> ! {\n    panic!(\"refcount overflow\")\n}")


@mutant("b02-guard-helper-only-in-debug", "B-h3", "the extracted guard only fires in debug builds", ["obl_guard_gt_max", "obl_guard_on_old"])
def _(d):
    sub(d + "/src/arc.rs", "    if count_before_increment > MAX_REFCOUNT {", "    if cfg!(debug_assertions) && count_before_increment > MAX_REFCOUNT {")


@mutant("b03-guard-on-fresh-load", "B-h3", "the guard helper is handed a fresh strong_count, not the fetch_add result", ["obl_guard_on_old"])
def _(d):
    sub(d + "/src/arc.rs", "guard_against_refcount_overflow(count_before);", "guard_against_refcount_overflow(Self::strong_count(self));")


@mutant("b04-guard-call-removed", "B-h3", "clone no longer calls the guard helper", ["obl_guard_gt_max"])
def _(d):
    sub(d + "/src/arc.rs", "        guard_against_refcount_overflow(count_before);\n", "        let _ = count_before;\n")


@mutant("b05-guard-call-conditional", "B-h3", "the guard helper is only called for counts above 1 << 16 … below MAX", ["obl_guard_gt_max", "obl_guard_on_old"])
def _(d):
    sub(d + "/src/arc.rs", "        guard_against_refcount_overflow(count_before);\n", "        if count_before < (1 << 40) {\n            guard_against_refcount_overflow(count_before);\n        }\n")


@mutant("b06-overflow-helper-spins", "B-h3", "refcount_overflow() spins instead of aborting", ["obl_action_abort"])
def _(d):
    sub(d + "/src/arc.rs", "fn refcount_overflow() -> ! {\n    abort()\n}", "fn refcount_overflow() -> ! {\n    loop {\n        core::hint::spin_loop();\n    }\n}")


@mutant("b07-max-is-usize-max", "B-h3", "MAX_REFCOUNT = usize::MAX >> 0", ["obl_max_refcount"])
def _(d):
    sub(d + "/src/arc.rs", "const MAX_REFCOUNT: usize = usize::MAX >> 1;", "const MAX_REFCOUNT: usize = usize::MAX >> 0;")
    sub(d + "/src/arc.rs", "const _: () = assert!(MAX_REFCOUNT == isize::MAX as usize);\n", "")


@mutant("b08-guard-ge", "B-h3", "guard helper compares with >= ", ["obl_guard_gt_max"])
def _(d):
    sub(d + "/src/arc.rs", "    if count_before_increment > MAX_REFCOUNT {", "    if count_before_increment >= MAX_REFCOUNT {")


@mutant("b09-count-relaxed-through-accessor", "B-h3", "Arc::count loads Relaxed through the accessor", ["obl_no_weak_gate"])
def _(d):
    sub(d + "/src/arc.rs", "this.refcount().load(Acquire)", "this.refcount().load(Relaxed)")


@mutant("b10-overflow-helper-shadowed-abort", "B-h3", "refcount_overflow() calls a local `abort` that only logs", ["obl_action_abort"])
def _(d):
    sub(d + "/src/arc.rs", "fn refcount_overflow() -> ! {\n    abort()\n}", "fn refcount_overflow() -> ! {\n    fn abort() -> ! {\n        panic!()\n    }\n    abort()\n}")


# ------------------------------------------------------------------------------------------------ B-h4
@mutant("c01-expect_unique-debug-only", "B-h4", "the renamed must_be_unique only debug_asserts", ["obl_gate_write", "obl_gate_must_be_unique"])
def _(d):
    sub(d + "/src/arc.rs", """    match Arc::try_as_unique(arc) {
        Ok(unique) => unique,
        Err(this) => panic!("`Arc` must be unique in order for this operation to be safe, there are currently {} copies", Arc::count(this)),
    }""", """    debug_assert!(arc.is_unique(), "`Arc` must be unique in order for this operation to be safe, there are currently {} copies", Arc::count(arc));
    unsafe { UniqueArc::from_arc_ref(arc) }""")


@mutant("c02-clone_if_shared-strong_count", "B-h4", "the extracted COW helper decides on strong_count", ["obl_gate_make_mut", "obl_no_weak_gate"])
def _(d):
    sub(d + "/src/arc.rs", "        if !this.is_unique() {\n            // Another pointer exists; clone\n            *this = Self::new(T::clone(this));", "        if Self::strong_count(this) != 1 {\n            // Another pointer exists; clone\n            *this = Self::new(T::clone(this));")


@mutant("c03-release-from-try_unwrap", "B-h4", "the renamed drop_inner is also called from try_unwrap", ["obl_census"])
def _(d):
    sub(d + "/src/arc.rs", "    pub fn try_unwrap(this: Self) -> Result<T, Self> {\n", "    pub fn try_unwrap(this: Self) -> Result<T, Self> {\n        let mut this = this;\n        if Arc::strong_count(&this) == 0 {\n            this.release();\n        }\n")


@mutant("c04-fake-drop_inner", "B-h4", "a new private `drop_inner` with a bare decrement, called from try_unwrap (name squatting)", ["obl_census"])
def _(d):
    sub(d + "/src/arc.rs", "    /// Gives up the reference held by this `Arc`, which is what dropping it does.\n", "    fn drop_inner(&mut self) {\n        self.inner().count.fetch_sub(1, Release);\n    }\n\n    /// Gives up the reference held by this `Arc`, which is what dropping it does.\n")
    sub(d + "/src/arc.rs", "    pub fn try_unwrap(this: Self) -> Result<T, Self> {\n", "    pub fn try_unwrap(this: Self) -> Result<T, Self> {\n        let mut this = this;\n        if Arc::strong_count(&this) == 0 {\n            this.drop_inner();\n        }\n")


@mutant("c05-release-acqrel-to-relaxed", "B-h4", "renamed drop_inner: Relaxed decrement", ["obl_dec_release"])
def _(d):
    sub(d + "/src/arc.rs", "if self.inner().count.fetch_sub(1, Release) != 1 {", "if self.inner().count.fetch_sub(1, Relaxed) != 1 {")


# ------------------------------------------------------------------------------------------------ C-h2
@mutant("d01-cold-overflow-panics", "C-h2", "the cold refcount_overflow() panics", ["obl_action_abort"])
def _(d):
    sub(d + "/src/arc.rs", "fn refcount_overflow() -> ! {\n    abort()\n}", "fn refcount_overflow() -> ! {\n    panic!()\n}")


@mutant("d02-cold-overflow-logs-first", "C-h2", "refcount_overflow() does something else before abort (unknown action)", ["obl_action_abort"])
def _(d):
    sub(d + "/src/arc.rs", "fn refcount_overflow() -> ! {\n    abort()\n}", "fn refcount_overflow() -> ! {\n    if cfg!(test) {\n        panic!()\n    }\n    abort()\n}")


# ------------------------------------------------------------------------------------------------ A-h2 / A-h3
@mutant("e01-thin-drop-never-drops", "A-h2", "ThinArc::drop builds the transient Arc but never drops it", ["obl_funnels"])
def _(d):
    sub(d + "/src/thin_arc.rs", "        let mut owned = self.transient_protected();\n        unsafe { ManuallyDrop::drop(&mut owned) };", "        let _owned = self.transient_protected();")


@mutant("e02-offset-drop-conditional", "A-h2", "OffsetArc::drop drops the transient Arc only under a condition", ["obl_funnels"])
def _(d):
    sub(d + "/src/offset_arc.rs", "        unsafe { ManuallyDrop::drop(&mut owned) };", "        if Arc::strong_count(&owned) > 1 {\n            unsafe { ManuallyDrop::drop(&mut owned) };\n        }")


@mutant("e03-union-release-forgets", "A-h3", "ArcUnion's release helper forgets the rebuilt Arc", ["obl_funnels"])
def _(d):
    sub(d + "/src/arc_union.rs", "    drop(Arc::from_raw(data));", "    core::mem::forget(Arc::from_raw(data));")


@mutant("e04-union-release-early-return", "A-h3", "ArcUnion's release helper returns early for shared payloads", ["obl_funnels"])
def _(d):
    sub(d + "/src/arc_union.rs", "    drop(Arc::from_raw(data));", "    if ArcBorrow::strong_count(&x) > 1 {\n        return;\n    }\n    drop(Arc::from_raw(data));")


@mutant("e05-thin-drop-wrong-transient", "A-h2", "transient_protected() hands out a ManuallyDrop of a *clone*", ["obl_funnels"])
def _(d):
    sub(d + "/src/thin_arc.rs", "        ManuallyDrop::new(unsafe { Arc::from_raw_inner(thin_to_thick(self)) })", "        ManuallyDrop::new(unsafe { ManuallyDrop::new(Arc::from_raw_inner(thin_to_thick(self))).clone_owned() })")


# ------------------------------------------------------------------------------------------------
# further HARMLESS rewrites (expect = []: every obligation must hold), to keep the translator honest
# about refactorings beyond the 14 patches of /verif/harmless
DEC = "        if self.inner().count.fetch_sub(1, Release) != 1 {\n            return;\n        }\n"
GUARD = "        if old_size > MAX_REFCOUNT {\n            abort();\n        }\n"


@mutant("x01-free-fn-accessor", None, "HARMLESS: free fn `count_of(&Arc) -> &AtomicUsize` used by clone/count/strong_count/drop_inner", [])
def _(d):
    f = d + "/src/arc.rs"
    sub(f, "/// The object allocated by an `Arc<T>`\n", "#[inline]\nfn count_of<T: ?Sized>(a: &Arc<T>) -> &atomic::AtomicUsize {\n    &a.inner().count\n}\n\n/// The object allocated by an `Arc<T>`\n")
    sub(f, "let old_size = self.inner().count.fetch_add(1, Relaxed);", "let old_size = count_of(self).fetch_add(1, Relaxed);")
    sub(f, "        this.inner().count.load(Acquire)\n", "        count_of(this).load(Acquire)\n")
    sub(f, "        this.inner().count.load(Relaxed)\n", "        count_of(this).load(Relaxed)\n")
    sub(f, "if self.inner().count.fetch_sub(1, Release) != 1 {", "if count_of(self).fetch_sub(1, Release) != 1 {")
    sub(f, "        self.inner().count.load(Acquire);\n", "        count_of(self).load(Acquire);\n")


@mutant("x02-match-guard", None, "HARMLESS: the decrement guard as a `match` on the old value", [])
def _(d):
    sub(d + "/src/arc.rs", DEC, "        match self.inner().count.fetch_sub(1, Release) {\n            1 => {}\n            _ => return,\n        }\n")


@mutant("x03-increment-helper-returns-old", None, "HARMLESS: `fn increment(&self) -> usize` holds the fetch_add, clone checks its result", [])
def _(d):
    f = d + "/src/arc.rs"
    sub(f, "let old_size = self.inner().count.fetch_add(1, Relaxed);", "let old_size = self.increment();")
    sub(f, "    fn drop_inner(&mut self) {\n", "    #[inline]\n    fn increment(&self) -> usize {\n        self.inner().count.fetch_add(1, Relaxed)\n    }\n\n    fn drop_inner(&mut self) {\n")


@mutant("x04-static-style-release-free-destroy", None, "HARMLESS: `fn release(this: &mut Self)` called as `Self::release(self)`, destruction in a free fn", [])
def _(d):
    f = d + "/src/arc.rs"
    sub(f, "    fn drop_inner(&mut self) {\n", "    fn release(this: &mut Self) {\n")
    sub(f, "        if self.inner().count.fetch_sub(1, Release) != 1 {", "        if this.inner().count.fetch_sub(1, Release) != 1 {")
    sub(f, "        self.inner().count.load(Acquire);\n", "        this.inner().count.load(Acquire);\n")
    sub(f, "        unsafe {\n            self.drop_slow();\n        }\n", "        unsafe {\n            destroy_inner(this.ptr());\n        }\n")
    sub(f, "    #[inline(never)]\n    unsafe fn drop_slow(&mut self) {\n        let _ = Box::from_raw(self.ptr());\n    }\n", "")
    sub(f, "/// The object allocated by an `Arc<T>`\n", "// Non-inlined part of `drop`. Just invokes the destructor.\n#[inline(never)]\nunsafe fn destroy_inner<T: ?Sized>(p: *mut ArcInner<T>) {\n    drop(Box::from_raw(p));\n}\n\n/// The object allocated by an `Arc<T>`\n")
    sub(f, "        self.drop_inner();", "        Self::release(self);", count=2)


@mutant("x05-try_as_unique-renamed", None, "HARMLESS: pub(crate) try_as_unique renamed to as_unique_mut", [])
def _(d):
    for fn in ("arc.rs", "unique_arc.rs"):
        f = d + "/src/" + fn
        s = open(f).read()
        open(f, "w").write(s.replace("try_as_unique", "as_unique_mut"))


@mutant("x06-assoc-check-overflow", None, "HARMLESS: guard in `Self::check_overflow(old)`, cold `overflow()` calls crate::abort()", [])
def _(d):
    f = d + "/src/arc.rs"
    sub(f, GUARD, "        Self::check_overflow(old_size);\n")
    sub(f, "    fn drop_inner(&mut self) {\n", "    #[inline]\n    fn check_overflow(old: usize) {\n        if old > MAX_REFCOUNT {\n            overflow();\n        }\n    }\n\n    fn drop_inner(&mut self) {\n")
    sub(f, "/// The object allocated by an `Arc<T>`\n", "#[cold]\nfn overflow() -> ! {\n    crate::abort()\n}\n\n/// The object allocated by an `Arc<T>`\n")


@mutant("x07-dec-helper-returns-bool", None, "HARMLESS: `fn dec_is_last(&self) -> bool { fetch_sub == 1 }`, drop_inner returns unless it is", [])
def _(d):
    f = d + "/src/arc.rs"
    sub(f, DEC, "        if !self.dec_is_last() {\n            return;\n        }\n")
    sub(f, "    fn drop_inner(&mut self) {\n", "    #[inline]\n    fn dec_is_last(&self) -> bool {\n        self.inner().count.fetch_sub(1, Release) == 1\n    }\n\n    fn drop_inner(&mut self) {\n")


@mutant("x08-named-limit-and-flag", None, "HARMLESS: `let limit = MAX_REFCOUNT; let overflowed = old_size > limit; if overflowed { abort() }`", [])
def _(d):
    sub(d + "/src/arc.rs", GUARD, "        let limit = MAX_REFCOUNT;\n        let overflowed = old_size > limit;\n        if overflowed {\n            abort();\n        }\n")


@mutant("x09-is_unique-as-match", None, "HARMLESS: is_unique as `match Self::count(self) { 1 => true, _ => false }`", [])
def _(d):
    sub(d + "/src/arc.rs", "        Self::count(self) == 1\n", "        match Self::count(self) {\n            1 => true,\n            _ => false,\n        }\n")


@mutant("x10-clone_arc-via-manuallydrop", None, "HARMLESS: ArcBorrow::clone_arc clones a ManuallyDrop'ed transient Arc instead of clone+forget", [])
def _(d):
    sub(d + "/src/arc_borrow.rs", "        let arc = unsafe { Arc::from_raw(self.0.as_ptr()) };\n        // addref it!\n        mem::forget(arc.clone());\n        arc\n", "        let transient = ManuallyDrop::new(unsafe { Arc::from_raw(self.0.as_ptr()) });\n        // addref it!\n        Arc::clone(&transient)\n")


@mutant("x11-everything-at-once", "A-h1", "HARMLESS: A-h1 plus match guard in release_ref and a cold overflow helper", [])
def _(d):
    f = d + "/src/arc.rs"
    sub(f, "        if owners_before > MAX_REFCOUNT {\n            abort();\n        }", "        if owners_before > MAX_REFCOUNT {\n            Self::too_many_owners();\n        }")
    sub(f, "    /// Gives up one owner of the allocation (the `Drop` half of the reference", "    #[cold]\n    #[inline(never)]\n    fn too_many_owners() -> ! {\n        abort()\n    }\n\n    /// Gives up one owner of the allocation (the `Drop` half of the reference")


# ------------------------------------------------------------------------------------------------
# breakages aimed at the inliner itself
@mutant("f01-return-scoped-to-helper", None, "the `!= 1 => return` sits in a helper, so it only leaves the helper: destruction is unconditional", ["obl_skeleton", "obl_drop_skeleton"])
def _(d):
    f = d + "/src/arc.rs"
    sub(f, DEC, "        self.give_up_reference();\n")
    sub(f, "    fn drop_inner(&mut self) {\n", "    fn give_up_reference(&mut self) {\n        if self.inner().count.fetch_sub(1, Release) != 1 {\n            return;\n        }\n    }\n\n    fn drop_inner(&mut self) {\n")


@mutant("f02-verdict-ignored", None, "the decrement helper's verdict is thrown away: destruction is unconditional", ["obl_skeleton", "obl_drop_skeleton", "obl_dec_guard"])
def _(d):
    f = d + "/src/arc.rs"
    sub(f, DEC, "        let _ = self.dec_is_last();\n")
    sub(f, "    fn drop_inner(&mut self) {\n", "    #[inline]\n    fn dec_is_last(&self) -> bool {\n        self.inner().count.fetch_sub(1, Release) == 1\n    }\n\n    fn drop_inner(&mut self) {\n")


@mutant("f03-increment-helper-called-twice", None, "clone calls the increment helper twice (one site, two increments)", ["obl_guard_gt_max", "obl_guard_on_old"])
def _(d):
    f = d + "/src/arc.rs"
    sub(f, "let old_size = self.inner().count.fetch_add(1, Relaxed);", "self.increment();\n        let old_size = self.increment();")
    sub(f, "    fn drop_inner(&mut self) {\n", "    #[inline]\n    fn increment(&self) -> usize {\n        self.inner().count.fetch_add(1, Relaxed)\n    }\n\n    fn drop_inner(&mut self) {\n")


@mutant("f04-helper-in-fn-pointer-table", "A-h1", "the decrement helper is also stored in a static table of function pointers", ["obl_census"])
def _(d):
    f = d + "/src/arc.rs"
    sub(f, "/// The object allocated by an `Arc<T>`\n", "pub static RELEASE_HOOK: fn(&mut Arc<u8>) = Arc::<u8>::release_ref;\n\n/// The object allocated by an `Arc<T>`\n")


@mutant("f05-old-overwritten", None, "the local holding the old count is overwritten before the guard", ["obl_guard_on_old", "obl_guard_gt_max"])
def _(d):
    f = d + "/src/arc.rs"
    sub(f, "let old_size = self.inner().count.fetch_add(1, Relaxed);", "let mut old_size = self.inner().count.fetch_add(1, Relaxed);\n        old_size &= 0xff;")


@mutant("f06-dec-in-pub-crate-helper-shared-with-union", "B-h4", "the renamed decrement helper becomes pub(crate) and ArcUnion::drop calls it directly", ["obl_census"])
def _(d):
    sub(d + "/src/arc.rs", "    fn release(&mut self) {", "    pub(crate) fn release(&mut self) {")
    sub(d + "/src/arc_union.rs", "                drop(Arc::from_raw(&*first));", "                core::mem::ManuallyDrop::new(Arc::from_raw(&*first)).release();")


def main():
    shutil.rmtree(TMP, ignore_errors=True)
    os.makedirs(TMP)
    only = set(sys.argv[1:])
    for ident, base, what, expect, fn in MUTANTS:
        if only and ident not in only:
            continue
        d = os.path.join(TMP, ident)
        sh(["rsync", "-a", "--exclude", "target", "--exclude", ".git", "/repo/", d + "/"])
        sh(["git", "init", "-q"], cwd=d)
        sh(["git", "add", "-A"], cwd=d)
        sh(["git", "-c", "user.email=x@x", "-c", "user.name=x", "commit", "-q", "-m", "base"], cwd=d)
        if base:
            sh(["git", "apply", "/verif/harmless/%s/patch.diff" % base], cwd=d)
        fn(d)
        sh(["git", "add", "-A"], cwd=d)
        diff = sh(["git", "diff", "--cached"], cwd=d)
        out = os.path.join(HERE, ident)
        os.makedirs(out, exist_ok=True)
        open(os.path.join(out, "patch.diff"), "w").write(diff)
        json.dump({"base": base, "what": what, "expect": expect}, open(os.path.join(out, "meta.json"), "w"), indent=1)
        print("wrote", ident)
    shutil.rmtree(TMP, ignore_errors=True)


if __name__ == "__main__":
    main()
