"""C05 — each block fits its contents and is freed once with the layout it was requested with.

Deciding method: Lean theorems of `Props/C05.lean` over the executable layout model M2
(`Model/Layout.lean`): request side = release side for every header/element layout, length and
word width; fits / aligned / overflow refused.  Tie B: the model (`drv_layout`) against the real
crate (harness binary `layout`, tracking allocator) on the 49-shape size/alignment matrix x
constructors x release paths, plus near-overflow lengths in child processes.  The property
itself is evaluated on the crate's own observations (alloc layout == dealloc layout, fits,
aligned, refused-before-allocating) to produce the failing input.
"""
from vlib import layout_corr

MODULE = "TriompheModel.Props.C05"
ASSUME = [
    "M2 transcribes core::alloc::Layout (from_size_align, extend, pad_to_align, array) and the repr(C) struct layout rule; "
    "the transcription is cross-checked numerically against core on random and boundary inputs (ext/arr queries), not derived from core's source",
    "the release side is modelled as Layout::for_value of the (fat) ArcInner pointer = repr(C) type layout; rustc's layout of "
    "repr(C) structs and of dyn vtables is trusted",
    "the global allocator returns blocks aligned as requested (observed: base % align = 0 in every case)",
    "the harness runs on a 64-bit target; 16/32-bit widths are covered by the theorems only",
    "'freed exactly once with the request layout along every history' is Props/C05Hist.lean over the history model M1 (LenInv, LayInv, LogInv), tied by the history pass of this check",
]


def run(ctx):
    layout_corr.run_property(ctx, "C05", MODULE, ASSUME,
                             extra_modules=["TriompheModel.Props.C05Hist", "TriompheModel.Proofs.HistLen"])
    # history clause: every dealloc event carries the layout of the block's alloc event, along
    # histories over every handle kind / conversion path (theorem C05_dealloc_layout_invariant);
    # the correspondence compares allocator events of the real crate with the model's
    from vlib import histcheck
    histcheck.run(ctx, MODULE, dict(create=22, iter=10, conv=22, drop=16, clone=10, intoThin=5, tryUnwrap=4, intoInner=3, cb=6),
                  ["C05"], lean=False, cov_key="history_pass", n_quick=150)


def replay(ctx, path):
    layout_corr.replay(ctx, "C05", path)
