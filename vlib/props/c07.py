"""C07 — panicking or lying callbacks cause no double drop and no uninitialised read.

Deciding method: Lean theorems in Props/C07.lean over the sequential handle machine M1/M3 (invariant
`Inv` preserved by every op, by induction over histories of any length), tied to the code by the
history correspondence (Tie B): the same op lines run on the Lean driver and on the real library.
"""
from vlib import histcheck

MODULE = "TriompheModel.Props.C07"
EXTRA = ["TriompheModel.Props.C07Iter", "TriompheModel.Proofs.HistVal"]
TAGS = ['C07']
WEIGHTS = {'iter': 26, 'cb': 22, 'makeMut': 10, 'makeUnique': 6, 'unwrapOrClone': 8, 'intoThin': 6, 'writeSlot': 8}


def run(ctx):
    histcheck.run(ctx, MODULE, WEIGHTS, TAGS, lean_extra=EXTRA,
                  release_quick_filter=lambda h: any(op.split()[0] in ('iter', 'cb') for op in h))


def replay(ctx, path):
    histcheck.replay(ctx, path, TAGS)
