import TriompheModel.Model.Ops
/-!
# A trace monitor for the observation lines of the history correspondence

The monitor works on STRUCTURED observations (`Obs`): what one line
`<status> out=<out> ev=[<events>] aux=0 | <slot probes>` says, without the strings.  It is
executable (lean_exe `drv_mon`, `Driver/Mon.lean` parses the lines of the implementation into `Obs`)
and `Props/Monitor.lean` proves that it accepts every trace of the model `M1` itself
(`monitor_accepts_model`).

Checks (one small `def` each, so that each has its own soundness lemma in `Proofs/MonitorSound.lean`):

* K1 (C04)      a reported count equals the number of probed slots that refer to the block
* K2 (C01/C05)  allocator / destructor events (allocations of the op first, then the others in the given order):
                free only what is live, with the layout it was requested with, and not while a slot still refers
                to it; no value destroyed twice
* K3 (C01)      a live block to which no slot refers must be a documented leak (allocated by an op that panicked)
* K4 (C03)      gate verdicts are "sole owner in the probe before the op"; a declining consuming gate hands
                back the same handle and does nothing
* K5 (C11)      block-address kinds store offset 0; data-address kinds a non-zero offset, the same for all
                handles of one block
* K6 (C12)      a union handle keeps its variant and block (ops other than `drop` / `dropAll`)
* K7 (C08)      `make_mut` / `make_unique`: a sole owner keeps its allocation (no `Clone`, no allocation); a shared
                handle is redirected to a fresh, solely owned allocation with EXACTLY one `Clone`, the old allocation loses one
                owner, and no other handle on it sees the write; the write target shows the written value
* K8 (C09)      `try_unwrap` (granted) / `into_inner` move the value out: no destructor, the allocation is released;
                `unwrap_or_clone` on a sole owner neither clones nor destroys, on a shared handle clones exactly once
                (for the value it hands out) and releases one owner
* K9 (C10)      `ThinArc` ⇄ fat / raw conversions and a successful `into_thin` keep block, length, contents, owners and
                do nothing else; a refused `into_thin` releases its argument
* K10 (C15)     dropping a handle whose view is `MaybeUninit` runs no element destructor (only the header's);
                `assume_init` is a cast
* K11 (C06)     a constructor (`create`, `iterCtor`) that returns a handle delivers it as the sole owner (count 1) of a
                fresh allocation that shows exactly the header and the elements handed in, in order; it allocates exactly
                once and destroys none of the values handed in
* K12 (C04)     the count read INSIDE a borrow callback (`withCb`, all five APIs; scripts without `replaceWith` / `swapWith`)
                is the number of owners before the call plus the clones the callback has made so far: the borrow itself
                is not counted
* K14 (C01)     when an op frees a block on which only initialised views stood before the op, every value the block
                stored is destroyed by that same op (unless the op hands the value to the caller)
* K15 (C06)     an iterator-driven constructor fed an HONEST script (no panic, true `len()`, one true `size_hint()`
                answer: exact, lower < upper, or unknown upper bound) does not panic, unless the length is impossible
                (the layout computation overflows)
* K13 (C03/C10) `ThinArc::with_arc_mut`: `Arc::get_mut` on the lent Arc is granted iff the allocation the transient
                refers to AT THAT MOMENT (after the clones / replacements / swaps the callback has made) has exactly one
                owner; afterwards every slot stands on the block the script left it on — in particular the lending
                ThinArc points at the replacement (also when the script ended in a panic), swapped slots hold what
                they received
-/
namespace M1
namespace Mon

/-- what `Deref` shows through a view: the digest `h<id>.<val>[<id>.<val>,…]` of the line protocol, structured
(`digest` in `Model/Ops.lean` is its string form) -/
structure Dig where
  hdr : Option Item                      -- `h<id>.<val>`, if the payload has a droppable header
  elems : Option (List (Option Item))    -- `[…]` (`?` = never written); `none` = `-`, a view whose elements are `MaybeUninit`
deriving Repr, DecidableEq, Inhabited

/-- what one slot probe shows -/
structure SlotObs where
  kind : Kind
  ty : Ty
  blk : Nat
  off : Nat
  len : Nat
  cnt : Option Nat        -- `none` for kinds without a count accessor (uniq, raw, rawThin)
  vals : Option Dig       -- the digest; `none` = `!` (no such block; never happens on a reachable state)
deriving Repr, DecidableEq, Inhabited

/-- one token of the `;`-separated `out=` field of a callback op (`runCb` appends one per executed action) -/
inductive CbTok
  | cnt (n : Nat)     -- `cnt=<n>`
  | val               -- `val=<digest>`
  | cloned | skip | mutSome | mutNone | replaced | swapped
  | other             -- anything else
  | cntBad            -- `cnt=a|b|…` with disagreeing accessors (never produced by the model)
deriving Repr, DecidableEq, Inhabited

/-- one observation line, structured -/
structure Obs where
  panicked : Bool                 -- status starts with "panic"
  badOp : Bool                    -- status = "bad-op"
  verdict : Option Bool           -- for gate ops: what the gate answered, `none` if not a gate / not applicable
  valOut : Bool                   -- the `out=` field is not `val=?` (`unwrap_or_clone`: a value was handed out)
  evs : List Event                -- the events of this op
  slots : List (Nat × SlotObs)    -- probe AFTER the op
  cbToks : List CbTok := []       -- for callback ops: the tokens of the `out=` field
deriving Repr, Inhabited

/-- the same observation with another list of events -/
def Obs.withEvs (o : Obs) (evs : List Event) : Obs := { o with evs := evs }

/-! ## observations of the model -/

/-- the count as reported through the accessors the kind offers (as `showCnt` in `Driver/Hist.lean`) -/
def obsCnt (m : Mem) (h : HV) : Option Nat :=
  match h.kind with
  | .uniq | .raw | .rawThin => none
  | _ => some (loadCount m h.blk)

/-- `digest`, structured -/
def digObs (m : Mem) (h : HV) : Option Dig :=
  match m.blocks[h.blk]? with
  | none => none
  | some k => some ⟨k.hdr, if h.ty.elemsInit then some (k.elems.take (viewLen m h)) else none⟩

def slotObs (m : Mem) (h : HV) : SlotObs := ⟨h.kind, h.ty, h.blk, h.off, viewLen m h, obsCnt m h, digObs m h⟩

/-- the probe of every slot of a model state (in slot-table order; the monitor never depends on the order) -/
def observeSlots (s : State) : List (Nat × SlotObs) := s.slots.map fun e => (e.1, slotObs s.mem e.2)

/-- does the string start with the given characters?  (defined on `toList` so that facts about
`"panic:" ++ cls` are provable without unfolding string internals) -/
def hasPrefix (p : List Char) (s : String) : Bool := s.toList.take p.length == p

/-- status `panic:<class>` -/
def isPanicStatus (st : String) : Bool := hasPrefix ['p', 'a', 'n', 'i', 'c'] st

/-- status `bad-op` -/
def isBadOpStatus (st : String) : Bool := st == "bad-op"

/-- what a gate op answered, read off the `out=` field -/
def verdictOfOut (op : Op) (out : String) : Option Bool :=
  match op with
  | .isUnique _ =>
      if out == "unique=true" then some true else if out == "unique=false" then some false else none
  | .getMut _ _ | .getUnique _ _ =>
      if out == "some" then some true else if out == "none" then some false else none
  | .tryUnique _ =>
      if out == "ok" then some true else if out == "err" then some false else none
  | .tryUnwrap _ =>
      if hasPrefix ['o', 'k', '='] out then some true else if out == "err" then some false else none
  | _ => none

def verdictOf (op : Op) (o : Out) : Option Bool := verdictOfOut op o.out

/-- the `out=` field is not `val=?`, the answer of an `unwrap_or_clone` / `into_inner` that found no value -/
def valShown (out : String) : Bool := !(out.toList == ['v', 'a', 'l', '=', '?'])

/-- the tokens `runCb` appends to its `out` string, one per executed action: the same recursion as `runCb`
(`Model/Ops.lean`) with the string replaced by a list (`Proofs/MonitorCb.lean`, `runCb_out`: `runCb`'s `out` is the
concatenation of strings that render exactly these tokens) -/
def cbToksOf (api : CbApi) (src : Nat) : List CbAct → State → HV → List CbTok
  | [], _, _ => []
  | a :: rest, s, t =>
    match a with
    | .cnt => .cnt (loadCount s.mem t.blk) :: cbToksOf api src rest s t
    | .read => .val :: cbToksOf api src rest s t
    | .panic => []
    | .cloneTo k =>
        match lookup s k with
        | some _ => .skip :: cbToksOf api src rest s t
        | none =>
          match cloneHandle s.mem t with
          | none => .skip :: cbToksOf api src rest s t
          | some (m, c) =>
            .cloned :: cbToksOf api src rest (s.put m k (if api = .thinWithArcMut then ThinArc.of_arc c else c)) t
    | .cloneArcTo k =>
        match lookup s k with
        | some _ => .skip :: cbToksOf api src rest s t
        | none =>
          if api = .rawOffset then
            .cloned :: cbToksOf api src rest (s.put (OffsetArc.clone_arc s.mem t).1 k (OffsetArc.clone_arc s.mem t).2) t
          else .skip :: cbToksOf api src rest s t
    | .getMutWrite v =>
        if api = .thinWithArcMut then
          if Arc.is_unique s.mem t then
            .mutSome :: cbToksOf api src rest ⟨writeVal s.mem t.blk v, s.slots⟩ t
          else .mutNone :: cbToksOf api src rest s t
        else .skip :: cbToksOf api src rest s t
    | .replaceWith k =>
        if api = .thinWithArcMut ∧ k ≠ src then
          match lookup s k with
          | some h2 =>
            if h2.kind = .thin then
              .replaced :: cbToksOf api src rest
                ((s.del (Arc.drop s.mem t) k).set (Arc.drop s.mem t) src (ThinArc.of_arc (ThinArc.thick s.mem h2)))
                (ThinArc.thick s.mem h2)
            else .skip :: cbToksOf api src rest s t
          | none => .skip :: cbToksOf api src rest s t
        else .skip :: cbToksOf api src rest s t
    | .swapWith k =>
        if api = .thinWithArcMut ∧ k ≠ src then
          match lookup s k with
          | some h2 =>
            if h2.kind = .thin then
              .swapped :: cbToksOf api src rest
                ((s.set s.mem k (ThinArc.of_arc t)).set s.mem src (ThinArc.of_arc (ThinArc.thick s.mem h2)))
                (ThinArc.thick s.mem h2)
            else .skip :: cbToksOf api src rest s t
          | none => .skip :: cbToksOf api src rest s t
        else .skip :: cbToksOf api src rest s t

/-- the callback tokens of `op` run in `s0` (`[]` for other ops and for `bad-op`) -/
def cbToksFor (s0 : State) : Op → List CbTok
  | .withCb src api script =>
    match lookup s0 src with
    | some h =>
      match transientOf s0.mem api h with
      | some t => cbToksOf api src script s0 t
      | none => []
    | none => []
  | _ => []

/-- the observation the model produces for `op` in state `s0` -/
def observe (s0 : State) (op : Op) : Obs :=
  let r := step s0 op
  { panicked := isPanicStatus r.2.status
    badOp := isBadOpStatus r.2.status
    verdict := verdictOf op r.2
    valOut := valShown r.2.out
    evs := r.1.mem.log.drop s0.mem.log.length
    slots := observeSlots r.1
    cbToks := cbToksFor s0 op }

/-! ## the monitor -/

/-- number of probed slots whose handle refers to block b -/
def ownersO (sl : List (Nat × SlotObs)) (b : Nat) : Nat := sl.countP (fun e => e.2.blk == b)

/-- the probe of slot `i` -/
def lookupO (sl : List (Nat × SlotObs)) (i : Nat) : Option SlotObs := (sl.find? (·.1 == i)).map (·.2)

structure MSt where
  live : List (Nat × Nat × Nat)    -- blocks allocated and not yet freed: (block, size, align)
  dropped : List Nat               -- identities of values whose destructor has run
  leakOk : List Nat                -- blocks allocated by an op that panicked (the documented leak of a half-built allocation)
  pre : List (Nat × SlotObs)       -- the probe before the op
deriving Repr, Inhabited

def MSt.init : MSt := ⟨[], [], [], []⟩

/-- one constructor per check; the first field is the property tag -/
inductive Fail
  | countMismatch (tag : String) (slot blk reported owners : Nat)      -- K1
  | freeNotLive (tag : String) (blk : Nat)                             -- K2
  | freeLayout (tag : String) (blk reqSize reqAlign size align : Nat)  -- K2
  | freeOwned (tag : String) (blk owners : Nat)                        -- K2
  | doubleDrop (tag : String) (id : Nat)                               -- K2
  | leak (tag : String) (blk : Nat)                                    -- K3
  | gateVerdict (tag : String) (slot : Nat) (got want : Bool)          -- K4
  | gateDecline (tag : String) (slot : Nat)                            -- K4
  | blockAddrOff (tag : String) (slot off : Nat)                       -- K5
  | dataAddrZero (tag : String) (slot : Nat)                           -- K5
  | dataAddrDiffer (tag : String) (slot slot' blk : Nat)               -- K5
  | unionChanged (tag : String) (slot : Nat)                           -- K6
  | cowGone (tag : String) (slot : Nat)                                -- K7
  | cowMoved (tag : String) (slot blk : Nat)                           -- K7
  | cowKept (tag : String) (slot blk : Nat)                            -- K7
  | cowVisible (tag : String) (slot other : Nat)                       -- K7
  | cowLost (tag : String) (slot want : Nat)                           -- K7
  | unwrapEvents (tag : String) (slot : Nat)                           -- K8
  | unwrapOwners (tag : String) (slot blk : Nat)                       -- K8
  | thinChanged (tag : String) (slot : Nat)                            -- K9
  | thinRefusal (tag : String) (slot : Nat)                            -- K9
  | uninitDrop (tag : String) (slot : Nat)                             -- K10
  | assumeInitChanged (tag : String) (slot : Nat)                      -- K10
  | ctorGone (tag : String) (slot : Nat)                               -- K11
  | ctorShared (tag : String) (slot blk : Nat)                         -- K11
  | ctorContents (tag : String) (slot : Nat)                           -- K11
  | ctorEvents (tag : String) (slot : Nat)                             -- K11
  | cbCount (tag : String) (slot got want : Nat)                       -- K12
  | cbCountSplit (tag : String) (slot : Nat)                           -- K12
  | cbMut (tag : String) (slot : Nat) (granted : Bool) (blk owners : Nat)   -- K13
  | cbPosition (tag : String) (slot want : Nat) (got : Option Nat)     -- K13
  | lastNoDrop (tag : String) (blk id : Nat)                           -- K14
  | honestPanic (tag : String) (slot : Nat)                            -- K15
deriving Repr, DecidableEq, Inhabited

def Fail.tag : Fail → String
  | .countMismatch t .. | .freeNotLive t .. | .freeLayout t .. | .freeOwned t .. | .doubleDrop t ..
  | .leak t .. | .gateVerdict t .. | .gateDecline t .. | .blockAddrOff t .. | .dataAddrZero t ..
  | .dataAddrDiffer t .. | .unionChanged t .. | .cowGone t .. | .cowMoved t .. | .cowKept t .. | .cowVisible t ..
  | .cowLost t .. | .unwrapEvents t .. | .unwrapOwners t .. | .thinChanged t .. | .thinRefusal t ..
  | .uninitDrop t .. | .assumeInitChanged t .. | .ctorGone t .. | .ctorShared t .. | .ctorContents t ..
  | .ctorEvents t .. | .cbCount t .. | .cbCountSplit t .. | .cbMut t .. | .cbPosition t ..
  | .lastNoDrop t .. | .honestPanic t .. => t

def Fail.msg : Fail → String
  | .countMismatch _ i b n k => s!"slot s{i} reports count {n} but {k} owning handle(s) refer to b{b}"
  | .freeNotLive _ b => s!"block b{b} freed but not live"
  | .freeLayout _ b sz al sz' al' => s!"block b{b} requested as {sz}:{al} freed as {sz'}:{al'}"
  | .freeOwned _ b k => s!"block b{b} freed while {k} owning handle(s) remain"
  | .doubleDrop _ i => s!"value {i} destroyed twice"
  | .leak _ b => s!"block b{b} has no owning handle left but was not released (leak)"
  | .gateVerdict _ i got want => s!"gate on s{i} answered {got}, sole owner is {want}"
  | .gateDecline _ i => s!"declining gate on s{i} did not hand back the same handle / changed something"
  | .blockAddrOff _ i off => s!"slot s{i} of a block-address kind stores offset {off}"
  | .dataAddrZero _ i => s!"slot s{i} of a data-address kind stores offset 0"
  | .dataAddrDiffer _ i j b => s!"slots s{i} and s{j} on b{b} store different data addresses"
  | .unionChanged _ i => s!"union slot s{i} changed variant or allocation"
  | .cowGone _ i => s!"make_mut / make_unique on s{i} succeeded but the slot is gone"
  | .cowMoved _ i b => s!"make_mut / make_unique on s{i}, sole owner of b{b}: changed allocation, cloned or allocated"
  | .cowKept _ i b => s!"make_mut / make_unique on s{i}, shared b{b}: not redirected to a fresh solely-owned allocation with one Clone and one owner less on b{b}"
  | .cowVisible _ i j => s!"the write through make_mut / make_unique on s{i} is visible through s{j}"
  | .cowLost _ i v => s!"after make_mut / make_unique on s{i} the write target does not show {v}"
  | .unwrapEvents _ i => s!"unwrapping s{i} as sole owner: a destructor or Clone ran, or the allocation was not released"
  | .unwrapOwners _ i b => s!"unwrap_or_clone on shared s{i}: not exactly one Clone, or b{b} did not lose exactly one owner"
  | .thinChanged _ i => s!"thin / fat conversion of s{i} changed block, length, contents or owners, or emitted events"
  | .thinRefusal _ i => s!"into_thin on s{i} panicked without releasing its argument"
  | .uninitDrop _ i => s!"dropping s{i} (MaybeUninit view) ran an element destructor"
  | .assumeInitChanged _ i => s!"assume_init on s{i} changed block or count, or emitted events"
  | .ctorGone _ i => s!"the constructor for s{i} succeeded but the slot is empty"
  | .ctorShared _ i b => s!"the constructor for s{i} did not deliver the sole owner (count 1) of a fresh allocation (b{b})"
  | .ctorContents _ i => s!"the handle the constructor put in s{i} does not show exactly the header / elements handed in, in order"
  | .ctorEvents _ i => s!"the constructor for s{i} destroyed a value handed in, or did not allocate exactly once (the new block)"
  | .cbCount _ i got want => s!"count read inside the callback lent by s{i} is {got} while {want} owning handle(s) exist (the borrow must not change the count)"
  | .cbCountSplit _ i => s!"the count accessors read inside the callback lent by s{i} disagree"
  | .cbMut _ i g b k => s!"get_mut inside the with_arc_mut callback on s{i} answered {if g then "some" else "none"} while {k} owning handle(s) refer to b{b}"
  | .cbPosition _ i b got => s!"after with_arc_mut, slot s{i} should stand on b{b} but {match got with | some g => s!"stands on b{g}" | none => "is gone"}"
  | .lastNoDrop _ b id => s!"block b{b} was released by its last owner (all of them initialised views) but value {id}, which it stored, was not destroyed"
  | .honestPanic _ i => s!"the iterator-driven constructor for s{i} panicked although the iterator was honest (and the length is allocatable)"

/-! ### K1 -/

def checkK1 (o : Obs) : List Fail :=
  o.slots.filterMap fun e =>
    match e.2.cnt with
    | some n =>
      if n == ownersO o.slots e.2.blk then none
      else some (.countMismatch "C04" e.1 e.2.blk n (ownersO o.slots e.2.blk))
    | none => none

/-! ### K2 -/

/-- one allocator / destructor event -/
def k2Step (o : Obs) (st : MSt) : Event → MSt × List Fail
  | .alloc b sz al =>
      ({ st with live := (b, sz, al) :: st.live,
                 leakOk := if o.panicked then b :: st.leakOk else st.leakOk }, [])
  | .dealloc b sz al =>
      ({ st with live := st.live.filter (fun e => e.1 != b) },
       (match st.live.find? (fun e => e.1 == b) with
        | none => [Fail.freeNotLive "C01" b]
        | some e => if e.2.1 == sz && e.2.2 == al then [] else [Fail.freeLayout "C05" b e.2.1 e.2.2 sz al]) ++
       (if ownersO o.slots b == 0 then [] else [Fail.freeOwned "C01" b (ownersO o.slots b)]))
  | .drop id =>
      ({ st with dropped := id :: st.dropped },
       if st.dropped.contains id then [Fail.doubleDrop "C01" id] else [])
  | _ => (st, [])

/-- the events of one op, in order -/
def k2 (o : Obs) : MSt → List Event → MSt × List Fail
  | st, [] => (st, [])
  | st, e :: r =>
    let r1 := k2Step o st e
    let r2 := k2 o r1.1 r
    (r2.1, r1.2 ++ r2.2)

def isAllocEv : Event → Bool
  | .alloc .. => true
  | _ => false

/-- the events of one op with the allocations first (the relative order of the other events is kept).  The line
protocol prints the events of an op SORTED (as strings: `alloc… < clone… < dealloc… < drop…`), the model's log has
them in program order; K2 runs on this canonical order so that its verdict does not depend on which of the two it is
given (`Props/Monitor.lean`, `monitor_accepts_model_perm`: any permutation of the events of each op is accepted). -/
def canonEvs (evs : List Event) : List Event := evs.filter isAllocEv ++ evs.filter (fun e => !isAllocEv e)

/-! ### K3 -/

def k3Bad (o : Obs) (st : MSt) (e : Nat × Nat × Nat) : Bool :=
  ownersO o.slots e.1 == 0 && !(st.leakOk.contains e.1)

def checkK3 (o : Obs) (st : MSt) : List Fail :=
  (st.live.filter (k3Bad o st)).map fun e => Fail.leak "C01" e.1

/-! ### K4 -/

/-- the slot a gate op asks about -/
def gateSrc : Op → Option Nat
  | .isUnique src | .getMut src _ | .getUnique src _ | .tryUnique src | .tryUnwrap src => some src
  | _ => none

/-- gates that consume the handle when they grant -/
def consumingGate : Op → Bool
  | .tryUnique _ | .tryUnwrap _ => true
  | _ => false

def checkK4 (pre : List (Nat × SlotObs)) (op : Op) (o : Obs) : List Fail :=
  match gateSrc op with
  | none => []
  | some src =>
    if o.badOp then [] else
    match lookupO pre src, o.verdict with
    | some p, some v =>
      (if v == (ownersO pre p.blk == 1) then [] else [Fail.gateVerdict "C03" src v (ownersO pre p.blk == 1)]) ++
      (if consumingGate op && !v && !(lookupO o.slots src == some p && o.evs.isEmpty) then
        [Fail.gateDecline "C03" src] else [])
    | _, _ => []

/-! ### K5 -/

/-- kinds that store the address of the block (the others store the address of the value) -/
def blockAddrKind : Kind → Bool
  | .arc | .uniq | .thin | .rawThin => true
  | .raw | .offset | .unionA | .unionB => false

def k5One (e : Nat × SlotObs) : Option Fail :=
  if blockAddrKind e.2.kind then
    (if e.2.off == 0 then none else some (.blockAddrOff "C11" e.1 e.2.off))
  else
    (if e.2.off == 0 then some (.dataAddrZero "C11" e.1) else none)

def k5Pair (e e' : Nat × SlotObs) : Option Fail :=
  if decide (e.1 < e'.1) && !blockAddrKind e.2.kind && !blockAddrKind e'.2.kind && e.2.blk == e'.2.blk &&
      e.2.off != e'.2.off then
    some (.dataAddrDiffer "C11" e.1 e'.1 e.2.blk)
  else none

def checkK5 (o : Obs) : List Fail :=
  o.slots.filterMap k5One ++ o.slots.flatMap fun e => o.slots.filterMap (k5Pair e)

/-! ### K6

Checked for every op except `drop` / `dropAll`.  (In the model no op ever changes a union handle: `conv` does not
apply to unions, callbacks can only rewrite ThinArc slots; the check would hold for `drop` / `dropAll` too, because
a released slot is no longer probed.) -/

def unionKind : Kind → Bool
  | .unionA | .unionB => true
  | _ => false

def k6Applies : Op → Bool
  | .drop _ | .dropAll => false
  | _ => true

def k6One (post : List (Nat × SlotObs)) (e : Nat × SlotObs) : Option Fail :=
  if unionKind e.2.kind then
    match lookupO post e.1 with
    | some q => if q.kind == e.2.kind && q.blk == e.2.blk then none else some (.unionChanged "C12" e.1)
    | none => none
  else none

def checkK6 (pre : List (Nat × SlotObs)) (op : Op) (o : Obs) : List Fail :=
  if k6Applies op then pre.filterMap (k6One o.slots) else []

/-! ### event classifiers used by K7 – K10 (only COUNTS of events are used, so the verdicts do not depend on their order) -/

def isCloneEv : Event → Bool
  | .clone .. => true
  | _ => false

def isDropEv : Event → Bool
  | .drop _ => true
  | _ => false

def isDeallocEv (b : Nat) : Event → Bool
  | .dealloc b' _ _ => b' == b
  | _ => false

/-- a destructor event for an identity other than `keep` -/
def isDropOther (keep : Option Nat) : Event → Bool
  | .drop id => keep != some id
  | _ => false

/-! ### K7 (C08) -/

/-- the slot a copy-on-write op works on, and the value it writes -/
def cowSrc : Op → Option (Nat × Nat)
  | .makeMut src v _ | .makeUnique src v _ => some (src, v)
  | _ => none

/-- the `val` of the designated target of a write (`writeVal`): the header if there is one, else the first element -/
def Dig.target (d : Dig) : Option Nat :=
  match d.hdr with
  | some it => some it.val
  | none =>
    match d.elems with
    | some (some it :: _) => some it.val
    | _ => none

/-- the write target shows `v` -/
def targetOk (q : SlotObs) (v : Nat) : Bool := (q.vals.bind Dig.target) == some v

/-- another slot that was on `b`: still there, still on `b`, showing what it showed -/
def k7Other (post : List (Nat × SlotObs)) (b src : Nat) (e : Nat × SlotObs) : Option Fail :=
  if e.1 != src && e.2.blk == b then
    match lookupO post e.1 with
    | some q => if q.blk == b && q.vals == e.2.vals then none else some (.cowVisible "C08" src e.1)
    | none => some (.cowVisible "C08" src e.1)
  else none

def checkK7 (pre : List (Nat × SlotObs)) (op : Op) (o : Obs) : List Fail :=
  match cowSrc op with
  | none => []
  | some (src, v) =>
    if o.badOp || o.panicked then [] else
    match lookupO pre src with
    | none => []
    | some p =>
      match lookupO o.slots src with
      | none => [.cowGone "C08" src]
      | some q =>
        (if ownersO pre p.blk == 1 then
          (if q.blk == p.blk && o.evs.countP isCloneEv == 0 && o.evs.countP isAllocEv == 0 then []
           else [.cowMoved "C08" src p.blk])
         else
          (if q.blk != p.blk && o.evs.countP isCloneEv == 1 && ownersO o.slots q.blk == 1 &&
              ownersO o.slots p.blk + 1 == ownersO pre p.blk then []
           else [.cowKept "C08" src p.blk]) ++
          pre.filterMap (k7Other o.slots p.blk src)) ++
        (if targetOk q v then [] else [.cowLost "C08" src v])

/-! ### K8 (C09) -/

/-- the value was moved out: no destructor ran, the allocation was released -/
def movedOut (b : Nat) (o : Obs) : Bool :=
  o.evs.countP isDropEv == 0 && o.evs.countP (isDeallocEv b) != 0

def checkK8 (pre : List (Nat × SlotObs)) (op : Op) (o : Obs) : List Fail :=
  match op with
  | .tryUnwrap src =>
    if o.badOp then [] else
    match lookupO pre src, o.verdict with
    | some p, some true => if movedOut p.blk o then [] else [.unwrapEvents "C09" src]
    | _, _ => []
  | .intoInner src =>
    if o.badOp then [] else
    match lookupO pre src with
    | some p => if movedOut p.blk o then [] else [.unwrapEvents "C09" src]
    | none => []
  | .unwrapOrClone src _ =>
    if o.badOp || o.panicked then [] else
    match lookupO pre src with
    | some p =>
      if ownersO pre p.blk == 1 then
        (if o.evs.countP isCloneEv == 0 && o.evs.countP isDropEv == 0 then [] else [.unwrapEvents "C09" src])
      else
        (if o.evs.countP isCloneEv == (if o.valOut then 1 else 0) &&
            ownersO o.slots p.blk + 1 == ownersO pre p.blk then []
         else [.unwrapOwners "C09" src p.blk])
    | none => []
  | _ => []

/-! ### K9 (C10) -/

def thinConv : Conv → Bool
  | .fromThin | .thinIntoRaw | .thinFromRaw => true
  | _ => false

/-- slot `src` keeps block, length and contents; nothing happened; the block has the owners it had -/
def keptView (pre : List (Nat × SlotObs)) (src : Nat) (p : SlotObs) (o : Obs) : Bool :=
  match lookupO o.slots src with
  | some q => q.blk == p.blk && q.len == p.len && q.vals == p.vals && o.evs.isEmpty &&
      ownersO o.slots p.blk == ownersO pre p.blk
  | none => false

/-- the refused `into_thin` released its argument: the slot is gone, the block has one owner less, the remaining
handles on it report that count, and the last owner's release frees the block -/
def refusedReleased (pre : List (Nat × SlotObs)) (src : Nat) (p : SlotObs) (o : Obs) : Bool :=
  (lookupO o.slots src).isNone && ownersO o.slots p.blk + 1 == ownersO pre p.blk &&
  o.slots.all (fun e => e.2.blk != p.blk || e.2.cnt.all (fun c => c + 1 == ownersO pre p.blk)) &&
  (ownersO pre p.blk != 1 || o.evs.countP (isDeallocEv p.blk) != 0)

def checkK9 (pre : List (Nat × SlotObs)) (op : Op) (o : Obs) : List Fail :=
  match op with
  | .conv src c =>
    if thinConv c && !o.badOp && !o.panicked then
      match lookupO pre src with
      | some p => if keptView pre src p o then [] else [.thinChanged "C10" src]
      | none => []
    else []
  | .intoThin src =>
    if o.badOp then [] else
    match lookupO pre src with
    | some p =>
      if o.panicked then (if refusedReleased pre src p o then [] else [.thinRefusal "C10" src])
      else (if keptView pre src p o then [] else [.thinChanged "C10" src])
    | none => []
  | _ => []

/-! ### K10 (C15)

The Python monitor's clause is "no destructor event for an identity that a `writeSlot` into that block has stored".
The check here is stronger and needs no bookkeeping: dropping a handle whose view is `MaybeUninit` runs NO destructor
except the header's (whose identity the probe before the op shows).  With distinct identities (what the generator
guarantees) a written identity is never the header's, so this implies the Python clause. -/

/-- the identity of the header the probe shows -/
def hdrIdO (p : SlotObs) : Option Nat := (p.vals.bind (·.hdr)).map (·.id)

def isAssumeInit : Conv → Bool
  | .assumeInit => true
  | _ => false

def checkK10 (pre : List (Nat × SlotObs)) (op : Op) (o : Obs) : List Fail :=
  match op with
  | .drop src =>
    if o.badOp then [] else
    match lookupO pre src with
    | some p =>
      if !p.ty.elemsInit && o.evs.countP (isDropOther (hdrIdO p)) != 0 then [.uninitDrop "C15" src] else []
    | none => []
  | .conv src c =>
    if isAssumeInit c && !o.badOp && !o.panicked then
      match lookupO pre src with
      | some p =>
        (match lookupO o.slots src with
         | some q => if q.blk == p.blk && q.cnt == p.cnt && o.evs.isEmpty then [] else [.assumeInitChanged "C15" src]
         | none => [.assumeInitChanged "C15" src])
      | none => []
    else []
  | _ => []

/-! ### K11 (C06)

A constructor that hands back a handle (status ok) moved every value it was given into ONE fresh allocation, each
exactly once: the new slot is the sole owner (reported count 1, one probed slot on the block, no slot of the probe before
the op on it), it shows exactly the header and the elements handed in, in order (`-` for the `new_uninit*` family, whose
view is `MaybeUninit`), there is exactly one `alloc` event — for that block —, and no destructor ran for a value handed
in.  For the iterator-driven constructors "handed in" is the header (ignored by `FromIterator`) and ALL the items of the
script: a built result holds them all (`runIterCtor_spec`); lying `len()` / `size_hint()` answers end in a panic. -/

/-- what the fresh handle of a plain constructor must show -/
def ctorDig : Ctor → Dig
  | .new v | .newB v | .fromBox v | .uniqueNew v => ⟨none, some [some v]⟩
  | .fromVec vs => ⟨none, some (vs.map some)⟩
  | .hsFromVec h vs | .hwlFromVec h _ vs => ⟨some h, some (vs.map some)⟩
  | .newUninit | .uniqueNewUninit | .newUninitSlice _ | .uniqueNewUninitSlice _ => ⟨none, none⟩
  | .hsUninit h _ => ⟨some h, none⟩

/-- the header an iterator-driven constructor stores (`FromIterator` takes none) -/
def iterHdr : IterCtor → Option Item → Option Item
  | .hsFromIter, h | .thinFromIter, h => h
  | _, _ => none

/-- the identities of the values a digest shows (header first) -/
def Dig.ids (d : Dig) : List Nat :=
  (d.hdr.toList.map (·.id)) ++ ((d.elems.getD []).filterMap fun e => e.map (·.id))

/-- the slot a constructor op fills, what the new handle must show, and the identities of the values handed in -/
def ctorSpec : Op → Option (Nat × Dig × List Nat)
  | .create dst c => some (dst, ctorDig c, (ctorDig c).ids)
  | .iterCtor dst w h sc =>
      some (dst, ⟨iterHdr w h, some (sc.items.map some)⟩, (Dig.mk (iterHdr w h) (some (sc.items.map some))).ids)
  | _ => none

/-- a destructor event for one of the given identities -/
def isDropOf (ids : List Nat) : Event → Bool
  | .drop id => ids.contains id
  | _ => false

/-- an allocation event for block `b` -/
def isAllocOf (b : Nat) : Event → Bool
  | .alloc b' _ _ => b' == b
  | _ => false

def checkK11 (pre : List (Nat × SlotObs)) (op : Op) (o : Obs) : List Fail :=
  match ctorSpec op with
  | none => []
  | some (dst, d, ids) =>
    if o.badOp || o.panicked then [] else
    match lookupO pre dst with
    | some _ => []
    | none =>
      match lookupO o.slots dst with
      | none => [.ctorGone "C06" dst]
      | some q =>
        (if q.cnt.all (· == 1) && ownersO o.slots q.blk == 1 && ownersO pre q.blk == 0 then []
         else [.ctorShared "C06" dst q.blk]) ++
        (if q.vals == some d then [] else [.ctorContents "C06" dst]) ++
        (if o.evs.countP (isDropOf ids) == 0 && o.evs.countP isAllocEv == 1 && o.evs.countP (isAllocOf q.blk) == 1
         then [] else [.ctorEvents "C06" dst])

/-! ### K12 (C04): counts read inside a borrow callback -/

def isReplSwap : CbAct → Bool
  | .replaceWith _ | .swapWith _ => true
  | _ => false

/-- walk the tokens: `n` = owners before the call + clones made so far -/
def k12Walk (tags : List String) (src : Nat) : Nat → List CbTok → List Fail
  | _, [] => []
  | n, tk :: r =>
    match tk with
    | .cloned => k12Walk tags src (n + 1) r
    | .cnt m => if m == n then k12Walk tags src n r else tags.map fun t => Fail.cbCount t src m n
    | .cntBad => tags.map fun t => Fail.cbCountSplit t src
    | _ => k12Walk tags src n r

def k12Tags : CbApi → List String
  | .rawOffset => ["C04", "C11"]
  | _ => ["C04"]

def checkK12 (pre : List (Nat × SlotObs)) (op : Op) (o : Obs) : List Fail :=
  match op with
  | .withCb src api script =>
    if o.badOp || script.any isReplSwap then [] else
    match lookupO pre src with
    | some p => k12Walk (k12Tags api) src (ownersO pre p.blk) o.cbToks
    | none => []
  | _ => []

/-! ### K13 (C03 / C10): `ThinArc::with_arc_mut`

The monitor replays the script on a virtual slot table (slot ↦ block, from the probe before the op), driven by the
TOKENS the implementation printed (`cloned` / `skip` / `replaced` / `swapped` say what happened), and tracks the block the
transient refers to. -/

abbrev VS := List (Nat × Nat)

def vOwners (vs : VS) (b : Nat) : Nat := vs.countP (fun e => e.2 == b)
def vLookup (vs : VS) (i : Nat) : Option Nat := (vs.find? (·.1 == i)).map (·.2)
def vSet (vs : VS) (i b : Nat) : VS := vs.map fun e => if e.1 == i then (i, b) else e
def vDel (vs : VS) (i : Nat) : VS := vs.filter (·.1 != i)

/-- the virtual table of a probe -/
def vOf (sl : List (Nat × SlotObs)) : VS := sl.map fun e => (e.1, e.2.blk)

/-- one action with the token it produced; `cur` = the block the transient refers to -/
def k13Step (src : Nat) (a : CbAct) (tk : CbTok) (cur : Nat) (vs : VS) : Except Fail (Nat × VS) :=
  match tk with
  | .cloned =>
    match a with
    | .cloneTo k | .cloneArcTo k => .ok (cur, (k, cur) :: vs)
    | _ => .ok (cur, vs)
  | .replaced =>
    match a with
    | .replaceWith k =>
      match vLookup vs k with
      | some nb => .ok (nb, vSet (vDel vs k) src nb)   -- the old transient is dropped, slot k's handle is now the lender's
      | none => .ok (cur, vs)
    | _ => .ok (cur, vs)
  | .swapped =>
    match a with
    | .swapWith k =>
      match vLookup vs k with
      | some nb => .ok (nb, vSet (vSet vs k cur) src nb)   -- slot k now holds what the lender held
      | none => .ok (cur, vs)
    | _ => .ok (cur, vs)
  | .mutSome => if vOwners vs cur == 1 then .ok (cur, vs) else .error (.cbMut "C03" src true cur (vOwners vs cur))
  | .mutNone => if vOwners vs cur == 1 then .error (.cbMut "C03" src false cur (vOwners vs cur)) else .ok (cur, vs)
  | _ => .ok (cur, vs)

/-- actions and tokens together (the script may have ended early in a panic: fewer tokens than actions) -/
def k13Walk (src : Nat) : List CbAct → List CbTok → Nat → VS → Except Fail (Nat × VS)
  | a :: as, tk :: tks, cur, vs =>
    match k13Step src a tk cur vs with
    | .ok r => k13Walk src as tks r.1 r.2
    | .error f => .error f
  | _, _, cur, vs => .ok (cur, vs)

/-- slot `i` of the probe after the op stands on `b` -/
def k13Pos (post : List (Nat × SlotObs)) (e : Nat × Nat) : Option Fail :=
  if (lookupO post e.1).map (·.blk) == some e.2 then none
  else some (.cbPosition "C10" e.1 e.2 ((lookupO post e.1).map (·.blk)))

def isThinWithArcMut : CbApi → Bool
  | .thinWithArcMut => true
  | _ => false

def checkK13 (pre : List (Nat × SlotObs)) (op : Op) (o : Obs) : List Fail :=
  match op with
  | .withCb src api script =>
    if isThinWithArcMut api && !o.badOp then
      match lookupO pre src with
      | some p =>
        match k13Walk src script o.cbToks p.blk (vOf pre) with
        | .error f => [f]
        | .ok r => r.2.filterMap (k13Pos o.slots)
      | none => []
    else []
  | _ => []

/-! ### K14 (C01): the destructor runs at the moment the last owning handle is released

When the events of an op free a block `b` on which, in the probe before the op, at least one slot stood and every slot
was an initialised view, every value identity the (first of the) views showed — header and elements — has a `drop`
event in this same op; unless it was destroyed earlier (the monitor's `dropped` set) or the op hands the value to the
caller (`try_unwrap` granted, `into_inner`, `unwrap_or_clone` without a `Clone`).  Blocks allocated and freed inside one
op are not in the probe before the op: out of scope.  Only COUNTS of events are used. -/

/-- the op hands the value out instead of destroying it -/
def movesOut (op : Op) (o : Obs) : Bool :=
  match op with
  | .tryUnwrap _ => o.verdict == some true
  | .intoInner _ => true
  | .unwrapOrClone _ _ => o.evs.countP isCloneEv == 0
  | _ => false

/-- the destructor event of identity `id` -/
def isDropId (id : Nat) : Event → Bool
  | .drop i => i == id
  | _ => false

/-- one slot of the probe before the op: if it is the first view on its block, the block is freed by the op and all
views on it were initialised, every identity it showed is destroyed by the op -/
def k14One (dropped : List Nat) (pre : List (Nat × SlotObs)) (evs : List Event) (e : Nat × SlotObs) : List Fail :=
  if evs.countP (isDeallocEv e.2.blk) != 0 &&
      (pre.find? (fun e' => e'.2.blk == e.2.blk)).map (·.1) == some e.1 &&
      pre.all (fun e' => e'.2.blk != e.2.blk || e'.2.ty.elemsInit) then
    ((e.2.vals.map Dig.ids).getD []).filterMap fun id =>
      if evs.countP (isDropId id) != 0 || dropped.contains id then none
      else some (.lastNoDrop "C01" e.2.blk id)
  else []

def checkK14 (st : MSt) (op : Op) (o : Obs) : List Fail :=
  if movesOut op o then [] else st.pre.flatMap (k14One st.dropped st.pre o.evs)

/-! ### K15 (C06): an honest iterator is accepted, in every `size_hint` regime (exact, lower < upper, unknown)

A script is HONEST when no `next()` panics, every `len()` answer is the number of items, all `size_hint()` answers are
the same pair `(lo, up)` (an answer that changes between calls is a lie) and it is true: `lo ≤ n` and (`up` unknown or
`n ≤ up`).  An iterator-driven constructor fed an honest script into a free slot does not panic — except for the refusal
of an impossible length: the layout computation `allocLayoutHeaderSlice` for the item count overflows. -/

def honestScript (sc : IterScript) : Bool :=
  sc.panicAt.isNone && sc.lens.all (· == sc.items.length) &&
  (match sc.hints with
   | [] => true
   | x :: r => r.all (· == x) && decide (x.1 ≤ sc.items.length) &&
       (match x.2 with
        | none => true
        | some u => decide (sc.items.length ≤ u)))

/-- the layout of the header type the constructor allocates for -/
def iterHdrLay : IterCtor → LY.Layout
  | .hsFromIter => trackedLay
  | .thinFromIter => Ty.hwl.hdrLay
  | .fromIter | .uniqueFromIter => LY.unitLayout

def checkK15 (pre : List (Nat × SlotObs)) (op : Op) (o : Obs) : List Fail :=
  match op with
  | .iterCtor dst w _ sc =>
    if o.badOp then [] else
    match lookupO pre dst with
    | some _ => []
    | none =>
      if honestScript sc && o.panicked &&
          (LY.allocLayoutHeaderSlice bits (iterHdrLay w) trackedLay sc.items.length).isSome then
        [.honestPanic "C06" dst]
      else []
  | _ => []

/-! ### one observation -/

/-- the op-independent checks K1 K2 K3 K5 (also run for driver-level ops that are not an `Op`) -/
def checkObsOnly (st : MSt) (o : Obs) : MSt × List Fail :=
  let r2 := k2 o st (canonEvs o.evs)
  let f3 := checkK3 o r2.1
  ({ r2.1 with leakOk := ((r2.1.live.filter (k3Bad o r2.1)).map (·.1)) ++ r2.1.leakOk, pre := o.slots },
   checkK1 o ++ r2.2 ++ f3 ++ checkK5 o)

/-- all checks for one op and its observation; the new state remembers the probe -/
def checkOp (st : MSt) (op : Op) (o : Obs) : MSt × List Fail :=
  let r := checkObsOnly st o
  (r.1, r.2 ++ checkK4 st.pre op o ++ checkK6 st.pre op o ++ checkK7 st.pre op o ++ checkK8 st.pre op o ++
    checkK9 st.pre op o ++ checkK10 st.pre op o ++ checkK11 st.pre op o ++ checkK12 st.pre op o ++
    checkK13 st.pre op o ++ checkK14 st op o ++ checkK15 st.pre op o)

def checkAll (st : MSt) : List (Op × Obs) → List Fail
  | [] => []
  | x :: r => (checkOp st x.1 x.2).2 ++ checkAll (checkOp st x.1 x.2).1 r

/-- run the monitor over a whole trace, from the initial monitor state -/
def checkTrace (l : List (Op × Obs)) : List Fail := checkAll MSt.init l

/-- checks whose soundness on the model is not proved; they are NOT part of `checkOp` and `drv_mon` does not run them.

None at present.  (The unconditional forms of two clauses of K7 — a shared `make_mut` / `make_unique` emits exactly one
`clone` event; the write target afterwards shows the written value — used to live here; with the invariant `InitInv`
of `Proofs/HistInit.lean`, "a view whose elements count as initialised only sees written slots", they are proved and
are part of `checkK7`.) -/
def unprovenChecks (_st : MSt) (_op : Op) (_o : Obs) : List Fail := []

end Mon
end M1
