"""bin/setup: build everything the checks need, from files on disk, offline."""
import os
import sys
import time

from vlib import common


def step(name, f):
    t = time.time()
    sys.stderr.write("[setup] %s ...\n" % name)
    f()
    sys.stderr.write("[setup] %s done in %.1fs\n" % (name, time.time() - t))


def main():
    os.makedirs(common.BUILD, exist_ok=True)
    ctx = common.Ctx("SETUP", "quick", 1, "/repo")
    step("translator (extract)", common.build_extractor)
    if os.path.isdir(os.path.join(common.VERIF, "extract_traits")):
        try:
            from vlib import traits_facts
            step("translator (extract_traits)", lambda: traits_facts.build())
        except Exception as e:  # not fatal for setup: the check itself reports
            sys.stderr.write("[setup] extract_traits: %s\n" % e)
    step("regenerate facts", lambda: common.regen_facts(ctx))

    def lean():
        ok, out = common.lake_build(["TriompheModel"] + common.DRIVERS, timeout=3600)
        if not ok:
            sys.stderr.write(out[-6000:])
            raise SystemExit("lake build failed")
    step("lean library + drivers", lean)

    def harness():
        for b in common.HARNESS_BINS:
            p, out = common.cargo_build_bin(ctx, b)
            if not p:
                sys.stderr.write(out[-4000:])
                raise SystemExit("harness build failed: " + b)
    step("harness binaries", harness)

    def harness_variants():
        # the other builds the quick checks use (built on demand otherwise; here so that the first quick run is fast)
        from concurrent.futures import ThreadPoolExecutor
        from vlib import layout_corr
        jobs = [lambda: common.cargo_build_bin(ctx, "hist", release=True),
                lambda: common.cargo_build_bin(ctx, "hist", features=("std", "serde", "stable_deref_trait", "unsize", "arc-swap", "zst")),
                lambda: common.cargo_build_bin(ctx, "ovf", release=True),
                lambda: common.cargo_build_bin(ctx, "thinzst", release=True),
                lambda: common.cargo_build_bin(ctx, "cow", release=True),
                lambda: common.cargo_build_bin(ctx, "uninit", release=True),
                lambda: common.cargo_build_bin(ctx, "serdecorr", release=True),
                lambda: common.cargo_build_bin(ctx, "ovf", features=("serde", "stable_deref_trait", "unsize", "arc-swap")),
                lambda: common.cargo_build_bin(ctx, "ovf", features=("serde", "stable_deref_trait", "unsize", "arc-swap"), release=True),
                lambda: layout_corr.build_variants(ctx, ["dbg", "rel-o0"])]
        with ThreadPoolExecutor(max_workers=4) as ex:
            for f in [ex.submit(j) for j in jobs]:
                try:
                    f.result()
                except Exception as e:      # not fatal for setup: the check that needs it reports it
                    sys.stderr.write("[setup] variant build: %s\n" % str(e)[-300:])
    step("harness variants (release, zst, layout)", harness_variants)
    try:
        from vlib import miri
        step("miri sysroot + litmus build", lambda: miri.run_suite(ctx, ["clone_read_drop_2t"], [1]))
        step("native litmus build", lambda: miri.run_native(ctx, ["convert_vs_count_observer"], rounds=10))
    except Exception as e:
        sys.stderr.write("[setup] miri warm-up skipped: %s\n" % e)
    sys.stderr.write("[setup] ok\n")
