import TriompheModel.Model.Serde
/-!
`drv_serde` — the executable serde model behind a line protocol (Tie B of C17).

Queries (one per line; `k` = index of the callback made to fail, 0 = none):

* `ser <k> <payload>` → `T=<R> Arc=<R> Unique=<R>`
* `de <k> <payload>`  → `T=<R> Arc=<R>[<heap facts>] Unique=<R>[<heap facts>]`

with `R = ok(n=<callbacks>;log=<c1,c2,…>)` or `err(at=<k>;log=<c1,…,!>)`, heap facts
`count=<n>,allocs=<blocks added>,fresh=<new block, old ones untouched>,eq=<value equals T's>` on
success and `allocs=<blocks added>` on error.

Payload descriptions (the harness's payload family):
`u8 N` | `u64 N` | `i32 I` | `bool B` | `str =TEXT` | `pair N =TEXT` (`(u32, String)`) |
`seq LEN x1 … xLEN` (`Vec<u16>`) | `opt none` | `opt some N` (`Option<u8>`) |
`outer ID =NAME A B LEN t1 … tLEN none|some N`
(`Outer { id: u32, name: String, inner: Inner { a: i32, b: bool }, tags: Vec<u16>, opt: Option<u8> }`).
-/
open Serde

def strTok (t : String) : Option String :=
  if t.startsWith "=" then some (t.drop 1).toString else none

def valsOfList : List Val → Vals
  | [] => .nil
  | v :: vs => .cons v (valsOfList vs)

def parseOpt : List String → Option Val
  | ["none"] => some .none
  | ["some", n] => n.toNat?.map (fun n => .some (.u8 n))
  | _ => none

def parsePayload : List String → Option Val
  | ["u8", n] => n.toNat?.map .u8
  | ["u64", n] => n.toNat?.map .u64
  | ["i32", i] => i.toInt?.map .i32
  | ["bool", "true"] => some (.bool true)
  | ["bool", "false"] => some (.bool false)
  | ["str", t] => (strTok t).map .str
  | ["unit"] => some .unit
  | ["marker"] => some (.unitStruct "Marker")
  -- a cons list of n nested Arcs around the unit struct `End`: by C17_serialize_transparent every link is transparent
  | ["chain", _n] => some (.unitStruct "End")
  | ["arr0"] => some (.tuple .nil)           -- `[u8; 0]`: serde's impl is `serialize_tuple(0)?.end()` / `deserialize_tuple(0, ..)`
  | ["pair", n, t] => do
      let n ← n.toNat?; let t ← strTok t
      pure (.tuple (.cons (.u32 n) (.cons (.str t) .nil)))
  | "seq" :: len :: xs => do
      let len ← len.toNat?
      if xs.length != len then none else
      let ns ← xs.mapM (·.toNat?)
      pure (.seq (valsOfList (ns.map .u16)))
  | "opt" :: rest => parseOpt rest
  | "outer" :: id :: name :: a :: b :: len :: rest => do
      let id ← id.toNat?; let name ← strTok name; let a ← a.toInt?
      let b ← (if b == "true" then some true else if b == "false" then some false else none)
      let len ← len.toNat?
      if rest.length < len then none else
      let ns ← (rest.take len).mapM (·.toNat?)
      let o ← parseOpt (rest.drop len)
      pure (.struct "Outer" (.cons "id" (.u32 id) (.cons "name" (.str name)
        (.cons "inner" (.struct "Inner" (.cons "a" (.i32 a) (.cons "b" (.bool b) .nil)))
        (.cons "tags" (.seq (valsOfList (ns.map .u16))) (.cons "opt" o .nil))))))
  | _ => none

def showLog (l : List Call) : String := ",".intercalate (l.map Call.toString)

def showSer : Except Err Rec → String
  | .ok r => s!"ok(n={r.n};log={showLog r.log})"
  | .error e => s!"err(at={e.at_};log={showLog e.log})"

def showDeT : Except Err (Val × Rec) → String
  | .ok (_, r) => s!"ok(n={r.n};log={showLog r.log})"
  | .error e => s!"err(at={e.at_};log={showLog e.log})"

mutual
def Val.beq : Val → Val → Bool
  | .bool a, .bool b => a == b
  | .u8 a, .u8 b => a == b
  | .u16 a, .u16 b => a == b
  | .u32 a, .u32 b => a == b
  | .u64 a, .u64 b => a == b
  | .i32 a, .i32 b => a == b
  | .str a, .str b => a == b
  | .none, .none => true
  | .unit, .unit => true
  | .unitStruct a, .unitStruct b => a == b
  | .some a, .some b => Val.beq a b
  | .tuple a, .tuple b => Vals.beq a b
  | .seq a, .seq b => Vals.beq a b
  | .struct n a, .struct m b => n == m && Fields.beq a b
  | _, _ => false
def Vals.beq : Vals → Vals → Bool
  | .nil, .nil => true
  | .cons a as, .cons b bs => Val.beq a b && Vals.beq as bs
  | _, _ => false
def Fields.beq : Fields → Fields → Bool
  | .nil, .nil => true
  | .cons n a as, .cons m b bs => n == m && Val.beq a b && Fields.beq as bs
  | _, _ => false
end

/-- a heap with two unrelated old blocks (one shared, one sole-owned) -/
def oldHeap : Heap (Val × Rec) := ⟨[⟨3, (.u8 0, Rec.init 0)⟩, ⟨1, (.bool true, Rec.init 0)⟩]⟩

def blockSame (a b : Option (Block (Val × Rec))) : Bool :=
  match a, b with
  | some x, some y => x.count == y.count && Val.beq x.value.1 y.value.1
  | none, none => true
  | _, _ => false

def showDeHandle (tv : Except Err (Val × Rec)) (res : Heap (Val × Rec) × Except Err (Handle (Val × Rec))) : String :=
  let (h', r) := res
  let added := h'.blocks.length - oldHeap.blocks.length
  let oldSame := (List.range oldHeap.blocks.length).all (fun i => blockSame h'.blocks[i]? oldHeap.blocks[i]?)
  match r with
  | .ok a =>
    let cnt := match h'.blocks[a.idx]? with | some b => b.count | none => 0
    let fresh := a.idx == oldHeap.blocks.length && oldSame
    let eq := match tv with | .ok (v, _) => Val.beq a.val.1 v | .error _ => false
    s!"ok(n={a.val.2.n};log={showLog a.val.2.log})[count={cnt},allocs={added},fresh={fresh},eq={eq}]"
  | .error e => s!"err(at={e.at_};log={showLog e.log})[allocs={added}]"

/-- `dip`: in-place deserialisation into block `pi` of `oldHeap` -/
def showDip (tv : Except Err (Val × Rec)) (pi : Nat) (res : Heap (Val × Rec) × Except Err Unit × Handle (Val × Rec)) : String :=
  let (h', r, a) := res
  let added := h'.blocks.length - oldHeap.blocks.length
  let oldCnt := match h'.blocks[pi]? with | some b => b.count | none => 0
  let oldSame := (List.range oldHeap.blocks.length).all (fun i =>
    match h'.blocks[i]?, oldHeap.blocks[i]? with
    | some x, some y => Val.beq x.value.1 y.value.1 && (i == pi || x.count == y.count)
    | _, _ => false)
  match r with
  | .ok () =>
    let cnt := match h'.blocks[a.idx]? with | some b => b.count | none => 0
    let fresh := a.idx == oldHeap.blocks.length
    let eq := match tv with | .ok (v, _) => Val.beq a.val.1 v | .error _ => false
    s!"ok(n={a.val.2.n};log={showLog a.val.2.log})[count={cnt},allocs={added},fresh={fresh},eq={eq},old_count={oldCnt},old_same={oldSame}]"
  | .error e => s!"err(at={e.at_};log={showLog e.log})[allocs={added},old_count={oldCnt},old_same={oldSame},place_same={a.idx == pi}]"

def answer (line : String) : String :=
  match line.trimAscii.toString.splitOn " " with
  | "ser" :: k :: rest =>
    match k.toNat?, parsePayload rest with
    | some k, some v =>
      let h : Handle (Val × Rec) := ⟨0, (v, Rec.init 0)⟩
      let t := valPayload.serialize (v, Rec.init 0) (Rec.init k)
      let a := Arc.serialize valPayload h (Rec.init k)
      let u := UniqueArc.serialize valPayload h (Rec.init k)
      s!"T={showSer t} Arc={showSer a} Unique={showSer u}"
    | _, _ => "bad-query"
  | "de" :: k :: rest =>
    match k.toNat?, parsePayload rest with
    | some k, some v =>
      let d : DeInput := ⟨v, Rec.init k⟩
      let t := valPayload.deserialize d
      let a := Arc.deserialize valPayload oldHeap d
      let u := UniqueArc.deserialize valPayload oldHeap d
      s!"T={showDeT t} Arc={showDeHandle t a} Unique={showDeHandle t u}"
    | _, _ => "bad-query"
  | "dip" :: k :: rest =>
    match k.toNat?, parsePayload rest with
    | some k, some v =>
      let d : DeInput := ⟨v, Rec.init k⟩
      let t := valPayload.deserialize d
      -- the Arc place is the shared block 0 (three owners), the UniqueArc place the sole-owned block 1
      let a := Arc.deserializeInPlace valPayload oldHeap ⟨0, (.u8 0, Rec.init 0)⟩ d
      let u := UniqueArc.deserializeInPlace valPayload oldHeap ⟨1, (.bool true, Rec.init 0)⟩ d
      s!"T={showDeT t} Arc={showDip t 0 a} Unique={showDip t 1 u}"
    | _, _ => "bad-query"
  | _ => "bad-query"

partial def loop (hin hout : IO.FS.Stream) : IO Unit := do
  let line ← hin.getLine
  if line.isEmpty then return
  hout.putStrLn (answer line)
  loop hin hout

def main : IO Unit := do
  let hin ← IO.getStdin
  let hout ← IO.getStdout
  loop hin hout
  hout.flush
