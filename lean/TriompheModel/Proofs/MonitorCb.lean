import TriompheModel.Proofs.MonitorBase
/-!
# Soundness of the trace monitor, part 5: the callback clauses K12 (C04) and K13 (C03 / C10)

`cbToksOf` (Model/Monitor.lean) mirrors the token emission of `runCb`.  Here:

* `k12_walk`: in a script without `replaceWith` / `swapWith`, every `cnt` token is the number of owners of the
  transient's block, which is the number before the call plus the `cloned` tokens so far (`CbP`: the invariant holds
  inside the callback and the lending slot stands on the transient's block);
* `k13_walk`: the monitor's virtual slot table stays equal to the (slot, block) projection of the model's slot table
  along the whole script, `cur` is the transient's block, so `get_mut` verdicts are "exactly one owner" and the
  final table is the final slot table.
-/
namespace M1
namespace Mon
open LY

theorem owners_put' (s : State) (m : Mem) (i : Nat) (h : HV) (b : Nat) :
    owners (s.put m i h) b = owners s b + (if h.blk = b then 1 else 0) := by
  simp [owners, State.put, List.countP_cons]

theorem cbp_reads {src : Nat} {s : State} {t : HV} (hp : CbP src s t) : loadCount s.mem t.blk = owners s t.blk := by
  obtain ⟨hi, hs, hl, hb, _⟩ := hp
  rw [← hb]
  exact hi.loadCount_eq hl

/-! ## K12 -/

theorem k12_walk (tags : List String) (api : CbApi) (src : Nat) : ∀ (script : List CbAct) (s : State) (t : HV),
    script.any isReplSwap = false → CbP src s t →
    k12Walk tags src (owners s t.blk) (cbToksOf api src script s t) = [] := by
  intro script
  induction script with
  | nil => intro s t _ _; rfl
  | cons a rest ih =>
    intro s t hns hp
    have hrest : rest.any isReplSwap = false := by
      simp only [List.any_cons, Bool.or_eq_false_iff] at hns; exact hns.2
    cases a with
    | cnt =>
      simp only [cbToksOf, k12Walk, cbp_reads hp, beq_self_eq_true, if_true]
      exact ih s t hrest hp
    | read =>
      simp only [cbToksOf, k12Walk]
      exact ih s t hrest hp
    | panic => rfl
    | cloneTo k =>
      cases hk : lookup s k with
      | some x =>
        simp only [cbToksOf, hk, k12Walk]
        exact ih s t hrest hp
      | none =>
        cases hc : cloneHandle s.mem t with
        | none =>
          simp only [cbToksOf, hk, hc, k12Walk]
          exact ih s t hrest hp
        | some mc =>
          obtain ⟨m, c⟩ := mc
          simp only [cbToksOf, hk, hc, k12Walk]
          have hb : (if api = .thinWithArcMut then ThinArc.of_arc c else c).blk = t.blk := by
            have := (cloneHandle_spec hc).2.1
            split
            · exact this
            · exact this
          have := ih _ t hrest (hp.cloneTo hk hc api)
          rw [owners_put', if_pos hb] at this
          exact this
    | cloneArcTo k =>
      cases hk : lookup s k with
      | some x =>
        simp only [cbToksOf, hk, k12Walk]
        exact ih s t hrest hp
      | none =>
        by_cases ha : api = .rawOffset
        · subst ha
          simp only [cbToksOf, hk, if_true, k12Walk]
          have hb : ({ OffsetArc.transient s.mem t with kind := .arc } : HV).blk = t.blk := rfl
          have := ih _ t hrest (hp.cloneArc hk)
          rw [owners_put', if_pos hb] at this
          exact this
        · simp only [cbToksOf, hk, ha, if_false, k12Walk]
          exact ih s t hrest hp
    | getMutWrite v =>
      by_cases ha : api = .thinWithArcMut
      · subst ha
        cases hu : Arc.is_unique s.mem t with
        | true =>
          simp only [cbToksOf, hu, if_true, k12Walk]
          exact ih ⟨writeVal s.mem t.blk v, s.slots⟩ t hrest (hp.write v)
        | false =>
          simp only [cbToksOf, hu, if_true, k12Walk, Bool.false_eq_true, if_false]
          exact ih s t hrest hp
      · simp only [cbToksOf, ha, if_false, k12Walk]
        exact ih s t hrest hp
    | replaceWith k => simp [isReplSwap] at hns
    | swapWith k => simp [isReplSwap] at hns

theorem cbp_of_step {s : State} (hi : Inv s) {src : Nat} {api : CbApi} {h t : HV} (hl : lookup s src = some h)
    (ht : transientOf s.mem api h = some t) : CbP src s t ∧ t.blk = h.blk := by
  obtain ⟨h1, h2⟩ := transientOf_spec ht
  exact ⟨⟨hi.toInv', h, hl, h1.symm, h2⟩, h1⟩

/-- **K12 is sound**: the counts the model's callbacks read are "owners before the call + clones made so far" -/
theorem K12_sound {s : State} (hi : Inv s) (op : Op) : checkK12 (observeSlots s) op (observe s op) = [] := by
  cases op with
  | withCb src api script =>
    simp only [checkK12]
    split
    · rfl
    · rename_i hc
      simp only [Bool.or_eq_true, not_or, Bool.not_eq_true] at hc
      rw [lookupO_observe]
      cases hl : lookup s src with
      | none => rfl
      | some h =>
        simp only [Option.map_some]
        show k12Walk _ src (ownersO (observeSlots s) h.blk) (cbToksFor s (.withCb src api script)) = []
        simp only [cbToksFor, hl]
        cases ht : transientOf s.mem api h with
        | none => rfl
        | some t =>
          obtain ⟨hp, hb⟩ := cbp_of_step hi hl ht
          simp only [ownersO_observe, ← hb]
          exact k12_walk _ api src script s t hc.2 hp
  | _ => rfl

theorem checkK12_withEvs (pre : List (Nat × SlotObs)) (op : Op) (o : Obs) (evs' : List Event) :
    checkK12 pre op (o.withEvs evs') = checkK12 pre op o := rfl

/-! ## K13 -/

/-- the (slot, block) projection of a slot table: what the monitor's virtual table mirrors -/
def vmap (sl : Slots) : VS := sl.map fun e => (e.1, e.2.blk)

theorem vOf_observe (s : State) : vOf (observeSlots s) = vmap s.slots := by
  simp only [vOf, observeSlots, vmap, List.map_map]
  rfl

theorem vOwners_vmap (sl : Slots) (b : Nat) : vOwners (vmap sl) b = ownersL sl b := by
  simp only [vOwners, vmap, ownersL, List.countP_map]
  rfl

theorem vLookup_vmap (sl : Slots) (i : Nat) : vLookup (vmap sl) i = (lookupL sl i).map (·.blk) := by
  simp only [vLookup, vmap, lookupL, List.find?_map, Option.map_map]
  rfl

theorem vmap_setL (sl : Slots) (i : Nat) (h : HV) : vmap (setL sl i h) = vSet (vmap sl) i h.blk := by
  simp only [vmap, setL, vSet, List.map_map]
  apply List.map_congr_left
  intro e _
  simp only [Function.comp]
  by_cases he : (e.1 == i) = true
  · simp [he]
  · simp [he]

theorem vmap_delL (sl : Slots) (i : Nat) : vmap (delL sl i) = vDel (vmap sl) i := by
  simp only [vmap, delL, vDel, List.filter_map]
  rfl

theorem vmap_put (s : State) (m : Mem) (k : Nat) (c : HV) : vmap (s.put m k c).slots = (k, c.blk) :: vmap s.slots := rfl

theorem cbp_unique {src : Nat} {s : State} {t : HV} (hp : CbP src s t) :
    Arc.is_unique s.mem t = (vOwners (vmap s.slots) t.blk == 1) := by
  rw [vOwners_vmap]
  show (loadCount s.mem t.blk == 1) = (owners s t.blk == 1)
  rw [cbp_reads hp]

theorem k13_walk (src : Nat) : ∀ (script : List CbAct) (s : State) (t : HV) (acc : String), CbP src s t →
    ∃ c, k13Walk src script (cbToksOf .thinWithArcMut src script s t) t.blk (vmap s.slots) =
      .ok (c, vmap (runCb .thinWithArcMut src script s t acc).1.slots) := by
  intro script
  induction script with
  | nil => intro s t acc _; exact ⟨t.blk, rfl⟩
  | cons a rest ih =>
    intro s t acc hp
    have hraw : (CbApi.thinWithArcMut = CbApi.rawOffset) = False := by simp
    cases a with
    | cnt =>
      simp only [cbToksOf, runCb, k13Walk, k13Step]
      exact ih s t _ hp
    | read =>
      simp only [cbToksOf, runCb, k13Walk, k13Step]
      exact ih s t _ hp
    | panic => exact ⟨t.blk, rfl⟩
    | cloneTo k =>
      cases hk : lookup s k with
      | some x =>
        simp only [cbToksOf, runCb, hk, k13Walk, k13Step]
        exact ih s t _ hp
      | none =>
        cases hc : cloneHandle s.mem t with
        | none =>
          simp only [cbToksOf, runCb, hk, hc, k13Walk, k13Step]
          exact ih s t _ hp
        | some mc =>
          obtain ⟨m, c⟩ := mc
          simp only [cbToksOf, runCb, hk, hc, k13Walk, k13Step, if_true]
          have hb : (ThinArc.of_arc c).blk = t.blk := (cloneHandle_spec hc).2.1
          have hp' := hp.cloneTo hk hc .thinWithArcMut
          rw [if_pos rfl] at hp'
          have := ih _ t (acc ++ "cloned;") hp'
          rw [vmap_put, hb] at this
          exact this
    | cloneArcTo k =>
      cases hk : lookup s k with
      | some x =>
        simp only [cbToksOf, runCb, hk, k13Walk, k13Step]
        exact ih s t _ hp
      | none =>
        simp only [cbToksOf, runCb, hk, hraw, if_false, k13Walk, k13Step]
        exact ih s t _ hp
    | getMutWrite v =>
      cases hu : Arc.is_unique s.mem t with
      | true =>
        have hv : (vOwners (vmap s.slots) t.blk == 1) = true := by rw [← cbp_unique hp]; exact hu
        simp only [cbToksOf, runCb, hu, if_true, k13Walk, k13Step, hv]
        exact ih ⟨writeVal s.mem t.blk v, s.slots⟩ t _ (hp.write v)
      | false =>
        have hv : (vOwners (vmap s.slots) t.blk == 1) = false := by rw [← cbp_unique hp]; exact hu
        simp only [cbToksOf, runCb, hu, if_true, Bool.false_eq_true, if_false, k13Walk, k13Step, hv]
        exact ih s t _ hp
    | replaceWith k =>
      by_cases hne : k ≠ src
      · cases hk : lookup s k with
        | none =>
          simp only [cbToksOf, runCb, hk, true_and, if_pos hne, k13Walk, k13Step]
          exact ih s t _ hp
        | some h2 =>
          by_cases hthin : h2.kind = .thin
          · have hv : vLookup (vmap s.slots) k = some h2.blk := by
              rw [vLookup_vmap]
              show (lookup s k).map _ = _
              rw [hk]; rfl
            simp only [cbToksOf, runCb, hk, hthin, true_and, if_pos hne, if_true, k13Walk, k13Step, hv]
            have := ih _ _ (acc ++ "replaced;") (hp.repl hne hk)
            rw [set_slots, del_slots, vmap_setL, vmap_delL] at this
            exact this
          · simp only [cbToksOf, runCb, hk, hthin, true_and, if_pos hne, if_true, if_false, k13Walk, k13Step]
            exact ih s t _ hp
      · simp only [cbToksOf, runCb, true_and, if_neg hne, k13Walk, k13Step]
        exact ih s t _ hp
    | swapWith k =>
      by_cases hne : k ≠ src
      · cases hk : lookup s k with
        | none =>
          simp only [cbToksOf, runCb, hk, true_and, if_pos hne, k13Walk, k13Step]
          exact ih s t _ hp
        | some h2 =>
          by_cases hthin : h2.kind = .thin
          · have hv : vLookup (vmap s.slots) k = some h2.blk := by
              rw [vLookup_vmap]
              show (lookup s k).map _ = _
              rw [hk]; rfl
            simp only [cbToksOf, runCb, hk, hthin, true_and, if_pos hne, if_true, k13Walk, k13Step, hv]
            have := ih _ _ (acc ++ "swapped;") (hp.swap hne hk)
            rw [set_slots, set_slots, vmap_setL, vmap_setL] at this
            exact this
          · simp only [cbToksOf, runCb, hk, hthin, true_and, if_pos hne, if_true, if_false, k13Walk, k13Step]
            exact ih s t _ hp
      · simp only [cbToksOf, runCb, true_and, if_neg hne, k13Walk, k13Step]
        exact ih s t _ hp

/-- every entry of the (slot, block) projection of a state's slot table is what the probe of that state shows -/
theorem k13Pos_vmap {s : State} (hi : Inv s) : (vmap s.slots).filterMap (k13Pos (observeSlots s)) = [] := by
  rw [List.filterMap_eq_nil_iff]
  intro e he
  simp only [vmap, List.mem_map] at he
  obtain ⟨⟨i, h⟩, hm, rfl⟩ := he
  have hl : lookup s i = some h := mem_lookupL hi.keys hm
  simp only [k13Pos, lookupO_observe, hl, Option.map_some, slotObs, beq_self_eq_true, if_true]

/-- **K13 is sound**: `get_mut` verdicts inside `with_arc_mut` and the positions of the slots afterwards -/
theorem K13_sound {s : State} (hi : Inv s) (op : Op) : checkK13 (observeSlots s) op (observe s op) = [] := by
  cases op with
  | withCb src api script =>
    simp only [checkK13]
    split
    · rename_i hc
      simp only [Bool.and_eq_true] at hc
      have ha : api = .thinWithArcMut := by
        cases api <;> first | rfl | (exfalso; exact absurd hc.1 (by decide))
      subst ha
      rw [lookupO_observe]
      cases hl : lookup s src with
      | none => rfl
      | some h =>
        simp only [Option.map_some]
        cases ht : transientOf s.mem .thinWithArcMut h with
        | none =>
          have e : step s (.withCb src .thinWithArcMut script) = (s, badOp) := by simp [step, hl, ht]
          have hb : (observe s (.withCb src .thinWithArcMut script)).badOp = true := by
            rw [observe_eq e]; exact isBadOp_badOp
          rw [hb] at hc
          exact absurd hc.2 (by decide)
        | some t =>
          obtain ⟨hp, hb⟩ := cbp_of_step hi hl ht
          have hto : (observe s (.withCb src .thinWithArcMut script)).cbToks = cbToksOf .thinWithArcMut src script s t := by
            show cbToksFor s (.withCb src .thinWithArcMut script) = _
            simp only [cbToksFor, hl, ht]
          have hsl : (observe s (.withCb src .thinWithArcMut script)).slots =
              observeSlots (runCb .thinWithArcMut src script s t "").1 := by
            show observeSlots (step s _).1 = _
            simp only [step, hl, ht]
          obtain ⟨c, hw⟩ := k13_walk src script s t "" hp
          have hblk : (slotObs s.mem h).blk = t.blk := hb.symm
          rw [hto, hsl, hblk, vOf_observe, hw]
          have hi' : Inv (runCb .thinWithArcMut src script s t "").1 := by
            have := inv_step s (.withCb src .thinWithArcMut script) hi
            simpa only [step, hl, ht] using this
          exact k13Pos_vmap hi'
    · rfl
  | _ => rfl

theorem checkK13_withEvs (pre : List (Nat × SlotObs)) (op : Op) (o : Obs) (evs' : List Event) :
    checkK13 pre op (o.withEvs evs') = checkK13 pre op o := rfl

/-! ## the tokens are what `runCb` prints

`cbToksOf` is defined by the same recursion as `runCb`; this is the link to the string: the `out` field of `runCb` is the
accumulator followed by one piece per token, each piece rendering its token (`Driver/Mon.lean`, `parseCbToks`, splits at
`;` and inverts `Renders`; that inversion is tested, not proved). -/

/-- the piece of the `out` string that stands for a token -/
def Renders : CbTok → String → Prop
  | .cnt n, str => str = s!"cnt={n};"
  | .val, str => ∃ d : String, str = s!"val={d};"
  | .cloned, str => str = "cloned;"
  | .skip, str => str = "skip;"
  | .mutSome, str => str = "mut=some;"
  | .mutNone, str => str = "mut=none;"
  | .replaced, str => str = "replaced;"
  | .swapped, str => str = "swapped;"
  | .other, _ => False
  | .cntBad, _ => False

/-- token by token -/
inductive RendersAll : List CbTok → List String → Prop
  | nil : RendersAll [] []
  | cons {tk : CbTok} {str : String} {tks : List CbTok} {strs : List String} :
      Renders tk str → RendersAll tks strs → RendersAll (tk :: tks) (str :: strs)

def catAll : List String → String
  | [] => ""
  | x :: r => x ++ catAll r

theorem runCb_out (api : CbApi) (src : Nat) : ∀ (script : List CbAct) (s : State) (t : HV) (acc : String),
    ∃ strs : List String, (runCb api src script s t acc).2.out = acc ++ catAll strs ∧
      RendersAll (cbToksOf api src script s t) strs := by
  intro script
  induction script with
  | nil => intro s t acc; exact ⟨[], by simp [runCb, ok, catAll], .nil⟩
  | cons a rest ih =>
    intro s t acc
    -- one more piece in front
    have step : ∀ (tk : CbTok) (piece : String) (s' : State) (t' : HV), Renders tk piece →
        ∃ strs : List String, (runCb api src rest s' t' (acc ++ piece)).2.out = acc ++ catAll strs ∧
          RendersAll (tk :: cbToksOf api src rest s' t') strs := by
      intro tk piece s' t' hr
      obtain ⟨strs, h1, h2⟩ := ih s' t' (acc ++ piece)
      exact ⟨piece :: strs, by rw [h1, catAll, String.append_assoc], .cons hr h2⟩
    cases a with
    | cnt =>
      simp only [cbToksOf, runCb]
      exact step (.cnt _) _ s t rfl
    | read =>
      simp only [cbToksOf, runCb]
      exact step .val _ s t ⟨_, rfl⟩
    | panic => exact ⟨[], by simp [runCb, panicked, catAll], .nil⟩
    | cloneTo k =>
      cases hk : lookup s k with
      | some x =>
        simp only [cbToksOf, runCb, hk]
        exact step .skip _ s t rfl
      | none =>
        cases hc : cloneHandle s.mem t with
        | none =>
          simp only [cbToksOf, runCb, hk, hc]
          exact step .skip _ s t rfl
        | some mc =>
          simp only [cbToksOf, runCb, hk, hc]
          exact step .cloned _ _ t rfl
    | cloneArcTo k =>
      cases hk : lookup s k with
      | some x =>
        simp only [cbToksOf, runCb, hk]
        exact step .skip _ s t rfl
      | none =>
        by_cases ha : api = .rawOffset
        · simp only [cbToksOf, runCb, hk, if_pos ha]
          exact step .cloned _ _ t rfl
        · simp only [cbToksOf, runCb, hk, if_neg ha]
          exact step .skip _ s t rfl
    | getMutWrite v =>
      by_cases ha : api = .thinWithArcMut
      · cases hu : Arc.is_unique s.mem t with
        | true =>
          simp only [cbToksOf, runCb, if_pos ha, hu, if_true]
          exact step .mutSome _ _ t rfl
        | false =>
          simp only [cbToksOf, runCb, if_pos ha, hu, Bool.false_eq_true, if_false]
          exact step .mutNone _ s t rfl
      · simp only [cbToksOf, runCb, if_neg ha]
        exact step .skip _ s t rfl
    | replaceWith k =>
      by_cases hc : api = .thinWithArcMut ∧ k ≠ src
      · cases hk : lookup s k with
        | none =>
          simp only [cbToksOf, runCb, if_pos hc, hk]
          exact step .skip _ s t rfl
        | some h2 =>
          by_cases hthin : h2.kind = .thin
          · simp only [cbToksOf, runCb, if_pos hc, hk, if_pos hthin]
            exact step .replaced _ _ _ rfl
          · simp only [cbToksOf, runCb, if_pos hc, hk, if_neg hthin]
            exact step .skip _ s t rfl
      · simp only [cbToksOf, runCb, if_neg hc]
        exact step .skip _ s t rfl
    | swapWith k =>
      by_cases hc : api = .thinWithArcMut ∧ k ≠ src
      · cases hk : lookup s k with
        | none =>
          simp only [cbToksOf, runCb, if_pos hc, hk]
          exact step .skip _ s t rfl
        | some h2 =>
          by_cases hthin : h2.kind = .thin
          · simp only [cbToksOf, runCb, if_pos hc, hk, if_pos hthin]
            exact step .swapped _ _ _ rfl
          · simp only [cbToksOf, runCb, if_pos hc, hk, if_neg hthin]
            exact step .skip _ s t rfl
      · simp only [cbToksOf, runCb, if_neg hc]
        exact step .skip _ s t rfl

/-- the observation's tokens and the line's `out=` field: for a callback op that is not `bad-op`, `out` is the concatenation of
pieces that render `(observe s op).cbToks`, one by one -/
theorem observe_cbToks_out (s : State) (src : Nat) (api : CbApi) (script : List CbAct) :
    ∃ strs : List String, (step s (.withCb src api script)).2.out = catAll strs ∧
      RendersAll (observe s (.withCb src api script)).cbToks strs := by
  show ∃ strs : List String, _ ∧ RendersAll (cbToksFor s (.withCb src api script)) strs
  cases hl : lookup s src with
  | none => simp only [step, cbToksFor, hl]; exact ⟨[], rfl, .nil⟩
  | some h =>
    cases ht : transientOf s.mem api h with
    | none => simp only [step, cbToksFor, hl, ht]; exact ⟨[], rfl, .nil⟩
    | some t =>
      simp only [step, cbToksFor, hl, ht]
      obtain ⟨strs, h1, h2⟩ := runCb_out api src script s t ""
      exact ⟨strs, by simpa using h1, h2⟩

end Mon
end M1
