import TriompheModel.Proofs.MonitorSound
/-!
# The monitor never rejects the model

`Model/Monitor.lean` is an executable trace monitor over structured observations (the lines of the history
correspondence, parsed).  Here: on the trace the model `M1` itself produces — every op of a history together with
the observation `observe` computes from `step` — every check of `checkOp` passes, for EVERY finite history whose
value identities are distinct (`FreshIds`, what the generator guarantees; needed only for "no value destroyed
twice").  So a `FAIL` of `drv_mon` on an implementation line that the model's own line passes is a difference
between the implementation and the model, never an artefact of the monitor.

Per check (K1 … K15) there is a separate theorem for every reachable state.
-/
namespace M1
namespace Mon

/-- the trace of the model from state `s` -/
def modelTraceFrom (s : State) : List Op → List (Op × Obs)
  | [] => []
  | op :: r => (op, observe s op) :: modelTraceFrom (step s op).1 r

/-- the trace of the model itself: every op with the observation the model produces for it -/
def modelTrace (ops : List Op) : List (Op × Obs) := modelTraceFrom State.init ops

theorem run_snoc (pre : List Op) (op : Op) : run (pre ++ [op]) = (step (run pre) op).1 := by
  simp [run, List.foldl_append]

theorem modelTraceFrom_getElem? : ∀ (rest pre : List Op) (i : Nat),
    (modelTraceFrom (run pre) rest)[i]? = (rest[i]?).map fun op => (op, observe (run (pre ++ rest.take i)) op) := by
  intro rest
  induction rest with
  | nil => intro pre i; simp [modelTraceFrom]
  | cons op r ih =>
    intro pre i
    cases i with
    | zero => simp [modelTraceFrom]
    | succ j =>
      simp only [modelTraceFrom, List.getElem?_cons_succ, List.take_succ_cons]
      rw [← run_snoc, ih (pre ++ [op]) j]
      simp

/-- the `i`-th entry of the model's trace is `(op_i, observe (run (ops.take i)) op_i)` -/
theorem modelTrace_getElem? (ops : List Op) (i : Nat) :
    (modelTrace ops)[i]? = (ops[i]?).map fun op => (op, observe (run (ops.take i)) op) := by
  have := modelTraceFrom_getElem? ops [] i
  simpa [modelTrace, run] using this

theorem modelTrace_length (ops : List Op) : (modelTrace ops).length = ops.length := by
  unfold modelTrace
  generalize State.init = s
  induction ops generalizing s with
  | nil => rfl
  | cons op r ih => simp [modelTraceFrom, ih]

theorem histIds_append (a b : List Op) : histIds (a ++ b) = histIds a ++ histIds b := by
  simp [histIds]

/-- a prefix of a history with fresh identities has fresh identities -/
theorem freshIds_prefix {a b : List Op} (h : FreshIds (a ++ b)) : FreshIds a := by
  obtain ⟨h1, h2⟩ := h
  rw [histIds_append] at h1 h2
  exact ⟨(List.nodup_append.1 h1).1, fun i hi => h2 i (List.mem_append_left _ hi)⟩

/-- `l'` is the trace `l` with the events of each op listed in some other order (e.g. sorted, as the line protocol
prints them) -/
inductive PermTrace : List (Op × Obs) → List (Op × Obs) → Prop
  | nil : PermTrace [] []
  | cons {op : Op} {o : Obs} {evs' : List Event} {l l' : List (Op × Obs)} :
      evs'.Perm o.evs → PermTrace l l' → PermTrace ((op, o) :: l) ((op, o.withEvs evs') :: l')

theorem PermTrace.refl : ∀ (l : List (Op × Obs)), PermTrace l l
  | [] => .nil
  | (_, o) :: l => .cons (o := o) (List.Perm.refl o.evs) (PermTrace.refl l)

theorem checkAll_model_perm : ∀ (rest pre : List Op) (st : MSt) (l : List (Op × Obs)), FreshIds (pre ++ rest) →
    Rel st (run pre) → PermTrace (modelTraceFrom (run pre) rest) l → checkAll st l = [] := by
  intro rest
  induction rest with
  | nil => intro pre st l _ _ hp; cases hp; rfl
  | cons op r ih =>
    intro pre st l hf hr hp
    have hf1 : FreshIds (pre ++ [op]) := by
      apply freshIds_prefix (b := r); simpa using hf
    simp only [modelTraceFrom] at hp
    cases hp with
    | cons hperm hrest =>
      obtain ⟨h1, h2⟩ := checkOp_sound_perm pre op hf1 st hr _ hperm
      simp only [checkAll, h1, List.nil_append]
      rw [← run_snoc] at hrest
      exact ih (pre ++ [op]) _ _ (by simpa using hf) h2 hrest

theorem checkAll_model (rest pre : List Op) (st : MSt) (hf : FreshIds (pre ++ rest)) (hr : Rel st (run pre)) :
    checkAll st (modelTraceFrom (run pre) rest) = [] :=
  checkAll_model_perm rest pre st _ hf hr (PermTrace.refl _)

theorem monitor_accepts_model_perm_aux (ops : List Op) (h : FreshIds ops) (l : List (Op × Obs))
    (hp : PermTrace (modelTrace ops) l) : checkTrace l = [] := by
  have := checkAll_model_perm ops [] MSt.init l (by simpa using h) (by simpa [run] using rel_init)
    (by simpa [modelTrace, run] using hp)
  simpa [checkTrace] using this

theorem monitor_accepts_model_aux (ops : List Op) (h : FreshIds ops) : checkTrace (modelTrace ops) = [] :=
  monitor_accepts_model_perm_aux ops h _ (PermTrace.refl _)

end Mon

/-- **The monitor never rejects the model**: for every finite history (with distinct value identities), every check
of the monitor (`checkOp` = K1 count = owners, K2 allocator / destructor event discipline, K3 no leak, K4 gate
verdicts, K5 stored addresses, K6 union variants, K7 copy-on-write, K8 unwrapping, K9 thin ⇄ fat conversions,
K10 uninitialised views, K11 constructors, K12 counts read inside callbacks, K13 `with_arc_mut`, K14 destructor at the
last release, K15 honest iterators) passes on the model's own observations. -/
theorem monitor_accepts_model (ops : List Op) (h : FreshIds ops) : Mon.checkTrace (Mon.modelTrace ops) = [] :=
  Mon.monitor_accepts_model_aux ops h

/-- the same with the events of every op listed in ANY order — in particular sorted, as the line protocol prints them
(`obsLine` in `Driver/Hist.lean`): the monitor processes the allocations of an op first (`canonEvs`), and the rest of
its verdict does not depend on the order -/
theorem monitor_accepts_model_perm (ops : List Op) (h : FreshIds ops) (l : List (Op × Mon.Obs))
    (hp : Mon.PermTrace (Mon.modelTrace ops) l) : Mon.checkTrace l = [] :=
  Mon.monitor_accepts_model_perm_aux ops h l hp

namespace Mon

/-! ## per check, for every reachable state -/

/-- K1 (C04): every count the model reports equals the number of probed slots on that block -/
theorem K1_sound (ops : List Op) (op : Op) : checkK1 (observe (run ops) op) = [] := by
  have := K1_state (inv_run (ops ++ [op])) (observe (run ops) op) (by rw [run_snoc]; rfl)
  exact this

/-- K5 (C11): block-address kinds store 0, data-address kinds a non-zero offset that all handles of a block agree on -/
theorem K5_sound (ops : List Op) (op : Op) : checkK5 (observe (run ops) op) = [] :=
  K5_run (ops ++ [op]) _ (by rw [run_snoc]; rfl)

/-- K4 (C03): a gate answers "sole owner in the probe before the op"; a declining `try_unique` / `try_unwrap`
leaves slot and log as they were -/
theorem K4_sound_run (ops : List Op) (op : Op) :
    checkK4 (observeSlots (run ops)) op (observe (run ops) op) = [] := K4_sound (inv_run ops) op

/-- K6 (C12): an op other than `drop` / `dropAll` leaves every union handle in place, same variant, same block -/
theorem K6_sound_run (ops : List Op) (op : Op) :
    checkK6 (observeSlots (run ops)) op (observe (run ops) op) = [] := K6_sound (inv_run ops) op

/-- K7 (C08): `make_mut` / `make_unique` — a sole owner keeps its allocation without `Clone` or allocation; a shared
handle is redirected to a fresh solely-owned allocation with EXACTLY one `Clone`, the old allocation loses exactly one
owner and no other handle on it shows anything else than before; the write target shows the written value (both
unconditional: `InitInv`, `Proofs/HistInit.lean`) -/
theorem K7_sound_run (ops : List Op) (op : Op) :
    checkK7 (observeSlots (run ops)) op (observe (run ops) op) = [] :=
  K7_sound (inv_run ops) (leninv_run ops) (initinv_run ops) op

/-- K8 (C09): a granted `try_unwrap` and `into_inner` run no destructor and release the allocation; `unwrap_or_clone`
on a sole owner neither clones nor destroys, on a shared handle clones at most once and releases one owner -/
theorem K8_sound_run (ops : List Op) (op : Op) :
    checkK8 (observeSlots (run ops)) op (observe (run ops) op) = [] := K8_sound (inv_run ops) op

/-- K9 (C10): `ThinArc` ⇄ fat / raw conversions and a successful `into_thin` keep block, length, contents and owners
and emit nothing; a refused `into_thin` releases its argument -/
theorem K9_sound_run (ops : List Op) (op : Op) :
    checkK9 (observeSlots (run ops)) op (observe (run ops) op) = [] := K9_sound (inv_run ops) (leninv_run ops) op

/-- K10 (C15): dropping a handle whose view is `MaybeUninit` runs no destructor but the header's; `assume_init` is a
cast -/
theorem K10_sound_run (ops : List Op) (op : Op) :
    checkK10 (observeSlots (run ops)) op (observe (run ops) op) = [] := K10_sound (inv_run ops) (leninv_run ops) op

/-- K11 (C06): a constructor that returns a handle delivers the sole owner of one fresh allocation that shows exactly the
header and the elements handed in, in order, allocates exactly once and destroys nothing it was given -/
theorem K11_sound_run (ops : List Op) (op : Op) :
    checkK11 (observeSlots (run ops)) op (observe (run ops) op) = [] := K11_sound (inv_run ops) op

/-- K12 (C04): the count read inside a borrow callback (every API; scripts that do not replace / swap the lent Arc) is
the number of owners before the call plus the clones the callback has made so far — the borrow is not counted -/
theorem K12_sound_run (ops : List Op) (op : Op) :
    checkK12 (observeSlots (run ops)) op (observe (run ops) op) = [] := K12_sound (inv_run ops) op

/-- K13 (C03 / C10): inside `ThinArc::with_arc_mut`, `Arc::get_mut` is granted iff the allocation the transient refers to at
that moment has exactly one owner; afterwards every slot stands on the block the script left it on (the lending ThinArc
on the replacement / on what it received in a swap, also when the script panicked) -/
theorem K13_sound_run (ops : List Op) (op : Op) :
    checkK13 (observeSlots (run ops)) op (observe (run ops) op) = [] := K13_sound (inv_run ops) op

/-- K14 (C01): an op whose events free a block on which, before the op, only initialised views stood destroys — in that
same op — every value the views showed (header and elements), unless the op hands the value to the caller
(`try_unwrap` granted, `into_inner`, `unwrap_or_clone` without `Clone`); for ANY monitor state whose `pre` is the probe
of the state (the `dropped` set only excuses) -/
theorem K14_sound_run (ops : List Op) (op : Op) (st : MSt) (hpre : st.pre = observeSlots (run ops)) :
    checkK14 st op (observe (run ops) op) = [] := K14_sound (inv_run ops) (leninv_run ops) st hpre op

/-- K15 (C06): an iterator-driven constructor fed an honest script (no panic, true `len()`, one true `size_hint()` answer
— exact, lower < upper or unknown —) into a free slot does not panic, unless the layout computation for the item count
overflows -/
theorem K15_sound_run (ops : List Op) (op : Op) :
    checkK15 (observeSlots (run ops)) op (observe (run ops) op) = [] := K15_sound (run ops) op

/-- K2 + K3 (C01 / C05), with the part of the simulation they need: from a monitor state that describes `run ops`,
the event fold reports nothing, the leak check reports nothing, and the new monitor state describes the next state -/
theorem K23_sound (ops : List Op) (op : Op) (hf : FreshIds (ops ++ [op])) (st : MSt) (hr : Rel st (run ops)) :
    (k2 (observe (run ops) op) st (canonEvs (observe (run ops) op).evs)).2 = [] ∧
    checkK3 (observe (run ops) op) (k2 (observe (run ops) op) st (canonEvs (observe (run ops) op).evs)).1 = [] ∧
    Rel (checkObsOnly st (observe (run ops) op)).1 (run (ops ++ [op])) := by
  obtain ⟨h1, h2⟩ := checkOp_sound ops op hf st hr
  have h3 : (checkObsOnly st (observe (run ops) op)).2 = [] := by
    simp only [checkOp, List.append_eq_nil_iff] at h1
    exact h1.1.1.1.1.1.1.1.1.1.1.1
  simp only [checkObsOnly, List.append_eq_nil_iff] at h3
  exact ⟨h3.1.1.2, h3.1.2, h2⟩

theorem rel_along (rest : List Op) : ∀ (pre : List Op) (st : MSt), FreshIds (pre ++ rest) → Rel st (run pre) →
    ∃ st' : MSt, Rel st' (run (pre ++ rest)) := by
  induction rest with
  | nil => intro pre st _ hr; exact ⟨st, by simpa using hr⟩
  | cons op r ih =>
    intro pre st hf hr
    have hf1 : FreshIds (pre ++ [op]) := by
      apply freshIds_prefix (b := r); simpa using hf
    obtain ⟨st', h⟩ := ih (pre ++ [op]) _ (by simpa using hf) (checkOp_sound pre op hf1 st hr).2
    exact ⟨st', by simpa using h⟩

/-- some monitor state describes the model's state after every history (the one the monitor reaches along the trace) -/
theorem rel_along_trace (ops : List Op) (hf : FreshIds ops) : ∃ st : MSt, Rel st (run ops) := by
  have := rel_along ops [] MSt.init (by simpa using hf) (by simpa [run] using rel_init)
  simpa using this

/-! ## non-vacuity -/

/-- the monitor accepts the model's trace of concrete histories (here by evaluation; in general by the theorem) -/
example : checkTrace (modelTrace exampleHistory) = [] := by decide

example : checkTrace (modelTrace exampleValHistory) = [] := monitor_accepts_model _ (by decide)

/-- the events of every op in reverse order: still accepted (by evaluation here, by `monitor_accepts_model_perm` in
general) -/
example : checkTrace ((modelTrace exampleValHistory).map fun x => (x.1, x.2.withEvs x.2.evs.reverse)) = [] := by decide

/-- (some op of that history has several events, so reversing them is a real permutation) -/
example : ((modelTrace exampleValHistory).any fun x => decide (2 ≤ x.2.evs.length)) = true := by decide

/-- every reported count off by one -/
def bumpCounts (x : Op × Obs) : Op × Obs :=
  (x.1, { x.2 with slots := x.2.slots.map fun e => (e.1, { e.2 with cnt := e.2.cnt.map (· + 1) }) })

/-- **the monitor REJECTS a doctored observation**: a count that is off by one is a C04 failure at the first op -/
example : (checkTrace ((modelTrace exampleHistory).map bumpCounts)).head? =
    some (Fail.countMismatch "C04" 0 0 2 1) := by decide

/-- a block freed with another size than it was requested with is a C05 failure -/
def wrongFreeSize (x : Op × Obs) : Op × Obs :=
  (x.1, { x.2 with evs := x.2.evs.map fun e => match e with
    | .dealloc b sz al => .dealloc b (sz + 8) al
    | e => e })

example : checkTrace ((modelTrace exampleHistory).map wrongFreeSize) = [Fail.freeLayout "C05" 1 16 8 24 8] := by decide

/-- a release that is not reported (the events of the op are dropped) is a leak, C01 -/
def swallowEvents (x : Op × Obs) : Op × Obs :=
  (x.1, { x.2 with evs := x.2.evs.filter fun e => match e with | .dealloc .. => false | _ => true })

example : checkTrace ((modelTrace exampleHistory).map swallowEvents) =
    [Fail.leak "C01" 1, Fail.unwrapEvents "C09" 2] := by decide

/-- a gate that says "unique" while a second owner exists is a C03 failure -/
def flipVerdict (x : Op × Obs) : Op × Obs := (x.1, { x.2 with verdict := x.2.verdict.map (!·) })

example : checkTrace ((modelTrace [.create 0 (.new ⟨1, 7⟩), .clone 1 0, .isUnique 0]).map flipVerdict) =
    [Fail.gateVerdict "C03" 0 true false] := by decide

/-! ### K7 – K10 reject what they are there to reject -/

/-- replace the observation of the LAST op of a trace -/
def doctorLast (f : Obs → Obs) : List (Op × Obs) → List (Op × Obs)
  | [] => []
  | [x] => [(x.1, f x.2)]
  | x :: r => x :: doctorLast f r

/-- what slot `i` shows -/
def setVals (i : Nat) (d : Dig) (o : Obs) : Obs :=
  { o with slots := o.slots.map fun e => if e.1 == i then (e.1, { e.2 with vals := some d }) else e }

def cowHistory : List Op := [.create 0 (.new ⟨1, 7⟩), .clone 1 0, .makeMut 1 5 false]

/-- the model: the shared handle is redirected, slot 0 still shows 7 -/
example : ((modelTrace cowHistory).getLast?.map fun x => x.2.slots.map fun e => (e.1, e.2.blk, e.2.vals)) =
    some [(1, 1, some ⟨none, some [some ⟨1000000, 5⟩]⟩), (0, 0, some ⟨none, some [some ⟨1, 7⟩]⟩)] := by decide

/-- **a `make_mut` on a shared handle that kept the allocation** (and wrote in place): C08, twice — not redirected,
and the write is visible through slot 0 -/
example : checkTrace (doctorLast (fun o => { o with evs := [], slots :=
      [(1, ⟨.arc, .sized, 0, 0, 1, some 2, some ⟨none, some [some ⟨1, 5⟩]⟩⟩),
       (0, ⟨.arc, .sized, 0, 0, 1, some 2, some ⟨none, some [some ⟨1, 5⟩]⟩⟩)] }) (modelTrace cowHistory)) =
    [Fail.cowKept "C08" 1 0, Fail.cowVisible "C08" 1 0] := by decide

/-- **a write visible through another handle**: everything as in the model, but slot 0 shows the written value -/
example : checkTrace (doctorLast (setVals 0 ⟨none, some [some ⟨1, 5⟩]⟩) (modelTrace cowHistory)) =
    [Fail.cowVisible "C08" 1 0] := by decide

/-- a shared `make_mut` that did not call `Clone` (the clone event is missing) -/
example : checkTrace (doctorLast (fun o => { o with evs := o.evs.filter fun e => !isCloneEv e })
      (modelTrace cowHistory)) = [Fail.cowKept "C08" 1 0] := by decide

/-- **a `try_unwrap` that also ran the destructor** of the value it handed out: C09 -/
example : checkTrace (doctorLast (fun o => { o with evs := .drop 1 :: o.evs })
      (modelTrace [.create 0 (.new ⟨1, 7⟩), .tryUnwrap 0])) = [Fail.unwrapEvents "C09" 0] := by decide

/-- an `unwrap_or_clone` on a shared handle that handed out a value without calling `Clone`: C09 -/
example : checkTrace (doctorLast (fun o => { o with evs := [] })
      (modelTrace [.create 0 (.new ⟨1, 7⟩), .clone 1 0, .unwrapOrClone 1 false])) =
    [Fail.unwrapOwners "C09" 1 0] := by decide

/-- a `make_mut` whose write is lost (the redirected handle still shows 7): C08 -/
example : checkTrace (doctorLast (setVals 1 ⟨none, some [some ⟨1000000, 7⟩]⟩) (modelTrace cowHistory)) =
    [Fail.cowLost "C08" 1 5] := by decide

/-- a redirected handle that shows NO value (a never-written slot) is rejected too — the clause is unconditional -/
example : checkTrace (doctorLast (setVals 1 ⟨none, some [none]⟩) (modelTrace cowHistory)) =
    [Fail.cowLost "C08" 1 5] := by decide

/-- a shared `make_mut` that called `Clone` twice: C08 -/
example : checkTrace (doctorLast (fun o => { o with evs := o.evs ++ [.clone 1 1000001] }) (modelTrace cowHistory)) =
    [Fail.cowKept "C08" 1 0] := by decide

/-- `InitInv` at work: an uninitialised allocation becomes an `Arc<T>` only after its slot is written, so the clone of
a shared `make_mut` finds a value -/
example : checkTrace (modelTrace [.create 0 .newUninit, .writeSlot 0 0 ⟨5, 50⟩, .conv 0 .assumeInit, .clone 1 0,
      .makeMut 1 3 false]) = [] ∧
    (step (run [.create 0 .newUninit]) (.conv 0 .assumeInit)).2.status = "bad-op" := by decide

def thinHistory : List Op := [.create 0 (.hwlFromVec ⟨9, 9⟩ 3 [⟨1, 1⟩, ⟨2, 2⟩]), .intoThin 0]

/-- the model refuses (recorded length 3, real length 2) and releases the argument -/
example : ((modelTrace thinHistory).getLast?.map fun x => (x.2.panicked, x.2.evs, x.2.slots.length)) =
    some (true, [.drop 9, .drop 1, .drop 2, .dealloc 0 40 8], 0) := by decide

/-- **an `into_thin` that panicked without releasing** its argument (the slot is still there, nothing happened): C10 -/
example : checkTrace (doctorLast (fun o => { o with evs := [], slots :=
      [(0, ⟨.arc, .hwl, 0, 0, 2, some 1, some ⟨some ⟨9, 9⟩, some [some ⟨1, 1⟩, some ⟨2, 2⟩]⟩⟩)] })
      (modelTrace thinHistory)) = [Fail.thinRefusal "C10" 0] := by decide

/-- **an element destructor run for a `MaybeUninit` view**: the written slot's value is destroyed with the handle: C15 -/
example : checkTrace (doctorLast (fun o => { o with evs := .drop 5 :: o.evs })
      (modelTrace [.create 0 (.newUninitSlice 2), .writeSlot 0 0 ⟨5, 50⟩, .drop 0])) =
    [Fail.uninitDrop "C15" 0] := by decide

/-- … the header's destructor is the one that may (must) run -/
example : checkTrace (modelTrace [.create 0 (.hsUninit ⟨4, 40⟩ 2), .writeSlot 0 0 ⟨5, 50⟩, .drop 0]) = [] ∧
    ((modelTrace [.create 0 (.hsUninit ⟨4, 40⟩ 2), .writeSlot 0 0 ⟨5, 50⟩, .drop 0]).getLast?.map (·.2.evs)) =
      some [.drop 4, .dealloc 0 32 8] := by decide

/-! ### K11 rejects what it is there to reject -/

def vecHistory : List Op := [.create 0 (.fromVec [⟨1, 10⟩, ⟨2, 20⟩, ⟨3, 30⟩])]

/-- the model: one allocation, the three elements in order, count 1 -/
example : ((modelTrace vecHistory).getLast?.map fun x => (x.2.evs, x.2.slots.map fun e => (e.1, e.2.cnt, e.2.vals))) =
    some ([.alloc 0 32 8], [(0, some 1, some ⟨none, some [some ⟨1, 10⟩, some ⟨2, 20⟩, some ⟨3, 30⟩]⟩)]) := by decide

/-- **a constructor that delivered one element too few**: C06 -/
example : checkTrace (doctorLast (setVals 0 ⟨none, some [some ⟨1, 10⟩, some ⟨2, 20⟩]⟩) (modelTrace vecHistory)) =
    [Fail.ctorContents "C06" 0] := by decide

/-- **elements in the wrong order**: C06 -/
example : checkTrace (doctorLast (setVals 0 ⟨none, some [some ⟨2, 20⟩, some ⟨1, 10⟩, some ⟨3, 30⟩]⟩)
      (modelTrace vecHistory)) = [Fail.ctorContents "C06" 0] := by decide

/-- **a constructor that destroyed a value it was given** (and still shows it): C06 -/
example : checkTrace (doctorLast (fun o => { o with evs := o.evs ++ [.drop 2] }) (modelTrace vecHistory)) =
    [Fail.ctorEvents "C06" 0] := by decide

/-- **a fresh handle that reports count 2**: C04 (one probed owner) and C06 (not the sole owner of a fresh allocation) -/
example : checkTrace (doctorLast (fun o => { o with slots := o.slots.map fun e => (e.1, { e.2 with cnt := some 2 }) })
      (modelTrace vecHistory)) = [Fail.countMismatch "C04" 0 0 2 1, Fail.ctorShared "C06" 0 0] := by decide

/-- a "fresh" handle on an allocation another slot already owns (`new` returned a clone of slot 0): C06 -/
example : checkTrace (doctorLast (fun o => { o with evs := [], slots :=
      [(1, ⟨.arc, .sized, 0, 0, 1, some 2, some ⟨none, some [some ⟨5, 50⟩]⟩⟩),
       (0, ⟨.arc, .sized, 0, 0, 1, some 2, some ⟨none, some [some ⟨1, 10⟩]⟩⟩)] })
      (modelTrace [.create 0 (.new ⟨1, 10⟩), .create 1 (.new ⟨5, 50⟩)])) =
    [Fail.ctorShared "C06" 1 0, Fail.ctorEvents "C06" 1] := by decide

/-- a header that was swapped for another value: C06 -/
example : checkTrace (doctorLast (setVals 0 ⟨some ⟨8, 9⟩, some [some ⟨1, 10⟩]⟩)
      (modelTrace [.create 0 (.hsFromVec ⟨9, 9⟩ [⟨1, 10⟩])])) = [Fail.ctorContents "C06" 0] := by decide

/-- an iterator-driven constructor that returns a handle holds ALL the items: an honest script is accepted, a handle that
shows only a prefix is rejected -/
example : checkTrace (modelTrace [.iterCtor 0 .thinFromIter (some ⟨9, 9⟩) ⟨[], [], [⟨1, 10⟩, ⟨2, 20⟩], none⟩]) = [] ∧
    checkTrace (doctorLast (setVals 0 ⟨some ⟨9, 9⟩, some [some ⟨1, 10⟩]⟩)
      (modelTrace [.iterCtor 0 .thinFromIter (some ⟨9, 9⟩) ⟨[], [], [⟨1, 10⟩, ⟨2, 20⟩], none⟩])) =
      [Fail.ctorContents "C06" 0] := by decide

/-- an iterator that under-reports its length: the model panics (the half-built block is the documented leak, the
remaining items are dropped with the iterator) — nothing for K11 to check, and the trace is accepted -/
example : checkTrace (modelTrace [.iterCtor 0 .hsFromIter (some ⟨9, 9⟩) ⟨[1], [], [⟨1, 10⟩, ⟨2, 20⟩], none⟩]) = [] ∧
    ((modelTrace [.iterCtor 0 .hsFromIter (some ⟨9, 9⟩) ⟨[1], [], [⟨1, 10⟩, ⟨2, 20⟩], none⟩]).getLast?.map
      fun x => (x.2.panicked, x.2.slots.length)) = some (true, 0) := by decide

/-- the `new_uninit*` family: the view is `MaybeUninit` (`-`), only the header is shown -/
example : checkTrace (modelTrace [.create 0 (.hsUninit ⟨4, 40⟩ 2), .create 1 (.newUninitSlice 3), .create 2 .newUninit]) = [] ∧
    checkTrace (doctorLast (setVals 0 ⟨some ⟨4, 41⟩, none⟩) (modelTrace [.create 0 (.hsUninit ⟨4, 40⟩ 2)])) =
      [Fail.ctorContents "C06" 0] := by decide

/-! ### K12 / K13 reject what they are there to reject -/

/-- the callback tokens of the observation -/
def setToks (t : List CbTok) (o : Obs) : Obs := { o with cbToks := t }

/-- the block slot `i` stands on -/
def setBlk (i b : Nat) (o : Obs) : Obs :=
  { o with slots := o.slots.map fun e => if e.1 == i then (e.1, { e.2 with blk := b }) else e }

/-- two ThinArcs: slot 0 on b0, slot 1 on b1 -/
def thinPair : List Op :=
  [.create 0 (.hwlFromVec ⟨9, 9⟩ 1 [⟨1, 1⟩]), .intoThin 0, .create 1 (.hwlFromVec ⟨8, 8⟩ 1 [⟨2, 2⟩]), .intoThin 1]

def withArcHistory : List Op := thinPair ++ [.withCb 0 .thinWithArc [.cnt, .cloneTo 2, .cnt]]

/-- the model: inside `with_arc` the count is 1 (the transient is not counted), 2 after the clone -/
example : ((modelTrace withArcHistory).getLast?.map (·.2.cbToks)) = some [.cnt 1, .cloned, .cnt 2] := by decide

/-- **a count read inside `with_arc` that is one too high** (the transient Arc was counted): C04 -/
example : checkTrace (doctorLast (setToks [.cnt 2, .cloned, .cnt 3]) (modelTrace withArcHistory)) =
    [Fail.cbCount "C04" 0 2 1] := by decide

/-- the first read is right, the clone made inside the callback is not seen by the second: C04 -/
example : checkTrace (doctorLast (setToks [.cnt 1, .cloned, .cnt 1]) (modelTrace withArcHistory)) =
    [Fail.cbCount "C04" 0 1 2] := by decide

/-- `with_raw_offset_arc`: the same, tagged C04 and C11; accessors that disagree are rejected as such -/
example : checkTrace (doctorLast (setToks [.cnt 3, .cloned, .cnt 4])
      (modelTrace [.create 0 (.new ⟨1, 7⟩), .clone 1 0, .withCb 0 .rawOffset [.cnt, .cloneArcTo 2, .cnt]])) =
    [Fail.cbCount "C04" 0 3 2, Fail.cbCount "C11" 0 3 2] ∧
    checkTrace (doctorLast (setToks [.cntBad])
      (modelTrace [.create 0 (.new ⟨1, 7⟩), .withCb 0 .borrowWithArc [.cnt]])) = [Fail.cbCountSplit "C04" 0] := by decide

def getMutHistory : List Op := thinPair ++ [.withCb 0 .thinWithArcMut [.cloneTo 2, .getMutWrite 5]]

/-- the model: after the clone made in the same callback `get_mut` declines -/
example : ((modelTrace getMutHistory).getLast?.map (·.2.cbToks)) = some [.cloned, .mutNone] := by decide

/-- **a `get_mut` inside `with_arc_mut` granted while a clone made earlier in the same callback exists**: C03 -/
example : checkTrace (doctorLast (setToks [.cloned, .mutSome]) (modelTrace getMutHistory)) =
    [Fail.cbMut "C03" 0 true 0 2] := by decide

/-- a `get_mut` refused on the sole owner; and one refused after the shared Arc was REPLACED by a solely owned one
(slot 2 shares b0, slot 1 is the only owner of b1) -/
example : checkTrace (doctorLast (setToks [.mutNone]) (modelTrace (thinPair ++ [.withCb 0 .thinWithArcMut [.getMutWrite 5]]))) =
      [Fail.cbMut "C03" 0 false 0 1] ∧
    ((modelTrace (thinPair ++ [.clone 2 0, .withCb 0 .thinWithArcMut [.getMutWrite 4, .replaceWith 1, .getMutWrite 5]])).getLast?.map
      (·.2.cbToks)) = some [.mutNone, .replaced, .mutSome] ∧
    checkTrace (doctorLast (setToks [.mutNone, .replaced, .mutNone])
      (modelTrace (thinPair ++ [.clone 2 0, .withCb 0 .thinWithArcMut [.getMutWrite 4, .replaceWith 1, .getMutWrite 5]]))) =
      [Fail.cbMut "C03" 0 false 1 1] := by decide

def replaceHistory : List Op := thinPair ++ [.withCb 0 .thinWithArcMut [.replaceWith 1, .getMutWrite 5]]

/-- the model: the lender's old allocation b0 is released, slot 1's ThinArc moved into the lender: slot 0 stands on b1 -/
example : ((modelTrace replaceHistory).getLast?.map fun x => (x.2.cbToks, x.2.evs, x.2.slots.map fun e => (e.1, e.2.blk))) =
    some ([.replaced, .mutSome], [.drop 9, .drop 1, .dealloc 0 32 8], [(0, 1)]) := by decide

/-- **a ThinArc that still points at the old block after `replace`** (no write-back): the freed b0 is still referred to,
b1 is leaked (C01), and C10: slot 0 should stand on b1 -/
example : checkTrace (doctorLast (setBlk 0 0) (modelTrace replaceHistory)) =
    [Fail.freeOwned "C01" 0 1, Fail.leak "C01" 1, Fail.cbPosition "C10" 0 1 (some 0)] := by decide

/-- a swap whose write-back is lost when the callback panics (both ThinArcs stand where they stood): only K13 sees it -/
example : ((modelTrace (thinPair ++ [.withCb 0 .thinWithArcMut [.swapWith 1, .panic]])).getLast?.map
      fun x => (x.2.panicked, x.2.cbToks, x.2.slots.map fun e => (e.1, e.2.blk))) = some (true, [.swapped], [(1, 0), (0, 1)]) ∧
    checkTrace (doctorLast (fun o => setBlk 0 0 (setBlk 1 1 o))
      (modelTrace (thinPair ++ [.withCb 0 .thinWithArcMut [.swapWith 1, .panic]]))) =
      [Fail.cbPosition "C10" 1 0 (some 1), Fail.cbPosition "C10" 0 1 (some 0)] := by decide

/-- accepted by evaluation: clone / replace / swap / get_mut / panic mixed, target slots occupied (`skip`) -/
example : checkTrace (modelTrace (thinPair ++ [.clone 2 0,
      .withCb 0 .thinWithArcMut [.cnt, .cloneTo 1, .cloneTo 3, .getMutWrite 1, .swapWith 1, .getMutWrite 2, .replaceWith 3,
        .getMutWrite 3, .replaceWith 0, .swapWith 7, .read, .panic, .cnt]])) = [] := by decide


/-! ### K14 / K15 reject what they are there to reject -/

/-- the observation without its destructor events -/
def noDrops (o : Obs) : Obs := { o with evs := o.evs.filter fun e => !isDropEv e }

/-- the model: the last `drop` of an `Arc` destroys the value, then frees the block -/
example : ((modelTrace [.create 0 (.new ⟨1, 7⟩), .clone 1 0, .drop 0, .drop 1]).getLast?.map (·.2.evs)) =
    some [.drop 1, .dealloc 0 16 8] := by decide

/-- **the last drop of an `Arc` frees the block without running the destructor of its value**: C01 (only K14 sees it) -/
example : checkTrace (doctorLast noDrops (modelTrace [.create 0 (.new ⟨1, 7⟩), .clone 1 0, .drop 0, .drop 1])) =
    [Fail.lastNoDrop "C01" 0 1] := by decide

/-- **a refused `into_thin` of the last owner that frees the block but destroys only the header**: C01 for both elements -/
example : checkTrace (doctorLast (fun o => { o with evs := [.drop 9, .dealloc 0 40 8] }) (modelTrace thinHistory)) =
    [Fail.lastNoDrop "C01" 0 1, Fail.lastNoDrop "C01" 0 2] := by decide

/-- `dropAll` that frees a shared header + slice without destroying anything; a `replace` inside `with_arc_mut` that frees
the lender's old allocation without destroying its contents -/
example : checkTrace (doctorLast noDrops
      (modelTrace [.create 0 (.hsFromVec ⟨9, 9⟩ [⟨1, 1⟩, ⟨2, 2⟩]), .clone 1 0, .dropAll])) =
      [Fail.lastNoDrop "C01" 0 9, Fail.lastNoDrop "C01" 0 1, Fail.lastNoDrop "C01" 0 2] ∧
    checkTrace (doctorLast noDrops (modelTrace replaceHistory)) =
      [Fail.lastNoDrop "C01" 0 9, Fail.lastNoDrop "C01" 0 1] := by decide

/-- mixed views of one block: the `MaybeUninit` view is released last, the element is (rightly) not destroyed — K14 does
not apply (not every view was initialised), the trace is accepted -/
example : checkTrace (modelTrace [.create 0 .newUninit, .writeSlot 0 0 ⟨1, 1⟩, .clone 2 0, .conv 0 .assumeInit, .dropAll]) = [] ∧
    ((modelTrace [.create 0 .newUninit, .writeSlot 0 0 ⟨1, 1⟩, .clone 2 0, .conv 0 .assumeInit, .dropAll]).getLast?.map
      (·.2.evs)) = some [.dealloc 0 16 8] := by decide

/-- the value handed to the caller is not destroyed: `try_unwrap`, `into_inner`, `unwrap_or_clone` are accepted -/
example : checkTrace (modelTrace [.create 0 (.new ⟨1, 7⟩), .tryUnwrap 0, .create 1 (.uniqueNew ⟨2, 7⟩), .intoInner 1,
      .create 2 (.new ⟨3, 7⟩), .unwrapOrClone 2 false]) = [] := by decide

/-- an honest 2-item script: accepted in all three `size_hint` regimes (exact, lower < upper, unknown upper bound) -/
example : checkTrace (modelTrace [.iterCtor 0 .fromIter none ⟨[2], [(2, some 2)], [⟨1, 10⟩, ⟨2, 20⟩], none⟩,
      .iterCtor 1 .fromIter none ⟨[], [(1, some 5), (1, some 5)], [⟨3, 10⟩, ⟨4, 20⟩], none⟩,
      .iterCtor 2 .uniqueFromIter none ⟨[], [(0, none)], [⟨5, 10⟩, ⟨6, 20⟩], none⟩]) = [] := by decide

/-- **an honest 2-item `from_iter` script answered with `panic:size-hint`** (the items dropped with the iterator): C06 -/
example : checkTrace (doctorLast (fun o => { o with panicked := true, evs := [.drop 1, .drop 2], slots := [] })
      (modelTrace [.iterCtor 0 .fromIter none ⟨[], [(2, some 2)], [⟨1, 10⟩, ⟨2, 20⟩], none⟩])) =
    [Fail.honestPanic "C06" 0] := by decide

/-- a lying script (the `size_hint` answer changes between calls) may panic: not K15's business -/
example : checkTrace (modelTrace [.iterCtor 0 .fromIter none ⟨[], [(2, some 2), (2, some 3)], [⟨1, 10⟩, ⟨2, 20⟩], none⟩]) = [] ∧
    ((modelTrace [.iterCtor 0 .fromIter none ⟨[], [(2, some 2), (2, some 3)], [⟨1, 10⟩, ⟨2, 20⟩], none⟩]).getLast?.map
      (·.2.panicked)) = some true := by decide

#print axioms monitor_accepts_model
#print axioms monitor_accepts_model_perm
#print axioms K1_sound
#print axioms K23_sound
#print axioms K4_sound_run
#print axioms K5_sound
#print axioms K6_sound_run
#print axioms K7_sound_run
#print axioms K8_sound_run
#print axioms K9_sound_run
#print axioms K10_sound_run
#print axioms K11_sound_run
#print axioms K12_sound_run
#print axioms K13_sound_run
#print axioms K14_sound_run
#print axioms K15_sound_run
#print axioms step_free_drops
#print axioms runCb_out
#print axioms observe_cbToks_out
#print axioms initinv_run
#print axioms init_view_written
#print axioms step_grow
#print axioms step_keep

end Mon
end M1
