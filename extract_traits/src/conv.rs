//! Conversions from `syn` syntax to the small fact grammar: bounds, types, region positions.
use crate::model::*;
use quote::ToTokens;
use std::collections::{BTreeMap, BTreeSet};

pub fn toks<T: ToTokens>(t: &T) -> String {
    // token string without whitespace, except between two identifier-like tokens
    let s = t.to_token_stream().to_string();
    let mut out = String::new();
    let cs: Vec<char> = s.chars().collect();
    for (i, &c) in cs.iter().enumerate() {
        if c.is_whitespace() {
            let prev = out.chars().last();
            let next = cs[i + 1..].iter().find(|c| !c.is_whitespace());
            let idc = |c: char| c.is_alphanumeric() || c == '_';
            if let (Some(p), Some(&n)) = (prev, next) {
                if idc(p) && (idc(n) || n == '\'') {
                    out.push(' ');
                }
            }
        } else {
            out.push(c);
        }
    }
    out
}

pub const PRIMS: &[&str] = &[
    "usize", "isize", "u8", "u16", "u32", "u64", "u128", "i8", "i16", "i32", "i64", "i128", "bool",
    "char", "f32", "f64", "str", "c_void", "String",
];
pub const MAGIC: &[&str] = &["NonNull", "PhantomData", "AtomicUsize"];

/// A type alias `type Name<P..> = Ty`.
#[derive(Clone)]
pub struct Alias {
    pub params: Vec<String>,
    pub ty: syn::Type,
}

/// What is in scope while converting a type.
#[derive(Clone, Default)]
pub struct Scope {
    pub type_params: BTreeSet<String>,
    pub aliases: BTreeMap<String, Alias>,
    /// name -> number of lifetime parameters, for every struct/enum of the crate
    pub lt_arity: BTreeMap<String, usize>,
    /// crate-local struct names that shadow one of the MAGIC names (then nothing is special)
    pub shadowed: BTreeSet<String>,
    /// lifetimes of the impl's self type (for `Self` in return position)
    pub self_lts: Vec<String>,
}

pub fn region_of(lt: Option<&syn::Lifetime>) -> Region {
    match lt {
        None => Region::Elided,
        Some(l) => {
            let n = l.ident.to_string();
            if n == "_" {
                Region::Elided
            } else if n == "static" {
                Region::Static
            } else {
                Region::Named(n)
            }
        }
    }
}

pub fn last_ident(p: &syn::Path) -> String {
    p.segments.last().map(|s| s.ident.to_string()).unwrap_or_default()
}

/// Normalise a list of bounds on a type parameter to a sorted, de-duplicated set.
pub fn conv_bounds<'a, I: Iterator<Item = &'a syn::TypeParamBound>>(it: I) -> Vec<Bound> {
    let mut out = Vec::new();
    for b in it {
        match b {
            syn::TypeParamBound::Lifetime(l) => {
                let n = l.ident.to_string();
                if n == "static" {
                    out.push(Bound::Static)
                } else {
                    out.push(Bound::Outlives(n))
                }
            }
            syn::TypeParamBound::Trait(t) => {
                let name = last_ident(&t.path);
                let plain = t.lifetimes.is_none()
                    && t.path.segments.last().map(|s| s.arguments.is_empty()).unwrap_or(false);
                let std_path = {
                    // `Send`, `marker::Send`, `core::marker::Send`, `std::marker::Send`
                    let segs: Vec<String> = t.path.segments.iter().map(|s| s.ident.to_string()).collect();
                    let pre = &segs[..segs.len().saturating_sub(1)];
                    pre.is_empty()
                        || pre == ["marker"]
                        || pre == ["core", "marker"]
                        || pre == ["std", "marker"]
                };
                let maybe = matches!(t.modifier, syn::TraitBoundModifier::Maybe(_));
                match (name.as_str(), maybe, plain && std_path) {
                    ("Send", false, true) => out.push(Bound::Send),
                    ("Sync", false, true) => out.push(Bound::Sync),
                    ("Sized", true, true) => out.push(Bound::QSized),
                    ("Sized", false, true) => out.push(Bound::Sized),
                    _ => out.push(Bound::Other(toks(t))),
                }
            }
            other => out.push(Bound::Other(toks(other))),
        }
    }
    out.sort();
    out.dedup();
    out
}

/// Generic parameters with bounds merged from the inline position and the where clause.
/// Returns (params, where-predicates that are not about a bare type parameter, declared outlives pairs).
pub fn conv_generics(g: &syn::Generics) -> (Vec<Param>, Vec<String>, Vec<(String, String)>) {
    let mut params: Vec<Param> = Vec::new();
    let mut raw: BTreeMap<String, Vec<syn::TypeParamBound>> = BTreeMap::new();
    let mut outlives = Vec::new();
    for p in &g.params {
        match p {
            syn::GenericParam::Type(t) => {
                raw.entry(t.ident.to_string()).or_default().extend(t.bounds.iter().cloned());
                params.push(Param { name: t.ident.to_string(), kind: ParamKind::Type, bounds: vec![] });
            }
            syn::GenericParam::Lifetime(l) => {
                for b in &l.bounds {
                    outlives.push((l.lifetime.ident.to_string(), b.ident.to_string()));
                }
                params.push(Param { name: l.lifetime.ident.to_string(), kind: ParamKind::Lifetime, bounds: vec![] });
            }
            syn::GenericParam::Const(c) => {
                params.push(Param { name: c.ident.to_string(), kind: ParamKind::Const, bounds: vec![] });
            }
        }
    }
    let mut where_other = Vec::new();
    if let Some(w) = &g.where_clause {
        for pred in &w.predicates {
            match pred {
                syn::WherePredicate::Type(pt) => {
                    let subject = match &pt.bounded_ty {
                        syn::Type::Path(tp) if tp.qself.is_none() && tp.path.segments.len() == 1 && tp.path.segments[0].arguments.is_empty() => {
                            Some(tp.path.segments[0].ident.to_string())
                        }
                        _ => None,
                    };
                    match subject {
                        Some(s) if raw.contains_key(&s) && pt.lifetimes.is_none() => {
                            raw.get_mut(&s).unwrap().extend(pt.bounds.iter().cloned());
                        }
                        _ => where_other.push(toks(pred)),
                    }
                }
                syn::WherePredicate::Lifetime(pl) => {
                    for b in &pl.bounds {
                        outlives.push((pl.lifetime.ident.to_string(), b.ident.to_string()));
                    }
                }
                other => where_other.push(toks(other)),
            }
        }
    }
    for p in params.iter_mut() {
        if p.kind == ParamKind::Type {
            p.bounds = conv_bounds(raw.get(&p.name).map(|v| v.iter()).into_iter().flatten());
        }
    }
    (params, where_other, outlives)
}

/// Raw (unnormalised) bounds of each type parameter, inline + where clause (for callback detection).
pub fn raw_param_bounds(g: &syn::Generics) -> Vec<(String, Vec<syn::TypeParamBound>, Vec<String>)> {
    let mut out: Vec<(String, Vec<syn::TypeParamBound>, Vec<String>)> = Vec::new();
    for p in &g.params {
        if let syn::GenericParam::Type(t) = p {
            out.push((t.ident.to_string(), t.bounds.iter().cloned().collect(), vec![]));
        }
    }
    if let Some(w) = &g.where_clause {
        for pred in &w.predicates {
            if let syn::WherePredicate::Type(pt) = pred {
                if let syn::Type::Path(tp) = &pt.bounded_ty {
                    if tp.qself.is_none() && tp.path.segments.len() == 1 {
                        let s = tp.path.segments[0].ident.to_string();
                        let for_lts: Vec<String> = pt
                            .lifetimes
                            .iter()
                            .flat_map(|b| b.lifetimes.iter())
                            .filter_map(|gp| match gp {
                                syn::GenericParam::Lifetime(l) => Some(l.lifetime.ident.to_string()),
                                _ => None,
                            })
                            .collect();
                        if let Some(e) = out.iter_mut().find(|e| e.0 == s) {
                            e.1.extend(pt.bounds.iter().cloned());
                            e.2.extend(for_lts);
                        }
                    }
                }
            }
        }
    }
    out
}

fn generic_args(seg: &syn::PathSegment) -> (Vec<Region>, Vec<&syn::Type>, bool) {
    // (lifetime args, type args, has_unknown)
    let mut lts = Vec::new();
    let mut tys = Vec::new();
    let mut unknown = false;
    match &seg.arguments {
        syn::PathArguments::None => {}
        syn::PathArguments::AngleBracketed(a) => {
            for ga in &a.args {
                match ga {
                    syn::GenericArgument::Lifetime(l) => lts.push(region_of(Some(l))),
                    syn::GenericArgument::Type(t) => tys.push(t),
                    _ => unknown = true,
                }
            }
        }
        syn::PathArguments::Parenthesized(_) => unknown = true,
    }
    (lts, tys, unknown)
}

/// substitute alias parameters (by name) in a syn type: done on the converted `Ty`
fn subst(ty: &Ty, map: &BTreeMap<String, Ty>) -> Ty {
    let b = |t: &Ty| Box::new(subst(t, map));
    match ty {
        Ty::Param(p) => map.get(p).cloned().unwrap_or_else(|| ty.clone()),
        Ty::NonNull(t) => Ty::NonNull(b(t)),
        Ty::Phantom(t) => Ty::Phantom(b(t)),
        Ty::Ref(r, m, t) => Ty::Ref(r.clone(), *m, b(t)),
        Ty::RawPtr(m, t) => Ty::RawPtr(*m, b(t)),
        Ty::Tuple(ts) => Ty::Tuple(ts.iter().map(|t| subst(t, map)).collect()),
        Ty::Named(n, l, a) => Ty::Named(n.clone(), l.clone(), a.iter().map(|t| subst(t, map)).collect()),
        Ty::Array(t) => Ty::Array(b(t)),
        Ty::Slice(t) => Ty::Slice(b(t)),
        Ty::AtomicUsize | Ty::Prim(_) | Ty::Unknown(_) => ty.clone(),
    }
}

pub fn conv_ty(ty: &syn::Type, sc: &Scope) -> Ty {
    conv_ty_d(ty, sc, 0)
}

fn conv_ty_d(ty: &syn::Type, sc: &Scope, depth: usize) -> Ty {
    if depth > 12 {
        return Ty::Unknown("too-deep".into());
    }
    let rec = |t: &syn::Type| Box::new(conv_ty_d(t, sc, depth + 1));
    match ty {
        syn::Type::Paren(p) => conv_ty_d(&p.elem, sc, depth),
        syn::Type::Group(p) => conv_ty_d(&p.elem, sc, depth),
        syn::Type::Reference(r) => Ty::Ref(region_of(r.lifetime.as_ref()), r.mutability.is_some(), rec(&r.elem)),
        syn::Type::Ptr(p) => Ty::RawPtr(p.mutability.is_some(), rec(&p.elem)),
        syn::Type::Tuple(t) => Ty::Tuple(t.elems.iter().map(|e| conv_ty_d(e, sc, depth + 1)).collect()),
        syn::Type::Array(a) => Ty::Array(rec(&a.elem)),
        syn::Type::Slice(s) => Ty::Slice(rec(&s.elem)),
        syn::Type::Path(tp) => {
            if tp.qself.is_some() {
                return Ty::Unknown(toks(ty));
            }
            let segs = &tp.path.segments;
            let first = segs[0].ident.to_string();
            if segs.len() == 1 && segs[0].arguments.is_empty() && sc.type_params.contains(&first) {
                return Ty::Param(first);
            }
            if segs.len() > 1 && sc.type_params.contains(&first) {
                return Ty::Unknown(toks(ty)); // associated type `S::Ok`
            }
            // arguments on inner segments are not understood
            if segs.iter().rev().skip(1).any(|s| !s.arguments.is_empty()) {
                return Ty::Unknown(toks(ty));
            }
            let seg = segs.last().unwrap();
            let name = seg.ident.to_string();
            let (lts, tys, unknown) = generic_args(seg);
            if unknown {
                return Ty::Unknown(toks(ty));
            }
            let special = !sc.shadowed.contains(&name);
            match (name.as_str(), tys.len(), lts.len()) {
                ("NonNull", 1, 0) if special => return Ty::NonNull(rec(tys[0])),
                ("PhantomData", 1, 0) if special => return Ty::Phantom(rec(tys[0])),
                ("AtomicUsize", 0, 0) if special => return Ty::AtomicUsize,
                _ => {}
            }
            if name == "Self" {
                return Ty::Unknown("Self".into());
            }
            if let Some(al) = sc.aliases.get(&name) {
                if al.params.len() == tys.len() && lts.is_empty() {
                    let mut inner = sc.clone();
                    inner.type_params = al.params.iter().cloned().collect();
                    let body = conv_ty_d(&al.ty, &inner, depth + 1);
                    let map: BTreeMap<String, Ty> = al
                        .params
                        .iter()
                        .cloned()
                        .zip(tys.iter().map(|t| conv_ty_d(t, sc, depth + 1)))
                        .collect();
                    return subst(&body, &map);
                }
                return Ty::Unknown(toks(ty));
            }
            if sc.lt_arity.contains_key(&name) {
                return Ty::Named(name, lts, tys.iter().map(|t| conv_ty_d(t, sc, depth + 1)).collect());
            }
            if PRIMS.contains(&name.as_str()) && tys.is_empty() && lts.is_empty() {
                return Ty::Prim(name);
            }
            Ty::Unknown(toks(ty))
        }
        other => Ty::Unknown(toks(other)),
    }
}

/// does the type mention a generic type parameter in scope, or `Self`?
pub fn mentions_payload(ty: &syn::Type, sc: &Scope) -> bool {
    struct V<'a> {
        sc: &'a Scope,
        hit: bool,
    }
    impl<'a, 'ast> syn::visit::Visit<'ast> for V<'a> {
        fn visit_path(&mut self, p: &'ast syn::Path) {
            if let Some(f) = p.segments.first() {
                let n = f.ident.to_string();
                if n == "Self" || self.sc.type_params.contains(&n) {
                    self.hit = true;
                }
            }
            syn::visit::visit_path(self, p);
        }
    }
    let mut v = V { sc, hit: false };
    syn::visit::Visit::visit_type(&mut v, ty);
    v.hit
}

/// Collect every region position of a type, outermost first.
pub fn collect_regions(ty: &syn::Type, sc: &Scope, ret_pos: bool, out: &mut Vec<RegionOcc>) {
    let occ = |region: Region, t: &syn::Type| RegionOcc { region, payload: mentions_payload(t, sc), what: toks(t) };
    match ty {
        syn::Type::Paren(p) => collect_regions(&p.elem, sc, ret_pos, out),
        syn::Type::Group(p) => collect_regions(&p.elem, sc, ret_pos, out),
        syn::Type::Reference(r) => {
            out.push(occ(region_of(r.lifetime.as_ref()), ty));
            collect_regions(&r.elem, sc, ret_pos, out);
        }
        syn::Type::Ptr(p) => collect_regions(&p.elem, sc, ret_pos, out),
        syn::Type::Tuple(t) => t.elems.iter().for_each(|e| collect_regions(e, sc, ret_pos, out)),
        syn::Type::Array(a) => collect_regions(&a.elem, sc, ret_pos, out),
        syn::Type::Slice(s) => collect_regions(&s.elem, sc, ret_pos, out),
        syn::Type::Path(tp) => {
            if let Some(q) = &tp.qself {
                collect_regions(&q.ty, sc, ret_pos, out);
            }
            let n_seg = tp.path.segments.len();
            for (i, seg) in tp.path.segments.iter().enumerate() {
                let is_last = i + 1 == n_seg;
                let mut explicit_lts = 0usize;
                match &seg.arguments {
                    syn::PathArguments::None => {}
                    syn::PathArguments::AngleBracketed(a) => {
                        for ga in &a.args {
                            match ga {
                                syn::GenericArgument::Lifetime(l) => {
                                    explicit_lts += 1;
                                    out.push(occ(region_of(Some(l)), ty));
                                }
                                syn::GenericArgument::Type(t) => collect_regions(t, sc, ret_pos, out),
                                syn::GenericArgument::AssocType(a) => collect_regions(&a.ty, sc, ret_pos, out),
                                _ => {}
                            }
                        }
                    }
                    syn::PathArguments::Parenthesized(p) => {
                        // Fn(A) -> B sugar inside a type (e.g. Box<dyn Fn(&T)>): its own binder; ignore
                        let _ = p;
                    }
                }
                if is_last && tp.qself.is_none() {
                    let name = seg.ident.to_string();
                    if name == "Self" && n_seg == 1 && ret_pos {
                        for l in &sc.self_lts {
                            out.push(occ(Region::Named(l.clone()), ty));
                        }
                    } else if let Some(&k) = sc.lt_arity.get(&name) {
                        if explicit_lts == 0 {
                            for _ in 0..k {
                                out.push(occ(Region::Elided, ty));
                            }
                        }
                    }
                }
            }
        }
        syn::Type::TraitObject(t) => {
            for b in &t.bounds {
                if let syn::TypeParamBound::Lifetime(l) = b {
                    out.push(occ(region_of(Some(l)), ty));
                }
            }
        }
        syn::Type::ImplTrait(t) => {
            for b in &t.bounds {
                if let syn::TypeParamBound::Lifetime(l) = b {
                    out.push(occ(region_of(Some(l)), ty));
                }
            }
            if ret_pos {
                // captures of an opaque return type are not modelled: fail closed
                out.push(occ(Region::Unknown, ty));
            }
        }
        syn::Type::Macro(_) => out.push(occ(Region::Unknown, ty)),
        _ => {}
    }
}
