import TriompheModel.Proofs.Layout
import TriompheModel.Props.C05
/-!
# C11 — raw pointers round-trip to the same allocation; handles are one word wide
(the address-arithmetic half; "same contents and count, stable across clones and moves" is the M1
invariant I4 of the history slice, and the widths are measured by the correspondence)

`base` is the block address (`heap_ptr`), `p` the payload layout denoted by the pointer's type and
metadata.  For every payload layout (any size incl. 0, any alignment `2^e` incl. > 8), every word
width `bits = 8·2^k`, `k ≥ 1`.
-/
namespace LY
namespace C11

variable {bits k : Nat} {p : Layout} {e : Nat} {L : Layout}

/-- `as_ptr`, `into_raw`, the `OffsetArc` word (`into_raw_offset`) and the `ArcBorrow` word
(`borrow_arc`) are all the address at which the value lives (what `Deref` yields):
base + the repr(C) offset of `data` -/
theorem C11_as_ptr_is_deref_addr (bits base : Nat) (p : Layout) :
    asPtr bits base p = derefAddr bits base p ∧
    intoRaw bits base p = derefAddr bits base p ∧
    intoRawOffset bits base p = derefAddr bits base p ∧
    borrowArc bits base p = derefAddr bits base p ∧
    derefAddr bits base p = base + (arcInnerLayout bits p).2 := ⟨rfl, rfl, rfl, rfl, rfl⟩

/-- `heap_ptr` is the start of the block; the value lives strictly after the count word -/
theorem C11_heap_ptr_is_base (hp : p.AlignIs e) (base : Nat) :
    heapPtr base = base ∧ heapPtr base + (wordLayout bits).size ≤ derefAddr bits base p := by
  refine ⟨rfl, ?_⟩
  unfold heapPtr derefAddr
  have := dataOff_ge_word (bits := bits) hp
  omega

/-- the offset `from_raw` recomputes from the value (`offset_of_data`, via `Layout::extend`) is the
offset `as_ptr` used (repr(C) field offset) -/
theorem C11_offset_recomputed_eq {off : Nat} (h : offsetOfData bits p = some off) :
    off = (arcInnerLayout bits p).2 := C05.C05_offsetOfData_eq h

/-- **`from_raw (into_raw a)` recovers the block** — sized payloads (`Arc::new`, `From<Box>`,
`new_uninit`; any block whose request `allocLayoutFor bits p` succeeded) -/
theorem C11_from_raw_into_raw (h : allocLayoutFor bits p = some L) (base : Nat) :
    fromRaw bits (intoRaw bits base p) p = some base := by
  unfold fromRaw
  rw [C05.C05_offsetOfData_some h]
  simp only [Option.map, intoRaw, asPtr]
  congr 1
  omega

/-- … header+slice payloads (the fat pointer's metadata is `len`): `Arc<HeaderSlice<H,[T]>>` -/
theorem C11_from_raw_into_raw_header_slice {H T : Layout} {len : Nat}
    (h : allocLayoutHeaderSlice bits H T len = some L) (base : Nat) :
    fromRaw bits (intoRaw bits base (headerSliceLayout H T len).1) (headerSliceLayout H T len).1 = some base :=
  C11_from_raw_into_raw (allocLayoutHeaderSlice_some h).2 base

/-- … plain slices `Arc<[T]>` (`from_raw_slice`): every slice constructor allocates through
`allocate_for_header_and_slice::<(), T>` and erases the unit header, after which
`Layout::for_value` of the `*const [T]` is `sliceLayout T len` -/
theorem C11_from_raw_slice {T : Layout} {eT len : Nat} (hT : T.AlignIs eT) (hwf : T.WF)
    (h : allocLayoutHeaderSlice bits unitLayout T len = some L) (base : Nat) :
    fromRaw bits (intoRaw bits base (sliceLayout T len)) (sliceLayout T len) = some base := by
  have := C11_from_raw_into_raw_header_slice h base
  rw [C05.C05_erase_slice hT hwf len] at this
  exact this

/-- … trait objects (`into_raw` then `as *const dyn Trait` then `from_raw`): the offset is
recomputed from the vtable's `(size, align)`, which are the concrete type's -/
theorem C11_from_raw_dyn (h : allocLayoutFor bits p = some L) (base : Nat) :
    fromRaw bits (intoRaw bits base p) (forValueDyn p) = some base :=
  C11_from_raw_into_raw (p := p) h base

/-- `from_raw_offset (into_raw_offset a)` recovers the block, and `ArcBorrow::from_ptr` of the data
address followed by `with_arc`/`clone_arc` (`Arc::from_raw(self.0)`) finds it as well -/
theorem C11_offset_arc_roundtrip (h : allocLayoutFor bits p = some L) (base : Nat) :
    fromRawOffset bits (intoRawOffset bits base p) p = some base ∧
    fromRaw bits (borrowArc bits base p) p = some base :=
  ⟨C11_from_raw_into_raw h base, C11_from_raw_into_raw h base⟩

/-- the pointer handed out is aligned for the payload and the payload lies inside the block -/
theorem C11_data_addr_aligned_in_bounds (hb : WordBits bits k) (hp : p.AlignIs e) {base : Nat}
    (hbase : (arcInnerLayout bits p).1.align ∣ base) :
    asPtr bits base p % p.align = 0 ∧
    asPtr bits base p + p.size ≤ base + (arcInnerLayout bits p).1.size := by
  have h := C05.C05_data_aligned hb hp hbase
  unfold asPtr
  exact ⟨h.1, by omega⟩

/-- one-word handles: the model's width table (thin pointee ⇒ 1 word, slice/str/dyn ⇒ 2) -/
theorem C11_widths : handleWords false = 1 ∧ handleWords true = 2 := by decide

/-! ### ThinArc — known deviation `ThinArc-raw-is-block-address` (DESIGN §7, F3)

Full-strength statement required by the property text (NOT provable, refuted below):

    (full strength)  C11_thin_as_ptr_is_deref_addr :
        thinAsPtr base = thinDerefAddr bits base H T len ∧
        thinIntoRaw base = thinDerefAddr bits base H T len

`ThinArc::as_ptr` / `into_raw` (and the arc-swap glue, which calls them) return `self.ptr()`, the
address of the block, not the address at which the `HeaderSlice` value lives.  What *is* true and
claimed: `_partial` (block address; the value address is that plus a computable offset) and the
round trip. -/

/-- what the code does: the raw ThinArc pointer is the block address (= `heap_ptr`) -/
theorem C11_thin_as_ptr_is_base (base : Nat) :
    thinAsPtr base = base ∧ thinIntoRaw base = base ∧ thinHeapPtr base = base ∧ thinPtr base = base :=
  ⟨rfl, rfl, rfl, rfl⟩

/-- `ThinArc::from_raw (ThinArc::into_raw t)` is the same word, hence the same block -/
theorem C11_thin_roundtrip (base : Nat) : thinFromRaw (thinIntoRaw base) = base := rfl

/-- concrete witness against the full-strength statement: `ThinArc<u32, u16>` with 3 elements on
64 bit — `Deref` yields `base + 8`, `as_ptr`/`into_raw` yield `base` -/
theorem C11_thin_deviation_witness (base : Nat) :
    thinDerefAddr 64 base ⟨4, 4⟩ ⟨2, 2⟩ 3 = base + 8 ∧
    thinAsPtr base ≠ thinDerefAddr 64 base ⟨4, 4⟩ ⟨2, 2⟩ 3 ∧
    thinIntoRaw base ≠ thinDerefAddr 64 base ⟨4, 4⟩ ⟨2, 2⟩ 3 := by
  have h : (arcInnerLayout 64 (thinPayload 64 ⟨4, 4⟩ ⟨2, 2⟩ 3).1).2 = 8 := by decide
  have hd : thinDerefAddr 64 base ⟨4, 4⟩ ⟨2, 2⟩ 3 = base + 8 := by
    unfold thinDerefAddr; rw [h]
  refine ⟨hd, ?_, ?_⟩ <;> (rw [hd]; simp only [thinAsPtr, thinIntoRaw, thinPtr]; omega)

/-- the deviation is not an accident of that shape: for *every* header/element layout and length
the raw pointer is strictly below the value's address -/
theorem C11_thin_as_ptr_never_deref_addr {H T : Layout} {eH eT : Nat} (hb : WordBits bits k)
    (hH : H.AlignIs eH) (hT : T.AlignIs eT) (base len : Nat) :
    thinAsPtr base < thinDerefAddr bits base H T len := by
  have hhwl : (headerWithLengthLayout bits H).1.AlignIs (max eH k) :=
    reprC2_alignIs hH (word_alignIs hb)
  have hS : (sliceLayout T len).AlignIs eT := hT
  have hP : (thinPayload bits H T len).1.AlignIs (max (max eH k) eT) := reprC2_alignIs hhwl hS
  have h1 := dataOff_ge_word (bits := bits) hP
  have h2 : 0 < (wordLayout bits).size := by rw [word_size hb]; exact pow2_pos k
  unfold thinAsPtr thinPtr thinDerefAddr
  omega

/-- **claimed for ThinArc** (`_partial`): the raw pointer is the block address, it round-trips, and
the value's address is the raw pointer plus the (length-independent, aligned) data offset — i.e.
every statement of C11 except "the raw pointer *is* the value's address" -/
theorem C11_thin_as_ptr_partial {H T : Layout} {eH eT : Nat} (hb : WordBits bits k)
    (hH : H.AlignIs eH) (hT : T.AlignIs eT) (base len : Nat) :
    thinAsPtr base = thinHeapPtr base ∧
    thinFromRaw (thinIntoRaw base) = base ∧
    thinDerefAddr bits base H T len = thinAsPtr base + (arcInnerLayout bits (thinPayload bits H T 0).1).2 ∧
    ((arcInnerLayout bits (thinPayload bits H T len).1).1.align ∣ base →
      (thinPayload bits H T len).1.align ∣ thinDerefAddr bits base H T len) := by
  have hhwl : (headerWithLengthLayout bits H).1.AlignIs (max eH k) :=
    reprC2_alignIs hH (word_alignIs hb)
  have hS : (sliceLayout T len).AlignIs eT := hT
  have hP : (thinPayload bits H T len).1.AlignIs (max (max eH k) eT) := reprC2_alignIs hhwl hS
  refine ⟨rfl, rfl, rfl, ?_⟩
  intro hbase
  exact dataAddr_aligned hb hP hbase

/-! ### non-vacuity -/

-- over-aligned payload (align 64): the value lives 64 bytes into the block; round trip recovers it
example : asPtr 64 4096 ⟨64, 64⟩ = 4160 ∧ fromRaw 64 4160 ⟨64, 64⟩ = some 4096 := by decide
-- zero-sized payload: data address = base + 8 = one past the count, still inside/at the end
example : asPtr 64 4096 ⟨0, 1⟩ = 4104 ∧ (arcInnerLayout 64 ⟨0, 1⟩).1 = ⟨8, 8⟩ := by decide
-- zero-sized, over-aligned
example : asPtr 64 4096 ⟨0, 32⟩ = 4128 ∧ (arcInnerLayout 64 ⟨0, 32⟩).1 = ⟨32, 32⟩ := by decide
-- odd size (3, align 1): offset 8, block padded to 16
example : asPtr 64 4096 ⟨3, 1⟩ = 4104 ∧ (arcInnerLayout 64 ⟨3, 1⟩).1 = ⟨16, 8⟩ := by decide
-- the hypothesis of the round-trip theorems holds for these
example : allocLayoutFor 64 ⟨64, 64⟩ = some ⟨128, 64⟩ ∧ allocLayoutFor 64 ⟨0, 32⟩ = some ⟨32, 32⟩ := by decide
-- slice round trip: [u16; 5] — Layout::for_value gives (10, 2), offset 8
example : fromRaw 64 (intoRaw 64 4096 (sliceLayout ⟨2, 2⟩ 5)) (sliceLayout ⟨2, 2⟩ 5) = some 4096 := by decide
-- 32-bit: offset 4 for u8, 16 for align-16
example : asPtr 32 4096 ⟨1, 1⟩ = 4100 ∧ asPtr 32 4096 ⟨16, 16⟩ = 4112 := by decide
-- the hypotheses of the general theorems are satisfiable by non-trivial shapes
example : (⟨64, 64⟩ : Layout).AlignIs 6 ∧ (⟨0, 32⟩ : Layout).AlignIs 5 ∧ (⟨3, 1⟩ : Layout).AlignIs 0 ∧ WordBits 64 3 ∧
    (arcInnerLayout 64 ⟨64, 64⟩).1.align ∣ 4096 ∧ (sliceLayout ⟨2, 2⟩ 5).WF ∧
    allocLayoutHeaderSlice 64 unitLayout ⟨2, 2⟩ 5 = some ⟨24, 8⟩ := by decide
-- a wrong offset_of_data (mutant: `size_of::<usize>()`) breaks the round trip exactly for align > 8
example : (4160 : Nat) - 8 ≠ 4096 := by decide

end C11
end LY
