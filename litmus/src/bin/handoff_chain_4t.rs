//! C02: a handle is handed down a chain of four threads through channels (the hand-over itself
//! synchronises, as it must); every thread clones, passes the clone on, then reads once more
//! through its own handle *after* the send and drops it.  Those late reads are ordered before the
//! final destruction only by the reference count.
use litmus::*;
use std::sync::mpsc::channel;
use triomphe::Arc;

fn main() {
    let mut t = Tally::new();
    for r in 0..rounds(3) {
        let tag = 70 + r as u64;
        let a = Arc::new(Payload::new(tag));
        t.shared(5);
        let (tx0, rx0) = channel::<Arc<Payload>>();
        let (tx1, rx1) = channel::<Arc<Payload>>();
        let (tx2, rx2) = channel::<Arc<Payload>>();
        let (tx3, rx3) = channel::<Arc<Payload>>();
        std::thread::scope(|s| {
            let stage = |rx: std::sync::mpsc::Receiver<Arc<Payload>>, tx: Option<std::sync::mpsc::Sender<Arc<Payload>>>| {
                move || {
                    let h = rx.recv().unwrap();
                    h.read_expect(tag);
                    if let Some(tx) = tx {
                        let c = h.clone();
                        tx.send(c).unwrap();
                    }
                    h.read_expect(tag);
                    drop(h);
                }
            };
            s.spawn(stage(rx0, Some(tx1)));
            s.spawn(stage(rx1, Some(tx2)));
            s.spawn(stage(rx2, Some(tx3)));
            s.spawn(stage(rx3, None));
            tx0.send(a.clone()).unwrap();
            a.read_expect(tag);
            drop(a);
        });
    }
    t.finish();
}
