"""C10 — a ThinArc is an exact one-word stand-in for the fat Arc.

Deciding method: Lean theorems in Props/C10.lean over the sequential handle machine M1/M3 (invariant
`Inv` preserved by every op, by induction over histories of any length), tied to the code by the
history correspondence (Tie B): the same op lines run on the Lean driver and on the real library.
"""
from vlib import histcheck

MODULE = "TriompheModel.Props.C10"
EXTRA = ["TriompheModel.Proofs.HistLen"]
TAGS = ['C10']
WEIGHTS = {'create': 16, 'iter': 8, 'intoThin': 12, 'conv': 18, 'cb': 20, 'clone': 10}


def run(ctx):
    histcheck.run(ctx, MODULE, WEIGHTS, TAGS, lean_extra=EXTRA,
                  release_quick_filter=lambda h: any(op.split()[0] in ('iter', 'intoThin', 'cb') for op in h))
    # conversions and borrows under a concurrent observer of the count
    from vlib import miri
    miri.observer_pass(ctx, "C10")
    # the same claims over the shape matrix (over-aligned, byte-sized and zero-sized headers / elements), in the dev
    # profile and with release semantics: stored length = slice length, same header and elements at the same addresses
    # as the fat Arc, thin->fat->thin, and `into_thin` refusing (and releasing) an Arc with a disagreeing recorded length
    from vlib import layout_corr
    ok, stats, failures = layout_corr.thin_pass(ctx)
    ctx.oblige("corr:thin-over-shape-matrix", ok, "%d failing" % len(failures))
    ctx.coverage["thin_shape_matrix"] = stats
    ctx.coverage["evaluations"] = ctx.coverage.get("evaluations", 0) + stats["cases"]
    if not ok:
        body = "ThinArc over the shape matrix: implementation vs layout model / property:\n\n" + "\n\n".join(f["text"] for f in failures[:4])
        if any(f.get("found_input") for f in failures):
            ctx.violation("shape", body, True)
        else:
            ctx.defer_nfi(body)


def replay(ctx, path):
    histcheck.replay(ctx, path, TAGS)
