//! C16 child process: one clone through one entry point from a preset reference count.
//!
//! argv: <entry point> <start count (decimal)>
//!
//! stdout protocol (each line flushed before the next step runs):
//!   fresh count=<n>       count of the freshly created handle, read through the handle kind's
//!                         own `strong_count` (must be 1)
//!   preset count=<n>      count read back through `strong_count` after the count word was
//!                         overwritten through `heap_ptr()` (must equal the start count: this is
//!                         the check that the count is the first word of the block)
//!   cloned count=<n>      the clone returned; count read through the NEW handle
//!   caught-panic count=<n>  the clone unwound and `catch_unwind` caught it (exit status 3)
//! exit status: 0 = clone returned; 3 = caught panic; 4 = preset read-back mismatch; 2 = usage;
//! killed by SIGABRT = the guard aborted the process.
//! Nothing is ever dropped (the process leaves through `exit`), so a preset count is never
//! decremented.
use std::ffi::c_void;
use std::io::Write;
use std::panic::{catch_unwind, AssertUnwindSafe};
use std::process::exit;
use std::sync::atomic::{AtomicUsize, Ordering};
use triomphe::{Arc, ArcUnion, OffsetArc, ThinArc};

trait Tr {
    fn get(&self) -> u32;
}
impl Tr for u32 {
    fn get(&self) -> u32 {
        *self
    }
}

/// over-aligned payloads: the count is NOT the word right in front of the value (data offset = 16 / 64)
#[repr(align(64))]
struct Wide(u64);
#[repr(align(16))]
struct Wide16(u8);

fn say(s: String) {
    let out = std::io::stdout();
    let mut l = out.lock();
    let _ = writeln!(l, "{}", s);
    let _ = l.flush();
}

/// `block`: address of the allocation (count word first); `read`: the count through the source
/// handle; `clone`: performs exactly one clone, returns the count read through the new handle and
/// leaks the new handle.
fn case(block: *const c_void, start: usize, read: &dyn Fn() -> usize, clone: &mut dyn FnMut() -> usize) -> ! {
    say(format!("fresh count={}", read()));
    // the count is the first word of the repr(C) block
    unsafe { (*(block as *const AtomicUsize)).store(start, Ordering::SeqCst) };
    let back = read();
    say(format!("preset count={}", back));
    if back != start {
        exit(4);
    }
    match catch_unwind(AssertUnwindSafe(|| clone())) {
        Ok(n) => {
            say(format!("cloned count={}", n));
            exit(0)
        }
        Err(_) => {
            say(format!("caught-panic count={}", read()));
            exit(3)
        }
    }
}

fn main() {
    let args: Vec<String> = std::env::args().collect();
    if args.len() != 3 {
        eprintln!("usage: ovf <entry> <start>");
        exit(2);
    }
    let start: usize = match args[2].parse() {
        Ok(v) => v,
        Err(_) => {
            eprintln!("bad start count");
            exit(2)
        }
    };
    match args[1].as_str() {
        "arc_sized" => {
            let a = Arc::new(7u64);
            let p = a.heap_ptr();
            case(p, start, &|| Arc::strong_count(&a), &mut || {
                let b = a.clone();
                let n = Arc::strong_count(&b);
                std::mem::forget(b);
                n
            })
        }
        "arc_slice" => {
            let a: Arc<[u32]> = Arc::from(vec![1u32, 2, 3]);
            let p = a.heap_ptr();
            case(p, start, &|| Arc::strong_count(&a), &mut || {
                let b = a.clone();
                let n = Arc::strong_count(&b);
                std::mem::forget(b);
                n
            })
        }
        "arc_dyn" => {
            let raw = Arc::into_raw(Arc::new(9u32));
            let a: Arc<dyn Tr> = unsafe { Arc::from_raw(raw as *const dyn Tr) };
            assert_eq!(a.get(), 9);
            let p = a.heap_ptr();
            case(p, start, &|| Arc::strong_count(&a), &mut || {
                let b = a.clone();
                let n = Arc::strong_count(&b);
                std::mem::forget(b);
                n
            })
        }
        "thin" => {
            let t = ThinArc::from_header_and_slice(5u32, &[1u16, 2, 3]);
            let p = t.heap_ptr();
            case(p, start, &|| ThinArc::strong_count(&t), &mut || {
                let b = t.clone();
                let n = ThinArc::strong_count(&b);
                std::mem::forget(b);
                n
            })
        }
        "offset_clone" => {
            let a = Arc::new(7u64);
            let p = a.heap_ptr();
            let o: OffsetArc<u64> = Arc::into_raw_offset(a);
            case(p, start, &|| OffsetArc::strong_count(&o), &mut || {
                let b = o.clone();
                let n = OffsetArc::strong_count(&b);
                std::mem::forget(b);
                n
            })
        }
        "offset_clone_arc" => {
            let a = Arc::new(7u64);
            let p = a.heap_ptr();
            let o: OffsetArc<u64> = Arc::into_raw_offset(a);
            case(p, start, &|| OffsetArc::strong_count(&o), &mut || {
                let b = o.clone_arc();
                let n = Arc::strong_count(&b);
                std::mem::forget(b);
                n
            })
        }
        "borrow_clone_arc" => {
            let a = Arc::new(7u64);
            let p = a.heap_ptr();
            let bo = a.borrow_arc();
            case(p, start, &|| triomphe::ArcBorrow::strong_count(&bo), &mut || {
                let b = bo.clone_arc();
                let n = Arc::strong_count(&b);
                std::mem::forget(b);
                n
            })
        }
        "arc_sized_oa" => {
            let a = Arc::new(Wide(7));
            assert_eq!(a.0, 7);
            let p = a.heap_ptr();
            case(p, start, &|| Arc::strong_count(&a), &mut || {
                let b = a.clone();
                let n = Arc::strong_count(&b);
                std::mem::forget(b);
                n
            })
        }
        "offset_clone_oa" => {
            let a = Arc::new(Wide(7));
            let p = a.heap_ptr();
            let o: OffsetArc<Wide> = Arc::into_raw_offset(a);
            case(p, start, &|| OffsetArc::strong_count(&o), &mut || {
                let b = o.clone();
                let n = OffsetArc::strong_count(&b);
                std::mem::forget(b);
                n
            })
        }
        "offset_clone_arc_oa" => {
            let a = Arc::new(Wide16(7));
            let p = a.heap_ptr();
            let o: OffsetArc<Wide16> = Arc::into_raw_offset(a);
            case(p, start, &|| OffsetArc::strong_count(&o), &mut || {
                let b = o.clone_arc();
                let n = Arc::strong_count(&b);
                std::mem::forget(b);
                n
            })
        }
        "borrow_clone_arc_oa" => {
            let a = Arc::new(Wide(7));
            let p = a.heap_ptr();
            let bo = a.borrow_arc();
            case(p, start, &|| triomphe::ArcBorrow::strong_count(&bo), &mut || {
                let b = bo.clone_arc();
                let n = Arc::strong_count(&b);
                std::mem::forget(b);
                n
            })
        }
        "union_first_oa" => {
            // first variant over-aligned, second byte-aligned
            let a = Arc::new(Wide(7));
            let p = a.heap_ptr();
            let u: ArcUnion<Wide, u8> = ArcUnion::from_first(a);
            assert!(u.is_first());
            case(p, start, &|| ArcUnion::strong_count(&u), &mut || {
                let b = u.clone();
                let n = ArcUnion::strong_count(&b);
                std::mem::forget(b);
                n
            })
        }
        "union_second_oa" => {
            // second variant over-aligned, first word-aligned
            let a = Arc::new(Wide16(9));
            let p = a.heap_ptr();
            let u: ArcUnion<u64, Wide16> = ArcUnion::from_second(a);
            assert!(u.is_second());
            case(p, start, &|| ArcUnion::strong_count(&u), &mut || {
                let b = u.clone();
                let n = ArcUnion::strong_count(&b);
                std::mem::forget(b);
                n
            })
        }
        "union_first" => {
            let a = Arc::new(7u64);
            let p = a.heap_ptr();
            let u: ArcUnion<u64, u32> = ArcUnion::from_first(a);
            assert!(u.is_first());
            case(p, start, &|| ArcUnion::strong_count(&u), &mut || {
                let b = u.clone();
                let n = ArcUnion::strong_count(&b);
                std::mem::forget(b);
                n
            })
        }
        "union_second" => {
            let a = Arc::new(9u32);
            let p = a.heap_ptr();
            let u: ArcUnion<u64, u32> = ArcUnion::from_second(a);
            assert!(u.is_second());
            case(p, start, &|| ArcUnion::strong_count(&u), &mut || {
                let b = u.clone();
                let n = ArcUnion::strong_count(&b);
                std::mem::forget(b);
                n
            })
        }
        "with_arc_offset" => {
            let a = Arc::new(7u64);
            let p = a.heap_ptr();
            let o: OffsetArc<u64> = Arc::into_raw_offset(a);
            case(p, start, &|| OffsetArc::strong_count(&o), &mut || {
                let b = o.with_arc(|t| t.clone());
                let n = Arc::strong_count(&b);
                std::mem::forget(b);
                n
            })
        }
        "with_arc_thin" => {
            let t = ThinArc::from_header_and_slice(5u32, &[1u16, 2, 3]);
            let p = t.heap_ptr();
            case(p, start, &|| ThinArc::strong_count(&t), &mut || {
                let b = t.with_arc(|x| x.clone());
                let n = Arc::strong_count(&b);
                std::mem::forget(b);
                n
            })
        }
        "with_arc_borrow" => {
            let a = Arc::new(7u64);
            let p = a.heap_ptr();
            let bo = a.borrow_arc();
            case(p, start, &|| triomphe::ArcBorrow::strong_count(&bo), &mut || {
                let b = bo.with_arc(|t| t.clone());
                let n = Arc::strong_count(&b);
                std::mem::forget(b);
                n
            })
        }
        // arc-swap integration: the new handle is produced by arc-swap (`load_full` = a guard turned into an owner, which
        // goes through `RefCnt::inc`), not by the handle's own `clone`
        #[cfg(feature = "t_arc_swap")]
        "asw_arc_load_full" => {
            let a = Arc::new(7u64);
            let p = a.heap_ptr();
            let cell: arc_swap::ArcSwapAny<Arc<u64>> = arc_swap::ArcSwapAny::new(a);
            case(p, start, &|| { let g = cell.load(); Arc::strong_count(&g) }, &mut || {
                let b = cell.load_full();
                let n = Arc::strong_count(&b);
                std::mem::forget(b);
                n
            })
        }
        #[cfg(feature = "t_arc_swap")]
        "asw_thin_load_full" => {
            let t = ThinArc::from_header_and_slice(5u32, &[1u16, 2, 3]);
            let p = t.heap_ptr();
            let cell: arc_swap::ArcSwapAny<ThinArc<u32, u16>> = arc_swap::ArcSwapAny::new(t);
            case(p, start, &|| { let g = cell.load(); ThinArc::strong_count(&g) }, &mut || {
                let b = cell.load_full();
                let n = ThinArc::strong_count(&b);
                std::mem::forget(b);
                n
            })
        }
        // two threads clone once each, released together: from `start` = isize::MAX the second increment sees a count
        // above the limit whatever the interleaving, so the process must die (a check-then-increment guard lets both pass)
        "arc_race2" => {
            let a = Arc::new(7u64);
            let p = a.heap_ptr();
            case(p, start, &|| Arc::strong_count(&a), &mut || {
                // symmetric rendezvous: each thread announces itself and spins until the other has, so both leave the
                // spin within a cache-line transfer of each other
                let ready = AtomicUsize::new(0);
                std::thread::scope(|sc| {
                    for _ in 0..2 {
                        sc.spawn(|| {
                            ready.fetch_add(1, Ordering::AcqRel);
                            while ready.load(Ordering::Acquire) < 2 { std::hint::spin_loop(); }
                            std::mem::forget(a.clone());
                        });
                    }
                });
                Arc::strong_count(&a)
            })
        }
        other => {
            eprintln!("unknown entry point {}", other);
            exit(2)
        }
    }
}
