import TriompheModel.Model.Layout
/-!
# `drv_layout` — the executable M2 model behind a line protocol (Tie B for C05 / C11 / C12-arith)

One answer line per query line; answers are `key=value` fields separated by blanks, with the same
keys the Rust harness binary `layout` prints.  Addresses are printed relative to the block base;
the model computes them at the base `B` below so that a wrong subtraction cannot hide behind
`Nat`'s truncating `-`.

    sized  <bits> <size> <align> <ctor>                     ctor: new|frombox|uniq_uninit
    hs     <bits> <Hsize> <Halign> <Tsize> <Talign> <len> <ctor>      ctor: iter|slice|vec|uninit
    thin   <bits> <Hsize> <Halign> <Tsize> <Talign> <len> <ctor>      ctor: iter|slice
    slice  <bits> <Tsize> <Talign> <len> <ctor>     ctor: from_ref|from_vec|iter_exact|iter_unknown|uninit
    array  <bits> <Tsize> <Talign> <n>              Arc::new([T; n]) then unsized to Arc<[T]>
    union  <bits> <size> <align> <which>            which: 1|2
    widths <bits>
    tag    <addr>
    ext    <bits> <n> <a> <m> <b>                   Layout(n,a).extend(Layout(m,b)), pad_to_align
    arr    <bits> <Tsize> <Talign> <n>              Layout::array::<T>(n)
-/
open LY

def B : Nat := 2 ^ 40

def kv (k : String) (v : Nat) : String := s!"{k}={v}"
def lay (k : String) (l : Layout) : String := s!"{k}={l.size},{l.align}"
/-- an address relative to the block base (may be negative if the model subtracts too much) -/
def rel (k : String) (addr : Nat) : String := s!"{k}={(Int.ofNat addr) - (Int.ofNat B)}"
def relOpt (k : String) (addr : Option Nat) : String :=
  match addr with
  | some a => rel k a
  | none => s!"{k}=panic"
def join (xs : List String) : String := " ".intercalate xs

def nats (xs : List String) : Option (List Nat) := xs.mapM String.toNat?

def sizedCtor? : String → Option SizedCtor
  | "new" => some .boxNew | "frombox" => some .fromBox | "uniq_uninit" => some .uniqUninit | _ => none
def hsCtor? : String → Option HsCtor
  | "iter" => some .iter | "slice" => some .slice | "vec" => some .vec | "uninit" => some .uninit | _ => none
def sliceCtor? : String → Option SliceCtor
  | "from_ref" => some .fromRef | "from_vec" => some .fromVec | "iter_exact" => some .iterExact
  | "iter_unknown" => some .iterUnknown | "uninit" => some .uninit | _ => none

def refused : AllocRes → Option String
  | .ok _ => none
  | .zstRefused => some "st=panic:zst"
  | .overflow => some "st=panic:layout-overflow"

/-- fields common to every `Arc<P>` for a payload layout `p` living in a block at `B` -/
def arcFields (bits : Nat) (p : Layout) : List String :=
  [ lay "dealloc" (arcInnerLayout bits p).1,
    rel "heap" (heapPtr B),
    rel "as_ptr" (asPtr bits B p),
    rel "deref" (derefAddr bits B p),
    rel "borrow" (borrowArc bits B p),
    kv "sov" p.size, kv "aov" p.align,
    rel "into_raw" (intoRaw bits B p),
    relOpt "rt_base" (fromRaw bits (intoRaw bits B p) p) ]

def sizedFields (bits : Nat) (p : Layout) : List String :=
  let d := intoRaw bits B p
  let w1 := unionFromFirst d
  let w2 := unionFromSecond d
  let er := reprC2 unitLayout p
  arcFields bits p ++
  [ lay "dyn_dealloc" (arcInnerLayout bits (forValueDyn p)).1,
    relOpt "dyn_rt_base" (fromRaw bits d (forValueDyn p)),
    kv "dyn_sov" (forValueDyn p).size, kv "dyn_aov" (forValueDyn p).align,
    rel "dyn_as_ptr" (asPtr bits B (forValueDyn p)),
    rel "off_bits" (intoRawOffset bits B p),
    rel "off_deref" (intoRawOffset bits B p),
    relOpt "off_rt_base" (fromRawOffset bits (intoRawOffset bits B p) p),
    rel "un1_bits" w1, kv "un1_low" (w1 % 2), kv "un1_first" (if isFirst w1 then 1 else 0),
    rel "un1_borrow" (unionBorrow w1).2, kv "un1_var" (if (unionBorrow w1).1 then 1 else 2),
    rel "un2_bits" w2, kv "un2_low" (w2 % 2), kv "un2_first" (if isFirst w2 then 1 else 0),
    rel "un2_borrow" (unionBorrow w2).2, kv "un2_var" (if (unionBorrow w2).1 then 1 else 2),
    rel "rc_as_ptr" (asPtr bits B p), rel "rc_into" (intoRaw bits B p),
    rel "rc_inc" (asPtr bits B p), kv "rc_inc_cnt" 2,
    relOpt "rc_rt_base" (fromRaw bits (intoRaw bits B p) p),
    lay "er_dealloc" (arcInnerLayout bits er.1).1,
    rel "er_as_ptr" (asPtr bits B er.1),
    rel "er_slice" (asPtr bits B er.1 + er.2),
    kv "er_sov" er.1.size ]

def qSized (bits size align : Nat) (c : SizedCtor) : String :=
  let p : Layout := ⟨size, align⟩
  match ctorSized bits c p with
  | .ok L => join (["st=ok", lay "alloc" L] ++ sizedFields bits p)
  | r => (refused r).getD "?"

def sliceElems (d so len tsize : Nat) : List String :=
  [ rel "slice" (d + so), kv "slen" len ] ++
  (if len = 0 then [] else [ rel "e0" (d + so), rel "elast" (d + so + (len - 1) * tsize) ])

def qHs (bits : Nat) (H T : Layout) (len : Nat) (c : HsCtor) : String :=
  match ctorHeaderSlice bits c H T len with
  | .ok L =>
    let pl := headerSliceLayout H T len
    let d := asPtr bits B pl.1
    join (["st=ok", lay "alloc" L] ++ arcFields bits pl.1 ++ [rel "hdr" d] ++ sliceElems d pl.2 len T.size)
  | r => (refused r).getD "?"

def qThin (bits : Nat) (H T : Layout) (len : Nat) (c : HsCtor) : String :=
  let hwl := headerWithLengthLayout bits H
  match ctorHeaderSlice bits c hwl.1 T len with
  | .ok L =>
    let pl := thinPayload bits H T len
    let d := thinDerefAddr bits B H T len
    join ([ "st=ok", lay "alloc" L, lay "dealloc" (arcInnerLayout bits pl.1).1,
            rel "t_ptr" (thinPtr B), rel "t_heap" (thinHeapPtr B), rel "t_as_ptr" (thinAsPtr B),
            rel "t_into_raw" (thinIntoRaw B), rel "rt_base" (thinFromRaw (thinIntoRaw B)),
            rel "rc_as_ptr" (thinAsPtr B), rel "rc_into" (thinIntoRaw B),
            rel "rc_inc" (thinAsPtr B), kv "rc_inc_cnt" 2,
            rel "rc_rt_base" (thinFromRaw (thinIntoRaw B)),
            rel "deref" d, rel "hdr" d, rel "lenf" (thinLengthAddr bits B H T),
            rel "lenf_fat" (fatLengthAddr bits B H T len), kv "lenv" len,
            kv "sov" pl.1.size, kv "aov" pl.1.align,
            rel "fat_as_ptr" (asPtr bits B pl.1), rel "fat_heap" (heapPtr B),
            kv "hwl_size" hwl.1.size, kv "hwl_align" hwl.1.align, kv "hwl_lenoff" hwl.2 ]
          ++ sliceElems d pl.2 len T.size)
  | r => (refused r).getD "?"

def sliceView (bits : Nat) (T : Layout) (len : Nat) : List String :=
  let p := sliceLayout T len
  let d := asPtr bits B p
  let er := headerSliceLayout unitLayout T len
  arcFields bits p ++ sliceElems d 0 len T.size ++
  [ lay "er_dealloc" (arcInnerLayout bits er.1).1,
    rel "er_as_ptr" (asPtr bits B er.1),
    rel "er_slice" (asPtr bits B er.1 + er.2),
    kv "er_sov" er.1.size ]

def qSlice (bits : Nat) (T : Layout) (len : Nat) (c : SliceCtor) : String :=
  match ctorSlice bits c T len with
  | .ok L => join (["st=ok", lay "alloc" L] ++ sliceView bits T len)
  | r => (refused r).getD "?"

def qArray (bits : Nat) (T : Layout) (n : Nat) : String :=
  match ctorSized bits .boxNew (sliceLayout T n) with
  | .ok L => join (["st=ok", lay "alloc" L] ++ sliceView bits T n)
  | r => (refused r).getD "?"

def qUnion (bits : Nat) (p : Layout) (which : Nat) : String :=
  let d := intoRaw bits B p
  let w := if which = 1 then unionFromFirst d else unionFromSecond d
  join [ "st=ok", lay "alloc" (allocLayoutBoxNew bits p), lay "dealloc" (arcInnerLayout bits p).1,
         rel "deref" (derefAddr bits B p), kv "sov" p.size, rel "bits" w, kv "low" (w % 2),
         kv "first" (if isFirst w then 1 else 0), rel "borrow" (unionBorrow w).2,
         kv "var" (if (unionBorrow w).1 then 1 else 2) ]

def qWidths (bits : Nat) : String :=
  let w := bits / 8
  let thin := ["arc", "uniq", "offset", "thin", "borrow", "union", "arc_hs_sized"]
  let fat := ["arc_slice", "arc_str", "arc_dyn", "arc_hs", "uniq_slice", "borrow_slice", "borrow_dyn"]
  join (thin.flatMap (fun n => [kv n (handleWords false * w), kv ("o_" ++ n) (handleWords false * w)]) ++
        fat.flatMap (fun n => [kv n (handleWords true * w), kv ("o_" ++ n) (handleWords true * w)]))

def qTag (a : Nat) : String :=
  join [ kv "or1" (tagSecond a), kv "clear" (untag a), kv "even" (if isFirst a then 1 else 0),
         kv "or1_clear" (untag (tagSecond a)), kv "or1_even" (if isFirst (tagSecond a) then 1 else 0) ]

def qExt (bits n a m b : Nat) : String :=
  let l : Layout := ⟨n, a⟩
  let e := match Layout.extend bits l ⟨m, b⟩ with
    | some (x, off) => s!"ext={x.size},{x.align},{off} extpad={x.padToAlign.size}"
    | none => "ext=err"
  join [ e, kv "pad" l.padToAlign.size, kv "pnf" (l.paddingNeededFor b),
         (match Layout.mk? bits n a with | some _ => "mk=ok" | none => "mk=err") ]

def qArr (bits : Nat) (T : Layout) (n : Nat) : String :=
  match Layout.array bits T n with
  | some x => s!"arr={x.size},{x.align}"
  | none => "arr=err"

def answer (line : String) : String :=
  match line.trimAscii.toString.splitOn " " |>.filter (· ≠ "") with
  | ["sized", bits, s, a, c] =>
    match nats [bits, s, a], sizedCtor? c with
    | some [bits, s, a], some c => qSized bits s a c
    | _, _ => "bad-query"
  | ["hs", bits, hs, ha, ts, ta, len, c] =>
    match nats [bits, hs, ha, ts, ta, len], hsCtor? c with
    | some [bits, hs, ha, ts, ta, len], some c => qHs bits ⟨hs, ha⟩ ⟨ts, ta⟩ len c
    | _, _ => "bad-query"
  | ["thin", bits, hs, ha, ts, ta, len, "badlen"] =>
    -- a fat Arc with a recorded length that disagrees, handed to `into_thin`: built by
    -- `from_header_and_slice` (which may refuse first), then refused by `assert_eq!(length, slice.len())`
    match nats [bits, hs, ha, ts, ta, len] with
    | some [bits, hs, ha, ts, ta, len] =>
      match ctorHeaderSlice bits .slice (headerWithLengthLayout bits ⟨hs, ha⟩).1 ⟨ts, ta⟩ len with
      | .ok _ => "st=panic:length-mismatch"
      | r => (refused r).getD "st=?"
    | _ => "bad-query"
  | ["thin", bits, hs, ha, ts, ta, len, c] =>
    match nats [bits, hs, ha, ts, ta, len], hsCtor? c with
    | some [bits, hs, ha, ts, ta, len], some c => qThin bits ⟨hs, ha⟩ ⟨ts, ta⟩ len c
    | _, _ => "bad-query"
  | ["slice", bits, ts, ta, len, c] =>
    match nats [bits, ts, ta, len], sliceCtor? c with
    | some [bits, ts, ta, len], some c => qSlice bits ⟨ts, ta⟩ len c
    | _, _ => "bad-query"
  | ["array", bits, ts, ta, n] =>
    match nats [bits, ts, ta, n] with
    | some [bits, ts, ta, n] => qArray bits ⟨ts, ta⟩ n
    | _ => "bad-query"
  | ["union", bits, s, a, which] =>
    match nats [bits, s, a, which] with
    | some [bits, s, a, which] => qUnion bits ⟨s, a⟩ which
    | _ => "bad-query"
  | ["widths", bits] =>
    match bits.toNat? with
    | some bits => qWidths bits
    | none => "bad-query"
  | ["tag", a] =>
    match a.toNat? with
    | some a => qTag a
    | none => "bad-query"
  | ["ext", bits, n, a, m, b] =>
    match nats [bits, n, a, m, b] with
    | some [bits, n, a, m, b] => qExt bits n a m b
    | _ => "bad-query"
  | ["arr", bits, ts, ta, n] =>
    match nats [bits, ts, ta, n] with
    | some [bits, ts, ta, n] => qArr bits ⟨ts, ta⟩ n
    | _ => "bad-query"
  | _ => "bad-query"

partial def loop (stdin stdout : IO.FS.Stream) : IO Unit := do
  let line ← stdin.getLine
  if line.isEmpty then return ()
  stdout.putStrLn (answer line)
  loop stdin stdout

def main : IO Unit := do
  let stdin ← IO.getStdin
  let stdout ← IO.getStdout
  loop stdin stdout
  stdout.flush
