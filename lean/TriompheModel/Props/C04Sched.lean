import TriompheModel.WM.Later
import TriompheModel.WM.OwnershipExamples
/-!
# C04 under schedules: what a concurrent reader of the count can see

C04 is quantified over histories (`Props/C04.lean`).  This file adds what the axiomatic model M4 says about a reader that runs
*concurrently* with clones and drops in other threads (the observer of the litmus program `convert_vs_count_observer`): whatever
write the load reads from, the value is the number of handles that are alive after that write — born at or before it and not
yet released at it — and, read through an owning handle, it counts that handle: it is never 0 and never the count of a state in
which the reader's own handle is gone.  So a conversion implemented as clone-then-release (or release-then-clone) is visible to
such a reader exactly as a state with one owner more (or less) in the modification order; a conversion that does not touch the
word contributes no such state.
-/
open Facts WM
namespace C04

variable {X : CountExec} {decOrd : MemOrd} {fenceOrd : Option MemOrd}

/-- **every value the count word ever holds is a number of live handles**: for every point of the modification order -/
theorem C04_every_read_counts_live_handles (hc : Consistent X) (hp : Protocol X decOrd fenceOrd) (rf : Option Nat) :
    valRead X.ops rf = ((run (seenPrefix X.ops rf)).live.length : Int) ∧
    (run (seenPrefix X.ops rf)).live.Nodup ∧
    (∀ h, h ∈ (run (seenPrefix X.ops rf)).live ↔
      h ∈ (run (seenPrefix X.ops rf)).born ∧ h ∉ deads (seenPrefix X.ops rf)) := by
  have hw : WF (seenPrefix X.ops rf) := by
    cases rf with
    | none => exact WF.nil
    | some j => exact wf_take hc hp (j+1)
  have hi := inv_run hw
  refine ⟨?_, hi.nodup, (live_iff hw).1⟩
  cases rf with
  | none => exact hi.val
  | some j => exact hi.val

/-- the reader's own handle is alive in the state it reads -/
theorem C04_reader_is_counted (hc : Consistent X) (hp : Protocol X decOrd fenceOrd) (hrw : CoRW X) (hvb : ViaBorn X)
    {l : X.A} {h : H} {o : MemOrd} {rf : Option Nat} (hl : X.kind l = .load h o rf) :
    h ∈ (run (seenPrefix X.ops rf)).live := by
  have hli : (X.kind l).loadInfo = some (o, rf) := by rw [hl]; rfl
  have hvl : (X.kind l).via = some h := by rw [hl]; rfl
  have hw : WF (seenPrefix X.ops rf) := by
    cases rf with
    | none => exact WF.nil
    | some j => exact wf_take hc hp (j+1)
  rw [(live_iff hw).1]
  refine ⟨?_, ?_⟩
  · rw [born_run]
    by_cases h0 : h = 0
    · exact Or.inl h0
    · obtain ⟨i, s, hi, hhb⟩ := hvb hvl h0
      obtain ⟨j, hj, hij⟩ := hc.coWR hli hhb
      subst hj
      exact Or.inr (mem_kids.2 ⟨s, mem_take_of_lt hi (by omega)⟩)
  · intro hd
    cases rf with
    | none => simp [seenPrefix, deads] at hd
    | some j =>
      obtain ⟨m, hm, hmd⟩ := exists_lt_of_mem_take (mem_deads.1 hd)
      have := hrw hli (hp.via_alive hvl hmd) j rfl
      omega

/-- **a count read through an owning handle is at least 1**, under every schedule -/
theorem C04_read_through_owner_positive (hc : Consistent X) (hp : Protocol X decOrd fenceOrd) (hrw : CoRW X)
    (hvb : ViaBorn X) {l : X.A} {h : H} {o : MemOrd} {rf : Option Nat} (hl : X.kind l = .load h o rf) :
    1 ≤ valRead X.ops rf := by
  have hmem := C04_reader_is_counted hc hp hrw hvb hl
  rw [(C04_every_read_counts_live_handles hc hp rf).1]
  have : 0 < (run (seenPrefix X.ops rf)).live.length := List.length_pos_of_mem hmem
  omega

/-! ## the same for every program of the ownership semantics -/
open WM.Own

variable (r : Run decOrd fenceOrd)
variable {hb : Ev (Fin r.final.kinds.length) → Ev (Fin r.final.kinds.length) → Prop}

theorem C04_read_through_owner_positive_in_every_program
    (hpo : ∀ x y, (lift x, lift y) ∈ r.final.po → hb x y)
    (hsw : ∀ x y, (lift x, lift y) ∈ r.final.sw → hb x y)
    (htrans : ∀ x y z, hb x y → hb y z → hb x z)
    (hc : Consistent (execOf r.final hb)) (hrw : CoRW (execOf r.final hb))
    {l : Fin r.final.kinds.length} {h : H} {o : MemOrd} {rf : Option Nat}
    (hl : (execOf r.final hb).kind l = .load h o rf) :
    1 ≤ valRead r.final.ops rf ∧
    valRead r.final.ops rf = ((run (seenPrefix r.final.ops rf)).live.length : Int) ∧
    h ∈ (run (seenPrefix r.final.ops rf)).live :=
  ⟨C04_read_through_owner_positive hc (protocol_of_run r hb hpo hsw htrans) hrw (viaBorn_of_run r hb hpo hsw htrans) hl,
   (C04_every_read_counts_live_handles hc (protocol_of_run r hb hpo hsw htrans) rf).1,
   C04_reader_is_counted hc (protocol_of_run r hb hpo hsw htrans) hrw (viaBorn_of_run r hb hpo hsw htrans) hl⟩

/-- non-vacuity: in the `get_mut`-shaped run `ExMut` thread 0's load of the count (event 1, through handle 0, reading thread 1's
release) meets every hypothesis; the theorem gives 1 ≤ the value read (it is exactly 1: handle 0 alone is alive there) -/
example : 1 ≤ valRead ExMut.exX.ops (some 1) :=
  C04_read_through_owner_positive ExMut.ex_consistent ExMut.ex_protocol ExMut.ex_corw ExMut.ex_viaborn
    (l := (1 : ExMut.EA)) (h := 0) (o := .acquire) (rf := some 1) rfl
example : (0 : H) ∈ (run (seenPrefix ExMut.exX.ops (some 1))).live :=
  C04_reader_is_counted ExMut.ex_consistent ExMut.ex_protocol ExMut.ex_corw ExMut.ex_viaborn
    (l := (1 : ExMut.EA)) (h := 0) (o := .acquire) (rf := some 1) rfl

end C04
