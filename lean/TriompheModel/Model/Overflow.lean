import TriompheModel.Facts
import TriompheModel.Generated.Consts
/-!
# M6 — the overflow guard of `Arc::clone` (property C16)

Executable model, core Lean only.  It mirrors `impl Clone for Arc<T>` in `arc.rs`:

```rust
let old_size = self.inner().count.fetch_add(1, Relaxed);   -- wrapping add, returns the OLD value
if old_size > MAX_REFCOUNT { abort(); }
Arc { p: .. }                                               -- the new handle
```

Nothing about the guard is hard-wired: the comparison operator, what it is compared with
(`MAX_REFCOUNT`), what happens when it fires and what `abort()` is in the std / no_std
configuration are **parameters** (`GuardFacts`) which the translator regenerates from the source
(`Generated.Consts`).  A different operator or constant gives a different function — and the
theorems of `Props/C16.lean` hold only for the facts they state as obligations.
-/
namespace Overflow
open Facts

/-- What the translator says about the guard, for one configuration (std or no_std). -/
structure GuardFacts where
  max : MaxRefcount        -- `MAX_REFCOUNT`
  guard : Guard            -- comparison operator (and literal, if it is compared with a literal)
  onOld : Bool             -- the compared value is the one `fetch_add` returned (the old count)
  action : GuardAction     -- what the `if` body does
  abortImpl : AbortImpl    -- what `abort()` is in this configuration
deriving DecidableEq, Repr

/-- How a clone can fail to return. -/
inductive Abort
  | processAbort     -- `std::process::abort()`: the process is killed (SIGABRT), nothing else runs
  | doublePanic      -- panic while panicking: the runtime aborts the process (SIGABRT)
  | unwinding        -- an ordinary panic: catchable; the count STAYS incremented, the process goes on
  | unknown          -- the translator could not classify the source
deriving DecidableEq, Repr

/-- the process is gone afterwards (the only acceptable kind for C16) -/
def Abort.terminates : Abort → Bool
  | .processAbort | .doublePanic => true
  | _ => false

def Abort.name : Abort → String
  | .processAbort => "processAbort"
  | .doublePanic => "doublePanic"
  | .unwinding => "unwinding"
  | .unknown => "unknown"

/-- numeric value of `MAX_REFCOUNT` on a target whose `usize` has `bits` bits -/
def maxValue : MaxRefcount → Nat → Option Nat
  | .isizeMax, bits => some (2 ^ (bits - 1) - 1)
  | .usizeMax, bits => some (2 ^ bits - 1)
  | .lit n, _ => some n
  | .unknown, _ => none

def evalCmp : Cmp → Nat → Nat → Option Bool
  | .eq, a, b => some (a == b)
  | .ne, a, b => some (a != b)
  | .lt, a, b => some (decide (a < b))
  | .le, a, b => some (decide (a ≤ b))
  | .gt, a, b => some (decide (a > b))
  | .ge, a, b => some (decide (a ≥ b))
  | .unknown, _, _ => none

/-- Does the guard fire for this old count?  `none` = the source could not be classified. -/
def evalGuard (g : Guard) (m : MaxRefcount) (onOld : Bool) (bits : Nat) (old : Nat) : Option Bool :=
  if onOld then
    match (match g.lit with | some n => some n | none => maxValue m bits) with
    | some rhs => evalCmp g.cmp old rhs
    | none => none
  else none

/-- What happens once the guard has fired; `none` = nothing, execution continues. -/
def onFire (G : GuardFacts) : Option Abort :=
  match G.action with
  | .callsAbort =>
    some (match G.abortImpl with
      | .processAbort => .processAbort
      | .doublePanic => .doublePanic
      | .singlePanic => .unwinding
      | .unknown => .unknown)
  | .panics => some .unwinding
  | .nothing => none
  | .unknown => some .unknown

/-- The guard check, given the old count and the already incremented word. -/
def guardCheck {α : Type} (G : GuardFacts) (bits : Nat) (old : Nat) (new : α) : Except Abort α :=
  match evalGuard G.guard G.max G.onOld bits old with
  | none => .error .unknown
  | some false => .ok new
  | some true =>
    match onFire G with
    | some a => .error a
    | none => .ok new

/-- the wrapping `fetch_add(1)` on a `bits`-bit word -/
def fetchAddNat (bits : Nat) (w : Nat) : Nat := (w + 1) % 2 ^ bits

/-- `Arc::clone` on the count word of a `bits`-bit target (arithmetic mod `2^bits`). -/
def cloneNat (G : GuardFacts) (bits : Nat) (w : Nat) : Except Abort Nat :=
  let old := w
  let new := fetchAddNat bits w
  guardCheck G bits old new

/-- `Arc::clone` on the count word of a 64-bit target. -/
def cloneWord (G : GuardFacts) (w : BitVec 64) : Except Abort (BitVec 64) :=
  let old := w
  let new := w + 1              -- wrapping
  guardCheck G 64 old.toNat new

/-- the word after the clone's `fetch_add`, whatever the guard then does -/
def wordAfter (w : BitVec 64) : BitVec 64 := w + 1

/-- the facts for the two configurations, as regenerated from the source -/
def genStd : GuardFacts :=
  ⟨Generated.maxRefcount, Generated.cloneGuard, Generated.cloneGuardOnOldVsMax,
   Generated.cloneGuardAction, Generated.abortStd⟩
def genNoStd : GuardFacts :=
  ⟨Generated.maxRefcount, Generated.cloneGuard, Generated.cloneGuardOnOldVsMax,
   Generated.cloneGuardAction, Generated.abortNoStd⟩

/-- the facts under which C16 holds, as a decidable predicate -/
def Good (G : GuardFacts) : Bool :=
  G.max == .isizeMax && G.guard == ⟨.gt, none⟩ && G.onOld && G.action == .callsAbort &&
  G.abortImpl.terminates

/-! ## sequential histories: clone / drop / forget on one allocation -/

inductive Op | clone | drop | forget
deriving DecidableEq, Repr

/-- State of one allocation and of the (sequential) program using it. -/
structure St where
  word : Nat          -- the count word
  live : Nat          -- owning handles the program still holds
  forgotten : Nat     -- owning handles leaked with `mem::forget`: never decremented
  aborted : Bool      -- the process was terminated by the guard
  freed : Bool        -- a decrement observed 1: value destroyed, block returned
deriving DecidableEq, Repr

def St.init : St := ⟨1, 1, 0, false, false⟩

/-- the wrapping `fetch_sub(1)` -/
def fetchSubNat (bits : Nat) (w : Nat) : Nat := (w + 2 ^ bits - 1) % 2 ^ bits

/-- One operation.  An operation needs a live handle to act through; after an abort nothing runs.
`clone` that ends in a *catchable* panic leaves the count incremented, produces no handle, and the
program goes on (this is what makes a catchable panic unacceptable). -/
def step (G : GuardFacts) (bits : Nat) (s : St) : Op → St
  | .clone =>
    if s.aborted || s.live == 0 then s else
    match cloneNat G bits s.word with
    | .ok w' => { s with word := w', live := s.live + 1 }
    | .error a =>
      if a.terminates then { s with word := fetchAddNat bits s.word, aborted := true }
      else { s with word := fetchAddNat bits s.word }
  | .drop =>
    if s.aborted || s.live == 0 then s else
    let old := s.word
    { s with word := fetchSubNat bits s.word, live := s.live - 1, freed := s.freed || old == 1 }
  | .forget =>
    if s.aborted || s.live == 0 then s else
    { s with live := s.live - 1, forgotten := s.forgotten + 1 }

def run (G : GuardFacts) (bits : Nat) (ops : List Op) : St := ops.foldl (step G bits) St.init

/-! ## concurrent clones: the `fetch_add` and the guard check of a clone are two steps -/

inductive COp
  | fetchAdd           -- some thread starts a clone: its `fetch_add` happens, the check is pending
  | check (i : Nat)    -- the i-th pending clone runs its guard check (and then owns a handle)
  | drop | forget
deriving DecidableEq, Repr

structure CSt where
  word : Nat
  live : Nat
  forgotten : Nat
  pending : List Nat    -- old values returned to the clones whose check has not run yet
  aborted : Bool
deriving DecidableEq, Repr

def CSt.init : CSt := ⟨1, 1, 0, [], false⟩

/-- `maxInflight` = number of clones that can be between their `fetch_add` and their check at the
same time (at most the number of threads). -/
def cstep (G : GuardFacts) (bits maxInflight : Nat) (s : CSt) : COp → CSt
  | .fetchAdd =>
    if s.aborted || s.live == 0 || s.pending.length ≥ maxInflight then s else
    { s with word := fetchAddNat bits s.word, pending := s.pending ++ [s.word] }
  | .check i =>
    if s.aborted then s else
    match s.pending[i]? with
    | none => s
    | some old =>
      match guardCheck G bits old () with
      | .ok () => { s with live := s.live + 1, pending := s.pending.eraseIdx i }
      | .error a =>
        if a.terminates then { s with aborted := true } else { s with pending := s.pending.eraseIdx i }
  | .drop =>
    if s.aborted || s.live == 0 then s else
    { s with word := fetchSubNat bits s.word, live := s.live - 1 }
  | .forget =>
    if s.aborted || s.live == 0 then s else
    { s with live := s.live - 1, forgotten := s.forgotten + 1 }

def crun (G : GuardFacts) (bits maxInflight : Nat) (ops : List COp) : CSt :=
  ops.foldl (cstep G bits maxInflight) CSt.init

end Overflow
