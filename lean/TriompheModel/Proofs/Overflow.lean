import TriompheModel.Model.Overflow
/-!
Helper lemmas for `Props/C16.lean` (core Lean only).  Everything is parametric in the guard facts
`G`; the only thing assumed about them is `Good G = true` — a decidable predicate which
`Props/C16.lean` discharges by `decide` on the regenerated facts.
-/
namespace Overflow
open Facts

deriving instance DecidableEq for Except

/-- the result is a process-terminating abort -/
def terminated {α : Type} : Except Abort α → Bool
  | .error a => a.terminates
  | .ok _ => false

theorem good_fields {G : GuardFacts} (h : Good G = true) :
    G.max = .isizeMax ∧ G.guard = ⟨.gt, none⟩ ∧ G.onOld = true ∧ G.action = .callsAbort ∧
    G.abortImpl.terminates = true := by
  simp only [Good, Bool.and_eq_true, beq_iff_eq] at h
  obtain ⟨⟨⟨⟨h1, h2⟩, h3⟩, h4⟩, h5⟩ := h
  exact ⟨h1, h2, h3, h4, h5⟩

theorem good_evalGuard {G : GuardFacts} (h : Good G = true) (bits old : Nat) :
    evalGuard G.guard G.max G.onOld bits old = some (decide (old > 2 ^ (bits - 1) - 1)) := by
  obtain ⟨h1, h2, h3, _, _⟩ := good_fields h
  simp [evalGuard, h1, h2, h3, maxValue, evalCmp]

theorem good_onFire {G : GuardFacts} (h : Good G = true) :
    ∃ a, onFire G = some a ∧ a.terminates = true := by
  obtain ⟨_, _, _, h4, h5⟩ := good_fields h
  cases hi : G.abortImpl with
  | processAbort => exact ⟨.processAbort, by simp [onFire, h4, hi], rfl⟩
  | doublePanic => exact ⟨.doublePanic, by simp [onFire, h4, hi], rfl⟩
  | singlePanic => rw [hi] at h5; simp [AbortImpl.terminates] at h5
  | unknown => rw [hi] at h5; simp [AbortImpl.terminates] at h5

theorem guardCheck_ok {α : Type} {G : GuardFacts} (h : Good G = true) (bits old : Nat) (new : α)
    (hle : old ≤ 2 ^ (bits - 1) - 1) : guardCheck G bits old new = .ok new := by
  have hd : decide (old > 2 ^ (bits - 1) - 1) = false := by
    apply decide_eq_false; omega
  simp [guardCheck, good_evalGuard h, hd]

theorem guardCheck_abort {α : Type} {G : GuardFacts} (h : Good G = true) (bits old : Nat) (new : α)
    (hgt : old > 2 ^ (bits - 1) - 1) :
    ∃ a, guardCheck G bits old new = .error a ∧ a.terminates = true := by
  obtain ⟨a, ha, hta⟩ := good_onFire h
  have hd : decide (old > 2 ^ (bits - 1) - 1) = true := decide_eq_true hgt
  exact ⟨a, by simp [guardCheck, good_evalGuard h, hd, ha], hta⟩

theorem guardCheck_terminated_iff {α : Type} {G : GuardFacts} (h : Good G = true) (bits old : Nat)
    (new : α) : terminated (guardCheck G bits old new) = true ↔ old > 2 ^ (bits - 1) - 1 := by
  constructor
  · intro ht
    by_cases hle : old ≤ 2 ^ (bits - 1) - 1
    · rw [guardCheck_ok h bits old new hle] at ht; simp [terminated] at ht
    · omega
  · intro hgt
    obtain ⟨a, ha, hta⟩ := guardCheck_abort h bits old new hgt
    rw [ha]; exact hta

/-! ### wrapping arithmetic without wrap -/

theorem fetchAdd_small {bits w : Nat} (h : w + 1 < 2 ^ bits) : fetchAddNat bits w = w + 1 :=
  Nat.mod_eq_of_lt h

theorem fetchSub_pos {bits w : Nat} (h0 : 0 < w) (h : w < 2 ^ bits) : fetchSubNat bits w = w - 1 := by
  unfold fetchSubNat
  have e : w + 2 ^ bits - 1 = (w - 1) + 2 ^ bits := by omega
  rw [e, Nat.add_mod_right]
  exact Nat.mod_eq_of_lt (by omega)

/-- `2^bits = 2 * 2^(bits-1)` and `2 ≤ 2^(bits-1)` for `bits ≥ 2` -/
theorem pow_facts {bits : Nat} (hb : 2 ≤ bits) :
    2 ^ bits = 2 * 2 ^ (bits - 1) ∧ 2 ≤ 2 ^ (bits - 1) := by
  obtain ⟨k, rfl⟩ : ∃ k, bits = k + 2 := ⟨bits - 2, by omega⟩
  have e : k + 2 - 1 = k + 1 := by omega
  rw [e]
  have h1 : 2 ^ (k + 2) = 2 ^ (k + 1) * 2 := Nat.pow_succ _ _
  have h2 : 2 ^ (k + 1) = 2 ^ k * 2 := Nat.pow_succ _ _
  have : 0 < 2 ^ k := Nat.two_pow_pos _
  exact ⟨by omega, by omega⟩

/-! ### the 64-bit word and the parametric model agree -/

theorem cloneWord_toNat (G : GuardFacts) (w : BitVec 64) :
    (match cloneWord G w with | .ok v => Except.ok v.toNat | .error a => Except.error a)
      = cloneNat G 64 w.toNat := by
  have e : (w + 1).toNat = fetchAddNat 64 w.toNat := by
    simp [fetchAddNat, BitVec.toNat_add]
  simp only [cloneWord, cloneNat, guardCheck]
  generalize evalGuard G.guard G.max G.onOld 64 w.toNat = r
  cases r with
  | none => rfl
  | some b =>
    cases b with
    | false => simp only [e]
    | true =>
      generalize onFire G = f
      cases f with
      | none => simp only [e]
      | some a => rfl

/-! ### sequential histories -/

/-- The invariant of the sequential machine (`M = 2^(bits-1) = MAX_REFCOUNT + 1`). -/
def Inv (bits : Nat) (s : St) : Prop :=
  s.word = s.live + s.forgotten + (if s.aborted then 1 else 0) ∧
  s.live + s.forgotten ≤ 2 ^ (bits - 1) ∧
  (s.freed = true ↔ s.live + s.forgotten = 0)

theorem inv_init (bits : Nat) : Inv bits St.init := by
  have : 0 < 2 ^ (bits - 1) := Nat.two_pow_pos _
  refine ⟨by simp [St.init], by simp [St.init]; omega, by simp [St.init]⟩

theorem inv_step {G : GuardFacts} (hG : Good G = true) {bits : Nat} (hb : 2 ≤ bits) (s : St)
    (hi : Inv bits s) (o : Op) : Inv bits (step G bits s o) := by
  obtain ⟨hp, hM⟩ := pow_facts hb
  obtain ⟨hw, hle, hfr⟩ := hi
  cases o with
  | clone =>
    unfold step
    by_cases hc : (s.aborted || s.live == 0) = true
    · simp only [hc, if_true]; exact ⟨hw, hle, hfr⟩
    · simp only [hc]
      simp only [Bool.or_eq_true, beq_iff_eq, not_or, Bool.not_eq_true] at hc
      obtain ⟨hab, hl⟩ := hc
      simp only [hab, Bool.false_eq_true, if_false, Nat.add_zero] at hw
      have hsmall : s.word + 1 < 2 ^ bits := by omega
      by_cases hlt : s.word ≤ 2 ^ (bits - 1) - 1
      · have : cloneNat G bits s.word = .ok (s.word + 1) := by
          unfold cloneNat; rw [guardCheck_ok hG _ _ _ hlt, fetchAdd_small hsmall]
        simp only [this, Bool.false_eq_true, if_false]
        refine ⟨by simp [hab]; omega, by simp; omega, ?_⟩
        simp only
        constructor
        · intro hf; have := hfr.mp hf; omega
        · intro h0; omega
      · obtain ⟨a, ha, hta⟩ := guardCheck_abort hG bits s.word (fetchAddNat bits s.word) (by omega)
        have : cloneNat G bits s.word = .error a := by unfold cloneNat; exact ha
        simp only [this, hta, if_true, fetchAdd_small hsmall]
        exact ⟨by simp; omega, hle, hfr⟩
  | drop =>
    unfold step
    by_cases hc : (s.aborted || s.live == 0) = true
    · simp only [hc, if_true]; exact ⟨hw, hle, hfr⟩
    · simp only [hc]
      simp only [Bool.or_eq_true, beq_iff_eq, not_or, Bool.not_eq_true] at hc
      obtain ⟨hab, hl⟩ := hc
      simp only [hab, Bool.false_eq_true, if_false, Nat.add_zero] at hw
      have hsub : fetchSubNat bits s.word = s.word - 1 := fetchSub_pos (by omega) (by omega)
      have hnf : s.freed = false := by
        cases hf : s.freed with
        | false => rfl
        | true => have := hfr.mp hf; omega
      simp only [Bool.false_eq_true, if_false]
      refine ⟨by simp [hab, hsub]; omega, by simp; omega, ?_⟩
      simp only [hnf, Bool.false_or, beq_iff_eq]
      constructor
      · intro h1; omega
      · intro h0; omega
  | forget =>
    unfold step
    by_cases hc : (s.aborted || s.live == 0) = true
    · simp only [hc, if_true]; exact ⟨hw, hle, hfr⟩
    · simp only [hc]
      simp only [Bool.or_eq_true, beq_iff_eq, not_or, Bool.not_eq_true] at hc
      obtain ⟨hab, hl⟩ := hc
      simp only [Bool.false_eq_true, if_false]
      refine ⟨by simp [hab] at hw ⊢; omega, by simp; omega, ?_⟩
      simp only
      constructor
      · intro hf; have := hfr.mp hf; omega
      · intro h0; omega

theorem inv_foldl {G : GuardFacts} (hG : Good G = true) {bits : Nat} (hb : 2 ≤ bits)
    (ops : List Op) : ∀ s, Inv bits s → Inv bits (ops.foldl (step G bits) s) := by
  induction ops with
  | nil => intro s h; exact h
  | cons o os ih => intro s h; exact ih _ (inv_step hG hb s h o)

/-! ### concurrent clones -/

/-- number of pending clones whose check will pass (old value ≤ MAX_REFCOUNT) -/
def okPending (bits : Nat) (l : List Nat) : Nat := l.countP (fun o => decide (o ≤ 2 ^ (bits - 1) - 1))

def CInv (bits n : Nat) (s : CSt) : Prop :=
  s.aborted = false →
    s.word = s.live + s.forgotten + s.pending.length ∧
    s.live + s.forgotten + okPending bits s.pending ≤ 2 ^ (bits - 1) ∧
    s.pending.length ≤ n

theorem okPending_le (bits : Nat) (l : List Nat) : okPending bits l ≤ l.length := List.countP_le_length

theorem okPending_append (bits : Nat) (l : List Nat) (o : Nat) :
    okPending bits (l ++ [o]) = okPending bits l + (if o ≤ 2 ^ (bits - 1) - 1 then 1 else 0) := by
  simp [okPending, List.countP_append, List.countP_cons]

theorem okPending_eraseIdx (bits : Nat) (l : List Nat) (i : Nat) (o : Nat) (h : l[i]? = some o) :
    okPending bits l = okPending bits (l.eraseIdx i) + (if o ≤ 2 ^ (bits - 1) - 1 then 1 else 0) := by
  induction l generalizing i with
  | nil => simp at h
  | cons x xs ih =>
    cases i with
    | zero =>
      simp only [List.getElem?_cons_zero, Option.some.injEq] at h
      subst h
      simp [okPending, List.countP_cons]
    | succ j =>
      simp only [List.getElem?_cons_succ] at h
      have := ih j h
      simp only [okPending, List.eraseIdx_cons_succ, List.countP_cons] at this ⊢
      omega

theorem length_eraseIdx_of_some (l : List Nat) (i : Nat) (o : Nat) (h : l[i]? = some o) :
    (l.eraseIdx i).length + 1 = l.length := by
  have hi : i < l.length := by
    rcases Nat.lt_or_ge i l.length with h' | h'
    · exact h'
    · rw [List.getElem?_eq_none h'] at h; simp at h
  rw [List.length_eraseIdx]; simp [hi]; omega

theorem cinv_init (bits n : Nat) : CInv bits n CSt.init := by
  intro _
  have : 0 < 2 ^ (bits - 1) := Nat.two_pow_pos _
  simp [CSt.init, okPending]; omega

theorem cinv_step {G : GuardFacts} (hG : Good G = true) {bits n : Nat} (hb : 2 ≤ bits)
    (hn : n ≤ 2 ^ (bits - 1) - 1) (s : CSt) (hi : CInv bits n s) (o : COp) :
    CInv bits n (cstep G bits n s o) := by
  obtain ⟨hp, hM⟩ := pow_facts hb
  cases hab : s.aborted with
  | true =>
    -- after an abort nothing runs: every op leaves the state unchanged
    have : cstep G bits n s o = s := by
      cases o <;> simp [cstep, hab]
    rw [this]; intro h; rw [hab] at h; cases h
  | false =>
    obtain ⟨hw, hle, hlen⟩ := hi hab
    have hok := okPending_le bits s.pending
    cases o with
    | fetchAdd =>
      unfold cstep
      by_cases hc : (s.aborted || s.live == 0 || decide (s.pending.length ≥ n)) = true
      · simp only [hc, if_true]; intro _; exact ⟨hw, hle, hlen⟩
      · simp only [hc]
        simp only [Bool.or_eq_true, beq_iff_eq, decide_eq_true_eq, not_or, Bool.not_eq_true] at hc
        obtain ⟨⟨_, hl⟩, hlt⟩ := hc
        have hsmall : s.word + 1 < 2 ^ bits := by omega
        intro _
        simp only [Bool.false_eq_true, if_false, fetchAdd_small hsmall, List.length_append,
          List.length_cons, List.length_nil, okPending_append]
        refine ⟨by omega, ?_, by omega⟩
        split <;> omega
    | check i =>
      unfold cstep
      simp only [hab, Bool.false_eq_true, if_false]
      cases hg : s.pending[i]? with
      | none => simp only; intro _; exact ⟨hw, hle, hlen⟩
      | some old =>
        simp only
        have hcnt := okPending_eraseIdx bits s.pending i old hg
        have hlen' := length_eraseIdx_of_some s.pending i old hg
        by_cases hold : old ≤ 2 ^ (bits - 1) - 1
        · rw [guardCheck_ok hG bits old () hold]
          simp only
          intro _
          simp only [hold, if_true] at hcnt
          exact ⟨by simp only; omega, by simp only; omega, by simp only; omega⟩
        · obtain ⟨a, ha, hta⟩ := guardCheck_abort hG bits old () (by omega)
          rw [ha]
          simp only [hta, if_true]
          intro h; simp at h
    | drop =>
      unfold cstep
      by_cases hc : (s.aborted || s.live == 0) = true
      · simp only [hc, if_true]; intro _; exact ⟨hw, hle, hlen⟩
      · simp only [hc]
        simp only [Bool.or_eq_true, beq_iff_eq, not_or, Bool.not_eq_true] at hc
        obtain ⟨_, hl⟩ := hc
        have hsub : fetchSubNat bits s.word = s.word - 1 := fetchSub_pos (by omega) (by omega)
        intro _
        simp only [Bool.false_eq_true, if_false, hsub]
        exact ⟨by omega, by omega, hlen⟩
    | forget =>
      unfold cstep
      by_cases hc : (s.aborted || s.live == 0) = true
      · simp only [hc, if_true]; intro _; exact ⟨hw, hle, hlen⟩
      · simp only [hc]
        simp only [Bool.or_eq_true, beq_iff_eq, not_or, Bool.not_eq_true] at hc
        obtain ⟨_, hl⟩ := hc
        intro _
        simp only [Bool.false_eq_true, if_false]
        exact ⟨by omega, by omega, hlen⟩

theorem cinv_foldl {G : GuardFacts} (hG : Good G = true) {bits n : Nat} (hb : 2 ≤ bits)
    (hn : n ≤ 2 ^ (bits - 1) - 1) (ops : List COp) :
    ∀ s, CInv bits n s → CInv bits n (ops.foldl (cstep G bits n) s) := by
  induction ops with
  | nil => intro s h; exact h
  | cons o os ih => intro s h; exact ih _ (cinv_step hG hb hn s h o)

end Overflow
