import TriompheModel.Props.C02
import TriompheModel.WM.Ownership
/-!
# C02 stated about PROGRAMS

`Props/C02.lean` states C02 about executions that satisfy `Protocol`.  `WM/Ownership.lean` derives `Protocol` for every run of the
operational, ownership-guarded semantics of handle programs.  Composed: for every finite run of any number of threads that clone,
read through, hand over and drop handles to one value, and for every happens-before relation that is transitive, contains the run's
program order and hand-over edges, and is consistent (the memory-model fragment `Consistent`: coherence and synchronises-with at
the orderings found in the source) — every access any thread made through its handle, and every other clone / drop, happens-before
the destruction; there is exactly one destroyer; nothing is ordered after the destruction.  No `Protocol` hypothesis is left.
-/
open Facts WM WM.Own
namespace C02

variable (r : Run Generated.decOrd C02.fenceOrd)
variable {hb : Ev (Fin r.final.kinds.length) → Ev (Fin r.final.kinds.length) → Prop}

/-- **C02 for every program of the ownership semantics** -/
theorem C02_for_every_program
    (hpo : ∀ x y, (lift x, lift y) ∈ r.final.po → hb x y)
    (hsw : ∀ x y, (lift x, lift y) ∈ r.final.sw → hb x y)
    (htrans : ∀ x y z, hb x y → hb y z → hb x z)
    (hc : Consistent (execOf r.final hb))
    {f : Fin r.final.kinds.length} {k : Nat} (hf : (execOf r.final hb).kind f = .destroy k) :
    k + 1 = r.final.ops.length ∧
    (∀ (a : Fin r.final.kinds.length) (h : H), ((execOf r.final hb).kind a).via = some h → hb (.oth a) (.oth f)) ∧
    (∀ i, i < r.final.ops.length → i ≠ k → hb (.rmw i) (.oth f)) :=
  C02_destroy_after_all hc (protocol_of_run r hb hpo hsw htrans) hf

/-- exactly one destroyer, in every program -/
theorem C02_one_destroyer_in_every_program
    (hpo : ∀ x y, (lift x, lift y) ∈ r.final.po → hb x y)
    (hsw : ∀ x y, (lift x, lift y) ∈ r.final.sw → hb x y)
    (htrans : ∀ x y z, hb x y → hb y z → hb x z)
    (hc : Consistent (execOf r.final hb))
    {f₁ f₂ : Fin r.final.kinds.length} {k₁ k₂ : Nat}
    (h₁ : (execOf r.final hb).kind f₁ = .destroy k₁) (h₂ : (execOf r.final hb).kind f₂ = .destroy k₂) : f₁ = f₂ :=
  C02_destroy_unique hc (protocol_of_run r hb hpo hsw htrans) h₁ h₂

end C02
