"""C12 — an ArcUnion remembers which variant it holds and treats it as that type.

Deciding method: Lean theorems in Props/C12.lean: arithmetic (bit 0 of every data address is free,
tag/untag; from Props/C12Arith.lean over the layout model M2) + histories (the union ops of M1 keep
variant and allocation, clone/drop move the count of that block by one and release it with that
variant's layout and destructor).  Tied by the history correspondence and by the shape-pair
correspondence of the layout harness.
"""
from vlib import histcheck

MODULE = "TriompheModel.Props.C12"
EXTRA = ["TriompheModel.Props.C12Arith", "TriompheModel.Props.TraitCensus", "TriompheModel.Props.Monitor"]
TAGS = ["C12"]
WEIGHTS = dict(create=18, conv=24, clone=18, cloneArc=14, cb=12, drop=12)


def run(ctx):
    histcheck.run(ctx, MODULE, WEIGHTS, TAGS, lean_extra=EXTRA)
    try:
        from vlib import layout_corr
    except ImportError:
        ctx.notes.append("layout pair correspondence not available in this build")
        return
    # the shape pairs under Miri too (zero-sized second types, byte-aligned first types, over-aligned ones): pointer
    # arithmetic that leaves the allocation, reads of padding, wrongly typed releases are reported even when the numbers agree
    from vlib import miri
    miri.simple_pass(ctx, "C12", ["union_shapes"], 1 if not ctx.thorough() else 4, "union-shape-pairs-under-miri")
    agreed, stats, failures = layout_corr.c12_pairs(ctx)
    ctx.oblige("corr:union-shape-pairs", agreed, str(failures[:2]))
    ctx.coverage["union_shape_pairs"] = stats
    if not agreed:
        body = "ArcUnion over a pair of payload shapes: implementation vs layout model / property:\n" + "\n".join(str(f) for f in failures[:5])
        found = any(f.get("found_input") for f in failures)
        body = "ArcUnion over a pair of payload shapes: implementation vs layout model / property:\n\n" + "\n\n".join(f["text"] for f in failures[:4])
        if found:
            ctx.violation("shape", body, True)
        else:
            ctx.defer_nfi(body)


def replay(ctx, path):
    if "kind: miri" in open(path).read():
        from vlib import miri
        return miri.replay(ctx, path)
    histcheck.replay(ctx, path, TAGS)
