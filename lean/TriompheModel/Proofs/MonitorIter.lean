import TriompheModel.Proofs.MonitorUnwrap
/-!
# Soundness of the trace monitor, part 7: K15 (C06) — honest iterators are accepted
-/
namespace M1
namespace Mon
open LY

theorem iterHdrLay_eq (w : IterCtor) : iterHdrLay w = w.hdrLay := by cases w <;> rfl

/-- `from_header_and_iter` / `ThinArc::from_header_and_iter`: only `len()` and the panics matter -/
theorem runIterCtor_lens (m : Mem) (dbg : Bool) (which : IterCtor) (hw : which = .hsFromIter ∨ which = .thinFromIter)
    (h : Option Item) (sc : IterScript) (hl : ∀ x ∈ sc.lens, x = sc.items.length) (hp : sc.panicAt = none)
    (lay : Layout) (hal : allocLayoutHeaderSlice bits which.hdrLay trackedLay sc.items.length = some lay) :
    runIterCtor m dbg which h sc = which.builtRes m h sc.items lay := by
  rcases hw with rfl | rfl
  · simp only [runIterCtor, IterSt.len, nthOrLast_all _ _ _ hl]
    exact core_honest m trackedLay h none .hs { sc := sc, lenCalls := 0 + 1 } lay hp rfl hal
  · simp only [runIterCtor, IterSt.len, nthOrLast_all _ _ _ hl]
    rw [show fromHeaderAndIterCore m Ty.hwl.hdrLay h (some sc.items.length) .hwl sc.items.length
          { sc := sc, lenCalls := 0 + 1 + 1 } = _ from
        core_honest m Ty.hwl.hdrLay h (some sc.items.length) .hwl
          { sc := sc, lenCalls := 0 + 1 + 1 } lay hp rfl hal]
    simp only [Arc.into_thin, getElem?_new, Option.bind_some, Option.getD_some, if_true]
    rfl

/-- an honest script (in the monitor's sense) is built, whenever the layout for its length exists -/
theorem runIterCtor_honestScript (m : Mem) (dbg : Bool) (which : IterCtor) (h : Option Item) (sc : IterScript)
    (hh : honestScript sc = true) (lay : Layout)
    (hal : allocLayoutHeaderSlice bits which.hdrLay trackedLay sc.items.length = some lay) :
    runIterCtor m dbg which h sc = which.builtRes m h sc.items lay := by
  simp only [honestScript, Bool.and_eq_true, Option.isNone_iff_eq_none, List.all_eq_true, beq_iff_eq] at hh
  obtain ⟨⟨hp, hl⟩, hhint⟩ := hh
  cases which with
  | hsFromIter => exact runIterCtor_lens m dbg _ (Or.inl rfl) h sc hl hp lay hal
  | thinFromIter => exact runIterCtor_lens m dbg _ (Or.inr rfl) h sc hl hp lay hal
  | fromIter | uniqueFromIter =>
    cases hhs : sc.hints with
    | nil => exact runIterCtor_honest m dbg _ h sc ⟨hl, (by rw [hhs]; intro x hx; cases hx), hp⟩ lay hal
    | cons x r =>
      rw [hhs] at hhint
      simp only [Bool.and_eq_true, List.all_eq_true, beq_iff_eq, decide_eq_true_eq] at hhint
      obtain ⟨⟨hr, hlo⟩, hup⟩ := hhint
      obtain ⟨lo, up⟩ := x
      by_cases hex : some lo = up
      · subst hex
        simp only [decide_eq_true_eq] at hup
        have : lo = sc.items.length := Nat.le_antisymm hlo hup
        subst this
        refine runIterCtor_honest m dbg _ h sc ⟨hl, ?_, hp⟩ lay hal
        intro y hy
        rw [hhs] at hy
        rcases List.mem_cons.1 hy with rfl | hy
        · rfl
        · exact hr y hy
      · exact runIterCtor_inexact m dbg _ (by simp) h sc lo up r hhs hex hp lay hal

theorem k15_badOp {pre : List (Nat × SlotObs)} {op : Op} {o : Obs} (h : o.badOp = true) : checkK15 pre op o = [] := by
  unfold checkK15
  split <;> simp [h]

/-- **K15 (C06)** on every state -/
theorem K15_sound (s : State) (op : Op) : checkK15 (observeSlots s) op (observe s op) = [] := by
  cases op with
  | iterCtor dst w h sc =>
    cases hd : lookup s dst with
    | some x =>
      have e : step s (.iterCtor dst w h sc) = (s, badOp) := by simp [step, hd]
      exact k15_badOp (obs_badOp e)
    | none =>
      have hp : lookupO (observeSlots s) dst = none := by rw [lookupO_observe, hd]; rfl
      by_cases hh : honestScript sc = true
      · cases hal : allocLayoutHeaderSlice bits (iterHdrLay w) trackedLay sc.items.length with
        | none => simp [checkK15, hp, hal]
        | some lay =>
          have hr := runIterCtor_honestScript s.mem true w h sc hh lay (by rw [← iterHdrLay_eq]; exact hal)
          obtain ⟨m', hv, e⟩ : ∃ m' hv, step s (.iterCtor dst w h sc) = (s.put m' dst hv, ok) := by
            simp only [step, hd, hr, IterCtor.builtRes]
            exact ⟨_, _, rfl⟩
          simp [checkK15, hp, (obs_ok e).2]
      · simp [checkK15, hp, hh]
  | _ => rfl

theorem checkK15_withEvs (pre : List (Nat × SlotObs)) (op : Op) (o : Obs) (evs' : List Event) :
    checkK15 pre op (o.withEvs evs') = checkK15 pre op o := rfl

end Mon
end M1
