//! C02: the clone/read/drop scenario of clone_read_drop_2t through handle kind `Thin`.
#[allow(unused_imports)]
use triomphe::OffsetArc;
use litmus::*;

fn main() {
    let mut t = Tally::new();
    for r in 0..rounds(6) {
        clone_read_drop::<Thin>(&mut t, 2, 30 + r as u64);
    }
    t.finish();
}
