import TriompheModel.Model.Serde
import TriompheModel.Generated.Impls
/-!
# C17 — serialisation is transparent; deserialisation yields a fresh sole owner

Model: `Model/Serde.lean` (M8).  The theorems quantify over **every** payload (arbitrary
`serialize` / `deserialize` functions), every serializer state, every deserializer, every heap.
The proofs are short — the model of the four impls *is* a delegation, exactly as the source; the
weight of C17 is in the tie: (A) the translator's census of serde entry points (`obl_serde_impl_census`,
by `decide` on the regenerated table: exactly the four methods, nothing overridden), (B) the correspondence run compares
the real impls with the payload's own on a recording serializer / replaying deserializer with
failure injected at every k-th callback (vlib/props/c17.py).
-/
open Serde
namespace C17

/-! ## obligation on the facts regenerated from the source (Tie A) -/

/-- the serde impl rows of the translator's table: (trait, self type head, method, form) -/
def serdeRows : List (String × String × String × FactsTraits.DelegForm) :=
  (Generated.implForms.filter (fun r => r.trait_ == "Serialize" || r.trait_ == "Deserialize")).map
    (fun r => (r.trait_, r.selfHead, r.method, r.form))

/-- **census of serde entry points**: the crate implements exactly `Serialize::serialize` and
`Deserialize::deserialize` for `Arc` and for `UniqueArc`, and no other serde trait method (in particular
it does not override `deserialize_in_place`, whose provided body is what `Arc.deserializeInPlace`
models).  An added impl or method is an entry point the correspondence does not exercise, so this is an
obligation.  The *bodies* of the four methods are tied to the model by the correspondence (Tie B), not
by their spelling: `serdeFormsRecognised` below is advisory (vlib/props/c17.py enlarges the
correspondence sample when the translator does not recognise a body as the literal delegation). -/
def serdeCensusOk : Bool :=
  serdeRows.length == 4 &&
  (serdeRows.map (fun r => (r.1, r.2.1, r.2.2.1))).contains ("Serialize", "Arc", "serialize") &&
  (serdeRows.map (fun r => (r.1, r.2.1, r.2.2.1))).contains ("Serialize", "UniqueArc", "serialize") &&
  (serdeRows.map (fun r => (r.1, r.2.1, r.2.2.1))).contains ("Deserialize", "Arc", "deserialize") &&
  (serdeRows.map (fun r => (r.1, r.2.1, r.2.2.1))).contains ("Deserialize", "UniqueArc", "deserialize")
theorem obl_serde_impl_census : serdeCensusOk = true := by decide

/-- advisory: the four bodies are literally `(**self).serialize(serializer)` and
`T::deserialize(deserializer).map(X::new)` -/
def serdeFormsRecognised : Bool :=
  serdeRows.contains ("Serialize", "Arc", "serialize", .derefSerialize) &&
  serdeRows.contains ("Serialize", "UniqueArc", "serialize", .derefSerialize) &&
  serdeRows.contains ("Deserialize", "Arc", "deserialize", .mapNew) &&
  serdeRows.contains ("Deserialize", "UniqueArc", "deserialize", .mapNew)

/-! ## the theorems -/

variable {α σ ε δ κ : Type}

/-- **C17_serialize_transparent.**  For every payload type (any `serialize` function), every value,
every serializer state: serialising an `Arc` or a `UniqueArc` is the same computation as serialising
the contained value — same resulting serializer state (hence the same log of callbacks, for any way
`S.calls` of reading a log out of the state), same error. -/
theorem C17_serialize_transparent (P : Payload α σ ε δ) (S : Ser σ κ) (a : Handle α) (s : σ) :
    Arc.serialize P a s = P.serialize a.val s ∧
    UniqueArc.serialize P a s = P.serialize a.val s ∧
    (Arc.serialize P a s).map S.calls = (P.serialize a.val s).map S.calls ∧
    (UniqueArc.serialize P a s).map S.calls = (P.serialize a.val s).map S.calls :=
  ⟨rfl, rfl, rfl, rfl⟩

/-- **C17_deserialize_fresh_sole_owner.**  Whenever the payload's own deserialiser yields `v`, the
`Arc` (and `UniqueArc`) deserialiser yields a handle to a **new** block — its index is the old heap
length — with count 1 and value `v` (also what the handle dereferences to); every old block is
untouched and the heap grew by exactly one block. -/
theorem C17_deserialize_fresh_sole_owner (P : Payload α σ ε δ) (h : Heap α) (d : δ) (v : α)
    (hv : P.deserialize d = .ok v) :
    ∀ r ∈ [Arc.deserialize P h d, UniqueArc.deserialize P h d],
      ∃ a, r.2 = .ok a ∧ a.idx = h.blocks.length ∧ a.val = v ∧
        r.1.blocks[a.idx]? = some ⟨1, v⟩ ∧
        r.1.blocks.length = h.blocks.length + 1 ∧
        ∀ i, i < h.blocks.length → r.1.blocks[i]? = h.blocks[i]? := by
  intro r hr
  have hr' : r = (⟨h.blocks ++ [⟨1, v⟩]⟩, .ok ⟨h.blocks.length, v⟩) := by
    simp only [List.mem_cons, List.mem_nil_iff, or_false] at hr
    rcases hr with rfl | rfl
    · simp [Arc.deserialize, hv, Handle.new]
    · simp [UniqueArc.deserialize, hv, Handle.new]
  subst hr'
  refine ⟨⟨h.blocks.length, v⟩, rfl, rfl, rfl, ?_, ?_, ?_⟩
  · simp
  · simp
  · intro i hi
    simp [List.getElem?_append_left hi]

/-- **C17_error_passthrough_no_alloc.**  Whenever the payload's own deserialiser fails with `e`,
the `Arc` (and `UniqueArc`) deserialiser fails with the same `e` and the heap is unchanged: nothing
was allocated. -/
theorem C17_error_passthrough_no_alloc (P : Payload α σ ε δ) (h : Heap α) (d : δ) (e : ε)
    (he : P.deserialize d = .error e) :
    Arc.deserialize P h d = (h, .error e) ∧ UniqueArc.deserialize P h d = (h, .error e) := by
  simp [Arc.deserialize, UniqueArc.deserialize, he]

/-- the threaded form used in the model is the source's `.map(Arc::new)` -/
theorem C17_deserialize_is_map_new (P : Payload α σ ε δ) (h : Heap α) (d : δ) :
    (Arc.deserialize P h d).2 = (P.deserialize d).map (fun v => (Handle.new h v).2) ∧
    (UniqueArc.deserialize P h d).2 = (P.deserialize d).map (fun v => (Handle.new h v).2) := by
  cases hd : P.deserialize d <;> simp [Arc.deserialize, UniqueArc.deserialize, hd, Except.map]

/-- **C17_in_place_fresh_sole_owner.**  The in-place entry point (`Deserialize::deserialize_in_place`,
not overridden — `obl_serde_impl_census` — hence serde's `*place = deserialize(d)?`): whenever the
payload's own deserialiser yields `v`, afterwards `place` holds a handle to a **new** block with count 1
and value `v`; the allocation `place` referred to before lost exactly one owner and kept its value (so
every other owner still sees the old value); every other old block is untouched. -/
theorem C17_in_place_fresh_sole_owner (P : Payload α σ ε δ) (h : Heap α) (place : Handle α) (d : δ) (v : α)
    (b : Block α) (hb : h.blocks[place.idx]? = some b) (hv : P.deserialize d = .ok v) :
    ∀ r ∈ [Arc.deserializeInPlace P h place d, UniqueArc.deserializeInPlace P h place d],
      r.2.1 = .ok () ∧ r.2.2.idx = h.blocks.length ∧ r.2.2.val = v ∧
        r.1.blocks[h.blocks.length]? = some ⟨1, v⟩ ∧
        r.1.blocks[place.idx]? = some ⟨b.count - 1, b.value⟩ ∧
        r.1.blocks.length = h.blocks.length + 1 ∧
        ∀ i, i < h.blocks.length → i ≠ place.idx → r.1.blocks[i]? = h.blocks[i]? := by
  intro r hr
  have hlt : place.idx < h.blocks.length := by
    rcases Nat.lt_or_ge place.idx h.blocks.length with h1 | h1
    · exact h1
    · rw [List.getElem?_eq_none h1] at hb; cases hb
  have hb' : (h.blocks ++ [⟨1, v⟩])[place.idx]? = some b := by
    rw [List.getElem?_append_left hlt]; exact hb
  have hr' : r = ((⟨(h.blocks ++ [(⟨1, v⟩ : Block α)]).set place.idx ⟨b.count - 1, b.value⟩⟩ : Heap α), .ok (),
      (⟨h.blocks.length, v⟩ : Handle α)) := by
    simp only [List.mem_cons, List.mem_nil_iff, or_false] at hr
    rcases hr with rfl | rfl
    · simp [Arc.deserializeInPlace, Arc.deserialize, hv, Handle.new, Heap.release, hb']
    · simp [UniqueArc.deserializeInPlace, UniqueArc.deserialize, hv, Handle.new, Heap.release, hb']
  subst hr'
  have hne : place.idx ≠ h.blocks.length := by omega
  refine ⟨rfl, rfl, rfl, ?_, ?_, ?_, ?_⟩
  · show ((h.blocks ++ [(⟨1, v⟩ : Block α)]).set place.idx ⟨b.count - 1, b.value⟩)[h.blocks.length]? = _
    rw [List.getElem?_set_ne hne]; simp
  · show ((h.blocks ++ [(⟨1, v⟩ : Block α)]).set place.idx ⟨b.count - 1, b.value⟩)[place.idx]? = _
    rw [List.getElem?_set_self (by simp; omega)]
  · simp
  · intro i hi hne'
    show ((h.blocks ++ [(⟨1, v⟩ : Block α)]).set place.idx ⟨b.count - 1, b.value⟩)[i]? = _
    rw [List.getElem?_set_ne (fun e => hne' e.symm), List.getElem?_append_left hi]

/-- **C17_in_place_error.**  Whenever the payload's own deserialiser fails with `e`, the in-place entry
point fails with the same `e`, the heap is unchanged and `place` still holds the handle it held. -/
theorem C17_in_place_error (P : Payload α σ ε δ) (h : Heap α) (place : Handle α) (d : δ) (e : ε)
    (he : P.deserialize d = .error e) :
    Arc.deserializeInPlace P h place d = (h, .error e, place) ∧
    UniqueArc.deserializeInPlace P h place d = (h, .error e, place) := by
  simp [Arc.deserializeInPlace, UniqueArc.deserializeInPlace, Arc.deserialize, UniqueArc.deserialize, he]

/-! ## non-vacuity: the concrete recording instance meets the hypotheses, with and without failure -/

/-- `(7u32, "ab")` -/
def exPair : Val := .tuple (.cons (.u32 7) (.cons (.str "ab") .nil))

-- without failure: 5 callbacks, and the Arc log is that log
example : (Arc.serialize valPayload ⟨0, (exPair, Rec.init 0)⟩ (Rec.init 0)).map recSer.calls
    = .ok [.tuple 2, .elem, .u32 7, .elem, .str "ab", .end_] := rfl
-- failure injected at the 3rd callback: error after `tuple elem u32`, through Arc and UniqueArc alike
example : Arc.serialize valPayload ⟨0, (exPair, Rec.init 0)⟩ (Rec.init 3)
    = .error ⟨3, [.tuple 2, .elem, .u32 7, .fail]⟩ := rfl
example : UniqueArc.serialize valPayload ⟨0, (exPair, Rec.init 0)⟩ (Rec.init 3)
    = .error ⟨3, [.tuple 2, .elem, .u32 7, .fail]⟩ := rfl
-- deserialisation succeeds: hypothesis of `C17_deserialize_fresh_sole_owner` is met …
example : ∃ v, valPayload.deserialize ⟨exPair, Rec.init 0⟩ = .ok v := ⟨_, rfl⟩
-- … and fails at the injected callback: hypothesis of `C17_error_passthrough_no_alloc` is met
example : valPayload.deserialize ⟨exPair, Rec.init 2⟩ = .error ⟨2, [.deTuple 2, .nextElem, .fail]⟩ := rfl

end C17
