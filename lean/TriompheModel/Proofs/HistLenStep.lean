import TriompheModel.Proofs.HistLenMem
/-!
# Every op keeps handles well-typed (helper file 4 for `Proofs/HistLen.lean`)

`TyInvG wl wd s`: every slot's handle views its block at the real length (`LenOk`), and — with
`wl` — releases it with the requested layout (`LayOk`); with `wd`, every `dealloc` event in the log
records the layout its block was requested with (`DL`).  One case analysis over `step`, for all
three settings of the switches (`wd → wl`).
-/
namespace M1
open LY

structure TyInvG (wl wd : Prop) (s : State) : Prop where
  hok : ∀ e, e ∈ s.slots → ∃ k : Block, s.mem.blocks[e.2.blk]? = some k ∧ Ok wl e.2 k.shape
  dl : wd → DL s.mem

variable {wl wd : Prop}

theorem Ok.of_shape {h : HV} {sh sh' : Shape} (ho : Ok wl h sh) (he : sh' = sh) : Ok wl h sh' := he ▸ ho

/-- releasing through a well-typed view, in a later memory -/
theorem Ok.release_later {m m1 : Mem} {a : HV} {k : Block} (ho : Ok wl a k.shape)
    (hk : m.blocks[a.blk]? = some k) (hst : Stable m m1) (hwd : wd → wl) :
    wd → ∀ k1 : Block, m1.blocks[a.blk]? = some k1 → a.ty.releaseLayout (viewLen m1 a) = k1.lay := by
  intro hw k1 hk1
  obtain ⟨k', hk', hs⟩ := hst _ k hk
  rw [hk1] at hk'; cases hk'
  exact (ho.of_shape hs).release hk1 (hwd hw)

theorem Ok.release_now {m : Mem} {a : HV} {k : Block} (ho : Ok wl a k.shape)
    (hk : m.blocks[a.blk]? = some k) (hwd : wd → wl) :
    wd → ∀ k1 : Block, m.blocks[a.blk]? = some k1 → a.ty.releaseLayout (viewLen m a) = k1.lay :=
  ho.release_later hk (Stable.refl m) hwd

namespace TyInvG
variable {s : State}

/-- the generic successor: memory evolved by `Ext`; every slot of the new table is an old slot, or
holds a handle that is well-typed for a block of the old memory, or for a block of the new one -/
theorem next (ht : TyInvG wl wd s) {m' : Mem} {sl' : Slots} (hext : Ext wd s.mem m')
    (hsl : ∀ e, e ∈ sl' → e ∈ s.slots ∨
      (∃ k : Block, s.mem.blocks[e.2.blk]? = some k ∧ Ok wl e.2 k.shape) ∨
      (∃ k : Block, m'.blocks[e.2.blk]? = some k ∧ Ok wl e.2 k.shape)) :
    TyInvG wl wd ⟨m', sl'⟩ := by
  refine ⟨?_, fun hw => hext.dl hw (ht.dl hw)⟩
  intro e he
  have old : (∃ k : Block, s.mem.blocks[e.2.blk]? = some k ∧ Ok wl e.2 k.shape) →
      ∃ k : Block, m'.blocks[e.2.blk]? = some k ∧ Ok wl e.2 k.shape := by
    rintro ⟨k, hk, ho⟩
    obtain ⟨k', hk', hs⟩ := hext.st _ k hk
    exact ⟨k', hk', ho.of_shape hs⟩
  rcases hsl e he with h | h | h
  · exact old (ht.hok e h)
  · exact old h
  · exact h

theorem slot (ht : TyInvG wl wd s) {i : Nat} {h : HV} (hl : lookup s i = some h) :
    ∃ k : Block, s.mem.blocks[h.blk]? = some k ∧ Ok wl h k.shape :=
  ht.hok (i, h) (lookup_mem hl)

theorem frame (ht : TyInvG wl wd s) {m' : Mem} (hext : Ext wd s.mem m') : TyInvG wl wd ⟨m', s.slots⟩ :=
  ht.next hext (fun _ he => Or.inl he)

theorem put_old (ht : TyInvG wl wd s) {m' : Mem} (hext : Ext wd s.mem m') (dst : Nat) {h : HV} {k : Block}
    (hk : s.mem.blocks[h.blk]? = some k) (ho : Ok wl h k.shape) : TyInvG wl wd (s.put m' dst h) := by
  apply ht.next hext
  intro e he
  rcases List.mem_cons.1 he with rfl | he
  · exact Or.inr (Or.inl ⟨k, hk, ho⟩)
  · exact Or.inl he

theorem put_new (ht : TyInvG wl wd s) {m' : Mem} (hext : Ext wd s.mem m') (dst : Nat) {h : HV} {k : Block}
    (hk : m'.blocks[h.blk]? = some k) (ho : Ok wl h k.shape) : TyInvG wl wd (s.put m' dst h) := by
  apply ht.next hext
  intro e he
  rcases List.mem_cons.1 he with rfl | he
  · exact Or.inr (Or.inr ⟨k, hk, ho⟩)
  · exact Or.inl he

theorem del (ht : TyInvG wl wd s) {m' : Mem} (hext : Ext wd s.mem m') (src : Nat) :
    TyInvG wl wd (s.del m' src) := by
  apply ht.next hext
  intro e he
  exact Or.inl (mem_delL.1 he).1

theorem set_old (ht : TyInvG wl wd s) {m' : Mem} (hext : Ext wd s.mem m') (src : Nat) {h : HV} {k : Block}
    (hk : s.mem.blocks[h.blk]? = some k) (ho : Ok wl h k.shape) : TyInvG wl wd (s.set m' src h) := by
  apply ht.next hext
  intro e he
  rcases mem_setL he with ⟨he', _⟩ | ⟨rfl, _⟩
  · exact Or.inl he'
  · exact Or.inr (Or.inl ⟨k, hk, ho⟩)

theorem set_new (ht : TyInvG wl wd s) {m' : Mem} (hext : Ext wd s.mem m') (src : Nat) {h : HV} {k : Block}
    (hk : m'.blocks[h.blk]? = some k) (ho : Ok wl h k.shape) : TyInvG wl wd (s.set m' src h) := by
  apply ht.next hext
  intro e he
  rcases mem_setL he with ⟨he', _⟩ | ⟨rfl, _⟩
  · exact Or.inl he'
  · exact Or.inr (Or.inr ⟨k, hk, ho⟩)

theorem init : TyInvG wl wd State.init where
  hok := fun e he => by cases he
  dl := fun _ b sz al hm => by cases hm

end TyInvG

theorem into_thin_eq (m : Mem) (a : HV) :
    Arc.into_thin m a =
      if ((m.blocks[a.blk]?.bind (·.recLen))).getD 0 = a.len then (m, some (ThinArc.of_arc a))
      else (Arc.drop m a, none) := rfl

theorem try_unique_eq (m : Mem) (a : HV) :
    Arc.try_unique m a = if Arc.is_unique m a = true then .ok { a with kind := .uniq } else .error a := rfl

/-! ## the ops, one by one -/

section
variable {s : State} (ht : TyInvG wl wd s) (hwd : wd → wl)
include ht hwd
set_option linter.unusedSectionVars false

theorem ty_create (dst : Nat) (c : Ctor) : TyInvG wl wd (step s (.create dst c)).1 := by
  simp only [step]
  split
  · exact ht
  · split
    · exact ht
    · rename_i m h hc
      rw [runCtor_eq, Option.map_eq_some_iff] at hc
      obtain ⟨lay, hl, he⟩ := hc
      cases he
      refine ht.put_new (Ext.append_block _ _ _ _ ?_) dst (k := ⟨1, true, lay, c.hdr, c.recLen, c.elems, false⟩)
        ?_ (ctor_ok c hl _)
      · intro _ b sz al hm; simp at hm
      · have : (c.handle s.mem.blocks.length).blk = s.mem.blocks.length := by cases c <;> rfl
        rw [this]; simp

theorem ty_clone (dst src : Nat) : TyInvG wl wd (step s (.clone dst src)).1 := by
  simp only [step]
  split
  · rename_i h hd hs
    split
    · rename_i m c hc
      obtain ⟨k, hk, ho⟩ := ht.slot hs
      obtain ⟨rfl, h2, _, _⟩ := cloneHandle_spec hc
      exact ht.put_old (Ext.incr ..) dst (h2 ▸ hk) (cloneHandle_ok hc ho)
    · exact ht
  · exact ht

theorem ty_drop (src : Nat) : TyInvG wl wd (step s (.drop src)).1 := by
  simp only [step]
  split
  · rename_i h hs
    split
    · rename_i m hd
      obtain ⟨k, hk, ho⟩ := ht.slot hs
      have := dropHandle_eq hd
      subst this
      obtain ⟨ho', _⟩ := asArc_ok (m := s.mem) ho hk
      have hk' : s.mem.blocks[(asArc s.mem h).blk]? = some k := by rw [asArc_blk]; exact hk
      exact ht.del (Ext.arc_drop _ _ (ho'.release_now hk' hwd)) src
    · exact ht
  · exact ht

theorem ty_conv (src : Nat) (c : Conv) : TyInvG wl wd (step s (.conv src c)).1 := by
  simp only [step]
  split
  · rename_i h hs
    split
    · rename_i h' hc
      obtain ⟨k, hk, ho⟩ := ht.slot hs
      obtain ⟨h1, _⟩ := runConv_spec hc
      exact ht.set_old (Ext.refl _) src (h1 ▸ hk) (runConv_ok hc ho hk)
    · exact ht
  · exact ht

theorem ty_iterCtor (dst : Nat) (w : IterCtor) (h : Option Item) (sc : IterScript) :
    TyInvG wl wd (step s (.iterCtor dst w h sc)).1 := by
  simp only [step]
  split
  · exact ht
  · have hs := runIterCtor_spec s.mem true w h sc
    generalize runIterCtor s.mem true w h sc = r at hs
    cases hs with
    | built lay hal =>
      simp only
      refine ht.put_new (Ext.append_block _ _ _ _ ?_) dst
        (k := ⟨1, true, lay, w.hdrOf h, w.recOf sc.items.length, sc.items.map some, false⟩) ?_ ?_
      · intro _ b sz al hm; simp at hm
      · simp
      · have := iter_ok (wl := wl) w hal s.mem.blocks.length
        simpa [Block.shape] using this
    | noBlock k cls =>
      simp only
      exact ht.frame (Ext.same_block _ _ _ (noDealloc_dropsOf _))
    | noAlloc n hal =>
      simp only
      exact ht.frame (Ext.same_block _ _ _ ((noDealloc_dropsOf _).append (noDealloc_hdrDrops _)))
    | leaked lay rl es k cls hes =>
      simp only
      refine ht.frame ?_
      rw [List.append_assoc]
      exact Ext.append_block _ _ _ _ (fun _ b sz al hm =>
        absurd hm ((noDealloc_alloc _ _ _).append (noDealloc_dropsOf _) b sz al))
    | thinMismatch lay n1 hw hn hal =>
      simp only
      refine ht.frame ?_
      rw [List.append_assoc]
      refine Ext.append_block _ _ _ _ ?_
      intro _ b sz al hm
      simp only [List.mem_append, List.mem_cons, List.not_mem_nil, or_false, reduceCtorEq, false_or,
        Event.dealloc.injEq] at hm
      rcases hm with (hm | hm) | hm
      · exact absurd hm (noDealloc_hdrDrops _ _ _ _)
      · exact absurd hm (noDealloc_dropsOf _ _ _ _)
      · obtain ⟨rfl, rfl, rfl⟩ := hm
        subst hw
        exact ⟨rfl, by simp only [lay_eta]; exact (rel_hwl hal).symm⟩

theorem ty_intoThin (src : Nat) : TyInvG wl wd (step s (.intoThin src)).1 := by
  simp only [step]
  split
  · rename_i h hs
    obtain ⟨k, hk, ho⟩ := ht.slot hs
    split
    · rename_i hc
      have hnt : h.kind.isThin = false := isThin_of_eq hc.1 rfl
      by_cases hrec : ((s.mem.blocks[h.blk]?.bind (·.recLen))).getD 0 = h.len
      · rw [into_thin_eq, if_pos hrec]
        simp only
        refine ht.set_old (Ext.refl _) src (h := ThinArc.of_arc h) hk (ho.toThin hc.2 ?_ rfl hc.2)
        have h1 := ho.1.hasRl hc.2
        have h2 := ho.1.fat hnt (by rw [hc.2]; rfl)
        simp only [Block.shape] at h1 h2 ⊢
        rw [hk] at hrec
        cases hr : k.recLen with
        | none => exact absurd hr h1
        | some r =>
          simp only [Option.bind_some, hr, Option.getD_some] at hrec
          rw [hrec, h2]
      · rw [into_thin_eq, if_neg hrec]
        simp only
        exact ht.del (Ext.arc_drop _ _ (ho.release_now hk hwd)) src
    · exact ht
  · exact ht

theorem ty_cloneArc (dst src : Nat) : TyInvG wl wd (step s (.cloneArc dst src)).1 := by
  simp only [step]
  split
  · rename_i h hd hs
    obtain ⟨k, hk, ho⟩ := ht.slot hs
    split
    · rename_i m a hr
      split at hr
      · rename_i hc
        cases hr
        exact ht.put_old (Ext.incr ..) dst (h := Arc.from_raw s.mem (ArcBorrow.of_arc s.mem h)) hk
          (ho.rekind (isThin_of_eq hc.1 rfl) rfl rfl rfl (by intro h; cases h))
      · split at hr
        · rename_i hc
          cases hr
          exact ht.put_old (Ext.incr ..) dst (h := { OffsetArc.transient s.mem h with kind := .arc }) hk
            (ho.rekind (isThin_of_eq hc rfl) rfl rfl rfl (by intro h; cases h))
        · split at hr
          · rename_i hc
            cases hr
            have hnt : h.kind.isThin = false := by rcases hc with hc | hc <;> rw [hc] <;> rfl
            exact ht.put_old (Ext.incr ..) dst (h := Arc.from_raw s.mem (ArcUnion.borrow h)) hk
              (ho.rekind hnt rfl rfl rfl (by intro h; cases h))
          · cases hr
    · exact ht
  · exact ht

theorem ty_isUnique (src : Nat) : TyInvG wl wd (step s (.isUnique src)).1 := by
  simp only [step]
  split
  · split <;> exact ht
  · exact ht

theorem ty_getMut (src v : Nat) : TyInvG wl wd (step s (.getMut src v)).1 := by
  simp only [step]
  split
  · split
    · split
      · exact ht.frame (Ext.writeVal ..)
      · exact ht
    · exact ht
  · exact ht

theorem ty_getUnique (src v : Nat) : TyInvG wl wd (step s (.getUnique src v)).1 := by
  simp only [step]
  split
  · split
    · split
      · exact ht.frame (Ext.writeVal ..)
      · exact ht
    · exact ht
  · exact ht

theorem ty_uniqWrite (src v : Nat) : TyInvG wl wd (step s (.uniqWrite src v)).1 := by
  simp only [step]
  split
  · split
    · exact ht.frame (Ext.writeVal ..)
    · exact ht
  · exact ht

theorem ty_writeSlot (src i : Nat) (v : Item) : TyInvG wl wd (step s (.writeSlot src i v)).1 := by
  simp only [step]
  split
  · split
    · split
      · simp only
        split
        · exact ht.frame (Ext.emit _ (fun _ _ _ h => by simp at h))
        · exact ht
      · exact ht.frame (Ext.upd _ _ _ (fun k => by simp [Block.shape]))
    · exact ht
  · exact ht

theorem ty_tryUnique (src : Nat) : TyInvG wl wd (step s (.tryUnique src)).1 := by
  simp only [step]
  split
  · rename_i h hs
    obtain ⟨k, hk, ho⟩ := ht.slot hs
    split
    · rename_i hc
      by_cases hu : Arc.is_unique s.mem h = true
      · rw [try_unique_eq, if_pos hu]
        simp only
        exact ht.set_old (Ext.refl _) src (h := { h with kind := .uniq }) hk
          (ho.rekind (isThin_of_eq hc.1 rfl) rfl rfl rfl (by intro h; cases h))
      · rw [try_unique_eq, if_neg hu]
        exact ht
    · exact ht
  · exact ht

theorem ty_intoInner (src : Nat) : TyInvG wl wd (step s (.intoInner src)).1 := by
  simp only [step]
  split
  · rename_i h hs
    obtain ⟨k, hk, ho⟩ := ht.slot hs
    split
    · exact ht.del (Ext.into_inner _ _ (ho.release_now hk hwd)) src
    · exact ht
  · exact ht

end

/-- `Arc::try_unwrap` through a well-typed fat handle -/
theorem try_unwrap_ext {m : Mem} {a : HV} {k : Block} (ho : Ok wl a k.shape) (hk : m.blocks[a.blk]? = some k)
    (hnt : a.kind.isThin = false) (hwd : wd → wl) : Ext wd m (Arc.try_unwrap m a).1 := by
  by_cases hu : Arc.is_unique m a = true
  · simp only [Arc.try_unwrap, try_unique_eq, if_pos hu]
    have ho' : Ok wl { a with kind := .uniq } k.shape :=
      ho.rekind hnt rfl rfl rfl (by intro h; cases h)
    exact Ext.into_inner _ _ (ho'.release_now (a := { a with kind := .uniq }) hk hwd)
  · simp only [Arc.try_unwrap, try_unique_eq, if_neg hu]
    exact Ext.refl _

section
variable {s : State} (ht : TyInvG wl wd s) (hwd : wd → wl)
include ht hwd
set_option linter.unusedSectionVars false

theorem ty_tryUnwrap (src : Nat) : TyInvG wl wd (step s (.tryUnwrap src)).1 := by
  simp only [step]
  split
  · rename_i h hs
    obtain ⟨k, hk, ho⟩ := ht.slot hs
    split
    · rename_i hc
      have hext := try_unwrap_ext (wd := wd) ho hk (isThin_of_eq hc.1 rfl) hwd
      split
      · rename_i m v he; rw [he] at hext; exact ht.del hext src
      · exact ht
    · exact ht
  · exact ht

theorem ty_unwrapOrClone (src : Nat) (cp : Bool) : TyInvG wl wd (step s (.unwrapOrClone src cp)).1 := by
  simp only [step]
  split
  · rename_i h hs
    obtain ⟨k, hk, ho⟩ := ht.slot hs
    split
    · rename_i hc
      have hext := try_unwrap_ext (wd := wd) ho hk (isThin_of_eq hc.1 rfl) hwd
      rcases try_unwrap_spec s.mem h with ⟨m', v, he, _, _⟩ | ⟨he, _⟩
      · rw [he] at hext ⊢; exact ht.del hext src
      · rw [he]
        simp only
        split
        · exact ht.del (Ext.arc_drop _ _ (ho.release_now hk hwd)) src
        · refine ht.del ((Ext.cloneValue s.mem h.blk).trans (Ext.arc_drop _ _ ?_)) src
          exact ho.release_later hk (Ext.cloneValue (wd := wd) s.mem h.blk).st hwd
    · exact ht
  · exact ht

end

/-! ### `make_mut` -/

theorem make_mut_ty {m : Mem} {a : HV} {k : Block} (cp : Bool) (ho : Ok wl a k.shape)
    (hk : m.blocks[a.blk]? = some k) (hns : a.ty.isSlicey = false) (hwd : wd → wl) :
    Ext wd m (Arc.make_mut m a cp).1 ∧
    ∀ f, (Arc.make_mut m a cp).2 = some f →
      f = a ∨ (f.kind = .arc ∧ f.ty = a.ty ∧
        ∃ k' : Block, (Arc.make_mut m a cp).1.blocks[f.blk]? = some k' ∧ Ok wl f k'.shape) := by
  rw [make_mut_eq]
  split
  · exact ⟨Ext.refl _, fun f hf => Or.inl (by cases hf; rfl)⟩
  · split
    · exact ⟨Ext.refl _, fun f hf => by cases hf⟩
    · have e1 : Ext wd m (cloneValue m a.blk).1 := Ext.cloneValue m a.blk
      have e2 : Ext wd (cloneValue m a.blk).1 (Arc.new (cloneValue m a.blk).1 a.ty (cloneValue m a.blk).2).1 :=
        Ext.alloc ..
      have e12 := e1.trans e2
      have e3 : Ext wd (Arc.new (cloneValue m a.blk).1 a.ty (cloneValue m a.blk).2).1
          (Arc.drop (Arc.new (cloneValue m a.blk).1 a.ty (cloneValue m a.blk).2).1 a) :=
        Ext.arc_drop _ _ (ho.release_later hk e12.st hwd)
      refine ⟨e12.trans e3, ?_⟩
      intro f hf
      simp only [Option.some.injEq] at hf
      subst hf
      right
      refine ⟨rfl, rfl, ?_⟩
      have hnb : (Arc.new (cloneValue m a.blk).1 a.ty (cloneValue m a.blk).2).1.blocks[
            (Arc.new (cloneValue m a.blk).1 a.ty (cloneValue m a.blk).2).2.blk]? =
          some ⟨1, true, allocLayoutBoxNew bits a.ty.elemLay, none, none, [(cloneValue m a.blk).2], false⟩ := by
        simp [Arc.new, allocBlock]
      obtain ⟨k', hk', hs'⟩ := e3.st _ _ hnb
      refine ⟨k', hk', Ok.of_shape ?_ hs'⟩
      exact ok_sized_new hns rfl (by decide) ..

section
variable {s : State} (ht : TyInvG wl wd s) (hwd : wd → wl)
include ht hwd
set_option linter.unusedSectionVars false

theorem make_mut_set {src : Nat} {a : HV} {k : Block} {cp : Bool} (ho : Ok wl a k.shape)
    (hk : s.mem.blocks[a.blk]? = some k) (hns : a.ty.isSlicey = false) {m' : Mem} {f : HV}
    (hmm : Arc.make_mut s.mem a cp = (m', some f)) (v : Nat) (g : HV → HV) (hgb : ∀ x, (g x).blk = x.blk)
    (hg : ∀ x sh, x.ty = a.ty → (x = a ∨ x.kind = .arc) → Ok wl x sh → Ok wl (g x) sh) :
    TyInvG wl wd (s.set (writeVal m' f.blk v) src (g f)) := by
  obtain ⟨hext, hf⟩ := make_mut_ty (wd := wd) cp ho hk hns hwd
  rw [hmm] at hext hf
  have hext' : Ext wd s.mem (writeVal m' f.blk v) := hext.trans (Ext.writeVal ..)
  rcases hf f rfl with rfl | ⟨hfk, hft, k', hk', ho'⟩
  · exact ht.set_old hext' src (h := g f) (by rw [hgb]; exact hk) (hg f _ rfl (Or.inl rfl) ho)
  · obtain ⟨k'', hk'', hs''⟩ := (Ext.writeVal (wd := wd) m' f.blk v).st _ _ hk'
    exact ht.set_new hext' src (h := g f) (by rw [hgb]; exact hk'')
      (hg f _ hft (Or.inr hfk) (ho'.of_shape hs''))

theorem ty_makeMut (src v : Nat) (cp : Bool) : TyInvG wl wd (step s (.makeMut src v cp)).1 := by
  simp only [step]
  split
  · rename_i h hs
    obtain ⟨k, hk, ho⟩ := ht.slot hs
    split
    · rename_i hc
      split
      · rename_i m h' hmm
        exact make_mut_set ht hwd ho hk (by rw [hc.2]; rfl) hmm v id (fun _ => rfl) (fun _ _ _ _ h => h)
      · exact ht
    · split
      · rename_i hc
        have hty : h.ty = .sized := ho.1.off hc
        have hoa : Ok wl (Arc.from_raw_offset s.mem h) k.shape :=
          ho.rekind (isThin_of_eq hc rfl) rfl rfl rfl (by intro h; cases h)
        split
        · rename_i m a' hmm
          refine make_mut_set ht hwd (a := Arc.from_raw_offset s.mem h) hoa hk (by
            show h.ty.isSlicey = false
            rw [hty]; rfl) hmm v (fun x => Arc.into_raw_offset m x) (fun _ => rfl) ?_
          intro x sh hx hkx hox
          have hxt : x.ty = .sized := hx.trans hty
          have hnt : x.kind.isThin = false := by
            rcases hkx with rfl | hkx
            · rfl
            · rw [hkx]; rfl
          exact hox.rekind hnt rfl rfl rfl (fun _ => hxt)
        · exact ht
      · exact ht
  · exact ht

theorem ty_makeUnique (src v : Nat) (cp : Bool) : TyInvG wl wd (step s (.makeUnique src v cp)).1 := by
  simp only [step]
  split
  · rename_i h hs
    obtain ⟨k, hk, ho⟩ := ht.slot hs
    split
    · rename_i hc
      split
      · rename_i m h' hmm
        exact make_mut_set ht hwd ho hk (by rw [hc.2]; rfl) hmm v id (fun _ => rfl) (fun _ _ _ _ h => h)
      · exact ht
    · exact ht
  · exact ht

/-! ### `dropAll` -/

theorem ty_releaseSlot (i : Nat) : TyInvG wl wd (releaseSlot s i) := by
  unfold releaseSlot
  split
  · rename_i h hs
    obtain ⟨k, hk, ho⟩ := ht.slot hs
    obtain ⟨ho', _⟩ := asArc_ok (m := s.mem) ho hk
    have hk' : s.mem.blocks[(asArc s.mem h).blk]? = some k := by rw [asArc_blk]; exact hk
    exact ht.del (Ext.arc_drop _ _ (ho'.release_now hk' hwd)) i
  · exact ht

end

theorem ty_dropAllFrom (hwd : wd → wl) (keys : List Nat) :
    ∀ {s : State}, TyInvG wl wd s → TyInvG wl wd (dropAllFrom keys s) := by
  induction keys with
  | nil => intro s ht; exact ht
  | cons k r ih =>
    intro s ht
    simp only [dropAllFrom, List.foldl_cons]
    exact ih (ty_releaseSlot ht hwd k)

theorem ty_dropAll {s : State} (ht : TyInvG wl wd s) (hwd : wd → wl) : TyInvG wl wd (step s .dropAll).1 := by
  simp only [step]
  exact ty_dropAllFrom hwd _ ht

/-! ### callbacks -/

theorem cloneHandle_ty {m m' : Mem} {h c : HV} (hc : cloneHandle m h = some (m', c))
    (hnt : h.kind.isThin = false) : c.ty = h.ty := by
  unfold cloneHandle at hc
  split at hc
  all_goals
    rename_i hkd
    cases hc
  · rfl
  · rw [hkd] at hnt; cases hnt
  · rfl
  · simp only [hkd, if_true]; rfl
  · simp only [hkd]; rfl

/-- the transient lent to a callback is a well-typed fat view of its block; under `with_arc_mut`
it is the `HeaderWithLength` view of a block whose stored length is real -/
def TOk (wl : Prop) (api : CbApi) (m : Mem) (t : HV) : Prop :=
  ∃ k : Block, m.blocks[t.blk]? = some k ∧ Ok wl t k.shape ∧ t.kind.isThin = false ∧
    (api = .thinWithArcMut → t.ty = .hwl ∧ k.recLen = some k.elems.length)

theorem TOk.later {api : CbApi} {m m' : Mem} {t : HV} (h : TOk wl api m t) (hst : Stable m m') :
    TOk wl api m' t := by
  obtain ⟨k, hk, ho, hnt, hth⟩ := h
  obtain ⟨k', hk', hs⟩ := hst _ k hk
  refine ⟨k', hk', ho.of_shape hs, hnt, ?_⟩
  intro ha
  obtain ⟨h1, h2⟩ := hth ha
  have e1 : k'.recLen = k.recLen := congrArg Shape.rl hs
  have e2 : k'.elems.length = k.elems.length := congrArg Shape.n hs
  exact ⟨h1, by rw [e1, e2]; exact h2⟩

theorem transientOf_tok {s : State} (ht : TyInvG wl wd s) {src : Nat} {h t : HV} {api : CbApi}
    (hs : lookup s src = some h) (htr : transientOf s.mem api h = some t) : TOk wl api s.mem t := by
  obtain ⟨k, hk, ho⟩ := ht.slot hs
  cases api <;> simp only [transientOf] at htr
  case rawOffset =>
    split at htr
    · rename_i hc; cases htr
      exact ⟨k, hk, ho.rekind (isThin_of_eq hc.1 rfl) rfl rfl rfl (fun _ => hc.2), rfl, by intro h; cases h⟩
    · cases htr
  case offsetWithArc =>
    split at htr
    · rename_i hc; cases htr
      exact ⟨k, hk, ho.rekind (isThin_of_eq hc rfl) rfl rfl rfl (by intro h; cases h), rfl, by intro h; cases h⟩
    · cases htr
  case borrowWithArc =>
    split at htr
    · rename_i hc; cases htr
      exact ⟨k, hk, ho.rekind (isThin_of_eq hc.1 rfl) rfl rfl rfl (by intro h; cases h), rfl, by intro h; cases h⟩
    · split at htr
      · rename_i hc; cases htr
        have hnt : h.kind.isThin = false := by rcases hc with hc | hc <;> rw [hc] <;> rfl
        exact ⟨k, hk, ho.rekind hnt rfl rfl rfl (by intro h; cases h), rfl, by intro h; cases h⟩
      · cases htr
  case thinWithArc =>
    split at htr
    · rename_i hc; cases htr
      exact ⟨k, hk, thick_ok ho hk (by rw [hc]; rfl), rfl, by intro h; cases h⟩
    · cases htr
  case thinWithArcMut =>
    split at htr
    · rename_i hc; cases htr
      have hth : h.kind.isThin = true := by rw [hc]; rfl
      exact ⟨k, hk, thick_ok ho hk hth, rfl, fun _ => ⟨rfl, (ho.1.thin hth).2⟩⟩
    · cases htr

theorem ty_withCb {s : State} (ht : TyInvG wl wd s) (hwd : wd → wl) (src : Nat) (api : CbApi)
    (script : List CbAct) : TyInvG wl wd (step s (.withCb src api script)).1 := by
  simp only [step]
  split
  · rename_i h hs
    split
    · rename_i t htr
      have h0 := transientOf_tok ht hs htr
      obtain ⟨t', h, _⟩ := runCb_ind api src (fun s t => TyInvG wl wd s ∧ TOk wl api s.mem t)
        (by
          intro s t k m c hp hk hc
          obtain ⟨ht, htok⟩ := hp
          obtain ⟨kb, hkb, ho, hnt, hth⟩ := htok
          obtain ⟨rfl, h2, _, _⟩ := cloneHandle_spec hc
          have hoc := cloneHandle_ok hc ho
          have hty := cloneHandle_ty hc hnt
          refine ⟨?_, TOk.later ⟨kb, hkb, ho, hnt, hth⟩ (Ext.incr (wd := wd) ..).st⟩
          split
          · rename_i ha
            obtain ⟨h3, h4⟩ := hth ha
            exact ht.put_old (Ext.incr ..) k (h := ThinArc.of_arc c) (h2 ▸ hkb)
              (hoc.toThin (hty.trans h3) h4 rfl (hty.trans h3))
          · exact ht.put_old (Ext.incr ..) k (h2 ▸ hkb) hoc)
        (by
          intro s t k hp hk _
          obtain ⟨ht, htok⟩ := hp
          obtain ⟨kb, hkb, ho, hnt, hth⟩ := htok
          refine ⟨?_, TOk.later ⟨kb, hkb, ho, hnt, hth⟩ (Ext.incr (wd := wd) ..).st⟩
          exact ht.put_old (Ext.incr ..) k (h := { OffsetArc.transient s.mem t with kind := .arc }) hkb
            (ho.rekind hnt rfl rfl rfl (by intro h; cases h)))
        (by
          intro s t v hp
          exact ⟨hp.1.frame (Ext.writeVal ..), hp.2.later (Ext.writeVal (wd := wd) ..).st⟩)
        (by
          intro s t k h2 hp hne hlk hthin
          obtain ⟨ht, htok⟩ := hp
          obtain ⟨kb, hkb, ho, hnt, hth⟩ := htok
          obtain ⟨k2, hk2, ho2⟩ := ht.slot hlk
          have hth2 : h2.kind.isThin = true := by rw [hthin]; rfl
          have hext : Ext wd s.mem (Arc.drop s.mem t) := Ext.arc_drop _ _ (ho.release_now hkb hwd)
          have hthick := thick_ok (m := s.mem) ho2 hk2 hth2
          refine ⟨?_, TOk.later ⟨k2, hk2, hthick, rfl, fun _ => ⟨rfl, (ho2.1.thin hth2).2⟩⟩ hext.st⟩
          apply ht.next hext
          intro e he
          have he : e ∈ setL (delL s.slots k) src (ThinArc.of_arc (ThinArc.thick s.mem h2)) := he
          rcases mem_setL he with ⟨he', _⟩ | ⟨rfl, _⟩
          · exact Or.inl (mem_delL.1 he').1
          · exact Or.inr (Or.inl ⟨k2, hk2, hthick.toThin rfl (ho2.1.thin hth2).2 rfl rfl⟩))
        (by
          intro s t k h2 hp hne hlk hthin ha
          obtain ⟨ht, htok⟩ := hp
          obtain ⟨kb, hkb, ho, hnt, hth⟩ := htok
          obtain ⟨h3, h4⟩ := hth ha
          obtain ⟨k2, hk2, ho2⟩ := ht.slot hlk
          have hth2 : h2.kind.isThin = true := by rw [hthin]; rfl
          have hthick := thick_ok (m := s.mem) ho2 hk2 hth2
          refine ⟨?_, ⟨k2, hk2, hthick, rfl, fun _ => ⟨rfl, (ho2.1.thin hth2).2⟩⟩⟩
          apply ht.next (Ext.refl _)
          intro e he
          have he : e ∈ setL (setL s.slots k (ThinArc.of_arc t)) src
              (ThinArc.of_arc (ThinArc.thick s.mem h2)) := he
          rcases mem_setL he with ⟨he', _⟩ | ⟨rfl, _⟩
          · rcases mem_setL he' with ⟨he'', _⟩ | ⟨rfl, _⟩
            · exact Or.inl he''
            · exact Or.inr (Or.inl ⟨kb, hkb, ho.toThin h3 h4 rfl h3⟩)
          · exact Or.inr (Or.inl ⟨k2, hk2, hthick.toThin rfl (ho2.1.thin hth2).2 rfl rfl⟩))
        script s t "" ⟨ht, h0⟩
      exact h
    · exact ht
  · exact ht

/-- every op keeps every handle well-typed (and the `dealloc` layouts right) -/
theorem ty_step {s : State} (ht : TyInvG wl wd s) (hwd : wd → wl) (op : Op) : TyInvG wl wd (step s op).1 := by
  cases op with
  | create dst c => exact ty_create ht hwd dst c
  | iterCtor dst w h sc => exact ty_iterCtor ht hwd dst w h sc
  | clone dst src => exact ty_clone ht hwd dst src
  | drop src => exact ty_drop ht hwd src
  | conv src c => exact ty_conv ht hwd src c
  | intoThin src => exact ty_intoThin ht hwd src
  | cloneArc dst src => exact ty_cloneArc ht hwd dst src
  | isUnique src => exact ty_isUnique ht hwd src
  | getMut src v => exact ty_getMut ht hwd src v
  | getUnique src v => exact ty_getUnique ht hwd src v
  | makeMut src v cp => exact ty_makeMut ht hwd src v cp
  | makeUnique src v cp => exact ty_makeUnique ht hwd src v cp
  | tryUnwrap src => exact ty_tryUnwrap ht hwd src
  | unwrapOrClone src cp => exact ty_unwrapOrClone ht hwd src cp
  | intoInner src => exact ty_intoInner ht hwd src
  | tryUnique src => exact ty_tryUnique ht hwd src
  | uniqWrite src v => exact ty_uniqWrite ht hwd src v
  | writeSlot src i v => exact ty_writeSlot ht hwd src i v
  | withCb src api script => exact ty_withCb ht hwd src api script
  | dropAll => exact ty_dropAll ht hwd

end M1
