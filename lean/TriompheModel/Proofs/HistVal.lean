import TriompheModel.Proofs.HistValOps
import TriompheModel.Proofs.HistLen
/-!
# The value-level invariant of the sequential handle machine (M1)

"Every value's destructor runs at most once, values stored in live blocks have not been destroyed,
and nothing the caller did not hand in (or `Clone` did not create) is ever destroyed."

`ValInv seen s` (`= ValInvM seen s.mem`, `Proofs/HistValBase.lean`) where `seen` are the identities
handed in so far.  Proved for `State.init`, preserved by `step s op` for EVERY op whose own
identities are new, distinct and below the `Clone` range, hence true of `run ops` for every history
with `FreshIds ops` (what the generator guarantees; decidable).

Where a value leaves the model without a `.drop` event (so "at most once", not "exactly once"):
`UniqueArc::into_inner` / `try_unwrap` success (moved out to the caller), half-built blocks
abandoned by a panicking constructor (live + leaked for ever), `MaybeUninit` views dropped (only the
header is destroyed), a written slot overwritten by `writeSlot`, items a panicking `fillLoop` had
already taken.  `drop_releases_exactly` gives the "exactly" direction for a block released through
an initialised view.
-/
namespace M1
open LY

/-- the value invariant of a state is that of its memory (fields: `drops_nodup`, `ids_nodup`,
`disjoint`, `placed_not_dropped`, `known`, `seen_lt`, `clone_bound`, `dz`) -/
abbrev ValInv (seen : List Nat) (s : State) : Prop := ValInvM seen s.mem

/-- what the generator guarantees about a history: the identities it hands in are pairwise
distinct and below the first identity `Clone` hands out -/
def FreshIds (ops : List Op) : Prop := (histIds ops).Nodup ∧ ∀ i, i ∈ histIds ops → i < 1000000

instance (ops : List Op) : Decidable (FreshIds ops) := by unfold FreshIds; infer_instance

theorem valinv_init : ValInv [] State.init := ValInvM.init

/-- every op preserves the value invariant (`LenInv` is not needed for the "at most once" facts) -/
theorem valinv_step (seen : List Nat) (s : State) (op : Op) (hi : Inv s) (_hl : LenInv s)
    (hv : ValInv seen s) (hfresh : ∀ i, i ∈ opIds op → i ∉ seen ∧ i < 1000000) (hnd : (opIds op).Nodup) :
    ValInv (seen ++ opIds op) (step s op).1 :=
  val_step hi.toInv' hv op ⟨hfresh, hnd⟩

theorem histIds_cons (o : Op) (r : List Op) : histIds (o :: r) = opIds o ++ histIds r := by
  simp [histIds]

theorem valinv_run_from (ops : List Op) : ∀ (seen : List Nat) (s : State), Inv s → ValInv seen s →
    (histIds ops).Nodup → (∀ i, i ∈ histIds ops → i ∉ seen ∧ i < 1000000) →
    ValInv (seen ++ histIds ops) (ops.foldl (fun s o => (step s o).1) s) := by
  induction ops with
  | nil => intro seen s _ hv _ _; simpa [histIds] using hv
  | cons o r ih =>
    intro seen s hi hv hnd hfr
    rw [histIds_cons] at hnd hfr ⊢
    rw [List.nodup_append] at hnd
    obtain ⟨hn1, hn2, hdis⟩ := hnd
    have hstep := val_step hi.toInv' hv o ⟨fun i h => hfr i (List.mem_append_left _ h), hn1⟩
    rw [← List.append_assoc]
    apply ih (seen ++ opIds o) _ (inv_step s o hi) hstep hn2
    intro i h
    refine ⟨?_, (hfr i (List.mem_append_right _ h)).2⟩
    intro hm
    rcases List.mem_append.1 hm with hm | hm
    · exact (hfr i (List.mem_append_right _ h)).1 hm
    · exact hdis i hm i h rfl

/-- the value invariant holds after every history whose identities are fresh -/
theorem valinv_run (ops : List Op) (h : FreshIds ops) : ValInv (histIds ops) (run ops) := by
  have := valinv_run_from ops [] State.init inv_init valinv_init h.1 (fun i hi => ⟨by simp, h.2 i hi⟩)
  rw [List.nil_append] at this
  exact this

/-! ## corollaries quoted by the property theorems -/

/-- [C07] no value is destroyed twice -/
theorem drop_at_most_once (ops : List Op) (h : FreshIds ops) : (dropIds (run ops).mem.log).Nodup :=
  (valinv_run ops h).drops_nodup

/-- what a live block (an abandoned one included) stores has not been destroyed -/
theorem live_values_not_destroyed (ops : List Op) (h : FreshIds ops) (b : Nat) (k : Block)
    (hk : (run ops).mem.blocks[b]? = some k) (hl : k.live = true) :
    ∀ i, i ∈ k.ids → i ∉ dropIds (run ops).mem.log :=
  (valinv_run ops h).placed_not_dropped b k hk hl

/-- only values the caller handed in, or that `Clone` created, are ever destroyed -/
theorem destroyed_values_were_handed_in (ops : List Op) (h : FreshIds ops) :
    ∀ i, i ∈ dropIds (run ops).mem.log → i ∈ histIds ops ∨ 1000000 ≤ i := by
  intro i hi
  rcases (valinv_run ops h).known i (Or.inl hi) with h' | h'
  · exact Or.inl h'
  · exact Or.inr h'.1

/-- … and the same for everything stored in any block -/
theorem stored_values_were_handed_in (ops : List Op) (h : FreshIds ops) (b : Nat) (k : Block)
    (hk : (run ops).mem.blocks[b]? = some k) :
    ∀ i, i ∈ k.ids → i ∈ histIds ops ∨ (1000000 ≤ i ∧ i < (run ops).mem.nextClone) :=
  fun i hi => (valinv_run ops h).known i (Or.inr ⟨b, k, hk, hi⟩)

/-- two live blocks never store the same value; a live, not abandoned block stores each once -/
theorem live_blocks_disjoint (ops : List Op) (h : FreshIds ops) (b b' : Nat) (k k' : Block) (hne : b ≠ b')
    (hk : (run ops).mem.blocks[b]? = some k) (hk' : (run ops).mem.blocks[b']? = some k')
    (hl : k.live = true) (hl' : k'.live = true) : ∀ i, i ∈ k.ids → i ∉ k'.ids :=
  (valinv_run ops h).disjoint b b' k k' hne hk hk' hl hl'

theorem live_block_ids_nodup (ops : List Op) (h : FreshIds ops) (b : Nat) (k : Block)
    (hk : (run ops).mem.blocks[b]? = some k) (hl : k.live = true) (hlk : k.leaked = false) : k.ids.Nodup :=
  (valinv_run ops h).ids_nodup b k hk hl hlk

/-! ## "exactly once" at the release -/

/-- memory level: the last `drop_inner` through an initialised view of the whole payload destroys
exactly the identities stored in the block, in order (header first) -/
theorem decr_last_drops_exactly (m : Mem) (b : Nat) (t : Ty) (len : Nat) (k : Block)
    (hk : m.blocks[b]? = some k) (hc : k.count = 1) (ht : t.elemsInit = true) (hlen : k.elems.length ≤ len) :
    dropIds (decr m b t len).log = dropIds m.log ++ k.ids := by
  rw [decr_log, hk]
  simp only [hc, if_true]
  rw [dropIds_append, dropIds_append, dropIds_payloadDrops_exact b k ht hlen]
  simp [dropIds, Event.dropId?]

/-- `drop_inner` that is not the last one destroys nothing -/
theorem decr_not_last_drops_nothing (m : Mem) (b : Nat) (t : Ty) (len : Nat) (k : Block)
    (hk : m.blocks[b]? = some k) (hc : k.count ≠ 1) : (decr m b t len).log = m.log := by
  rw [decr_log, hk]; simp [hc]

/-- [C01/C06] op level: dropping the ONLY handle to a block through a view whose elements are
initialised destroys exactly the values stored in the block, each once, header first, and the block
dies; (with `live_values_not_destroyed` none of them had been destroyed before) -/
theorem drop_releases_exactly (s : State) (src : Nat) (h : HV) (hi : Inv s) (hl : LenInv s)
    (hs : lookup s src = some h) (hown : owners s h.blk = 1) (hinit : (asArc s.mem h).ty.elemsInit = true)
    (hd : (dropHandle s.mem h).isSome = true) :
    ∃ k : Block, s.mem.blocks[h.blk]? = some k ∧
      dropIds (step s (.drop src)).1.mem.log = dropIds s.mem.log ++ k.ids := by
  obtain ⟨k, hk, _, _, hcnt⟩ := slot_block hi hs
  obtain ⟨k', hk', _, hvl⟩ := hl.viewLen_eq hs
  rw [hk] at hk'; cases hk'
  refine ⟨k, hk, ?_⟩
  simp only [step, hs]
  cases hdh : dropHandle s.mem h with
  | none => rw [hdh] at hd; cases hd
  | some m =>
    simp only
    have := dropHandle_eq hdh
    subst this
    show dropIds (Arc.drop s.mem (asArc s.mem h)).log = _
    rw [Arc.drop_eq, asArc_blk]
    exact decr_last_drops_exactly _ _ _ _ k hk (by rw [hcnt, hown]) hinit (by rw [hvl]; exact Nat.le_refl _)

/-- dropping a handle that is not the only one destroys nothing -/
theorem drop_shared_destroys_nothing (s : State) (src : Nat) (h : HV) (hi : Inv s)
    (hs : lookup s src = some h) (hown : owners s h.blk ≠ 1) :
    dropIds (step s (.drop src)).1.mem.log = dropIds s.mem.log := by
  obtain ⟨k, hk, _, _, hcnt⟩ := slot_block hi hs
  simp only [step, hs]
  cases hdh : dropHandle s.mem h with
  | none => rfl
  | some m =>
    simp only
    have := dropHandle_eq hdh
    subst this
    show dropIds (Arc.drop s.mem (asArc s.mem h)).log = _
    rw [Arc.drop_eq, asArc_blk, decr_not_last_drops_nothing _ _ _ _ k hk (by rw [hcnt]; exact hown)]

/-! ## non-vacuity -/

/-- `make_mut` on a shared `Arc` (the clone gets identity 1000000), `try_unwrap` moving value 1 out,
an uninitialised slice partly written and dropped (value 2 is forgotten, not destroyed), an iterator
that over-reports its length (block 3 abandoned with header 3), one that panics in `next()` (block 4
abandoned, item 7 destroyed with the iterator), a header+slice built and dropped (8, 9, 10 destroyed
in order), finally the clone destroyed -/
def exampleValHistory : List Op :=
  [.create 0 (.new ⟨1, 10⟩), .clone 1 0, .makeMut 1 5 false, .tryUnwrap 0,
   .create 2 (.newUninitSlice 2), .writeSlot 2 0 ⟨2, 20⟩, .drop 2,
   .iterCtor 3 .hsFromIter (some ⟨3, 30⟩) ⟨[5], [], [⟨4, 40⟩, ⟨5, 50⟩], none⟩,
   .iterCtor 4 .fromIter none ⟨[], [], [⟨6, 60⟩, ⟨7, 70⟩], some 1⟩,
   .create 5 (.hsFromVec ⟨8, 80⟩ [⟨9, 90⟩, ⟨10, 100⟩]), .drop 5,
   .drop 1]

example : FreshIds exampleValHistory := by decide

example : histIds exampleValHistory = [1, 2, 3, 4, 5, 6, 7, 8, 9, 10] ∧
    dropIds (run exampleValHistory).mem.log = [7, 8, 9, 10, 1000000] ∧
    (run exampleValHistory).mem.blocks.map (fun k => (k.live, k.leaked, k.ids)) =
      [(false, false, [1]), (false, false, [1000000]), (false, false, [2]), (true, true, [3]),
       (true, true, []), (false, false, [8, 9, 10])] := by decide

example : ValInv (histIds exampleValHistory) (run exampleValHistory) :=
  valinv_run _ (by decide)

end M1
