"""Regenerates MANIFEST.json from the table below (keeps it valid and the not_applicable list current)."""
import json
import os

VERIF = os.path.dirname(os.path.dirname(os.path.abspath(__file__)))

TB = ("Trusted base: Lean 4.33 kernel; axioms propext/Classical.choice/Quot.sound only (audited each run); "
      "the translator /verif/extract (Tie A) and the correspondence harness (Tie B) as stated in DESIGN.md §8; "
      "rustc codegen, core/alloc, allocator, OS and hardware are modelled, not verified.")

CLAIMS = {
    "C02": dict(
        technique="Lean 4 proof over an axiomatic RC11-fragment model of the count word, instantiated at atomic orderings re-extracted from source (translator); Miri litmus runs as failing-input search",
        text="For every consistent execution (any number of threads, any rf/mo choice coherence allows) following the ownership protocol, the theorems C02_destroy_after_all / C02_destroy_unique / C02_nothing_after_destroy hold at the decrement ordering, fence and drop_inner statement order that the translator reads from /repo/src on this run; each obligation on those generated facts is a `decide` that stops compiling when the source changes unsafely. Proof is the right level because the property quantifies over all schedules and all legal load outcomes, which no execution on this machine can enumerate.",
        design_ref="DESIGN.md §2 M4, §6 C02",
        note=TB + " Assumed, not derived: Consistent (RC11/C++20 fragment for a location written only by RMWs) and Protocol (safe-Rust ownership discipline).",
    ),
}

NOT_YET = "not yet claimed in this commit: machinery for this property is under construction (DESIGN.md §10 order of work); it will be claimed, not abandoned"


def main():
    props = [json.loads(l)["id"] for l in open(os.path.join(VERIF, "properties.jsonl"))]
    checks = []
    for p in props:
        if p not in CLAIMS:
            continue
        c = CLAIMS[p]
        checks.append({
            "property_id": p,
            "quick_cmd": "bin/check %s --tier quick" % p,
            "thorough_cmd": "bin/check %s --tier thorough" % p,
            "evidence_file": "/verif/evidence/%s.json" % p,
            "replay_cmd_template": "bin/check %s --replay {path}" % p,
            "engine": "lean4-proof+tie",
            "level_claimed": {"category": "proof", "text": c["text"], "design_ref": c["design_ref"]},
            "level_note": c["note"],
            "technique": c["technique"],
        })
    m = {
        "version": 1,
        "setup_cmd": "cd /verif && bin/setup",
        "hooks": {"guard": "triomphe_verif",
                  "enable": "no hooks: every check builds the unmodified crate from /repo's working tree (cargo path dependency); nothing in /repo is guarded",
                  "baseline_off_cmd": "cd /repo && cargo test --workspace --no-fail-fast --offline",
                  "source_commits": [], "add_only": True},
        "engines": [{"name": "lean4-proof+tie", "path": "/verif/lean, /verif/extract, /verif/extract_traits, /verif/harness, /verif/litmus, /verif/vlib",
                     "serves_properties": sorted(CLAIMS),
                     "kind_free_text": "Lean 4 theorems over executable models; model tied to /repo on every run by a syn-based translator (regenerated facts) and by differential correspondence runs (Lean drivers vs the real crate)"}],
        "checks": checks,
        "notes": "fix: commits in /repo: 80d4dbc (ArcBorrow by-value eq/Debug), 3524b4e (HeaderWithLength ordering consistent with equality); see known_findings.json and DESIGN.md §7.",
        "not_applicable": [{"property_id": p, "reason": NOT_YET} for p in props if p not in CLAIMS],
    }
    json.dump(m, open(os.path.join(VERIF, "MANIFEST.json"), "w"), indent=1)


if __name__ == "__main__":
    main()
