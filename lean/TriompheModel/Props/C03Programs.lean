import TriompheModel.Props.C03Sched
import TriompheModel.WM.Ownership
/-!
# C03 / C08 (schedule half) stated about PROGRAMS

`C03_exclusive_after_verdict_any` and `C03_later_sharers_after_write` with `Protocol`, `ViaBorn` and `MutExcl` supplied by
`WM/Ownership.lean` for every run of the operational ownership semantics: what is left as hypothesis is the memory-model fragment
(`Consistent`, `CoRW`) and, for the later sharers, that the program issues no clone of the gate's handle between the gate's load
and the write (what `&mut` exclusivity means for a program).
-/
open Facts WM WM.Own Gates
namespace C03

variable {fenceOrd : Option MemOrd} (r : Run Generated.decOrd fenceOrd)
variable {hb : Ev (Fin r.final.kinds.length) → Ev (Fin r.final.kinds.length) → Prop}

/-- **former sharers, in every program**: when a gate `name` (every load it reaches is Acquire, by the obligation on the facts of
this run) sees the count 1 through `h`, every access made through another handle that existed where the load read from
happens-before the gate's load -/
theorem C03_former_sharers_in_every_program {name : String} (hg : gateOk name = true)
    (hpo : ∀ x y, (lift x, lift y) ∈ r.final.po → hb x y)
    (hsw : ∀ x y, (lift x, lift y) ∈ r.final.sw → hb x y)
    (htrans : ∀ x y z, hb x y → hb y z → hb x z)
    (hc : Consistent (execOf r.final hb)) (hrw : CoRW (execOf r.final hb))
    {l : Fin r.final.kinds.length} {h : H} {o : MemOrd} {rf : Option Nat}
    (hl : (execOf r.final hb).kind l = .load h o rf)
    (ho : ∀ g ∈ Generated.gates, g.name = name → o ∈ g.loads)
    (hone : valRead r.final.ops rf = 1) :
    ∀ (a : Fin r.final.kinds.length) (h' : H), ((execOf r.final hb).kind a).via = some h' → h' ≠ h →
      (h' = 0 ∨ ∃ j, rf = some j ∧ h' ∈ kids (r.final.ops.take (j+1))) → hb (.oth a) (.oth l) :=
  C03_exclusive_after_verdict_any hg hc (protocol_of_run r hb hpo hsw htrans) hrw (viaBorn_of_run r hb hpo hsw htrans) hl ho hone

/-- **later sharers, in every program** that issues no clone of `h` between the gate's load `l` and the granted write `w` -/
theorem C03_later_sharers_in_every_program
    (hpo : ∀ x y, (lift x, lift y) ∈ r.final.po → hb x y)
    (hsw : ∀ x y, (lift x, lift y) ∈ r.final.sw → hb x y)
    (htrans : ∀ x y z, hb x y → hb y z → hb x z)
    (hc : Consistent (execOf r.final hb)) (hrw : CoRW (execOf r.final hb))
    {l w : Fin r.final.kinds.length} {h : H} {o : MemOrd} {rf : Option Nat}
    (hl : (execOf r.final hb).kind l = .load h o rf)
    (hw : ((execOf r.final hb).kind w).via = some h)
    (hno : ∀ (i : Nat) (ch : H), r.final.ops[i]? = some (Op.inc ch h) → i < stamp r.final l ∨ stamp r.final w ≤ i)
    (hone : valRead r.final.ops rf = 1) :
    ∀ (a : Fin r.final.kinds.length) (h' : H), ((execOf r.final hb).kind a).via = some h' → h' ≠ 0 →
      (∀ i s, r.final.ops[i]? = some (Op.inc h' s) → Beyond rf i) → hb (.oth w) (.oth a) :=
  C03_later_sharers_after_write hc (protocol_of_run r hb hpo hsw htrans) hrw (viaBorn_of_run r hb hpo hsw htrans) hl hone
    (mutExcl_of_run r hb hpo hsw htrans (by rw [hl]; rfl) hw hno)

end C03
