"""History correspondence (Tie B) for the sequential handle machine M1/M3.

* generator: typed, mostly-valid op sequences chosen from the *model's* own probe (the Lean driver
  runs interactively during generation), one PRNG, plus a malformed stream and a systematic tour;
* runner: the same op lines go to the Lean driver `drv_hist` and to the Rust harness `hist`
  (built against the repository under test); outputs are compared line by line;
* monitors: the properties themselves, evaluated on the IMPLEMENTATION's observation lines only
  (they never look at the model), used to turn a disagreement into a concrete failing input;
* shrinking: delta debugging on the op list (any subsequence is runnable: bad-op is a no-op).
"""
import os
import random
import re
import subprocess

from vlib import common

NSLOTS = 12

# ------------------------------------------------------------------------------------------------
# observation lines


def parse_obs(line):
    """'<status> out=<..> ev=[..] aux=<n> | <probe>' -> dict (None if not an observation line)."""
    m = re.match(r"^(\S+) out=(.*?) ev=\[(.*?)\] aux=(-?\d+) \| ?(.*)$", line)
    if not m:
        return None
    slots = {}
    for tok in m.group(5).split():
        pm = re.match(r"^s(\d+)=([A-Za-z?]+)\.([A-Za-z]+)@b(-?\d+)\+(\d+)/len(\d+)/cnt([^/]+)/(.*)$", tok)
        if pm:
            slots[int(pm.group(1))] = dict(kind=pm.group(2), ty=pm.group(3), blk=int(pm.group(4)), off=int(pm.group(5)),
                                           len=int(pm.group(6)), cnt=pm.group(7), dig=pm.group(8))
        else:
            slots[len(slots) + 1000] = dict(kind="UNPARSED", ty="", blk=-2, off=0, len=0, cnt="-", dig=tok)
    return dict(status=m.group(1), out=m.group(2), ev=m.group(3).split() if m.group(3) else [], aux=int(m.group(4)), slots=slots)


class ModelProc:
    """the Lean driver, interactive"""

    def __init__(self):
        self.p = subprocess.Popen([common.lean_exe("drv_hist")], stdin=subprocess.PIPE, stdout=subprocess.PIPE, text=True, bufsize=1)

    def send(self, line):
        self.p.stdin.write(line + "\n")
        self.p.stdin.flush()
        return self.p.stdout.readline().rstrip("\n")

    def close(self):
        try:
            self.p.stdin.close()
            self.p.wait(timeout=5)
        except Exception:
            self.p.kill()


def run_batch(exe, text, timeout=600):
    """run a line-protocol binary on an op file; returns (lines, rc)"""
    try:
        p = subprocess.run([exe], input=text, stdout=subprocess.PIPE, stderr=subprocess.PIPE, text=True, timeout=timeout, errors="replace")
        return p.stdout.split("\n")[:-1] if p.stdout.endswith("\n") else p.stdout.split("\n"), p.returncode
    except subprocess.TimeoutExpired as e:
        out = e.stdout or ""
        if isinstance(out, bytes):
            out = out.decode(errors="replace")
        return out.split("\n"), -999


# ------------------------------------------------------------------------------------------------
# generator

CLONABLE = {("arc", t) for t in ("sized", "sizedB", "dyn", "slice", "uslice", "hs", "hwl", "mu", "muSlice")} | {
    ("thin", "hwl"), ("offset", "sized"), ("unionA", "sized"), ("unionB", "sizedB")}
ELEMS_INIT = {"sized", "sizedB", "dyn", "slice", "uslice", "hs", "hwl"}
CONVS = {
    "intoRaw": lambda k, t: k == "arc" and t in ("sized", "sizedB", "slice", "dyn"),
    "fromRaw": lambda k, t: k == "raw",
    "intoRawOffset": lambda k, t: (k, t) == ("arc", "sized"),
    "fromRawOffset": lambda k, t: k == "offset",
    "fromThin": lambda k, t: k == "thin",
    "thinIntoRaw": lambda k, t: k == "thin",
    "thinFromRaw": lambda k, t: k == "rawThin",
    "unionFirst": lambda k, t: (k, t) == ("arc", "sized"),
    "unionSecond": lambda k, t: (k, t) == ("arc", "sizedB"),
    "eraseHeader": lambda k, t: (k, t) == ("arc", "uslice"),
    "addHeader": lambda k, t: (k, t) == ("arc", "slice"),
    "shareable": lambda k, t: k == "uniq" and t != "hsMu",
    "assumeInit": lambda k, t: (k in ("arc", "uniq") and t in ("mu", "muSlice")) or (k, t) == ("uniq", "hsMu"),
    "toDyn": lambda k, t: (k, t) in (("arc", "sized"), ("uniq", "sized")),
}
CB_APIS = {
    "rawOffset": lambda k, t: (k, t) == ("arc", "sized"),
    "offsetWithArc": lambda k, t: k == "offset",
    "borrowWithArc": lambda k, t: (k == "arc" and t in ("sized", "sizedB")) or k in ("unionA", "unionB"),
    "thinWithArc": lambda k, t: k == "thin",
    "thinWithArcMut": lambda k, t: k == "thin",
}

DEFAULT_WEIGHTS = dict(create=14, iter=5, clone=14, drop=10, conv=14, intoThin=3, cloneArc=6, isUnique=3, getMut=4, getUnique=2,
                       makeMut=4, makeUnique=2, tryUnwrap=2, unwrapOrClone=2, intoInner=1, tryUnique=3, uniqWrite=2,
                       writeSlot=5, cb=8, cmp=5, cloneFrom=4, malformed=4)


class Gen:
    def __init__(self, rng, weights=None, nslots=NSLOTS):
        self.rng = rng
        self.w = dict(DEFAULT_WEIGHTS)
        if weights:
            self.w.update(weights)
        self.nslots = nslots
        self.next_id = 1
        self.written = {}     # blk -> set of written slot indices (uninit handles)

    def item(self, val=None):
        i = self.next_id
        self.next_id += 1
        return "%d:%d" % (i, self.rng.randrange(0, 10) if val is None else val)

    def items(self, n):
        return ",".join(self.item() for _ in range(n)) if n else "-"

    def slen(self):
        return self.rng.choice([0, 0, 1, 1, 2, 2, 3, 4, 5, 7])

    def gen_create(self, dst):
        r = self.rng
        c = r.choice(["new", "new", "newB", "fromBox", "uniqueNew", "fromVec", "hsFromVec", "hwlFromVec", "hwlFromVec",
                      "newUninit", "uniqueNewUninit", "newUninitSlice", "uniqueNewUninitSlice", "hsUninit"])
        if c in ("new", "newB", "fromBox", "uniqueNew"):
            return "create %d %s %s" % (dst, c, self.item())
        if c == "fromVec":
            n = self.slen()
            return "create %d fromVec %d %s" % (dst, n + r.choice([0, 0, 1, 3]), self.items(n))
        if c == "hsFromVec":
            n = self.slen()
            h = self.item()
            return "create %d hsFromVec %s %d %s" % (dst, h, n + r.choice([0, 0, 2]), self.items(n))
        if c == "hwlFromVec":
            n = self.slen()
            h = self.item()
            rec = n if r.random() < 0.8 else r.choice([max(0, n - 1), n + 1, 0, n + 2])
            return "create %d hwlFromVec %s %d %d %s" % (dst, h, rec, n + r.choice([0, 1]), self.items(n))
        if c in ("newUninit", "uniqueNewUninit"):
            return "create %d %s" % (dst, c)
        if c in ("newUninitSlice", "uniqueNewUninitSlice"):
            return "create %d %s %d" % (dst, c, r.choice([0, 1, 2, 3, 5]))
        return "create %d hsUninit %s %d" % (dst, self.item(), r.choice([0, 1, 2, 3]))

    def gen_iter(self, dst):
        r = self.rng
        which = r.choice(["hsFromIter", "thinFromIter", "fromIter", "uniqueFromIter"])
        n = self.slen()
        h = self.item() if which in ("hsFromIter", "thinFromIter") else "-"
        its = self.items(n)
        pan = "-"
        if r.random() < 0.25:
            pan = str(r.randrange(0, n + 2))
        lens, hints = "-", "-"
        if which in ("hsFromIter", "thinFromIter"):
            mode = r.random()
            if mode < 0.55:
                lens = "-"                                     # honest
            elif mode < 0.85:
                lens = str(max(0, n + r.choice([-2, -1, 1, 2])))   # constant lie
            else:
                lens = "%d,%d" % (max(0, n + r.choice([-1, 0, 1])), max(0, n + r.choice([-1, 0, 1])))  # changes between calls
        else:
            mode = r.random()
            if mode < 0.4:
                hints = "-"                                    # exact and honest
            elif mode < 0.6:
                k = max(0, n + r.choice([-2, -1, 1, 2]))
                hints = "%d:%d" % (k, k)                       # exact but lying
            elif mode < 0.8:
                hints = r.choice(["0:*", "%d:*" % max(0, n - 1), "0:%d" % (n + 1)])   # inexact: collect fallback
            else:
                a = max(0, n + r.choice([-1, 0, 1]))
                b = max(0, n + r.choice([-1, 0, 1]))
                hints = "%d:%d,%d:%d,%d:%d" % (n, n, a, a, b, b) if r.random() < 0.7 else "%d:%d,0:*" % (n, n)
        return "iter %d %s %s lens=%s hints=%s items=%s panic=%s" % (dst, which, h, lens, hints, its, pan)

    def cb_script(self, api, free, slots, src):
        r = self.rng
        acts = []
        for _ in range(r.randrange(0, 5)):
            a = r.choice(["cnt", "read", "clone", "clone", "panic", "special"])
            if a in ("cnt", "read"):
                acts.append(a)
            elif a == "clone":
                k = r.choice(free) if free and r.random() < 0.9 else r.randrange(self.nslots)
                acts.append("clone:%d" % k)
                if k in free:
                    free = [x for x in free if x != k]
            elif a == "panic":
                if r.random() < 0.35:
                    acts.append("panic")
            else:
                if api == "rawOffset":
                    k = r.choice(free) if free else r.randrange(self.nslots)
                    acts.append("cloneArc:%d" % k)
                    free = [x for x in free if x != k]
                elif api == "thinWithArcMut":
                    if r.random() < 0.5:
                        acts.append("getMut:%d" % r.randrange(10, 99))
                    else:
                        thins = [i for i, s in slots.items() if s["kind"] == "thin" and i != src]
                        k = r.choice(thins) if thins and r.random() < 0.9 else r.randrange(self.nslots)
                        acts.append(("replace:%d" if r.random() < 0.6 else "swap:%d") % k)
        return ",".join(acts) if acts else "-"

    def next_op(self, slots):
        r = self.rng
        free = [i for i in range(self.nslots) if i not in slots]
        occ = list(slots.keys())

        def pick(pred):
            c = [i for i in occ if pred(slots[i]["kind"], slots[i]["ty"])]
            return r.choice(c) if c else None
        fams = list(self.w.keys())
        for _ in range(12):
            fam = r.choices(fams, weights=[self.w[f] for f in fams])[0]
            if fam == "malformed":
                s = r.randrange(self.nslots)
                d = r.randrange(self.nslots)
                return r.choice(["drop %d" % s, "clone %d %d" % (d, s), "conv %d %s" % (s, r.choice(list(CONVS))), "intoThin %d" % s,
                                 "tryUnwrap %d" % s, "makeMut %d 5 0" % s, "cb %d %s cnt,clone:%d" % (s, r.choice(list(CB_APIS)), d),
                                 "writeSlot %d %d %s" % (s, r.randrange(4), self.item()), "getMut %d 3" % s, "intoInner %d" % s,
                                 "create %d new %s" % (s, self.item()), "cloneArc %d %d" % (d, s), "uniqWrite %d 4" % s, "tryUnique %d" % s])
            if fam == "create":
                if free:
                    return self.gen_create(r.choice(free))
                continue
            if fam == "iter":
                if free:
                    return self.gen_iter(r.choice(free))
                continue
            if fam == "clone":
                s = pick(lambda k, t: (k, t) in CLONABLE)
                if s is not None and free:
                    return "clone %d %d" % (r.choice(free), s)
                continue
            if fam == "cloneFrom":
                def ccls(i):
                    k, t = slots[i]["kind"], slots[i]["ty"]
                    if k in ("unionA", "unionB"):
                        return "union"
                    return k + "." + t if (k, t) in CLONABLE else None
                cands = [(i, j) for i in occ for j in occ if i != j and ccls(i) is not None and ccls(i) == ccls(j)]
                if cands:
                    return "cloneFrom %d %d" % r.choice(cands)
                continue
            if fam == "drop":
                s = pick(lambda k, t: k not in ("raw", "rawThin"))
                if s is not None:
                    return "drop %d" % s
                continue
            if fam == "conv":
                cands = []
                for i in occ:
                    k, t = slots[i]["kind"], slots[i]["ty"]
                    for c, ok in CONVS.items():
                        if ok(k, t):
                            if c == "assumeInit":
                                w = self.written.get(slots[i]["blk"], set())
                                if len(w) < slots[i]["len"]:
                                    continue
                            cands.append((i, c))
                if cands:
                    i, c = r.choice(cands)
                    return "conv %d %s" % (i, c)
                continue
            if fam == "intoThin":
                s = pick(lambda k, t: (k, t) == ("arc", "hwl"))
                if s is not None:
                    return "intoThin %d" % s
                continue
            if fam == "cloneArc":
                s = pick(lambda k, t: (k == "arc" and t in ("sized", "sizedB")) or k in ("offset", "unionA", "unionB"))
                if s is not None and free:
                    return "cloneArc %d %d" % (r.choice(free), s)
                continue
            if fam == "isUnique":
                s = pick(lambda k, t: k == "arc")
                if s is not None:
                    return "isUnique %d" % s
                continue
            if fam in ("getMut", "getUnique"):
                s = pick(lambda k, t: k == "arc" and t in ELEMS_INIT)
                if s is not None:
                    return "%s %d %d" % (fam, s, r.randrange(10, 99))
                continue
            if fam == "makeMut":
                s = pick(lambda k, t: (k, t) in (("arc", "sized"), ("offset", "sized")))
                if s is not None:
                    return "makeMut %d %d %d" % (s, r.randrange(10, 99), 1 if r.random() < 0.2 else 0)
                continue
            if fam == "makeUnique":
                s = pick(lambda k, t: (k, t) == ("arc", "sized"))
                if s is not None:
                    return "makeUnique %d %d %d" % (s, r.randrange(10, 99), 1 if r.random() < 0.2 else 0)
                continue
            if fam in ("tryUnwrap", "unwrapOrClone"):
                s = pick(lambda k, t: (k, t) == ("arc", "sized"))
                if s is not None:
                    return "tryUnwrap %d" % s if fam == "tryUnwrap" else "unwrapOrClone %d %d" % (s, 1 if r.random() < 0.2 else 0)
                continue
            if fam == "intoInner":
                s = pick(lambda k, t: (k, t) == ("uniq", "sized"))
                if s is not None:
                    return "intoInner %d" % s
                continue
            if fam == "tryUnique":
                s = pick(lambda k, t: k == "arc" and t in ("sized", "slice", "hs", "hwl", "mu", "muSlice"))
                if s is not None:
                    return "tryUnique %d" % s
                continue
            if fam == "uniqWrite":
                s = pick(lambda k, t: k == "uniq" and t in ("sized", "slice", "hs", "hwl", "dyn"))
                if s is not None:
                    return "uniqWrite %d %d" % (s, r.randrange(10, 99))
                continue
            if fam == "writeSlot":
                s = pick(lambda k, t: (k in ("arc", "uniq") and t in ("mu", "muSlice")) or (k, t) == ("uniq", "hsMu"))
                if s is not None and slots[s]["len"] > 0:
                    n = slots[s]["len"]
                    w = self.written.get(slots[s]["blk"], set())
                    todo = [i for i in range(n) if i not in w]
                    i = r.choice(todo) if todo and r.random() < 0.9 else r.randrange(n)
                    return "writeSlot %d %d %s" % (s, i, self.item())
                continue
            if fam == "cmp":
                def cls(i):
                    k, t = slots[i]["kind"], slots[i]["ty"]
                    if k in ("unionA", "unionB"):
                        return "union"
                    if (k == "arc" and t in ("sized", "sizedB", "slice", "hs", "hwl")) or k in ("thin", "offset"):
                        return k + "." + t
                    return None
                cands = [(i, j) for i in occ for j in occ if cls(i) is not None and cls(i) == cls(j)]
                if cands:
                    return "cmp %d %d" % r.choice(cands)
                continue
            if fam == "cb":
                cands = [(i, a) for i in occ for a, ok in CB_APIS.items() if ok(slots[i]["kind"], slots[i]["ty"])]
                if cands:
                    i, a = r.choice(cands)
                    return "cb %d %s %s" % (i, a, self.cb_script(a, free, slots, i))
                continue
        return self.gen_create(r.choice(free)) if free else "drop %d" % r.choice(occ)

    def note(self, op, pre_slots, obs):
        """bookkeeping of which uninit slots were written (from the model's answer)"""
        f = op.split()
        if f[0] == "writeSlot" and obs["status"] == "ok":
            s = int(f[1])
            if s in pre_slots:
                self.written.setdefault(pre_slots[s]["blk"], set()).add(int(f[2]))

    def history(self, model, n):
        ops = ["reset"]
        model.send("reset")
        self.written = {}
        self.next_id = 1
        slots = {}
        for _ in range(n):
            op = self.next_op(slots)
            line = model.send(op)
            obs = parse_obs(line)
            if obs is None:
                raise RuntimeError("model driver did not understand generated op: %r -> %r" % (op, line))
            self.note(op, slots, obs)
            slots = obs["slots"]
            ops.append(op)
        ops.append("dropAll")
        model.send("dropAll")
        return ops


# ------------------------------------------------------------------------------------------------
# systematic tour: every op on every handle type it applies to, with 0..2 co-owners of each kind

MAKERS = {
    "arc.sized": ["create 0 new 1:1"],
    "arc.sizedB": ["create 0 newB 1:1"],
    "arc.dyn": ["create 0 new 1:1", "conv 0 toDyn"],
    "arc.slice": ["create 0 fromVec 3 1:1,2:2"],
    "arc.uslice": ["create 0 fromVec 2 1:1,2:2", "conv 0 addHeader"],
    "arc.hs": ["create 0 hsFromVec 9:9 2 1:1,2:2"],
    "arc.hwl": ["create 0 hwlFromVec 9:9 2 2 1:1,2:2"],
    "arc.hwlbad": ["create 0 hwlFromVec 9:9 3 2 1:1,2:2"],
    "arc.boxed": ["create 0 fromBox 1:1"],
    "arc.default": ["create 0 default"],
    "thin.hwl": ["create 0 hwlFromVec 9:9 2 2 1:1,2:2", "intoThin 0"],
    "thin.iter": ["iter 0 thinFromIter 9:9 lens=- hints=- items=1:1,2:2,3:3 panic=-"],
    "offset.sized": ["create 0 new 1:1", "conv 0 intoRawOffset"],
    "unionA.sized": ["create 0 new 1:1", "conv 0 unionFirst"],
    "unionB.sizedB": ["create 0 newB 1:1", "conv 0 unionSecond"],
    "uniq.sized": ["create 0 uniqueNew 1:1"],
    "uniq.slice": ["iter 0 uniqueFromIter - lens=- hints=- items=1:1,2:2 panic=-"],
    "uniq.dyn": ["create 0 uniqueNew 1:1", "conv 0 toDyn"],
    "uniq.hwl": ["create 0 hwlFromVec 9:9 2 2 1:1,2:2", "tryUnique 0"],
    "uniq.hs": ["create 0 hsUninit 9:9 2", "writeSlot 0 0 1:1", "writeSlot 0 1 2:2", "conv 0 assumeInit"],
    "arc.mu": ["create 0 newUninit"],
    "arc.mu.w": ["create 0 newUninit", "writeSlot 0 0 1:1"],
    "uniq.mu": ["create 0 uniqueNewUninit"],
    "uniq.mu.w": ["create 0 uniqueNewUninit", "writeSlot 0 0 1:1"],
    "arc.muSlice": ["create 0 newUninitSlice 2", "writeSlot 0 1 2:2"],
    "arc.muSlice.w": ["create 0 newUninitSlice 2", "writeSlot 0 1 2:2", "writeSlot 0 0 1:1"],
    "uniq.muSlice": ["create 0 uniqueNewUninitSlice 2", "writeSlot 0 0 1:1"],
    "uniq.hsMu": ["create 0 hsUninit 9:9 2", "writeSlot 0 1 2:2"],
    "raw.sized": ["create 0 new 1:1", "conv 0 intoRaw"],
    "raw.slice": ["create 0 fromVec 2 1:1,2:2", "conv 0 intoRaw"],
    "raw.dyn": ["create 0 new 1:1", "conv 0 toDyn", "conv 0 intoRaw"],
    "rawThin.hwl": ["create 0 hwlFromVec 9:9 2 2 1:1,2:2", "intoThin 0", "conv 0 thinIntoRaw"],
    "arc.fromIter": ["iter 0 fromIter - lens=- hints=0:* items=1:1,2:2,3:3 panic=-"],
    "arc.hsIter": ["iter 0 hsFromIter 9:9 lens=- hints=- items=1:1,2:2 panic=-"],
}
# how to turn a clone sitting in slot K into a co-owner of another kind
COOWNER_CONVS = {
    "arc.sized": [[], ["conv K intoRawOffset"], ["conv K unionFirst"], ["conv K intoRaw"], ["conv K toDyn"]],
    "arc.boxed": [[], ["conv K intoRawOffset"]],
    "arc.sizedB": [[], ["conv K unionSecond"], ["conv K intoRaw"]],
    "arc.dyn": [[], ["conv K intoRaw"]],
    "arc.slice": [[], ["conv K intoRaw"], ["conv K addHeader"]],
    "arc.uslice": [[], ["conv K eraseHeader"]],
    "arc.hs": [[]], "arc.hsIter": [[]], "arc.fromIter": [[], ["conv K intoRaw"]],
    "arc.hwl": [[], ["intoThin K"], ["intoThin K", "conv K thinIntoRaw"]],
    "arc.hwlbad": [[]],
    "thin.hwl": [[], ["conv K fromThin"], ["conv K thinIntoRaw"]],
    "thin.iter": [[], ["conv K fromThin"]],
    "offset.sized": [[], ["conv K fromRawOffset"], ["conv K fromRawOffset", "conv K unionFirst"]],
    "unionA.sized": [[]], "unionB.sizedB": [[]],
    "arc.mu": [[]], "arc.mu.w": [[]], "arc.muSlice": [[]], "arc.muSlice.w": [[]],
}
TOUR_OPS = [
    "clone 5 0", "drop 0", "cloneArc 5 0", "isUnique 0", "getMut 0 77", "getUnique 0 77", "makeMut 0 77 0", "makeMut 0 77 1",
    "makeUnique 0 77 0", "makeUnique 0 77 1", "tryUnwrap 0", "unwrapOrClone 0 0", "unwrapOrClone 0 1", "intoInner 0", "tryUnique 0",
    "uniqWrite 0 77", "writeSlot 0 0 50:5", "writeSlot 0 1 51:5", "intoThin 0",
] + ["conv 0 %s" % c for c in CONVS] + [
    "cb 0 rawOffset cnt,read,clone:5,cloneArc:6,cnt", "cb 0 rawOffset clone:5,panic", "cb 0 offsetWithArc cnt,read,clone:5,cnt",
    "cb 0 offsetWithArc clone:5,panic", "cb 0 borrowWithArc cnt,read,clone:5,cnt", "cb 0 borrowWithArc clone:5,panic",
    "cb 0 thinWithArc cnt,read,clone:5,cnt", "cb 0 thinWithArc clone:5,panic", "cb 0 thinWithArcMut cnt,getMut:66,clone:5,read,cnt",
    "cb 0 thinWithArcMut clone:5,panic", "cb 0 thinWithArcMut replace:7,cnt,read", "cb 0 thinWithArcMut replace:7,panic",
    "cb 0 thinWithArcMut getMut:66,replace:7,getMut:67,clone:5",
    "cb 0 thinWithArcMut swap:7,cnt,read", "cb 0 thinWithArcMut swap:7,panic", "cb 0 thinWithArcMut getMut:66,swap:7,getMut:67,clone:5",
]
REPLACEMENT = ["create 7 hwlFromVec 8:8 1 1 30:3", "intoThin 7"]


def tour():
    hs = []
    for name, mk in MAKERS.items():
        coos = COOWNER_CONVS.get(name, None)
        configs = [[]]
        if coos is not None:
            for cv in coos:
                configs.append(["clone 1 0"] + [c.replace("K", "1") for c in cv])
                configs.append(["clone 1 0"] + [c.replace("K", "1") for c in cv] + ["clone 2 0"])
        for cfg in configs:
            for op in TOUR_OPS:
                pre = list(REPLACEMENT) if ("replace:7" in op or "swap:7" in op) else []
                if ("replace:7" in op or "swap:7" in op) and len(cfg) > 1:
                    pre = pre + ["clone 8 7"]
                hs.append(["reset"] + mk + cfg + pre + [op, "isUnique 0", "isUnique 1", "getMut 1 70", "drop 1", "isUnique 0", "dropAll"])
    # comparison / hashing / formatting through every comparable handle type: equal values in another
    # allocation, smaller, larger, other lengths, the same allocation, the other union variant; with 0..2 co-owners
    def second(name, v, extra=""):
        return {
            "arc.sized": ["create 10 new 50:%d" % v], "arc.boxed": ["create 10 new 50:%d" % v],
            "arc.sizedB": ["create 10 newB 50:%d" % v],
            "arc.slice": ["create 10 fromVec 3 50:1,51:%d%s" % (v + 1, extra)],
            "arc.hs": ["create 10 hsFromVec 59:9 2 50:1,51:%d%s" % (v + 1, extra)],
            "arc.hwl": ["create 10 hwlFromVec 59:9 %d 2 50:1,51:%d%s" % (2 + (1 if extra else 0), v + 1, extra)],
            "arc.hwlbad": ["create 10 hwlFromVec 59:9 2 2 50:1,51:%d" % (v + 1)],
            "thin.hwl": ["create 10 hwlFromVec 59:9 %d 2 50:1,51:%d%s" % (2 + (1 if extra else 0), v + 1, extra), "intoThin 10"],
            "thin.iter": ["iter 10 thinFromIter 59:9 lens=- hints=- items=50:1,51:2,52:%d%s panic=-" % (v + 2, extra)],
            "offset.sized": ["create 10 new 50:%d" % v, "conv 10 intoRawOffset"],
            "unionA.sized": ["create 10 new 50:%d" % v, "conv 10 unionFirst"],
            "unionB.sizedB": ["create 10 newB 50:%d" % v, "conv 10 unionSecond"],
        }[name]
    for name in ("arc.sized", "arc.boxed", "arc.sizedB", "arc.slice", "arc.hs", "arc.hwl", "arc.hwlbad", "thin.hwl", "thin.iter", "offset.sized",
                 "unionA.sized", "unionB.sizedB"):
        mk = MAKERS[name]
        variants = [second(name, 1), second(name, 0), second(name, 2)]
        if name in ("arc.slice", "arc.hs", "arc.hwl", "thin.hwl", "thin.iter"):
            variants.append(second(name, 1, ",53:0"))
        if name == "unionA.sized":
            variants.append(second("unionB.sizedB", 1))
        if name == "arc.hwl":
            variants.append(["create 10 hwlFromVec 59:9 3 2 50:1,51:2"])     # equal header and slice, other recorded length
        for var in variants:
            for cfg in ([], ["clone 1 0"], ["clone 1 0", "clone 11 10"]):
                ops = ["cmp 0 10", "cmp 10 0", "cmp 0 0"] + (["cmp 0 1", "cmp 1 10"] if cfg else [])
                hs.append(["reset"] + mk + var + cfg + ops + ["drop 0", "cmp 10 10"] + (["cmp 1 10"] if cfg else []) + ["dropAll"])
    # Clone::clone_from between two handles of one type: another allocation (both directions), the same allocation,
    # the other union variant; with 0..2 co-owners on either side
    for name in ("arc.sized", "arc.boxed", "arc.sizedB", "arc.slice", "arc.hs", "arc.hwl", "thin.hwl", "thin.iter", "offset.sized",
                 "unionA.sized", "unionB.sizedB"):
        mk = MAKERS[name]
        seconds = [second(name, 1)] + ([second("unionB.sizedB", 1)] if name == "unionA.sized" else []) + ([second("unionA.sized", 1)] if name == "unionB.sizedB" else [])
        for var in seconds:
            for cfg in ([], ["clone 1 0"], ["clone 11 10"], ["clone 1 0", "clone 11 10"]):
                hs.append(["reset"] + mk + var + cfg + ["cloneFrom 0 10", "isUnique 0", "drop 10", "isUnique 0", "dropAll"])
                hs.append(["reset"] + mk + var + cfg + ["cloneFrom 10 0", "isUnique 10", "drop 0", "isUnique 10", "dropAll"])
        hs.append(["reset"] + mk + ["clone 1 0", "cloneFrom 1 0", "isUnique 0", "clone 2 0", "cloneFrom 2 1", "drop 0", "dropAll"])
    # with_arc_mut callbacks that swap / replace the lent Arc, then every gate reachable through both ThinArcs
    for act in ("swap:7", "replace:7", "swap:7,panic", "replace:7,panic", "getMut:66,swap:7,getMut:67"):
        for cfg in ([], ["clone 1 0"], ["clone 8 7"], ["clone 1 0", "clone 8 7"]):
            hs.append(["reset"] + MAKERS["thin.hwl"] + REPLACEMENT + cfg + ["cb 0 thinWithArcMut " + act, "cb 0 thinWithArcMut getMut:70,cnt",
                       "cb 7 thinWithArcMut getMut:71,cnt", "conv 0 fromThin", "isUnique 0", "getMut 0 72", "tryUnique 0", "dropAll"])
    # re-entrant user code: T::clone (run by make_mut / make_unique / unwrap_or_clone on a shared handle) uses another handle
    for name in ("arc.sized", "offset.sized", "arc.boxed"):
        for cfg in (["clone 1 0"], ["clone 1 0", "clone 2 0"], ["clone 1 0", "conv 1 intoRawOffset"], ["clone 1 0", "conv 1 unionFirst"], ["clone 1 0", "clone 2 0", "conv 2 intoRaw"]):
            arc_k = not any(c.startswith("conv 1") for c in cfg)
            for opn in (["makeMutH 0 77 1 %s"] + (["makeUniqueH 0 77 1 %s", "unwrapOrCloneH 0 1 %s"] if name != "offset.sized" else [])):
                for act in ("drop", "cnt") + (("getmut",) if arc_k else ()):
                    tail = ["isUnique 0", "getMut 0 78"] if name != "offset.sized" and not opn.startswith("unwrap") else []
                    hs.append(["reset"] + MAKERS[name] + cfg + [opn % act] + tail + ["dropAll"])
    # ... drops the other handle and THEN `clone` panics: unwinding releases the library's own reference (unwrap_or_clone) — as the
    # LAST owner: the value is destroyed exactly once and the block freed during the unwind — or keeps it (make_mut / make_unique)
    for name in ("arc.sized", "offset.sized", "arc.boxed"):
        for cfg in (["clone 1 0"], ["clone 1 0", "clone 2 0"], ["clone 1 0", "conv 1 intoRawOffset"], ["clone 1 0", "conv 1 unionFirst"]):
            for opn in (["makeMutH 0 77 1 droppanic"] + (["makeUniqueH 0 77 1 droppanic", "unwrapOrCloneH 0 1 droppanic"] if name != "offset.sized" else [])):
                tail = ["isUnique 0", "getMut 0 78"] if name != "offset.sized" and not opn.startswith("unwrap") else []
                hs.append(["reset"] + MAKERS[name] + cfg + [opn] + tail + ["dropAll"])
    # (sole owner: clone is not called, the hook does not run)
    hs.append(["reset", "create 0 new 1:1", "create 1 new 2:2", "makeMutH 0 77 1 drop", "makeUniqueH 0 78 1 cnt", "unwrapOrCloneH 0 1 drop", "dropAll"])
    # arc-swap integration (RefCnt for Arc<T>): an ArcSwapAny cell as one more owner; load guards, load_full, store,
    # into_inner, interleaved with the uniqueness gates / copy-on-write of the other owners
    for cfg in ([], ["clone 1 0"], ["clone 1 0", "clone 2 0"]):
        other = ["isUnique 1", "getMut 1 77", "makeMut 1 78 0", "tryUnwrap 1"] if cfg else []
        for g in (other or [None]):
            mid = [g] if g else []
            hs.append(["reset", "create 0 new 1:1"] + cfg + ["asw new 5 0", "asw load 5", "asw load 5"] + mid + ["asw loadFull 6 5", "drop 6", "asw load 5", "asw into 5", "isUnique 5", "tryUnwrap 5", "dropAll"])
            hs.append(["reset", "create 0 new 1:1"] + cfg + ["asw new 5 0", "create 9 new 2:2", "asw load 5", "asw store 5 9", "asw load 5"] + mid + ["asw loadFull 6 5", "asw load 5", "drop 6", "asw into 5", "makeMut 5 79 0", "dropAll"])
    # a panic in user code followed by every uniqueness gate: the verdict must still be "sole owner"
    PANICKY = ["makeMut 0 77 1", "makeUnique 0 77 1", "cb 0 rawOffset clone:5,panic", "cb 0 offsetWithArc clone:5,panic",
               "cb 0 borrowWithArc panic", "cb 0 thinWithArcMut getMut:66,panic", "cb 0 thinWithArc clone:5,panic", "unwrapOrClone 1 1"]
    GATES = ["isUnique 0", "getMut 0 78", "getUnique 0 78", "makeMut 0 78 0", "makeUnique 0 78 0", "tryUnique 0", "tryUnwrap 0",
             "cb 0 thinWithArcMut getMut:67,cnt", "makeMut 1 79 0", "isUnique 1", "getMut 1 79"]
    for name in ("arc.sized", "offset.sized", "thin.hwl", "arc.boxed"):
        mk = MAKERS[name]
        for cfg in ([], ["clone 1 0"], ["clone 1 0", "clone 2 0"], ["clone 1 0", "conv 1 fromRawOffset"] if name == "offset.sized" else ["clone 1 0", "drop 1"]):
            for pop in PANICKY:
                for g in GATES:
                    hs.append(["reset"] + mk + cfg + [pop, g, "dropAll"])
    # iterator scripts: every (reported, actual) pair with |difference| <= 2 for lengths 0..4, and a panic at every call
    for which in ("hsFromIter", "thinFromIter", "fromIter", "uniqueFromIter"):
        h = "9:9" if which in ("hsFromIter", "thinFromIter") else "-"
        for actual in range(0, 5):
            its = ",".join("%d:%d" % (i + 1, i + 1) for i in range(actual)) or "-"
            for rep in range(max(0, actual - 2), actual + 3):
                if which in ("hsFromIter", "thinFromIter"):
                    hs.append(["reset", "iter 0 %s %s lens=%d hints=- items=%s panic=-" % (which, h, rep, its), "clone 1 0", "dropAll"])
                    if which == "thinFromIter":
                        hs.append(["reset", "iter 0 %s %s lens=%d,%d hints=- items=%s panic=-" % (which, h, actual, rep, its), "clone 1 0", "dropAll"])
                        hs.append(["reset", "iter 0 %s %s lens=%d,%d hints=- items=%s panic=-" % (which, h, rep, actual, its), "clone 1 0", "dropAll"])
                else:
                    hs.append(["reset", "iter 0 %s %s lens=- hints=%d:%d items=%s panic=-" % (which, h, rep, rep, its), "conv 0 shareable", "clone 1 0", "dropAll"])
                    hs.append(["reset", "iter 0 %s %s lens=- hints=%d:%d,%d:%d,%d:%d items=%s panic=-" % (which, h, actual, actual, actual, actual, rep, rep, its), "dropAll"])
                    hs.append(["reset", "iter 0 %s %s lens=- hints=%d:%d,%d:%d items=%s panic=-" % (which, h, actual, actual, rep, rep + 1, its), "dropAll"])
            for k in range(0, actual + 2):
                hs.append(["reset", "iter 0 %s %s lens=- hints=- items=%s panic=%d" % (which, h, its, k), "dropAll"])
                if which in ("fromIter", "uniqueFromIter"):
                    hs.append(["reset", "iter 0 %s %s lens=- hints=0:* items=%s panic=%d" % (which, h, its, k), "dropAll"])
            if which in ("fromIter", "uniqueFromIter"):
                for lo in sorted({0, 1, max(0, actual - 1), actual}):
                    if lo <= actual and lo > 0:
                        # a true lower bound with NO upper bound (iter::from_fn, successors, chain of an unbounded one)
                        hs.append(["reset", "iter 0 %s %s lens=- hints=%d:* items=%s panic=-" % (which, h, lo, its), "dropAll"])
                # a truthful but enormous upper bound (take_while / scan over an unbounded source)
                for up in (2 ** 64 - 1, 2 ** 63 - 1, 2 ** 63):
                    hs.append(["reset", "iter 0 %s %s lens=- hints=0:%d items=%s panic=-" % (which, h, up, its), "dropAll"])
                hs.append(["reset", "iter 0 %s %s lens=- hints=0:* items=%s panic=-" % (which, h, its), "conv 0 shareable", "clone 1 0", "dropAll"])
                hs.append(["reset", "iter 0 %s %s lens=- hints=%d:%d items=%s panic=-" % (which, h, actual, actual + 3, its), "dropAll"])
    # NON-FUSED sources (a channel's try_iter, iter::from_fn over a refilled queue): `late=` is what the iterator would
    # yield if it were polled again after its first None.  The input sequence ends at the first None: nothing of `late`
    # may be taken, whatever the size hints say.
    for which in ("hsFromIter", "thinFromIter", "fromIter", "uniqueFromIter"):
        h = "99:9" if which in ("hsFromIter", "thinFromIter") else "-"
        for actual in (0, 1, 3, 7, 8, 9):
            its = ",".join("%d:%d" % (i + 1, i + 1) for i in range(actual)) or "-"
            late = "70:1,71:2,72:3"
            hints = ["-", "%d:%d" % (actual, actual)]
            if which in ("fromIter", "uniqueFromIter"):
                hints += ["0:*", "0:%d" % (actual + 5), "%d:*" % actual, "%d:%d" % (actual, actual + 1)]
            for hh in hints:
                hs.append(["reset", "iter 0 %s %s lens=- hints=%s items=%s panic=- late=%s" % (which, h, hh, its, late), "clone 1 0", "dropAll"])
    # impossible lengths reported by an exact-size iterator (the byte size of the slice overflows / exceeds isize::MAX):
    # refused before anything is allocated or taken from the iterator; the header and the items die with the call
    for N in (2 ** 61 + 2, 2 ** 63 - 1, 2 ** 63, 2 ** 64 - 1):
        for its in ("-", "1:1,2:2"):
            hs.append(["reset", "iter 0 hsFromIter 9:9 lens=%d hints=- items=%s panic=-" % (N, its), "dropAll"])
            hs.append(["reset", "iter 0 thinFromIter 9:9 lens=%d,%d hints=- items=%s panic=-" % (N, N, its), "dropAll"])
            hs.append(["reset", "iter 0 thinFromIter 9:9 lens=2,%d hints=- items=%s panic=-" % (N, its), "dropAll"])
            hs.append(["reset", "iter 0 thinFromIter 9:9 lens=%d,2 hints=- items=%s panic=-" % (N, its), "dropAll"])
            for which in ("fromIter", "uniqueFromIter"):
                hs.append(["reset", "iter 0 %s - lens=- hints=%d:%d items=%s panic=-" % (which, N, N, its), "dropAll"])
    # constructors: lengths across internal boundaries, capacities >= length
    for n in list(range(0, 12)) + [31, 32, 33, 255, 256, 1000]:
        its = ",".join("%d:%d" % (i + 1, i % 7) for i in range(n)) or "-"
        for cap in (n, n + 1, n + 5):
            hs.append(["reset", "create 0 fromVec %d %s" % (cap, its), "clone 1 0", "conv 1 intoRaw", "conv 1 fromRaw", "drop 0", "dropAll"])
            hs.append(["reset", "create 0 hsFromVec 5000:1 %d %s" % (cap, its), "clone 1 0", "drop 0", "dropAll"])
        hs.append(["reset", "create 0 hwlFromVec 5000:1 %d %d %s" % (n, n, its), "intoThin 0", "clone 1 0", "conv 1 fromThin", "drop 0", "dropAll"])
        hs.append(["reset", "iter 0 thinFromIter 5000:1 lens=- hints=- items=%s panic=-" % its, "clone 1 0", "dropAll"])
        hs.append(["reset", "iter 0 fromIter - lens=- hints=- items=%s panic=-" % its, "clone 1 0", "dropAll"])
        hs.append(["reset", "iter 0 fromIter - lens=- hints=0:* items=%s panic=-" % its, "clone 1 0", "dropAll"])
    # recorded length vs true length for into_thin
    for true in range(0, 5):
        its = ",".join("%d:%d" % (i + 1, i) for i in range(true)) or "-"
        for rec in range(0, 6):
            hs.append(["reset", "create 0 hwlFromVec 9:9 %d %d %s" % (rec, true, its), "clone 1 0", "intoThin 0", "isUnique 1", "intoThin 1", "dropAll"])
    # uninitialised: every subset of slots written for len <= 3, then drop / assume_init when complete
    for mk, n in (("newUninitSlice", 3), ("uniqueNewUninitSlice", 3), ("hsUninit 9:9", 3), ("newUninit", 1), ("uniqueNewUninit", 1)):
        for mask in range(0, 1 << n):
            w = ["writeSlot 0 %d %d:%d" % (i, 10 + i, i) for i in range(n) if mask >> i & 1]
            mkop = "create 0 %s %d" % (mk, n) if "Slice" in mk or "hsUninit" in mk else "create 0 %s" % mk
            hs.append(["reset", mkop] + w + ["drop 0", "dropAll"])
            hs.append(["reset", mkop] + w + ["conv 0 assumeInit", "conv 0 shareable", "clone 1 0", "drop 0", "dropAll"])
            if mk in ("newUninitSlice", "newUninit"):
                w2 = ["writeSlot 0 %d %d:%d" % (i, 20 + i, i) for i in range(n) if mask >> i & 1]
                hs.append(["reset", mkop, "clone 1 0"] + w + ["drop 1"] + w2 + ["conv 0 assumeInit", "dropAll"])
    # assume_init on a SHARED handle (every slot was written while it was unique): the handle changes its type, nothing else
    hs.append(["reset", "create 0 newUninit", "writeSlot 0 0 1:1", "clone 1 0", "conv 0 assumeInit", "clone 2 0", "conv 1 assumeInit", "drop 0", "dropAll"])
    hs.append(["reset", "create 0 newUninitSlice 2", "writeSlot 0 0 1:1", "writeSlot 0 1 2:2", "clone 1 0", "clone 2 0", "conv 0 assumeInit", "conv 2 assumeInit", "drop 0", "dropAll"])
    return hs


# ------------------------------------------------------------------------------------------------
# monitors: the properties, evaluated on the implementation's observations only

OWNING = ("arc", "uniq", "thin", "offset", "unionA", "unionB", "raw", "rawThin")
BAD_EVENTS = ("badread", "doubledrop", "doublefree", "dropuninit")


def owners(slots, b):
    return sum(1 for s in slots.values() if s["blk"] == b)


def monitor_history(ops, obs, elem_size=8):
    """ops[0] == 'reset'; obs[i] = parsed observation of ops[i] (None for reset / unparsable).
    returns list of (op index, [properties], message)."""
    fails = []
    live = {}          # blk -> (size, align)
    dropped = set()
    leaked_ok = set()
    written = {}
    ever_written = {}
    pre = {}
    for i in range(1, len(ops)):
        o = obs[i] if i < len(obs) else None
        if o is None:
            fails.append((i, ["C01"], "no observation line (harness died or printed garbage)"))
            break
        f = ops[i].split()
        post = o["slots"]
        st = o["status"]
        for e in o["ev"]:
            if e.startswith(BAD_EVENTS):
                tg = ["C01", "C07", "C15"] if not e.startswith("badread") else ["C01", "C07", "C10", "C02"]
                if f[0] in ("writeSlot", "uniqWrite") or (f[0] == "conv" and len(f) > 2 and f[2] == "assumeInit") or (f[0] == "create" and "ninit" in ops[i]) \
                        or (f[0] in ("iter", "create") and e.startswith("badread")):
                    # (a constructor that ran a destructor on / read a slot it never wrote: the block was still uninitialised there)
                    tg = tg + ["C15"]          # a write into / retyping of an uninitialised handle touched a never-written slot
                fails.append((i, tg, "event %s: a destroyed / never-written / freed value was touched" % e))
        for s in post.values():
            if s["kind"] in ("UNPARSED",) or "?" in s["kind"] or "PROBE-PANIC" in s["dig"]:
                fails.append((i, ["C01", "C12"], "slot probe not well-formed: %s" % s))
            if "|" in s["cnt"]:
                fails.append((i, ["C04"], "count accessors disagree: %s" % s["cnt"]))
        if o["aux"] != 0:
            fails.append((i, ["C06"], "source container storage not released / stray allocation: aux=%d" % o["aux"]))
        # allocator + destructor events
        for e in o["ev"]:
            p = e.split(":")
            if p[0] == "alloc":
                live[int(p[1][1:])] = (p[2], p[3])
                if st.startswith("panic"):
                    leaked_ok.add(int(p[1][1:]))      # the documented leak of a half-built allocation
            elif p[0] == "dealloc":
                b = int(p[1][1:])
                if b not in live:
                    fails.append((i, ["C01", "C05", "C02"], "block b%d freed but not live" % b))
                else:
                    if live[b] != (p[2], p[3]):
                        fails.append((i, ["C05"], "block b%d requested as %s freed as %s" % (b, live[b], (p[2], p[3]))))
                    del live[b]
                if owners(post, b) != 0:
                    # C05: "when the LAST handle goes away ... exactly that block is returned to the allocator"
                    fails.append((i, ["C01", "C02", "C05"] + (["C07"] if st.startswith("panic") else []), "block b%d freed while %d owning handle(s) remain" % (b, owners(post, b))))
            elif p[0] == "drop":
                if p[1] in dropped:
                    fails.append((i, ["C01", "C06", "C07", "C02"], "value %s destroyed twice" % p[1]))
                dropped.add(p[1])
        # C01: "its destructor runs exactly once, at the moment the last owning handle is released": when a block goes back to
        # the allocator, every value it was last SEEN to hold through an initialised view is destroyed by the same op — unless the
        # op hands the value to the caller (try_unwrap / into_inner / unwrap_or_clone of a sole owner).  (Also when the last
        # handle is released by unwinding.)
        if elem_size > 0:
            moved_out = (f[0] in ("tryUnwrap", "intoInner") and o["out"].startswith(("ok=", "val="))) or \
                        (f[0] in ("unwrapOrClone", "unwrapOrCloneH") and "val=" in o["out"] and not any(e.startswith("clone:") for e in o["ev"]))
            if not moved_out:
                for e in o["ev"]:
                    pp = e.split(":")
                    if pp[0] != "dealloc":
                        continue
                    b = int(pp[1][1:])
                    views = [z for z in pre.values() if z["blk"] == b and z["ty"] in ELEMS_INIT and not z["dig"].endswith("-") and "?" not in z["dig"]]
                    if not views or any(z["blk"] == b and z["ty"] not in ELEMS_INIT for z in pre.values()):
                        continue        # released through (or next to) a MaybeUninit view: no destructor runs there, by design
                    ids = set(re.findall(r"(\d+)\.\d+", views[0]["dig"]))
                    gone = {x[5:] for x in o["ev"] if x.startswith("drop:")}
                    missing = sorted(ids - gone - dropped)
                    if missing:
                        tg = ["C01", "C02"] + (["C07"] if st.startswith("panic") else []) + (["C09"] if f[0].startswith(("unwrapOrClone", "tryUnwrap", "tryUnique", "intoInner")) else []) \
                            + (["C08"] if f[0].startswith(("makeMut", "makeUnique")) else []) + (["C10"] if f[0] == "intoThin" else [])
                        fails.append((i, tg, "block b%d was returned to the allocator but the value(s) %s it held were never destroyed (destructor skipped at the last release%s)" % (
                            b, ",".join(missing), ", which happened while unwinding" if st.startswith("panic") else "")))
        # C01: a block nobody owns any more must have been released in this op
        for b in list(live):
            if owners(post, b) == 0 and b not in leaked_ok:
                # C05: "when the last handle goes away ... exactly that block is returned to the allocator"
                tg = ["C01", "C07", "C05"] if st.startswith("panic") else ["C01", "C05"]
                if f[0].startswith(("makeMut", "makeUnique")):
                    tg = tg + ["C08"]      # "the previous allocation loses exactly one owner": the last one to let go releases it
                if f[0].startswith(("unwrapOrClone", "tryUnwrap", "tryUnique", "intoInner")):
                    tg = tg + ["C09"]
                fails.append((i, tg, "block b%d has no owning handle left but was not released (leak)" % b))
                leaked_ok.add(b)
        # C04: the reported count equals the number of owning handles
        for k, s in post.items():
            if s["cnt"].isdigit() and int(s["cnt"]) != owners(post, s["blk"]):
                # after a panicking call an inaccurate count is also C07's "every surviving handle is
                # still valid with an accurate count"
                # ... and for the raw-pointer-shaped handles (OffsetArc: every method feeds the pointer back through
                # from_raw_offset) it is C11's "recovers a handle to the same allocation with the same ... count"
                fails.append((i, (["C04", "C07"] if st.startswith("panic") else ["C04"]) + (["C11"] if s["kind"] in ("offset", "raw", "rawOffset") else []),
                              "slot s%d reports count %s but %d owning handle(s) refer to b%d%s" % (
                                  k, s["cnt"], owners(post, s["blk"]), s["blk"], " (after a panic in user code)" if st.startswith("panic") else "")))
        for m in re.finditer(r"cnt=([\d|]+);", o["out"]):
            pass  # in-callback counts are compared below with the pre-state
        # user code inside T::clone saw the state BEFORE the library released / redirected anything
        if f[0] in ("makeMutH", "makeUniqueH", "unwrapOrCloneH") and st == "ok" and "hook=" in o["out"]:
            kk = int(f[3]) if f[0] != "unwrapOrCloneH" else int(f[2])
            hv = o["out"].split("hook=")[1].split(";")[0]
            if kk in pre:
                n_k = owners(pre, pre[kk]["blk"])
                if hv.startswith("cnt:") and hv[4:] != str(n_k):
                    fails.append((i, ["C04", "C08" if f[0] != "unwrapOrCloneH" else "C09"], "the count read through s%d from inside T::clone (called by %s) is %s while %d owning handle(s) exist: the library released its reference before running user code" % (kk, f[0][:-1], hv[4:], n_k)))
                if hv == "mut:some" and n_k != 1:
                    fails.append((i, ["C03", "C08" if f[0] != "unwrapOrCloneH" else "C09"], "get_mut through s%d succeeded from inside T::clone (called by %s) while %d owning handle(s) exist" % (kk, f[0][:-1], n_k)))
        # comparison / hashing / formatting through handles: read-only, also when the payload's impl panics
        if f[0] == "cmp" and st == "ok" and len(f) == 3 and f[1].isdigit() and f[2].isdigit() and int(f[1]) in pre and int(f[2]) in pre:
            d = dict(x.split("=", 1) for x in o["out"].split(";") if "=" in x)
            pa, pb = pre[int(f[1])], pre[int(f[2])]
            np_ = int(d.get("np", "0") or 0)
            tags_after = ["C04", "C07"] if np_ else ["C04"]
            if post != pre:
                fails.append((i, tags_after + ["C14"], "comparing / hashing / formatting s%s and s%s changed the state (%d of the payload's impls panicked): %s -> %s" % (
                    f[1], f[2], np_, {k: v for k, v in pre.items() if post.get(k) != v}, {k: v for k, v in post.items() if pre.get(k) != v})))
            if o["ev"]:
                fails.append((i, tags_after + ["C14"], "comparing / hashing / formatting allocated, freed or destroyed something: %s" % o["ev"]))
            want = "%s.%s" % (pa["cnt"], pb["cnt"])
            seen = d.get("incb", "-")
            if seen != "-" and pa["cnt"].isdigit() and pb["cnt"].isdigit() and any(x != want for x in seen.split("|")):
                fails.append((i, ["C04"], "while the comparison's borrow was in use the counts read %s, the owning handles are %s" % (seen, want)))
            if d.get("cons") == "false":
                fails.append((i, ["C14"], "==, !=, <, <=, >, >=, partial_cmp, cmp and hash are not mutually consistent on s%s, s%s: %s" % (f[1], f[2], o["out"])))
        # Clone::clone_from(d, s): d now refers to s's allocation, which gained one owner; d's old allocation lost one
        if f[0] == "cloneFrom" and st == "ok" and len(f) == 3 and f[1].isdigit() and f[2].isdigit() and int(f[1]) in pre and int(f[2]) in pre:
            dd, ss = int(f[1]), int(f[2])
            ob, nb = pre[dd]["blk"], pre[ss]["blk"]
            if dd not in post or post[dd]["blk"] != nb or post[dd]["kind"] != pre[ss]["kind"] or post.get(ss) != dict(pre[ss], cnt=post.get(ss, {}).get("cnt")):
                fails.append((i, ["C01", "C04", "C12"] if pre[ss]["kind"].startswith("union") else ["C01", "C04"], "clone_from: s%d should now refer to b%d like s%d: %s" % (dd, nb, ss, post.get(dd))))
            elif ob != nb and (owners(post, nb) != owners(pre, nb) + 1 or owners(post, ob) != owners(pre, ob) - 1):
                fails.append((i, ["C04"], "clone_from: owners of b%d %d -> %d, of b%d %d -> %d" % (nb, owners(pre, nb), owners(post, nb), ob, owners(pre, ob), owners(post, ob))))
        # per-op property monitors need the source slot before the op
        src = None
        if f[0] in ("isUnique", "getMut", "getUnique", "makeMut", "makeUnique", "tryUnwrap", "unwrapOrClone", "intoInner", "tryUnique",
                    "uniqWrite", "writeSlot", "intoThin", "conv", "drop", "cb") and len(f) > 1 and f[1].isdigit():
            src = int(f[1])
        if src is not None and src in pre and st != "bad-op":
            ps = pre[src]
            n_before = owners(pre, ps["blk"])
            uniq = n_before == 1
            if f[0] == "isUnique" and o["out"] != "unique=%s" % ("true" if uniq else "false"):
                fails.append((i, ["C03"], "is_unique says %s with %d owning handle(s)" % (o["out"], n_before)))
            if f[0] in ("getMut", "getUnique") and o["out"] != ("some" if uniq else "none"):
                fails.append((i, ["C03"], "%s -> %s with %d owning handle(s)" % (f[0], o["out"], n_before)))
            if f[0] == "tryUnique":
                if o["out"] != ("ok" if uniq else "err"):
                    fails.append((i, ["C03", "C09"], "try_unique -> %s with %d owning handle(s)" % (o["out"], n_before)))
                if not uniq and post.get(src) != ps:
                    fails.append((i, ["C03", "C09"], "try_unique declined but the handle changed: %s -> %s" % (ps, post.get(src))))
            if f[0] == "tryUnwrap":
                if uniq != o["out"].startswith("ok="):
                    fails.append((i, ["C03", "C09"], "try_unwrap -> %s with %d owning handle(s)" % (o["out"], n_before)))
                if not uniq and (post.get(src) != ps or o["ev"]):
                    fails.append((i, ["C09"], "try_unwrap declined but handle/events changed"))
                if uniq and (any(e.startswith("drop:") for e in o["ev"]) or not any(e.startswith("dealloc:b%d:" % ps["blk"]) for e in o["ev"])):
                    fails.append((i, ["C09"], "try_unwrap moved the value out but events are %s" % o["ev"]))
            if f[0] == "intoInner" and (any(e.startswith("drop:") for e in o["ev"]) or not any(e.startswith("dealloc:b%d:" % ps["blk"]) for e in o["ev"])):
                fails.append((i, ["C09"], "into_inner: events %s" % o["ev"]))
            if f[0] == "unwrapOrClone" and st == "ok":
                cl = [e for e in o["ev"] if e.startswith("clone:")]
                if uniq and (cl or any(e.startswith("drop:") for e in o["ev"])):
                    fails.append((i, ["C09"], "unwrap_or_clone on a sole owner cloned or destroyed: %s" % o["ev"]))
                if not uniq and (len(cl) != 1 or owners(post, ps["blk"]) != n_before - 1):
                    fails.append((i, ["C09"], "unwrap_or_clone on a shared handle: clones=%d owners %d -> %d" % (len(cl), n_before, owners(post, ps["blk"]))))
            if f[0] in ("makeMut", "makeUnique") and st == "ok":
                ns = post.get(src)
                cl = [e for e in o["ev"] if e.startswith("clone:")]
                if uniq:
                    if ns is None or ns["blk"] != ps["blk"] or cl or any(e.startswith("alloc") for e in o["ev"]):
                        fails.append((i, ["C08"], "make_mut on a sole owner did not keep the allocation / cloned: %s" % o["ev"]))
                else:
                    if ns is None or ns["blk"] == ps["blk"] or len(cl) != 1 or owners(post, ps["blk"]) != n_before - 1 or owners(post, ns["blk"]) != 1:
                        fails.append((i, ["C08", "C03"] if (ns is not None and ns["blk"] == ps["blk"]) else ["C08"],
                                      "make_mut on a shared handle (%d owners): %s -> %s, clones=%d" % (n_before, ps, ns, len(cl))))
                    for k2, s2 in pre.items():
                        if k2 != src and s2["blk"] == ps["blk"] and post.get(k2, {}).get("dig") != s2["dig"]:
                            fails.append((i, ["C08"], "a write through make_mut is visible through slot s%d: %s -> %s" % (k2, s2["dig"], post.get(k2, {}).get("dig"))))
                if ns is not None and (".%s]" % f[2]) not in ns["dig"] and ns["ty"] == "sized":
                    fails.append((i, ["C08"], "the write through make_mut is not visible through the handle itself: %s" % ns["dig"]))
            if f[0] == "writeSlot" and ps["kind"] == "arc":
                if uniq != (st == "ok"):
                    fails.append((i, ["C03", "C15"], "deprecated write on Arc with %d owner(s): %s" % (n_before, st)))
            if f[0] == "cb" and "replace:" not in f[3] and "swap:" not in f[3]:
                # counts read INSIDE the borrow callback: owners before the call plus the clones the
                # callback itself has made so far (scripts that replace the Arc are left to the diff)
                made = 0
                for tok in o["out"].split(";"):
                    if tok == "cloned":
                        made += 1
                    elif tok.startswith("cnt="):
                        v = tok[4:]
                        if "|" in v or (v.isdigit() and int(v) != n_before + made):
                            fails.append((i, ["C04"] + (["C11"] if f[2] == "rawOffset" else []), "count read inside the %s callback is %s while %d owning handle(s) exist (the borrow must not change the count)" % (f[2], v, n_before + made)))
                            break
        if f[0] == "cb" and len(f) > 3 and f[2] == "thinWithArcMut" and src is not None and src in pre and st != "bad-op":
            # C03 through ThinArc::with_arc_mut: `Arc::get_mut` on the lent Arc succeeds iff nobody else owns the allocation
            # the transient refers to at that moment (the callback may have cloned it, replaced it or swapped it)
            cur = pre[src]["blk"]
            own = {}
            for z in pre.values():
                if z["kind"] not in ("borrow",):
                    own[z["blk"]] = own.get(z["blk"], 0) + 1
            blk_of = {k2: z["blk"] for k2, z in pre.items()}
            toks = [x for x in o["out"].split(";") if x]
            for a_i, act in enumerate(f[3].split(",")):
                if a_i >= len(toks):
                    break
                tk = toks[a_i]
                if tk == "cloned":
                    own[cur] = own.get(cur, 0) + 1
                elif tk in ("replaced", "swapped"):
                    kk = int(act.split(":")[1])
                    if kk in blk_of:
                        nb = blk_of[kk]
                        if tk == "replaced":
                            own[cur] = own.get(cur, 0) - 1      # the assignment drops the old transient (the lender's own reference)
                            del blk_of[kk]                       # slot k's handle is now the lender's
                        else:
                            blk_of[kk] = cur                     # slot k now holds what the lender held
                        cur = nb
                elif tk.startswith("mut="):
                    if (tk == "mut=some") != (own.get(cur, 0) == 1):
                        fails.append((i, ["C03"], "get_mut inside the with_arc_mut callback answered %s while %d owning handle(s) refer to b%d" % (tk[4:], own.get(cur, 0), cur)))
                        break
        if f[0] == "iter" and len(f) in (8, 9) and elem_size > 0:
            # C05: "a size computation that overflows is refused with a panic instead of allocating a short block" — whatever
            # length the iterator reports, a block allocated by this constructor call is large enough for that many elements
            try:
                lens_ = f[4][len("lens="):]
                hints_ = f[5][len("hints="):]
                n_alloc = None
                if f[2] in ("hsFromIter", "thinFromIter") and lens_ != "-":
                    ll = [int(x) for x in lens_.split(",")]
                    n_alloc = ll[0] if f[2] == "hsFromIter" else (ll[1] if len(ll) > 1 else ll[0])
                elif f[2] in ("fromIter", "uniqueFromIter") and hints_ != "-":
                    hh = hints_.split(",")
                    lo, up = hh[0].split(":")
                    if up != "*" and int(lo) == int(up) and len(set(hh)) == 1:
                        n_alloc = int(lo)
                if n_alloc is not None and n_alloc >= 2 ** 32:
                    for e in o["ev"]:
                        pp = e.split(":")
                        if pp[0] == "alloc" and int(pp[2]) < n_alloc * elem_size:
                            fails.append((i, ["C05", "C06", "C07"], "the iterator reported %d elements of %d bytes; the constructor allocated a block of %s bytes for them (short block: the byte size overflowed) instead of refusing" % (n_alloc, elem_size, pp[2])))
            except ValueError:
                pass
        if f[0] == "iter" and st.startswith("panic") and len(f) in (8, 9):
            # C06: an HONEST iterator (every reported length / size_hint it ever gives is true, next() never panics) must be accepted
            try:
                n_items = 0 if f[6][len("items="):] == "-" else len(f[6][len("items="):].split(","))
                lens = f[4][len("lens="):]
                hints = f[5][len("hints="):]
                honest = f[7] == "panic=-"
                if lens != "-":
                    honest = honest and all(int(x) == n_items for x in lens.split(","))
                if hints != "-":
                    honest = honest and len(set(hints.split(","))) == 1        # an answer that changes between calls is C07's "lying" class
                    for hh in hints.split(","):
                        lo, up = hh.split(":")
                        honest = honest and int(lo) <= n_items and (up == "*" or int(up) >= n_items)
                if honest:
                    fails.append((i, ["C06"], "the constructor refused (%s) an honest iterator of %d items (lens=%s hints=%s)" % (st, n_items, lens, hints)))
            except ValueError:
                pass
        # C06: a constructor that succeeds delivers exactly the given header and elements, in order,
        # destroys none of them, and leaves no source storage behind
        if f[0] in ("create", "iter") and st == "ok" and len(f) > 2 and f[1].isdigit() and int(f[1]) in post and int(f[1]) not in pre:
            d = post[int(f[1])]
            want_items = None
            want_hdr = None
            if f[0] == "create":
                c = f[2]
                if c in ("new", "newB", "fromBox", "uniqueNew"):
                    want_items = [f[3]]
                elif c == "fromVec":
                    want_items = [] if f[4] == "-" else f[4].split(",")
                elif c == "hsFromVec":
                    want_hdr, want_items = f[3], ([] if f[5] == "-" else f[5].split(","))
                elif c == "hwlFromVec":
                    want_hdr, want_items = f[3], ([] if f[6] == "-" else f[6].split(","))
            else:
                its = f[6][len("items="):]
                want_items = [] if its == "-" else its.split(",")
                want_hdr = None if f[3] == "-" else f[3]
            if want_items is not None:
                exp = ("h" + want_hdr.replace(":", ".") if want_hdr else "") + "[" + ",".join(x.replace(":", ".") for x in want_items) + "]"
                if d["dig"] != exp:
                    fails.append((i, ["C06"], "constructor delivered %s, the input was %s" % (d["dig"], exp)))
                ids = {x.split(":")[0] for x in want_items} | ({want_hdr.split(":")[0]} if want_hdr else set())
                for e in o["ev"]:
                    if e.startswith("drop:") and e[5:] in ids:
                        fails.append((i, ["C06"], "constructor destroyed an input value it should have moved: %s" % e))
                if d["cnt"].isdigit() and d["cnt"] != "1":
                    fails.append((i, ["C06"], "fresh handle reports count %s" % d["cnt"]))
        # C15: uninitialised handles
        if f[0] == "writeSlot" and st == "ok" and src is not None and src in pre:
            written.setdefault(pre[src]["blk"], {})[f[2]] = f[3].split(":")[0]
            ever_written.setdefault(pre[src]["blk"], set()).add(f[3].split(":")[0])
        if f[0] == "conv" and len(f) > 2 and f[2] == "assumeInit" and st.startswith("panic") and src is not None and src in pre:
            fails.append((i, ["C15"], "assume_init on a fully written handle (%d owning handle(s)) panicked instead of changing the handle's type: %s" % (owners(pre, pre[src]["blk"]), st)))
        if f[0] == "conv" and len(f) > 2 and f[2] == "assumeInit" and st == "ok" and src in pre and src in post:
            if post[src]["blk"] != pre[src]["blk"] or post[src]["cnt"] != pre[src]["cnt"] or o["ev"]:
                fails.append((i, ["C15"], "assume_init changed allocation/count or caused events: %s -> %s %s" % (pre[src], post[src], o["ev"])))
            got = set(re.findall(r"(\d+)\.\d+", post[src]["dig"].split("[")[-1]))
            latest = set(written.get(pre[src]["blk"], {}).values())
            if not latest <= got | set(re.findall(r"(\d+)\.", post[src]["dig"])):
                fails.append((i, ["C15"], "after assume_init the written values are not what is visible: %s vs %s" % (sorted(latest), post[src]["dig"])))
        if f[0] == "drop" and st == "ok" and src in pre and pre[src]["ty"] in ("mu", "muSlice", "hsMu"):
            w = ever_written.get(pre[src]["blk"], set())
            for e in o["ev"]:
                if e.startswith("drop:") and e[5:] in w:
                    fails.append((i, ["C15"], "dropping an uninitialised-typed handle ran an element destructor: %s" % e))
        # C10: thin <-> fat conversions keep allocation, contents and count; replace redirects
        if f[0] == "conv" and len(f) > 2 and f[2] in ("fromThin", "thinIntoRaw", "thinFromRaw") and st == "ok" and src in pre and src in post:
            a, b2 = pre[src], post[src]
            if (a["blk"], a["dig"], a["len"]) != (b2["blk"], b2["dig"], b2["len"]) or o["ev"] or owners(pre, a["blk"]) != owners(post, a["blk"]):
                fails.append((i, ["C10"], "thin/fat conversion changed what is seen: %s -> %s %s" % (a, b2, o["ev"])))
        if f[0] == "intoThin" and src in pre:
            a = pre[src]
            if st == "ok" and src in post and ((a["blk"], a["dig"], a["len"]) != (post[src]["blk"], post[src]["dig"], post[src]["len"]) or o["ev"]):
                fails.append((i, ["C10"], "into_thin changed what is seen: %s -> %s" % (a, post[src])))
            if st.startswith("panic") and (src in post or owners(post, a["blk"]) != owners(pre, a["blk"]) - 1):
                fails.append((i, ["C10"], "into_thin refused but did not release exactly its argument"))
            if st.startswith("panic"):
                rest = [s2 for s2 in post.values() if s2["blk"] == a["blk"] and s2["cnt"].isdigit()]
                for s2 in rest:
                    if int(s2["cnt"]) != owners(post, a["blk"]):
                        fails.append((i, ["C10"], "into_thin refused with a panic but did not release its argument: count %s with %d owner(s) left" % (s2["cnt"], owners(post, a["blk"]))))
                        break
                if owners(post, a["blk"]) == 0 and not any(e.startswith("dealloc:b%d:" % a["blk"]) for e in o["ev"]):
                    fails.append((i, ["C10"], "into_thin refused the last handle with a panic but the allocation was not released"))
        if f[0] == "cb" and len(f) > 3 and f[2] == "thinWithArcMut" and "swapped;" in o["out"] and "replaced;" not in o["out"] and src in pre and src in post:
            acts = f[3].split(",")
            done = o["out"].split(";")
            cur = pre[src]["blk"]
            where = {}
            for a_i, act in enumerate(acts):
                if a_i < len(done) - 1 and act.startswith("swap:") and done[a_i] == "swapped":
                    kk = int(act.split(":")[1])
                    if kk in pre:
                        nb = where.get(kk, pre[kk]["blk"])
                        where[kk] = cur
                        cur = nb
            if post[src]["blk"] != cur or any(kk in post and post[kk]["blk"] != b for kk, b in where.items()):
                fails.append((i, ["C10", "C07", "C03", "C11"], "with_arc_mut: the callback swapped the Arc but afterwards the ThinArcs point at %s (expected s%d -> b%d, %s)" % (
                    {k: post[k]["blk"] for k in [src] + list(where) if k in post}, src, cur, {k: "b%d" % b for k, b in where.items()})))
        if f[0] == "cb" and len(f) > 3 and f[2] == "thinWithArcMut" and "replaced;" in o["out"] and "swapped;" not in o["out"] and src in pre and src in post:
            ks = [int(x.split(":")[1]) for x in f[3].split(",") if x.startswith("replace:")]
            done = o["out"].split(";")
            k_used = None
            acts = f[3].split(",")
            ri = 0
            cur = pre[src]["blk"]
            tmp = dict(pre)
            for a_i, act in enumerate(acts):
                if a_i >= len(done) - 1:
                    break
                if act.startswith("replace:") and done[a_i] == "replaced":
                    kk = int(act.split(":")[1])
                    if kk in tmp:
                        cur = tmp[kk]["blk"]
                        del tmp[kk]
            if post[src]["blk"] != cur:
                # ... and C11: the word the ThinArc stores (what as_ptr / into_raw / heap_ptr hand out) is not the address of the
                # allocation it owns a reference to
                fails.append((i, ["C10", "C07", "C11"], "with_arc_mut replaced the Arc but the ThinArc points at b%d instead of b%d" % (post[src]["blk"], cur)))
        # C10: a thin handle's view has as many elements as its digest shows
        for k, s in post.items():
            if s["kind"] in ("thin", "rawThin") or s["ty"] in ("slice", "uslice", "hs", "hwl"):
                mm = re.search(r"\[(.*)\]$", s["dig"])
                if mm is not None:
                    cnt = 0 if mm.group(1) == "" else mm.group(1).count(",") + 1
                    if cnt != s["len"]:
                        fails.append((i, ["C10"], "slot s%d: length %d but %d elements visible" % (k, s["len"], cnt)))
        # C11: block-address kinds store the block start; all data-address handles of one allocation
        # store the same address, and a slot that keeps its block keeps its address across the op
        data_off = {}
        for k, s in post.items():
            if s["kind"] in ("arc", "uniq", "thin", "rawThin"):
                if s["off"] != 0:
                    fails.append((i, ["C11"], "slot s%d (%s) stores offset %d, a %s handle stores the block address" % (k, s["kind"], s["off"], s["kind"])))
            elif s["kind"] in ("raw", "offset", "unionA", "unionB"):
                if s["off"] == 0:
                    fails.append((i, ["C11"], "slot s%d (%s) stores the block address, it must store the value's address" % (k, s["kind"])))
                if data_off.setdefault(s["blk"], s["off"]) != s["off"]:
                    fails.append((i, ["C11"], "two handles to b%d store different value addresses (+%d vs +%d)" % (s["blk"], data_off[s["blk"]], s["off"])))
        for k, s in pre.items():
            if k in post and post[k]["blk"] == s["blk"] and post[k]["kind"] == s["kind"] and post[k]["off"] != s["off"]:
                fails.append((i, ["C11"], "slot s%d: the stored address moved from +%d to +%d while the allocation lives" % (k, s["off"], post[k]["off"])))
        # C12: a union slot keeps its variant and block until it is dropped
        for k, s in pre.items():
            if s["kind"] in ("unionA", "unionB") and k in post and f[0] not in ("drop", "dropAll") and post[k] is not None \
                    and not (f[0] == "cloneFrom" and len(f) == 3 and f[1] == str(k)):      # clone_from assigns: the old value of the target is released
                if post[k]["kind"] != s["kind"] or post[k]["blk"] != s["blk"]:
                    fails.append((i, ["C12"], "union slot s%d changed variant/allocation: %s -> %s" % (k, s, post[k])))
        pre = post
    return fails


# ------------------------------------------------------------------------------------------------
# running and comparing


class CorrResult:
    def __init__(self):
        self.histories = 0
        self.ops = 0
        self.disagreements = []      # (history index, op index, impl line, model line)
        self.monitor_fails = []      # (history index, op index, [props], message)
        self.crashes = []            # (history index, rc)
        self.op_hist = {}
        self.status_hist = {}
        self.kinds_seen = set()
        self.max_owners = 0
        self.histories_list = []
        self.nontrivial = 0


def split_histories(lines, ops_all):
    """align flat output lines with the histories (each starts with 'reset')"""
    res = []
    idx = 0
    for ops in ops_all:
        res.append(lines[idx:idx + len(ops)])
        idx += len(ops)
    return res


IMPL_BATCH_TIMEOUT = 60      # a healthy batch takes seconds; a harness that spins (count underflow on a broken tree) must not cost an hour
MAX_HANGS = 2


def run_impl_resilient(harness_exe, histories, timeout=IMPL_BATCH_TIMEOUT):
    """run the harness on a list of histories; if the process dies in history k (a crash is an
    observation, not a machinery failure), record it and continue with k+1.. in a fresh process.
    returns (per-history line lists, [(history index, rc)])"""
    out = [None] * len(histories)
    crashes = []
    start = 0
    start_stuck = False
    hangs = 0
    slow = 0
    while start < len(histories):
        text = "\n".join("\n".join(h) for h in histories[start:]) + "\n"
        nops = sum(len(h) for h in histories[start:])
        lines, rc = run_batch(harness_exe, text, max(timeout, 30 + nops // 500))
        idx = 0
        k = start
        while k < len(histories):
            n = len(histories[k])
            chunk = lines[idx:idx + n]
            out[k] = chunk
            idx += n
            if len(chunk) < n:
                break
            k += 1
        if k >= len(histories):
            break
        if rc == 5 and (k > start or len(out[k] or []) == 0):
            # the harness stopped at a `reset` because its allocation record table was nearly full: not an observation,
            # continue with the same history in a fresh process
            if k == start and start_stuck:
                raise RuntimeError("history harness: record table full at the first history of a fresh process")
            start_stuck = (k == start)
            out[k] = None
            start = k
            continue
        start_stuck = False
        if rc == -999:
            # the batch did not finish in time.  Under load that is not an observation: run the history it stopped in ALONE;
            # only if it does not finish by itself either is it a hang of the implementation (a crash observation)
            alone, rc1 = run_batch(harness_exe, "\n".join(histories[k]) + "\n", 45)
            if rc1 == 0 and len(alone) >= len(histories[k]):
                out[k] = alone[:len(histories[k])]
                start = k + 1
                slow += 1
                if slow > 20:
                    raise RuntimeError("history harness: batches keep timing out although single histories finish (machine overloaded?)")
                continue
        crashes.append((k, rc))
        start = k + 1
        if rc == -999:
            hangs += 1
            if hangs >= MAX_HANGS:
                # the harness hung (did not finish a batch in time) several times: the remaining histories of this chunk are
                # not evaluated; the hangs themselves are recorded as crashes (observations)
                break
    return [o if o is not None else [] for o in out], crashes


def lean_monitor(histories, impl_lines, timeout=600):
    """The monitor written in LEAN (Model/Monitor.lean, exe drv_mon) on the implementation's observation lines.  It is
    the part of the properties C01 C03 C04 C05 C11 C12 for which `M1.monitor_accepts_model` is proved: on the model's own
    observations (events in any order) every check passes, for every history — so a FAIL on the implementation's line is a
    deviation from every behaviour the model has.  returns [(history index, op index, [props], message)]"""
    try:
        exe = common.lean_exe("drv_mon")
    except Exception:
        return []
    chunks, index = [], []
    for hi, ops in enumerate(histories):
        il = impl_lines[hi] if hi < len(impl_lines) else []
        chunks.append("reset")
        index.append(None)
        for k in range(1, len(ops)):
            if k >= len(il) or parse_obs(il[k]) is None:
                break
            chunks.append("OP " + ops[k])
            chunks.append("OBS " + cmp_canon(il[k]))
            index.append((hi, k))
    lines, rc = run_batch(exe, "\n".join(chunks) + "\n", timeout)
    if rc != 0 or len(lines) != len(index):
        return []
    out = []
    for ix, l in zip(index, lines):
        if ix is not None and l.startswith("FAIL "):
            parts = [x for x in l[5:].split(";") if x]
            props = sorted({x.split(":", 1)[0] for x in parts if re.match(r"^C\d\d:", x)})
            out.append((ix[0], ix[1], props or ["C01"], "[Lean monitor, proved sound on the model: M1.monitor_accepts_model] " + l[5:]))
    return out


def run_correspondence(ctx, histories, harness_exe, model_exe=None, label="hist", workers=8):
    from concurrent.futures import ThreadPoolExecutor
    model_exe = model_exe or common.lean_exe("drv_hist")
    res = CorrResult()
    res.histories_list = histories
    text = "\n".join("\n".join(h) for h in histories) + "\n"
    # the harness keeps freed blocks quarantined, so long runs are split over several processes
    nchunks = max(1, min(workers, len(histories) // 50))
    bounds = [len(histories) * i // nchunks for i in range(nchunks + 1)]
    with ThreadPoolExecutor(max_workers=workers) as ex:
        fm = ex.submit(run_batch, model_exe, text, 3600)
        futs = [ex.submit(run_impl_resilient, harness_exe, histories[bounds[i]:bounds[i + 1]]) for i in range(nchunks)]
        mlines, mrc = fm.result()
        ih = []
        for i, f in enumerate(futs):
            lines, crashes = f.result()
            ih.extend(lines)
            res.crashes.extend((bounds[i] + k, rc) for k, rc in crashes)
    if mrc != 0:
        raise RuntimeError("model driver failed rc=%s" % mrc)
    mh = split_histories(mlines, histories)
    seen_distinct = set()
    for hi, ops in enumerate(histories):
        res.histories += 1
        res.ops += len(ops) - 1
        il, ml = ih[hi], mh[hi]
        iobs = [parse_obs(x) if k > 0 else None for k, x in enumerate(il)]
        for k, op in enumerate(ops[1:], 1):
            nm = op.split()[0] + (":" + op.split()[2] if op.split()[0] in ("conv", "create", "iter", "cb") and len(op.split()) > 2 else "")
            res.op_hist[nm] = res.op_hist.get(nm, 0) + 1
            if k < len(iobs) and iobs[k]:
                st = iobs[k]["status"]
                res.status_hist[st] = res.status_hist.get(st, 0) + 1
                for s in iobs[k]["slots"].values():
                    res.kinds_seen.add("%s.%s" % (s["kind"], s["ty"]))
                    res.max_owners = max(res.max_owners, owners(iobs[k]["slots"], s["blk"]))
        if len(ops) > 3:
            key = tuple(ops)
            if key not in seen_distinct and any(x and x["status"] == "ok" and x["slots"] for x in iobs[1:]):
                seen_distinct.add(key)
        first = None
        for k in range(len(ops)):
            a = il[k] if k < len(il) else "<missing: harness process died here>"
            b = ml[k] if k < len(ml) else "<missing>"
            if cmp_canon(a) != b:
                first = (hi, k, a, b)
                break
        if first:
            res.disagreements.append(first)
        for (k, props, msg) in monitor_history(ops, iobs):
            res.monitor_fails.append((hi, k, props, msg))
    lm = lean_monitor(histories, ih)
    res.lean_monitor_lines = sum(max(0, len(x) - 1) for x in ih)
    res.monitor_fails.extend(lm)
    res.nontrivial = len(seen_distinct)
    return res


def cmp_canon(line):
    """`cmp` lines: the implementation also reports what the payload's trait methods saw while the library's
    borrow was in use (incb), how many armed operations unwound (np) and how many payload calls were made
    (calls); those are for the monitors, the model does not predict them"""
    return re.sub(r";(incb|np|calls)=[^; ]*", "", line) if ";incb=" in line else line


def run_one(harness_exe, model_exe, ops):
    text = "\n".join(ops) + "\n"
    il, irc = run_batch(harness_exe, text, timeout=60)
    ml, _ = run_batch(model_exe, text, timeout=60)
    return il, ml, irc


def still_bad(harness_exe, model_exe, ops, props=None):
    il, ml, irc = run_one(harness_exe, model_exe, ops)
    if irc != 0:
        return True
    iobs = [parse_obs(x) if k > 0 else None for k, x in enumerate(il)]
    mf = monitor_history(ops, iobs) + [(k, p, m) for (_, k, p, m) in lean_monitor([ops], [il], timeout=60)]
    if props is not None:
        return any(set(p) & set(props) for _, p, _ in mf)
    return [cmp_canon(x) for x in il] != ml or bool(mf)


def shrink(harness_exe, model_exe, ops, props=None, budget=200):
    """ddmin over the ops after 'reset'"""
    body = ops[1:]
    n = 2
    runs = 0
    while len(body) >= 2 and runs < budget:
        chunk = max(1, len(body) // n)
        reduced = False
        for i in range(0, len(body), chunk):
            cand = body[:i] + body[i + chunk:]
            runs += 1
            if cand and still_bad(harness_exe, model_exe, ["reset"] + cand, props):
                body = cand
                n = max(n - 1, 2)
                reduced = True
                break
        if not reduced:
            if chunk == 1:
                break
            n = min(len(body), n * 2)
    return ["reset"] + body


def side_by_side(harness_exe, model_exe, ops):
    il, ml, irc = run_one(harness_exe, model_exe, ops)
    out = []
    iobs = [parse_obs(x) if k > 0 else None for k, x in enumerate(il)]
    mf = monitor_history(ops, iobs)
    for k, op in enumerate(ops):
        out.append("op   : " + op)
        out.append("  impl : " + (il[k] if k < len(il) else "<no output: harness exited rc=%s>" % irc))
        out.append("  model: " + (ml[k] if k < len(ml) else "<none>"))
        for (kk, props, msg) in mf:
            if kk == k:
                out.append("  PROPERTY %s FAILS HERE: %s" % ("/".join(props), msg))
    return "\n".join(out), mf, irc


# ------------------------------------------------------------------------------------------------
# which model/implementation differences concern which property
GATE_OPS = ("isUnique", "getMut", "getUnique", "tryUnique", "tryUnwrap", "makeMut", "makeUnique", "unwrapOrClone", "writeSlot", "uniqWrite",
            "makeMutH", "makeUniqueH", "unwrapOrCloneH")
RAW_CONVS = ("intoRaw", "fromRaw", "intoRawOffset", "fromRawOffset", "thinIntoRaw", "thinFromRaw", "toDyn")


def relevant(prop, ops, k, a, b):
    """Does the first difference of a history (op index k; implementation line a, model line b) concern `prop`?
    The sequential model is shared by the history properties; each property's theorems speak about certain
    operations and observables, and a difference elsewhere (another property's subject) does not break ITS tie.
    C01, C04 and C05 speak about every operation (lifetime, counts, allocator traffic), so everything concerns them.
    Monitors are independent of this: they are evaluated on every implementation trace in full."""
    if prop in ("C01", "C04", "C05", "C02"):
        return True
    f = ops[k].split()
    oa, ob = parse_obs(cmp_canon(a)) if a and not a.startswith("<") else None, parse_obs(b) if b and not b.startswith("<") else None
    if oa is None or ob is None:
        return True
    kinds, tys = set(), set()
    for i in set(oa["slots"]) | set(ob["slots"]):
        x, y = oa["slots"].get(i), ob["slots"].get(i)
        if x != y:
            for z in (x, y):
                if z:
                    kinds.add(z["kind"])
                    tys.add(z["ty"])
    # the slot the op works on (before the op: take it from whichever side still shows it, else from the op text)
    panicky = oa["status"].startswith("panic") or ob["status"].startswith("panic") or (f[0] in ("makeMut", "makeUnique", "unwrapOrClone") and f[-1] == "1") \
        or (f[0] == "cb" and "panic" in ops[k]) or (f[0] == "iter")
    if prop == "C03":
        return f[0] in GATE_OPS or (f[0] == "cb" and "thinWithArcMut" in ops[k]) or (f[0] == "conv" and len(f) > 2 and f[2] in ("shareable", "toDyn"))
    if prop == "C06":
        return f[0] in ("create", "iter") or (f[0] == "conv" and len(f) > 2 and f[2] in ("eraseHeader", "addHeader"))
    if prop == "C07":
        return panicky or f[0] == "cmp"
    if prop == "C08":
        return f[0] in ("makeMut", "makeUnique", "makeMutH", "makeUniqueH")
    if prop == "C09":
        return f[0] in ("tryUnwrap", "tryUnique", "unwrapOrClone", "unwrapOrCloneH", "intoInner") or (f[0] == "conv" and len(f) > 2 and f[2] == "shareable")
    if prop == "C10":
        return f[0] == "intoThin" or "thin" in ops[k].lower() or bool(kinds & {"thin", "rawThin"}) or "hwl" in tys
    if prop == "C11":
        return (f[0] == "conv" and len(f) > 2 and f[2] in RAW_CONVS) or bool(kinds & {"raw", "rawThin", "offset", "thin"}) or "rawOffset" in ops[k] \
            or (f[0] == "cb" and "thinWithArcMut" in ops[k] and ("replace" in ops[k] or "swap" in ops[k]))
    if prop == "C12":
        return "union" in ops[k].lower() or bool(kinds & {"unionA", "unionB"})
    if prop == "C15":
        return "ninit" in ops[k] or f[0] == "writeSlot" or (f[0] == "conv" and len(f) > 2 and f[2] == "assumeInit") or bool(tys & {"mu", "muSlice", "hsMu"})
    return True


# ------------------------------------------------------------------------------------------------
# zero-sized payload build: same histories, observations compared up to what a ZST can show

# constructors that accept a zero-sized element / payload type (`from_header_and_iter` / `_slice` refuse it up front;
# `from_header_and_vec` — hence `From<Vec<T>>` and the inexact-iterator path — does not)
SIZED_CTORS = ("new", "newB", "fromBox", "uniqueNew", "newUninit", "uniqueNewUninit", "default", "fromVec", "hsFromVec", "hwlFromVec")


def zst_applicable(h):
    """histories that only build sized payloads (slices of a ZST are refused by the crate's
    `assert_ne!(size_of::<T>(), 0)` — the layout slice covers that)"""
    for op in h:
        f = op.split()
        if f[0] == "iter":
            return False
        if f[0] == "create" and f[2] not in SIZED_CTORS:
            return False
    return True


def project_zst(line):
    """forget what a zero-sized payload cannot carry: value identities, values, block sizes"""
    o = parse_obs(line)
    if o is None:
        return line
    evs = []
    for e in o["ev"]:
        p = e.split(":")
        if p[0] in ("alloc", "dealloc"):
            evs.append(p[0] + ":" + p[1])
        elif p[0] in ("drop", "clone"):
            evs.append(p[0])
        else:
            evs.append(e)
    out = re.sub(r"(ok|val)=[^;]*", r"\1=_", o["out"])
    if out.startswith("eq="):
        out = "cmp"          # a ZST has no value to compare by; the state / event part of the line still counts
    slots = " ".join("s%d=%s.%s@b%d+%d/len%d/cnt%s" % (k, s["kind"], s["ty"], s["blk"], s["off"], s["len"], s["cnt"]) for k, s in sorted(o["slots"].items()))
    return "%s out=%s ev=[%s] aux=%d | %s" % (o["status"], out, " ".join(sorted(evs)), o["aux"], slots)


def zst_drop_accounting(ops, iobs_raw):
    """zero-sized values have no identity, but their number is known: every value handed to a constructor or made by
    Clone is destroyed at most once, so at no point may the destructor have run more often than values exist; and a
    constructor that succeeds destroys none of the values it was given."""
    fails = []
    made = 0
    dropped = 0
    for k in range(1, len(ops)):
        o = iobs_raw[k] if k < len(iobs_raw) else None
        if o is None:
            break
        f = ops[k].split()
        given = 0
        if f[0] == "create" and o["status"] != "bad-op":
            if f[2] in ("new", "newB", "fromBox", "uniqueNew", "default"):
                given = 1
            elif f[2] == "fromVec":
                given = 0 if f[4] == "-" else len(f[4].split(","))
            elif f[2] == "hsFromVec":
                given = 1 + (0 if f[5] == "-" else len(f[5].split(",")))
            elif f[2] == "hwlFromVec":
                given = 1 + (0 if f[6] == "-" else len(f[6].split(",")))
            elif f[2] == "hsUninit":
                given = 1
        if f[0] == "writeSlot" and o["status"] != "bad-op":
            given = 1
        made += given + sum(1 for e in o["ev"] if e.startswith("clone:"))
        nd = sum(1 for e in o["ev"] if e.startswith("drop:"))
        dropped += nd
        if f[0] == "create" and o["status"] == "ok" and nd:
            fails.append((k, ["C01", "C06"], "the constructor destroyed %d of the (zero-sized) values it was given: they must be moved into the allocation" % nd))
        if dropped > made:
            fails.append((k, ["C01", "C06", "C07"], "%d destructor runs so far but only %d (zero-sized) values ever existed: something was destroyed twice" % (dropped, made)))
            break
    return fails


def zst_eval(harness_exe_zst, model_exe, ops):
    """one history on the ZST build: (first projected disagreement or None, monitor failures, rc)"""
    il, ml, irc = run_one(harness_exe_zst, model_exe, ops)
    dis = None
    for k in range(1, len(ops)):
        a = project_zst(il[k]) if k < len(il) else "<missing: harness process died here>"
        b = project_zst(ml[k]) if k < len(ml) else "<missing>"
        if a != b:
            dis = (k, a, b)
            break
    # the verdict / count / block monitors still apply; value-identity ones do not (a ZST has none)
    iobs = [parse_obs(x) if k > 0 else None for k, x in enumerate(il)]
    extra = zst_drop_accounting(ops, [dict(o, ev=list(o["ev"])) if o else None for o in iobs])
    for o in iobs:
        if o:
            o["ev"] = [e for e in o["ev"] if not e.startswith("drop:")]
            for s2 in o["slots"].values():
                s2["dig"] = "_"
    mon = [(k, props, msg + " [zero-sized payload build]") for (k, props, msg) in monitor_history(ops, iobs, elem_size=0) + extra
           if "visible" not in msg and "delivered" not in msg and "digest" not in msg]
    return dis, mon, irc, il, ml


def run_zst_iter_pass(harness_exe_zst, histories):
    """iterator-based constructors with a ZERO-SIZED element type: the crate refuses up front (`Need to think about ZST`);
    the property allows a refusal by panic or a correct handle — never a handle whose elements were already destroyed,
    nor more destructor runs than elements.  Monitor only (the model is not consulted)."""
    hs = [h for h in histories if any(op.startswith("iter ") for op in h) and all(op.split()[0] in ("reset", "iter", "drop", "dropAll", "clone", "conv") for op in h)]
    ih, crashes = run_impl_resilient(harness_exe_zst, hs)
    fails = []
    for hi, ops in enumerate(hs):
        il = ih[hi]
        made = dropped = 0
        for k in range(1, len(ops)):
            o = parse_obs(il[k]) if k < len(il) else None
            if o is None:
                fails.append((hi, k, ["C06", "C01"], "no observation (the harness process died) [zero-sized elements]"))
                break
            f = ops[k].split()
            nd = sum(1 for e in o["ev"] if e.startswith("drop:"))
            if f[0] == "iter" and len(f) in (8, 9) and o["status"] != "bad-op":
                its = f[6][len("items="):]
                given = (0 if its == "-" else len(its.split(","))) + (0 if f[3] == "-" else 1)
                made += given
                if o["status"] == "ok" and nd:
                    fails.append((hi, k, ["C06", "C01"], "the constructor returned a handle but destroyed %d of the zero-sized values it was given" % nd))
            made += sum(1 for e in o["ev"] if e.startswith("clone:"))
            dropped += nd
            if dropped > made:
                fails.append((hi, k, ["C06", "C01", "C07"], "%d destructor runs but only %d zero-sized values ever existed (destroyed twice)" % (dropped, made)))
                break
    return len(hs), fails, crashes, hs


def run_zst_pass(ctx, histories, harness_exe_zst, model_exe):
    """returns (n histories, disagreements [(hi, k, impl, model)], monitor failures [(hi, k, props, msg)], crashes)"""
    idx = [i for i, h in enumerate(histories) if zst_applicable(h)]
    hs = [histories[i] for i in idx]
    text = "\n".join("\n".join(h) for h in hs) + "\n"
    mlines, mrc = run_batch(model_exe, text)
    ih, crashes = run_impl_resilient(harness_exe_zst, hs)
    mh = split_histories(mlines, hs)
    dis, mon = [], []
    for hi, ops in enumerate(hs):
        il, ml = ih[hi], mh[hi]
        for k in range(1, len(ops)):
            a = project_zst(il[k]) if k < len(il) else "<missing: harness process died here>"
            b = project_zst(ml[k]) if k < len(ml) else "<missing>"
            if a != b:
                dis.append((idx[hi], k, a, b))
                break
        iobs = [parse_obs(x) if k > 0 else None for k, x in enumerate(il)]
        extra = zst_drop_accounting(ops, [dict(o, ev=list(o["ev"])) if o else None for o in iobs])
        for o in iobs:
            if o:
                o["ev"] = [e for e in o["ev"] if not e.startswith("drop:")]
                for s2 in o["slots"].values():
                    s2["dig"] = "_"
        for (k, props, msg) in monitor_history(ops, iobs, elem_size=0) + extra:
            if "visible" not in msg and "delivered" not in msg and "digest" not in msg:
                mon.append((idx[hi], k, props, msg + " [zero-sized payload build]"))
    return len(hs), dis, mon, [(idx[k], rc) for k, rc in crashes]


def zst_shrink(harness_exe_zst, model_exe, ops, props=None, budget=150):
    def bad(c):
        dis, mon, rc, _, _ = zst_eval(harness_exe_zst, model_exe, c)
        if props:
            return any(set(p) & set(props) for _, p, _ in mon)
        return dis is not None or rc != 0
    body = ops[1:]
    n = 2
    runs = 0
    while len(body) >= 2 and runs < budget:
        chunk = max(1, len(body) // n)
        reduced = False
        for i in range(0, len(body), chunk):
            cand = body[:i] + body[i + chunk:]
            runs += 1
            if cand and bad(["reset"] + cand):
                body = cand
                n = max(n - 1, 2)
                reduced = True
                break
        if not reduced:
            if chunk == 1:
                break
            n = min(len(body), n * 2)
    return ["reset"] + body


def zst_side_by_side(harness_exe_zst, model_exe, ops):
    dis, mon, rc, il, ml = zst_eval(harness_exe_zst, model_exe, ops)
    out = ["(payload type: the harness's zero-sized `Tracked`; model lines are shown projected onto what a ZST can carry)"]
    for k, op in enumerate(ops):
        out.append("op   : " + op)
        out.append("  impl : " + (il[k] if k < len(il) else "<no output: harness exited rc=%s>" % rc))
        out.append("  model: " + (project_zst(ml[k]) if 0 < k < len(ml) else (ml[k] if k < len(ml) else "<none>")))
        for (kk, props, msg) in mon:
            if kk == k:
                out.append("  PROPERTY %s FAILS HERE: %s" % ("/".join(props), msg))
    return "\n".join(out), mon, rc, dis


def generate(ctx, n_hist, length, weights=None, seed_salt=0):
    rng = random.Random(ctx.seed * 1000003 + seed_salt)
    model = ModelProc()
    g = Gen(rng, weights)
    hs = []
    try:
        for _ in range(n_hist):
            hs.append(g.history(model, rng.randrange(max(3, length // 4), length + 1)))
    finally:
        model.close()
    return hs


def load_corpus():
    d = os.path.join(common.VERIF, "corpus")
    hs = []
    if os.path.isdir(d):
        for f in sorted(os.listdir(d)):
            if f.endswith(".ops"):
                ops = [l.strip() for l in open(os.path.join(d, f)) if l.strip() and not l.startswith("#")]
                if ops and ops[0] != "reset":
                    ops = ["reset"] + ops
                hs.append(ops)
    return hs
