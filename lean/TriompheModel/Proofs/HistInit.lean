import TriompheModel.Proofs.HistLen
import TriompheModel.Proofs.HistValStep
/-!
# A view that counts as initialised only ever sees written slots (`InitInv`)

`Full m b`: every payload slot of block `b` is written.  Slots only go from `none` to `some` (`Keeps`: every memory
primitive keeps a full block full).  `InitInv s`: a slot whose handle views its elements as initialised
(`ty.elemsInit`; a thin handle always does, its view is the `HeaderWithLength` one) refers to a full block.
Preserved by `step` for EVERY op (`initinv_step`): constructors with an initialised view write every slot
(`runCtor_eq`, `runIterCtor_spec`), `assume_init` is guarded by `allWritten`, every other handle-to-handle function
keeps "initialised" (`vInit`), `make_mut` clones a value that is there (here `LenInv`: a sized view has ONE slot).
-/
namespace M1
open LY

def Block.full (k : Block) : Prop := ∀ e ∈ k.elems, e.isSome = true

/-- every payload slot of block `b` is written -/
def Full (m : Mem) (b : Nat) : Prop := ∃ k : Block, m.blocks[b]? = some k ∧ k.full

/-- written slots stay written: a full block stays full -/
def Keeps (m m' : Mem) : Prop := ∀ b, Full m b → Full m' b

/-- does the handle's view consider the elements initialised?  (a thin handle's view is always the
`HeaderWithLength` one, whatever its `ty` field says) -/
def vInit (h : HV) : Bool := h.kind.isThin || h.ty.elemsInit

namespace Keeps

theorem refl (m : Mem) : Keeps m m := fun _ h => h

theorem trans {a b c : Mem} (h1 : Keeps a b) (h2 : Keeps b c) : Keeps a c := fun b h => h2 b (h1 b h)

theorem upd (m : Mem) (b : Nat) (f : Block → Block) (hf : ∀ k : Block, k.full → (f k).full) : Keeps m (m.upd b f) := by
  intro j ⟨k, hk, hfull⟩
  rw [Full, upd_get, hk]
  by_cases hbj : b = j
  · exact ⟨f k, by simp [hbj], hf k hfull⟩
  · exact ⟨k, by simp [hbj], hfull⟩

theorem same_blocks {m m' : Mem} (h : m'.blocks = m.blocks) : Keeps m m' := by
  intro j ⟨k, hk, hfull⟩
  exact ⟨k, by rw [h]; exact hk, hfull⟩

theorem emit (m : Mem) (es : List Event) : Keeps m (m.emit es) := same_blocks rfl

theorem append (m : Mem) (k0 : Block) (log : List Event) (nc : Nat) : Keeps m ⟨m.blocks ++ [k0], log, nc⟩ := by
  intro j ⟨k, hk, hfull⟩
  refine ⟨k, ?_, hfull⟩
  show (m.blocks ++ [k0])[j]? = some k
  rw [List.getElem?_append_left (List.getElem?_eq_some_iff.1 hk).1]; exact hk

theorem alloc (m : Mem) (lay : Layout) (hdr : Option Item) (rl : Option Nat) (el : List (Option Item)) :
    Keeps m (allocBlock m lay hdr rl el).1 := append m _ _ _

theorem incr (m : Mem) (b : Nat) : Keeps m (incr m b) := upd m b _ (fun _ h => h)
theorem leak (m : Mem) (b : Nat) : Keeps m (m.leak b) := upd m b _ (fun _ h => h)

theorem decr (m : Mem) (b : Nat) (t : Ty) (l : Nat) : Keeps m (decr m b t l) := by
  unfold M1.decr
  split
  · exact refl m
  · split
    · exact (upd m b (fun k => { k with count := 0, live := false }) (fun _ h => h)).trans (emit _ _)
    · exact upd m b _ (fun _ h => h)

theorem arc_drop (m : Mem) (a : HV) : Keeps m (Arc.drop m a) := decr _ _ _ _

theorem writeVal (m : Mem) (b v : Nat) : Keeps m (writeVal m b v) := by
  apply upd
  intro k hfull
  split
  · exact hfull
  · split
    · rename_i it r hel
      intro e he
      rcases List.mem_cons.1 he with rfl | he
      · rfl
      · exact hfull e (by rw [hel]; exact List.mem_cons_of_mem _ he)
    · exact hfull

theorem cloneValue (m : Mem) (b : Nat) : Keeps m (cloneValue m b).1 := same_blocks (cloneValue_blocks m b)

theorem into_inner (m : Mem) (u : HV) : Keeps m (UniqueArc.into_inner m u).1 := by
  unfold UniqueArc.into_inner
  split
  · exact refl m
  · exact (upd m u.blk (fun k => { k with count := 0, live := false }) (fun _ h => h)).trans (emit _ _)

theorem closed (m0 : Mem) : MemClosed (Keeps m0) where
  hIncr := fun m b _ hp _ _ => hp.trans (incr m b)
  hDecr := fun m b t l hp _ => hp.trans (decr m b t l)
  hWriteVal := fun m b v hp => hp.trans (writeVal m b v)
  hCloneValue := fun m b hp => hp.trans (cloneValue m b)
  hCloneNew := fun m b _ hp => (hp.trans (cloneValue m b)).trans (alloc _ _ _ _ _)
  hIntoInner := fun m u hp => hp.trans (into_inner m u)

end Keeps

/-- a block appended last is full if its slots are -/
theorem full_new (bs : List Block) (k : Block) (log : List Event) (nc : Nat) (hk : k.full) :
    Full ⟨bs ++ [k], log, nc⟩ bs.length := ⟨k, by simp, hk⟩

theorem full_map_some (vs : List Item) : ∀ e ∈ vs.map some, e.isSome = true := by
  intro e he
  obtain ⟨v, _, rfl⟩ := List.mem_map.1 he
  rfl

/-! ## every op keeps full blocks full -/

theorem keeps_step {s : State} (hi : Inv' s) (op : Op) : Keeps s.mem (step s op).1.mem := by
  cases hp : op.plain with
  | true => exact closed_step (Keeps.closed s.mem) hi (Keeps.refl _) op hp
  | false =>
    cases op with
    | create dst c =>
      simp only [step]
      split
      · exact Keeps.refl _
      · split
        · exact Keeps.refl _
        · rename_i m h hc
          rw [runCtor_eq, Option.map_eq_some_iff] at hc
          obtain ⟨lay, _, he⟩ := hc
          cases he
          exact Keeps.append _ _ _ _
    | writeSlot src i v =>
      simp only [step]
      split
      · split
        · split
          · simp only
            split
            · exact Keeps.emit _ _
            · exact Keeps.refl _
          · apply Keeps.upd
            intro k hfull e he
            rcases List.mem_or_eq_of_mem_set he with he | rfl
            · exact hfull e he
            · rfl
        · exact Keeps.refl _
      · exact Keeps.refl _
    | iterCtor dst w h sc =>
      simp only [step]
      split
      · exact Keeps.refl _
      · have hs := runIterCtor_spec s.mem true w h sc
        generalize runIterCtor s.mem true w h sc = r at hs
        cases hs with
        | built lay hal => exact Keeps.append _ _ _ _
        | noBlock k cls => exact Keeps.same_blocks rfl
        | noAlloc n hal => exact Keeps.same_blocks rfl
        | thinMismatch lay n1 hw hn hal => exact Keeps.append _ _ _ _
        | leaked lay rl es k cls hes => exact Keeps.append _ _ _ _
    | _ => cases hp

/-! ## the invariant -/

/-- a slot whose view counts its elements as initialised refers to a block all of whose slots are written -/
structure InitInv (s : State) : Prop where
  full : ∀ e, e ∈ s.slots → vInit e.2 = true → Full s.mem e.2.blk

theorem initinv_init : InitInv State.init := ⟨fun e he => by cases he⟩

/-- every slot of the new table is an old slot, or stands on the block of an old slot that was at least as
initialised, or is full in the new memory -/
def SlotsOk (s : State) (m' : Mem) (sl' : Slots) : Prop :=
  ∀ e, e ∈ sl' → e ∈ s.slots ∨
    (∃ e0, e0 ∈ s.slots ∧ e0.2.blk = e.2.blk ∧ (vInit e.2 = true → vInit e0.2 = true)) ∨
    (vInit e.2 = true → Full m' e.2.blk)

theorem InitInv.next {s : State} (h : InitInv s) {m' : Mem} {sl' : Slots} (hk : Keeps s.mem m')
    (hsl : SlotsOk s m' sl') : InitInv ⟨m', sl'⟩ := by
  refine ⟨?_⟩
  intro e he hv
  rcases hsl e he with h1 | ⟨e0, h0, hb, hi⟩ | h3
  · exact hk _ (h.full e h1 hv)
  · rw [← hb]; exact hk _ (h.full e0 h0 (hi hv))
  · exact h3 hv

namespace SlotsOk
variable {s : State} {m' : Mem}

theorem same : SlotsOk s m' s.slots := fun _ he => Or.inl he

theorem sub {sl' : Slots} (h : ∀ e, e ∈ sl' → e ∈ s.slots) : SlotsOk s m' sl' := fun e he => Or.inl (h e he)

theorem del (i : Nat) : SlotsOk s m' (delL s.slots i) := sub (fun _ he => (mem_delL.1 he).1)

theorem put_from {src dst : Nat} {h c : HV} (hs : lookup s src = some h) (hb : c.blk = h.blk)
    (hv : vInit c = true → vInit h = true) : SlotsOk s m' ((dst, c) :: s.slots) := by
  intro e he
  rcases List.mem_cons.1 he with rfl | he
  · exact Or.inr (Or.inl ⟨(src, h), lookup_mem hs, hb.symm, hv⟩)
  · exact Or.inl he

theorem put_full {dst : Nat} {c : HV} (hv : vInit c = true → Full m' c.blk) : SlotsOk s m' ((dst, c) :: s.slots) := by
  intro e he
  rcases List.mem_cons.1 he with rfl | he
  · exact Or.inr (Or.inr hv)
  · exact Or.inl he

theorem set_from {src : Nat} {h c : HV} (hs : lookup s src = some h) (hb : c.blk = h.blk)
    (hv : vInit c = true → vInit h = true) : SlotsOk s m' (setL s.slots src c) := by
  intro e he
  rcases mem_setL he with ⟨he', _⟩ | ⟨rfl, _⟩
  · exact Or.inl he'
  · exact Or.inr (Or.inl ⟨(src, h), lookup_mem hs, hb.symm, hv⟩)

theorem set_full {src : Nat} {c : HV} (hv : vInit c = true → Full m' c.blk) : SlotsOk s m' (setL s.slots src c) := by
  intro e he
  rcases mem_setL he with ⟨he', _⟩ | ⟨rfl, _⟩
  · exact Or.inl he'
  · exact Or.inr (Or.inr hv)

end SlotsOk

/-! ## handle-to-handle functions keep "initialised" -/

theorem vInit_of_ty {h : HV} (ht : h.ty.elemsInit = true) : vInit h = true := by simp [vInit, ht]
theorem vInit_of_thin {h : HV} (ht : h.kind.isThin = true) : vInit h = true := by simp [vInit, ht]

theorem vInit_fat {h : HV} (hk : h.kind.isThin = false) : vInit h = h.ty.elemsInit := by simp [vInit, hk]

theorem cloneHandle_vInit {m m' : Mem} {h c : HV} (hc : cloneHandle m h = some (m', c)) (hv : vInit c = true) :
    vInit h = true := by
  unfold cloneHandle at hc
  split at hc
  all_goals
    rename_i hkd
    cases hc
  · simpa [vInit, Arc.clone, hkd, Kind.isThin] using hv
  · exact vInit_of_thin (by rw [hkd]; rfl)
  · simpa [vInit, OffsetArc.clone, OffsetArc.clone_arc, Arc.clone, OffsetArc.transient, Arc.from_raw,
      Arc.into_raw_offset, Arc.into_raw, hkd, Kind.isThin] using hv
  · simpa [vInit, ArcUnion.clone, ArcBorrow.clone_arc, Arc.clone, ArcUnion.borrow, Arc.from_raw,
      ArcUnion.from_first, Arc.into_raw, hkd, Kind.isThin] using hv
  · simpa [vInit, ArcUnion.clone, ArcBorrow.clone_arc, Arc.clone, ArcUnion.borrow, Arc.from_raw,
      ArcUnion.from_second, Arc.into_raw, hkd, Kind.isThin] using hv

theorem allWritten_full {m : Mem} {h : HV} (ha : allWritten m h = true) : Full m h.blk := by
  unfold allWritten at ha
  split at ha
  · rename_i k hk
    refine ⟨k, hk, ?_⟩
    intro e he
    exact List.all_eq_true.1 ha e he
  · cases ha

/-- every conversion keeps "initialised", except `assume_init`, which is guarded by `allWritten` -/
theorem runConv_vInit {m : Mem} {h h' : HV} {c : Conv} (hc : runConv m h c = some h') (hv : vInit h' = true) :
    vInit h = true ∨ allWritten m h = true := by
  cases c <;> simp only [runConv] at hc
  case assumeInit =>
    split at hc
    · rename_i hcond; exact Or.inr hcond.2
    · cases hc
  case toDyn =>
    split at hc
    · rename_i hcond; exact Or.inl (vInit_of_ty (by rw [hcond.2]; rfl))
    · split at hc
      · rename_i hcond; exact Or.inl (vInit_of_ty (by rw [hcond.2]; rfl))
      · cases hc
  case fromThin =>
    split at hc
    · rename_i hcond; exact Or.inl (vInit_of_thin (by rw [hcond]; rfl))
    · cases hc
  case thinIntoRaw =>
    split at hc
    · rename_i hcond; exact Or.inl (vInit_of_thin (by rw [hcond]; rfl))
    · cases hc
  case thinFromRaw =>
    split at hc
    · rename_i hcond; exact Or.inl (vInit_of_thin (by rw [hcond]; rfl))
    · cases hc
  case eraseHeader =>
    split at hc
    · rename_i hcond; exact Or.inl (vInit_of_ty (by rw [hcond.2]; rfl))
    · cases hc
  case addHeader =>
    split at hc
    · rename_i hcond; exact Or.inl (vInit_of_ty (by rw [hcond.2]; rfl))
    · cases hc
  all_goals
    split at hc
    · cases hc
      left
      apply vInit_of_ty
      simpa [vInit, Arc.into_raw, Arc.from_raw, Arc.into_raw_offset, Arc.from_raw_offset, ArcUnion.from_first,
        ArcUnion.from_second, UniqueArc.shareable, Kind.isThin] using hv
    · cases hc

theorem ctor_full (c : Ctor) (b : Nat) (hv : vInit (c.handle b) = true) : ∀ e ∈ c.elems, e.isSome = true := by
  cases c <;> first
    | (simp [vInit, Ctor.handle, Kind.isThin, Ty.elemsInit] at hv; done)
    | (simp only [Ctor.elems, Ctor.takesValues, if_true]; exact full_map_some _)

/-! ## `make_mut` -/

theorem cloneValue_isSome {m : Mem} {b : Nat} {k : Block} (hk : m.blocks[b]? = some k) (hf : k.full)
    (hne : k.elems ≠ []) : (cloneValue m b).2.isSome = true := by
  unfold cloneValue
  cases hel : k.elems with
  | nil => exact absurd hel hne
  | cons e r =>
    have := hf e (by rw [hel]; exact List.mem_cons_self)
    cases e with
    | none => cases this
    | some it => simp [hk, hel]

theorem make_mut_full {m m' : Mem} {a h' : HV} {cp : Bool} {k : Block} (hk : m.blocks[a.blk]? = some k) (hf : k.full)
    (hne : k.elems ≠ []) (hmm : Arc.make_mut m a cp = (m', some h')) : Full m' h'.blk := by
  rw [make_mut_eq] at hmm
  split at hmm
  · cases hmm; exact ⟨k, hk, hf⟩
  · split at hmm
    · cases hmm
    · cases hmm
      apply Keeps.arc_drop
      have hs := cloneValue_isSome hk hf hne
      show Full ⟨(cloneValue m a.blk).1.blocks ++ [_], _, _⟩ (cloneValue m a.blk).1.blocks.length
      apply full_new
      intro e he
      simp only [List.mem_singleton] at he
      subst he
      exact hs

/-- a sized view sees exactly one slot -/
theorem LenInv.one_slot {s : State} (hl : LenInv s) {i : Nat} {h : HV} (hs : lookup s i = some h)
    (hty : h.ty.isSlicey = false) : ∃ k : Block, s.mem.blocks[h.blk]? = some k ∧ k.elems.length = 1 := by
  obtain ⟨k, hk, ho⟩ := hl.ok i h (lookup_mem hs)
  exact ⟨k, hk, ho.one hty⟩

/-! ## the slot table after each op -/

section
variable {s : State} (hl : LenInv s) (hi : InitInv s)
include hl hi
set_option linter.unusedSectionVars false

theorem so_create (dst : Nat) (c : Ctor) :
    SlotsOk s (step s (.create dst c)).1.mem (step s (.create dst c)).1.slots := by
  simp only [step]
  split
  · exact .same
  · split
    · exact .same
    · rename_i m h hc
      rw [runCtor_eq, Option.map_eq_some_iff] at hc
      obtain ⟨lay, _, he⟩ := hc
      cases he
      apply SlotsOk.put_full
      intro hv
      have hb : (c.handle s.mem.blocks.length).blk = s.mem.blocks.length := by cases c <;> rfl
      rw [hb]
      exact full_new _ _ _ _ (ctor_full c _ hv)

theorem so_iterCtor (dst : Nat) (w : IterCtor) (h : Option Item) (sc : IterScript) :
    SlotsOk s (step s (.iterCtor dst w h sc)).1.mem (step s (.iterCtor dst w h sc)).1.slots := by
  simp only [step]
  split
  · exact .same
  · have hs := runIterCtor_spec s.mem true w h sc
    generalize runIterCtor s.mem true w h sc = r at hs
    cases hs with
    | built lay hal =>
      apply SlotsOk.put_full
      intro _
      exact full_new _ _ _ _ (full_map_some _)
    | noBlock k cls => exact .same
    | noAlloc n hal => exact .same
    | thinMismatch lay n1 hw hn hal => exact .same
    | leaked lay rl es k cls hes => exact .same

theorem so_clone (dst src : Nat) :
    SlotsOk s (step s (.clone dst src)).1.mem (step s (.clone dst src)).1.slots := by
  simp only [step]
  split
  · rename_i h hd hs
    split
    · rename_i m c hc
      exact .put_from hs (cloneHandle_spec hc).2.1 (cloneHandle_vInit hc)
    · exact .same
  · exact .same

theorem so_drop (src : Nat) : SlotsOk s (step s (.drop src)).1.mem (step s (.drop src)).1.slots := by
  simp only [step]
  split
  · split
    · exact .del _
    · exact .same
  · exact .same

theorem so_conv (src : Nat) (c : Conv) :
    SlotsOk s (step s (.conv src c)).1.mem (step s (.conv src c)).1.slots := by
  simp only [step]
  split
  · rename_i h hs
    split
    · rename_i h' hc
      have hb := (runConv_spec hc).1
      apply SlotsOk.set_full
      intro hv
      rw [hb]
      rcases runConv_vInit hc hv with h1 | h1
      · exact hi.full _ (lookup_mem hs) h1
      · exact allWritten_full h1
    · exact .same
  · exact .same

theorem so_intoThin (src : Nat) :
    SlotsOk s (step s (.intoThin src)).1.mem (step s (.intoThin src)).1.slots := by
  simp only [step]
  split
  · rename_i h hs
    split
    · rename_i hc
      by_cases hrec : ((s.mem.blocks[h.blk]?.bind (·.recLen))).getD 0 = h.len
      · rw [into_thin_eq, if_pos hrec]
        exact .set_from hs rfl (fun _ => vInit_of_ty (by rw [hc.2]; rfl))
      · rw [into_thin_eq, if_neg hrec]
        exact .del _
    · exact .same
  · exact .same

theorem so_cloneArc (dst src : Nat) :
    SlotsOk s (step s (.cloneArc dst src)).1.mem (step s (.cloneArc dst src)).1.slots := by
  simp only [step]
  split
  · rename_i h hd hs
    split
    · rename_i m a hr
      split at hr
      · cases hr
        exact .put_from hs rfl (fun hv => vInit_of_ty (by
          simpa [vInit, Arc.from_raw, ArcBorrow.clone_arc, ArcBorrow.of_arc, ArcUnion.borrow, Arc.into_raw, Arc.clone,
            Kind.isThin] using hv))
      · split at hr
        · cases hr
          exact .put_from hs rfl (fun hv => vInit_of_ty (by
            simpa [vInit, OffsetArc.clone_arc, Arc.clone, OffsetArc.transient, Arc.from_raw, Kind.isThin] using hv))
        · split at hr
          · cases hr
            exact .put_from hs rfl (fun hv => vInit_of_ty (by
          simpa [vInit, Arc.from_raw, ArcBorrow.clone_arc, ArcBorrow.of_arc, ArcUnion.borrow, Arc.into_raw, Arc.clone,
            Kind.isThin] using hv))
          · cases hr
    · exact .same
  · exact .same

theorem so_tryUnique (src : Nat) :
    SlotsOk s (step s (.tryUnique src)).1.mem (step s (.tryUnique src)).1.slots := by
  simp only [step]
  split
  · rename_i h hs
    split
    · by_cases hu : Arc.is_unique s.mem h = true
      · rw [try_unique_eq, if_pos hu]
        exact .set_from hs rfl (fun hv => vInit_of_ty (by simpa [vInit, Kind.isThin] using hv))
      · rw [try_unique_eq, if_neg hu]
        exact .same
    · exact .same
  · exact .same

theorem so_simple (op : Op)
    (hop : match op with
      | .isUnique _ | .getMut _ _ | .getUnique _ _ | .uniqWrite _ _ | .writeSlot _ _ _ | .intoInner _ | .tryUnwrap _
      | .unwrapOrClone _ _ => True
      | _ => False) :
    SlotsOk s (step s op).1.mem (step s op).1.slots := by
  cases op <;> simp only at hop
  case isUnique src =>
    simp only [step]; split
    · split <;> exact .same
    · exact .same
  case getMut src v =>
    simp only [step]; split
    · split
      · split <;> exact .same
      · exact .same
    · exact .same
  case getUnique src v =>
    simp only [step]; split
    · split
      · split <;> exact .same
      · exact .same
    · exact .same
  case uniqWrite src v =>
    simp only [step]; split
    · split <;> exact .same
    · exact .same
  case writeSlot src i v =>
    simp only [step]; split
    · split
      · split <;> exact .same
      · exact .same
    · exact .same
  case intoInner src =>
    simp only [step]; split
    · split
      · exact .del _
      · exact .same
    · exact .same
  case tryUnwrap src =>
    simp only [step]; split
    · split
      · split
        · exact .del _
        · exact .same
      · exact .same
    · exact .same
  case unwrapOrClone src cp =>
    simp only [step]; split
    · split
      · split
        · exact .del _
        · split
          · exact .del _
          · exact .del _
      · exact .same
    · exact .same

/-- the slot of a copy-on-write op afterwards: on a full block -/
theorem so_mm {src v : Nat} {h a : HV} {cp : Bool} {m : Mem} {h' : HV} (g : HV) (hs : lookup s src = some h)
    (ha : a.blk = h.blk) (hns : h.ty.isSlicey = false) (hvh : vInit h = true)
    (hmm : Arc.make_mut s.mem a cp = (m, some h')) (hg : g.blk = h'.blk) :
    SlotsOk s (writeVal m h'.blk v) (setL s.slots src g) := by
  apply SlotsOk.set_full
  intro _
  obtain ⟨k, hk, h1⟩ := hl.one_slot hs hns
  obtain ⟨k', hk', hf⟩ := hi.full _ (lookup_mem hs) hvh
  rw [hk] at hk'; cases hk'
  rw [hg]
  apply Keeps.writeVal
  exact make_mut_full (by rw [ha]; exact hk) hf (by intro e; rw [e] at h1; cases h1) hmm

theorem so_makeMut (src v : Nat) (cp : Bool) :
    SlotsOk s (step s (.makeMut src v cp)).1.mem (step s (.makeMut src v cp)).1.slots := by
  simp only [step]
  split
  · rename_i h hs
    split
    · rename_i hc
      split
      · rename_i m h' hmm
        exact so_mm hl hi h' hs rfl (by rw [hc.2]; rfl) (vInit_of_ty (by rw [hc.2]; rfl)) hmm rfl
      · exact .same
    · split
      · rename_i hc
        obtain ⟨k, _, ho⟩ := hl.ok src h (lookup_mem hs)
        have hty : h.ty = .sized := ho.off hc
        split
        · rename_i m a' hmm
          exact so_mm hl hi (a := Arc.from_raw_offset s.mem h) (Arc.into_raw_offset m a') hs rfl (by rw [hty]; rfl)
            (vInit_of_ty (by rw [hty]; rfl)) hmm rfl
        · exact .same
      · exact .same
  · exact .same

theorem so_makeUnique (src v : Nat) (cp : Bool) :
    SlotsOk s (step s (.makeUnique src v cp)).1.mem (step s (.makeUnique src v cp)).1.slots := by
  simp only [step]
  split
  · rename_i h hs
    split
    · rename_i hc
      split
      · rename_i m h' hmm
        exact so_mm hl hi h' hs rfl (by rw [hc.2]; rfl) (vInit_of_ty (by rw [hc.2]; rfl)) hmm rfl
      · exact .same
    · exact .same
  · exact .same

end

theorem dropAllFrom_slots (keys : List Nat) : ∀ (s : State) (e : Nat × HV), e ∈ (dropAllFrom keys s).slots → e ∈ s.slots := by
  induction keys with
  | nil => intro s e he; exact he
  | cons k r ih =>
    intro s e he
    simp only [dropAllFrom, List.foldl_cons] at he
    have := ih _ e he
    unfold releaseSlot at this
    split at this
    · exact (mem_delL.1 this).1
    · exact this

/-! ## callbacks -/

/-- what the callback interpreter maintains: the invariant; the transient is a fat view, on a full block if its
view is initialised; under `with_arc_mut` its view is the `HeaderWithLength` one -/
def CbInit (api : CbApi) (s : State) (t : HV) : Prop :=
  InitInv s ∧ t.kind.isThin = false ∧ (t.ty.elemsInit = true → Full s.mem t.blk) ∧ (api = .thinWithArcMut → t.ty = .hwl)

theorem transientOf_fat {m : Mem} {api : CbApi} {h t : HV} (ht : transientOf m api h = some t) :
    t.kind.isThin = false ∧ (t.ty.elemsInit = true → vInit h = true) ∧ (api = .thinWithArcMut → t.ty = .hwl) := by
  cases api <;> simp only [transientOf] at ht
  case borrowWithArc =>
    split at ht
    · cases ht; exact ⟨rfl, fun hv => vInit_of_ty hv, by intro h; cases h⟩
    · split at ht
      · cases ht; exact ⟨rfl, fun hv => vInit_of_ty hv, by intro h; cases h⟩
      · cases ht
  case thinWithArc =>
    split at ht
    · rename_i hc; cases ht; exact ⟨rfl, fun _ => vInit_of_thin (by rw [hc]; rfl), by intro h; cases h⟩
    · cases ht
  case thinWithArcMut =>
    split at ht
    · rename_i hc; cases ht; exact ⟨rfl, fun _ => vInit_of_thin (by rw [hc]; rfl), fun _ => rfl⟩
    · cases ht
  all_goals
    split at ht
    · cases ht; exact ⟨rfl, fun hv => vInit_of_ty hv, by intro h; cases h⟩
    · cases ht

theorem thick_cbinit {api : CbApi} {s : State} {m' : Mem} {sl' : Slots} {h2 : HV} (hinv : InitInv ⟨m', sl'⟩)
    (hf : Full m' h2.blk) : CbInit api ⟨m', sl'⟩ (ThinArc.thick s.mem h2) :=
  ⟨hinv, rfl, fun _ => hf, fun _ => rfl⟩

theorem initinv_withCb {s : State} (hi : InitInv s) (src : Nat) (api : CbApi) (script : List CbAct) :
    InitInv (step s (.withCb src api script)).1 := by
  simp only [step]
  split
  · rename_i h hs
    split
    · rename_i t htr
      obtain ⟨h1, h2, h3⟩ := transientOf_fat htr
      have hb := (transientOf_spec htr).1
      have h0 : CbInit api s t := ⟨hi, h1, fun hv => by rw [hb]; exact hi.full _ (lookup_mem hs) (h2 hv), h3⟩
      obtain ⟨t', hres, _⟩ := runCb_ind api src (CbInit api)
        (by
          intro s t k m c hp hk hc
          obtain ⟨hinv, hnt, hfull, hth⟩ := hp
          obtain ⟨rfl, hcb, _, _⟩ := cloneHandle_spec hc
          have hty := cloneHandle_ty hc hnt
          refine ⟨?_, hnt, fun hv => Keeps.incr _ _ _ (hfull hv), hth⟩
          refine hinv.next (Keeps.incr _ _) (SlotsOk.put_full ?_)
          intro hv
          split
          · rename_i ha
            show Full _ c.blk
            rw [hcb]
            exact Keeps.incr _ _ _ (hfull (by rw [hth ha]; rfl))
          · rename_i ha
            rw [if_neg ha] at hv
            rw [hcb]
            have := cloneHandle_vInit hc hv
            rw [vInit_fat hnt] at this
            exact Keeps.incr _ _ _ (hfull this))
        (by
          intro s t k hp hk _
          obtain ⟨hinv, hnt, hfull, hth⟩ := hp
          refine ⟨?_, hnt, fun hv => Keeps.incr _ _ _ (hfull hv), hth⟩
          refine hinv.next (Keeps.incr _ _) (SlotsOk.put_full ?_)
          intro hv
          exact Keeps.incr _ _ _ (hfull (by simpa [vInit, OffsetArc.transient, Arc.from_raw, Kind.isThin] using hv)))
        (by
          intro s t v hp
          obtain ⟨hinv, hnt, hfull, hth⟩ := hp
          exact ⟨hinv.next (Keeps.writeVal _ _ _) .same, hnt, fun hv => Keeps.writeVal _ _ _ _ (hfull hv), hth⟩)
        (by
          intro s t k h2 hp hne hlk hthin
          obtain ⟨hinv, hnt, hfull, hth⟩ := hp
          have hf2 : Full s.mem h2.blk := hinv.full _ (lookup_mem hlk) (vInit_of_thin (by rw [hthin]; rfl))
          have hf2' : Full (Arc.drop s.mem t) h2.blk := Keeps.arc_drop _ _ _ hf2
          refine thick_cbinit (hinv.next (Keeps.arc_drop _ _) ?_) hf2'
          intro e he
          have he : e ∈ setL (delL s.slots k) src (ThinArc.of_arc (ThinArc.thick s.mem h2)) := he
          rcases mem_setL he with ⟨he', _⟩ | ⟨rfl, _⟩
          · exact Or.inl (mem_delL.1 he').1
          · exact Or.inr (Or.inr (fun _ => hf2')))
        (by
          intro s t k h2 hp hne hlk hthin ha
          obtain ⟨hinv, hnt, hfull, hth⟩ := hp
          have hf2 : Full s.mem h2.blk := hinv.full _ (lookup_mem hlk) (vInit_of_thin (by rw [hthin]; rfl))
          have hft : Full s.mem t.blk := hfull (by rw [hth ha]; rfl)
          refine thick_cbinit (hinv.next (Keeps.refl _) ?_) hf2
          intro e he
          have he : e ∈ setL (setL s.slots k (ThinArc.of_arc t)) src (ThinArc.of_arc (ThinArc.thick s.mem h2)) := he
          rcases mem_setL he with ⟨he', _⟩ | ⟨rfl, _⟩
          · rcases mem_setL he' with ⟨he'', _⟩ | ⟨rfl, _⟩
            · exact Or.inl he''
            · exact Or.inr (Or.inr (fun _ => hft))
          · exact Or.inr (Or.inr (fun _ => hf2)))
        script s t "" h0
      exact hres
    · exact hi
  · exact hi

/-! ## every op -/

/-- **every op keeps initialised views on written slots** -/
theorem initinv_step (s : State) (op : Op) (hinv : Inv s) (hl : LenInv s) (hi : InitInv s) : InitInv (step s op).1 := by
  have hk := keeps_step hinv.toInv' op
  cases op with
  | create dst c => exact hi.next hk (so_create hl hi dst c)
  | iterCtor dst w h sc => exact hi.next hk (so_iterCtor hl hi dst w h sc)
  | clone dst src => exact hi.next hk (so_clone hl hi dst src)
  | drop src => exact hi.next hk (so_drop hl hi src)
  | conv src c => exact hi.next hk (so_conv hl hi src c)
  | intoThin src => exact hi.next hk (so_intoThin hl hi src)
  | cloneArc dst src => exact hi.next hk (so_cloneArc hl hi dst src)
  | isUnique src => exact hi.next hk (so_simple hl hi _ trivial)
  | getMut src v => exact hi.next hk (so_simple hl hi _ trivial)
  | getUnique src v => exact hi.next hk (so_simple hl hi _ trivial)
  | makeMut src v cp => exact hi.next hk (so_makeMut hl hi src v cp)
  | makeUnique src v cp => exact hi.next hk (so_makeUnique hl hi src v cp)
  | tryUnwrap src => exact hi.next hk (so_simple hl hi _ trivial)
  | unwrapOrClone src cp => exact hi.next hk (so_simple hl hi _ trivial)
  | intoInner src => exact hi.next hk (so_simple hl hi _ trivial)
  | tryUnique src => exact hi.next hk (so_tryUnique hl hi src)
  | uniqWrite src v => exact hi.next hk (so_simple hl hi _ trivial)
  | writeSlot src i v => exact hi.next hk (so_simple hl hi _ trivial)
  | withCb src api script => exact initinv_withCb hi src api script
  | dropAll => exact hi.next hk (SlotsOk.sub (dropAllFrom_slots _ _))

theorem initinv_run_from (ops : List Op) : ∀ (s : State), Inv s → LenInv s → InitInv s →
    InitInv (ops.foldl (fun s o => (step s o).1) s) := by
  induction ops with
  | nil => intro s _ _ h; exact h
  | cons o r ih =>
    intro s h1 h2 h3
    exact ih _ (inv_step s o h1) (leninv_step s o h1 h2) (initinv_step s o h1 h2 h3)

/-- after every finite history, a handle whose view counts its elements as initialised only sees written slots -/
theorem initinv_run (ops : List Op) : InitInv (run ops) :=
  initinv_run_from ops _ inv_init leninv_init initinv_init

/-- unpacked: the slots a handle with an initialised view shows are all written -/
theorem init_view_written (ops : List Op) (i : Nat) (h : HV) (hs : lookup (run ops) i = some h)
    (hv : (asArc (run ops).mem h).ty.elemsInit = true) :
    ∃ k : Block, (run ops).mem.blocks[h.blk]? = some k ∧
      ∀ j, j < viewLen (run ops).mem h → (k.elems[j]?).join.isSome = true := by
  obtain ⟨k, hk, ho⟩ := (leninv_run ops).ok i h (lookup_mem hs)
  rw [asArc_ty ho] at hv
  obtain ⟨k', hk', hf⟩ := (initinv_run ops).full _ (lookup_mem hs) (vInit_of_ty hv)
  rw [hk] at hk'; cases hk'
  refine ⟨k, hk, ?_⟩
  intro j hj
  rw [viewLen_of_ok hk ho] at hj
  rw [List.getElem?_eq_getElem hj]
  exact hf _ (List.getElem_mem hj)

/-- the one slot of a sized payload seen through an initialised view holds a value -/
theorem InitInv.sized_written {s : State} (hi : InitInv s) (hl : LenInv s) {i : Nat} {h : HV}
    (hs : lookup s i = some h) (hty : h.ty = .sized) :
    ∃ (k : Block) (it : Item), s.mem.blocks[h.blk]? = some k ∧ k.elems = [some it] := by
  obtain ⟨k, hk, h1⟩ := hl.one_slot hs (by rw [hty]; rfl)
  obtain ⟨k', hk', hf⟩ := hi.full _ (lookup_mem hs) (vInit_of_ty (by rw [hty]; rfl))
  rw [hk] at hk'; cases hk'
  cases hel : k.elems with
  | nil => rw [hel] at h1; cases h1
  | cons e r =>
    have hr : r = [] := by
      rw [hel] at h1
      cases r with
      | nil => rfl
      | cons _ _ => simp at h1
    have := hf e (by rw [hel]; exact List.mem_cons_self)
    cases e with
    | none => cases this
    | some it => exact ⟨k, it, hk, by rw [hel, hr]⟩

end M1
