"""C01 — a shared value lives exactly as long as some owning handle does.

Deciding method: Lean theorems in Props/C01.lean over the sequential handle machine M1/M3 (invariant
`Inv` preserved by every op, by induction over histories of any length), tied to the code by the
history correspondence (Tie B): the same op lines run on the Lean driver and on the real library.
"""
from vlib import histcheck

MODULE = "TriompheModel.Props.C01"
EXTRA = ["TriompheModel.Proofs.HistInv", "TriompheModel.Proofs.HistVal", "TriompheModel.Props.Monitor", "TriompheModel.Props.Gates"]
TAGS = ['C01']
WEIGHTS = {}


def run(ctx):
    histcheck.run(ctx, MODULE, WEIGHTS, TAGS, lean_extra=EXTRA)
    # "its memory is returned exactly once ... nothing is leaked" also when the payload's destructor panics
    # while the last owning handle (of every kind) is released
    from vlib.props import c05
    c05.drop_panic_pass(ctx, "C01")


def replay(ctx, path):
    histcheck.replay(ctx, path, TAGS)
