"""C10 — a ThinArc is an exact one-word stand-in for the fat Arc.

Deciding method: Lean theorems in Props/C10.lean over the sequential handle machine M1/M3 (invariant
`Inv` preserved by every op, by induction over histories of any length), tied to the code by the
history correspondence (Tie B): the same op lines run on the Lean driver and on the real library.
"""
from vlib import histcheck

MODULE = "TriompheModel.Props.C10"
EXTRA = ["TriompheModel.Proofs.HistLen"]
TAGS = ['C10']
WEIGHTS = {'create': 16, 'iter': 8, 'intoThin': 12, 'conv': 18, 'cb': 20, 'clone': 10}


def run(ctx):
    histcheck.run(ctx, MODULE, WEIGHTS, TAGS, lean_extra=EXTRA,
                  release_quick_filter=lambda h: any(op.split()[0] in ('iter', 'intoThin', 'cb') for op in h))


def replay(ctx, path):
    histcheck.replay(ctx, path, TAGS)
