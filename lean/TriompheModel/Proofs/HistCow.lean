import TriompheModel.Proofs.HistInv
/-!
# Copy-on-write frame property (C08)

For `Arc::make_mut` / `Arc::make_unique` / `OffsetArc::make_mut` on slot `src`: every OTHER slot keeps
its handle and keeps observing the old, unmodified value (`digest`), whether the call wrote in place
(the handle was unique: no other slot refers to that block) or redirected `src` to a fresh block
(shared: the write goes to the fresh block; the old block only loses one count).
-/
namespace M1
open LY

/-! ## what `digest` depends on -/

/-- the observable contents of a block -/
def Block.content (k : Block) : Option Item × Option Nat × List (Option Item) := (k.hdr, k.recLen, k.elems)

/-- contents of block `b` -/
def cont (m : Mem) (b : Nat) := (m.blocks[b]?).map Block.content

theorem viewLen_congr {m m' : Mem} {h : HV} (hc : cont m' h.blk = cont m h.blk) : viewLen m' h = viewLen m h := by
  unfold viewLen
  have : (m'.blocks[h.blk]?.bind (·.recLen)) = (m.blocks[h.blk]?.bind (·.recLen)) := by
    simp only [cont] at hc
    cases h1 : m'.blocks[h.blk]? <;> cases h2 : m.blocks[h.blk]? <;> simp_all [Block.content]
  rw [this]

theorem digest_congr {m m' : Mem} {h : HV} (hc : cont m' h.blk = cont m h.blk) : digest m' h = digest m h := by
  unfold digest
  rw [viewLen_congr hc]
  simp only [cont] at hc
  cases h1 : m'.blocks[h.blk]? <;> cases h2 : m.blocks[h.blk]? <;> simp_all [Block.content]

theorem cont_upd_ne (m : Mem) (b : Nat) (f : Block → Block) {j : Nat} (h : j ≠ b) : cont (m.upd b f) j = cont m j := by
  have h' : ¬ b = j := fun e => h e.symm
  simp only [cont, Mem.upd, List.getElem?_modify]
  cases m.blocks[j]? <;> simp [h']

theorem cont_upd_same (m : Mem) (b : Nat) (f : Block → Block) (hf : ∀ k, (f k).content = k.content) (j : Nat) :
    cont (m.upd b f) j = cont m j := by
  simp only [cont, Mem.upd, List.getElem?_modify]
  cases m.blocks[j]? with
  | none => rfl
  | some k => by_cases hbj : b = j <;> simp [hbj, hf]

theorem cont_decr (m : Mem) (b : Nat) (t : Ty) (len : Nat) (j : Nat) : cont (decr m b t len) j = cont m j := by
  unfold decr
  split
  · rfl
  · split
    · exact cont_upd_same m b (fun k => { k with count := 0, live := false }) (fun _ => rfl) j
    · exact cont_upd_same m b (fun k => { k with count := k.count - 1 }) (fun _ => rfl) j

theorem cont_clone_new (m : Mem) (b : Nat) (t : Ty) {j : Nat} (hj : j < m.blocks.length) :
    cont (Arc.new (cloneValue m b).1 t (cloneValue m b).2).1 j = cont m j := by
  have hb : (cloneValue m b).1.blocks = m.blocks := by unfold cloneValue; split <;> rfl
  show ((cloneValue m b).1.blocks ++ [_])[j]?.map _ = _
  rw [hb, List.getElem?_append_left hj]; rfl

/-! ## the slot table -/

theorem lookupL_setL_ne (sl : Slots) {i src : Nat} (h' : HV) (hne : i ≠ src) :
    lookupL (setL sl src h') i = lookupL sl i := by
  induction sl with
  | nil => rfl
  | cons e r ih =>
    obtain ⟨a, x⟩ := e
    have hcons : setL ((a, x) :: r) src h' = (if a = src then (src, h') else (a, x)) :: setL r src h' := by
      simp [setL]
    rw [hcons]
    by_cases he : a = src
    · subst he
      simp only [if_true]
      rw [lookupL_cons_ne (fun e' => hne e'.symm), lookupL_cons_ne (fun e' => hne e'.symm), ih]
    · simp only [he, if_false]
      by_cases hai : a = i
      · subst hai; rw [lookupL_cons_self, lookupL_cons_self]
      · rw [lookupL_cons_ne hai, lookupL_cons_ne hai, ih]

/-! ## the three `make_mut`-style ops in one shape -/

/-- the state after `make_mut` through the `Arc` view `a` of slot `src`, `g` turning the resulting
`Arc` back into the slot's handle type -/
def mmState (s : State) (src v : Nat) (a : HV) (g : Mem → HV → HV) (cp : Bool) : State :=
  match Arc.make_mut s.mem a cp with
  | (m, some h') => ⟨writeVal m h'.blk v, (s.set m src (g m h')).slots⟩
  | (_, none) => s

theorem step_makeMut_arc {s : State} {src : Nat} {h : HV} (v : Nat) (cp : Bool) (hs : lookup s src = some h)
    (hc : h.kind = .arc ∧ h.ty = .sized) :
    (step s (.makeMut src v cp)).1 = mmState s src v h (fun _ x => x) cp := by
  unfold mmState
  cases hmm : Arc.make_mut s.mem h cp with
  | mk m o => cases o <;> simp [step, hs, hc, hmm]

theorem step_makeUnique_arc {s : State} {src : Nat} {h : HV} (v : Nat) (cp : Bool) (hs : lookup s src = some h)
    (hc : h.kind = .arc ∧ h.ty = .sized) :
    (step s (.makeUnique src v cp)).1 = mmState s src v h (fun _ x => x) cp := by
  unfold mmState
  cases hmm : Arc.make_mut s.mem h cp with
  | mk m o => cases o <;> simp [step, hs, hc, hmm]

theorem step_makeMut_offset {s : State} {src : Nat} {h : HV} (v : Nat) (cp : Bool) (hs : lookup s src = some h)
    (hc : h.kind = .offset) :
    (step s (.makeMut src v cp)).1 =
      mmState s src v (Arc.from_raw_offset s.mem h) (fun m x => Arc.into_raw_offset m x) cp := by
  unfold mmState
  cases hmm : Arc.make_mut s.mem (Arc.from_raw_offset s.mem h) cp with
  | mk m o => cases o <;> simp [step, hs, hc, hmm]

section
variable {s : State} {src v : Nat} {h a : HV} {g : Mem → HV → HV} {cp : Bool}

/-- frame: other slots keep their handle and what they observe -/
theorem mmState_frame (hi : Inv s) (hs : lookup s src = some h) (ha : a.blk = h.blk)
    {i : Nat} {hv : HV} (hne : i ≠ src) (hl : lookup s i = some hv) :
    lookup (mmState s src v a g cp) i = some hv ∧
      digest (mmState s src v a g cp).mem hv = digest s.mem hv := by
  have hlt : hv.blk < s.mem.blocks.length := hi.inb _ (lookup_mem hl)
  unfold mmState
  rw [make_mut_eq]
  by_cases hu : Arc.is_unique s.mem a = true
  · -- written in place: nobody else refers to the block
    simp only [hu, if_true]
    refine ⟨?_, ?_⟩
    · show lookupL (setL s.slots src _) i = some hv
      rw [lookupL_setL_ne _ _ hne]; exact hl
    · apply digest_congr
      have hown : owners s h.blk = 1 := by
        have := (is_unique_iff_loadCount s.mem a).1 hu
        rw [ha, hi.toInv'.loadCount_eq hs] at this; exact this
      have hb : hv.blk ≠ a.blk := by
        intro e
        have := ownersL_one_unique hown (lookup_mem hl) (e.trans ha) (lookup_mem hs) rfl
        exact hne (congrArg Prod.fst this)
      unfold writeVal
      exact cont_upd_ne _ _ _ hb
  · simp only [hu]
    cases cp with
    | true => exact ⟨hl, rfl⟩
    | false =>
      -- redirected to a fresh block: the write goes there, the old block only loses one count
      simp only [Bool.false_eq_true, if_false]
      refine ⟨?_, ?_⟩
      · show lookupL (setL s.slots src _) i = some hv
        rw [lookupL_setL_ne _ _ hne]; exact hl
      · apply digest_congr
        have hfresh : (Arc.new (cloneValue s.mem a.blk).1 a.ty (cloneValue s.mem a.blk).2).2.blk
            = s.mem.blocks.length := by
          have hb : (cloneValue s.mem a.blk).1.blocks = s.mem.blocks := by unfold cloneValue; split <;> rfl
          show (cloneValue s.mem a.blk).1.blocks.length = _
          rw [hb]
        unfold writeVal
        rw [cont_upd_ne _ _ _ (by rw [hfresh]; omega), Arc.drop_eq, cont_decr, cont_clone_new _ _ _ hlt]

/-- shared, non-panicking branch: `src` now refers to the fresh block, which it alone owns; the old
block has one owner less -/
theorem mmState_shared_owners (hi : Inv s) (hs : lookup s src = some h) (ha : a.blk = h.blk)
    (hg : ∀ m x, (g m x).blk = x.blk) (hsh : owners s h.blk ≠ 1) :
    owners (mmState s src v a g false) h.blk = owners s h.blk - 1 ∧
    owners (mmState s src v a g false) s.mem.blocks.length = 1 ∧
    ∃ h', lookup (mmState s src v a g false) src = some h' ∧ h'.blk = s.mem.blocks.length := by
  have hu : ¬ Arc.is_unique s.mem a = true := by
    intro hu
    have := (is_unique_iff_loadCount s.mem a).1 hu
    rw [ha, hi.toInv'.loadCount_eq hs] at this; exact hsh this
  have hb : (cloneValue s.mem a.blk).1.blocks = s.mem.blocks := by unfold cloneValue; split <;> rfl
  have hfresh : (Arc.new (cloneValue s.mem a.blk).1 a.ty (cloneValue s.mem a.blk).2).2.blk
      = s.mem.blocks.length := by
    show (cloneValue s.mem a.blk).1.blocks.length = _
    rw [hb]
  have hlt : h.blk < s.mem.blocks.length := hi.inb _ (lookup_mem hs)
  have hzero : owners s s.mem.blocks.length = 0 := by
    apply ownersL_eq_zero
    intro e he heq
    have := hi.inb e he; omega
  unfold mmState
  rw [make_mut_eq]
  simp only [hu, Bool.false_eq_true, if_false]
  have hset := fun b => ownersL_set (h' := g (Arc.drop (Arc.new (cloneValue s.mem a.blk).1 a.ty (cloneValue s.mem a.blk).2).1 a)
      (Arc.new (cloneValue s.mem a.blk).1 a.ty (cloneValue s.mem a.blk).2).2) hi.keys (lookup_mem hs) b
  refine ⟨?_, ?_, _, mem_lookupL (by rw [show (State.set s _ src _).slots = setL s.slots src _ from rfl, keys_setL]; exact hi.keys)
      (mem_setL_new (lookup_mem hs)), by rw [hg, hfresh]⟩
  · have := hset h.blk
    rw [hg, hfresh] at this
    have hne : ¬ s.mem.blocks.length = h.blk := by omega
    simp only [if_true, hne, if_false] at this
    show ownersL (setL s.slots src _) h.blk = ownersL s.slots h.blk - 1
    omega
  · have := hset s.mem.blocks.length
    rw [hg, hfresh] at this
    have hne : ¬ h.blk = s.mem.blocks.length := by omega
    simp only [if_true, hne, if_false] at this
    show ownersL (setL s.slots src _) s.mem.blocks.length = 1
    have hz : ownersL s.slots s.mem.blocks.length = 0 := hzero
    omega

end

/-! ## the statements for the ops -/

/-- [C08] `Arc::make_mut` / `OffsetArc::make_mut`: every other slot keeps its handle and keeps
observing the old, unmodified value -/
theorem makeMut_frame (s : State) (src v : Nat) (cp : Bool) (h : HV) (hi : Inv s)
    (hs : lookup s src = some h) (hc : (h.kind = .arc ∧ h.ty = .sized) ∨ h.kind = .offset)
    (i : Nat) (hv : HV) (hne : i ≠ src) (hl : lookup s i = some hv) :
    lookup (step s (.makeMut src v cp)).1 i = some hv ∧
      digest (step s (.makeMut src v cp)).1.mem hv = digest s.mem hv := by
  rcases hc with hc | hc
  · rw [step_makeMut_arc v cp hs hc]; exact mmState_frame hi hs rfl hne hl
  · rw [step_makeMut_offset v cp hs hc]
    exact mmState_frame (a := Arc.from_raw_offset s.mem h) hi hs rfl hne hl

/-- [C08] `Arc::make_unique` likewise -/
theorem makeUnique_frame (s : State) (src v : Nat) (cp : Bool) (h : HV) (hi : Inv s)
    (hs : lookup s src = some h) (hc : h.kind = .arc ∧ h.ty = .sized)
    (i : Nat) (hv : HV) (hne : i ≠ src) (hl : lookup s i = some hv) :
    lookup (step s (.makeUnique src v cp)).1 i = some hv ∧
      digest (step s (.makeUnique src v cp)).1.mem hv = digest s.mem hv := by
  rw [step_makeUnique_arc v cp hs hc]; exact mmState_frame hi hs rfl hne hl

/-- shared, non-panicking `make_mut`: the old block loses exactly one owner, the fresh block
(index `s.mem.blocks.length`) is owned by `src` alone -/
theorem makeMut_shared_owners (s : State) (src v : Nat) (h : HV) (hi : Inv s)
    (hs : lookup s src = some h) (hc : (h.kind = .arc ∧ h.ty = .sized) ∨ h.kind = .offset)
    (hsh : owners s h.blk ≠ 1) :
    owners (step s (.makeMut src v false)).1 h.blk = owners s h.blk - 1 ∧
    owners (step s (.makeMut src v false)).1 s.mem.blocks.length = 1 ∧
    ∃ h', lookup (step s (.makeMut src v false)).1 src = some h' ∧ h'.blk = s.mem.blocks.length := by
  rcases hc with hc | hc
  · rw [step_makeMut_arc v false hs hc]; exact mmState_shared_owners hi hs rfl (fun _ _ => rfl) hsh
  · rw [step_makeMut_offset v false hs hc]
    exact mmState_shared_owners (a := Arc.from_raw_offset s.mem h) hi hs rfl (fun _ _ => rfl) hsh

theorem makeUnique_shared_owners (s : State) (src v : Nat) (h : HV) (hi : Inv s)
    (hs : lookup s src = some h) (hc : h.kind = .arc ∧ h.ty = .sized) (hsh : owners s h.blk ≠ 1) :
    owners (step s (.makeUnique src v false)).1 h.blk = owners s h.blk - 1 ∧
    owners (step s (.makeUnique src v false)).1 s.mem.blocks.length = 1 ∧
    ∃ h', lookup (step s (.makeUnique src v false)).1 src = some h' ∧ h'.blk = s.mem.blocks.length := by
  rw [step_makeUnique_arc v false hs hc]; exact mmState_shared_owners hi hs rfl (fun _ _ => rfl) hsh

end M1
