//! Data model of the extracted facts (mirrors lean/TriompheModel/FactsTraits.lean).

#[derive(Clone, Debug, PartialEq, Eq, PartialOrd, Ord)]
pub enum Bound {
    Send,
    Sync,
    QSized,
    Sized,
    Outlives(String),
    Static,
    Other(String),
}

#[derive(Clone, Debug, PartialEq, Eq)]
pub enum ParamKind {
    Type,
    Lifetime,
    Const,
}

#[derive(Clone, Debug)]
pub struct Param {
    pub name: String,
    pub kind: ParamKind,
    pub bounds: Vec<Bound>,
}

#[derive(Clone, Debug, PartialEq, Eq)]
pub enum Region {
    Elided,
    Named(String),
    Static,
    Unknown,
}

#[derive(Clone, Debug)]
pub enum Ty {
    Param(String),
    NonNull(Box<Ty>),
    Phantom(Box<Ty>),
    Ref(Region, bool, Box<Ty>),
    RawPtr(bool, Box<Ty>),
    Tuple(Vec<Ty>),
    AtomicUsize,
    Prim(String),
    Named(String, Vec<Region>, Vec<Ty>),
    Array(Box<Ty>),
    Slice(Box<Ty>),
    Unknown(String),
}

#[derive(Clone, Debug)]
pub struct Field {
    pub name: String,
    pub ty: Ty,
}

#[derive(Clone, Debug)]
pub struct StructDef {
    pub file: String,
    pub line: usize,
    pub name: String,
    pub kind: &'static str, // struct | enum | union
    pub is_pub: bool,
    pub params: Vec<Param>,
    pub fields: Vec<Field>,
    pub repr: Vec<String>,
    pub derives: Vec<String>,
}

#[derive(Clone, Debug)]
pub struct ImplHdr {
    pub file: String,
    pub line: usize,
    pub trait_: &'static str, // send | sync | copy | clone
    pub is_unsafe: bool,
    pub negative: bool,
    pub self_ty: String,
    pub generic: bool,
    pub self_lts: Vec<String>,
    pub self_args: Vec<String>,
    pub params: Vec<Param>,
    pub where_other: Vec<String>,
}

#[derive(Clone, Debug)]
pub struct RegionOcc {
    pub region: Region,
    pub payload: bool,
    pub what: String,
}

#[derive(Clone, Debug)]
pub struct Callback {
    pub param: String,
    pub fn_trait: String,
    pub for_lts: Vec<String>,
    pub arg_regions: Vec<RegionOcc>,
}

#[derive(Clone, Debug)]
pub struct Sig {
    pub file: String,
    pub line: usize,
    pub key: String,
    pub self_ty: String,
    pub trait_: String,
    pub is_pub: bool,
    pub is_unsafe: bool,
    pub impl_lts: Vec<String>,
    pub self_lts: Vec<String>,
    pub fn_lts: Vec<String>,
    pub outlives: Vec<(String, String)>,
    pub recv: &'static str, // refSelf refMutSelf thisRef thisRefMut byValue none other
    pub recv_region: Region,
    pub other_inputs: Vec<RegionOcc>,
    pub out_regions: Vec<RegionOcc>,
    pub out_shape: String,
    pub callbacks: Vec<Callback>,
}

#[derive(Clone, Debug)]
pub struct ReprFact {
    pub name: String,
    pub repr: Vec<String>,
    pub field_order: Vec<String>,
}

#[derive(Clone, Debug)]
pub struct ImplFact {
    pub file: String,
    pub line: usize,
    pub trait_: String,
    pub self_head: String,
    pub self_ty: String,
    pub method: String,
    pub form: &'static str,
    pub body: String,
}

#[derive(Default)]
pub struct Facts {
    pub structs: Vec<StructDef>,
    pub auto_impls: Vec<ImplHdr>,
    pub copy_clone_impls: Vec<ImplHdr>,
    pub sigs: Vec<Sig>,
    pub reprs: Vec<ReprFact>,
    pub impls: Vec<ImplFact>,
    pub files: Vec<String>,
    pub notes: Vec<String>,
}
