import TriompheModel.Model.AutoTraits
import TriompheModel.Generated.Traits
import TriompheModel.Generated.Signatures
/-!
`drv_traits`: the executable model M7 at the generated tables, behind a line protocol.
One answer line per input line.

```
send  <Kind> <cls> [<cls>]     -> true | false | error:<why>      (cls = [s|n][s|n][z|u]?: send? sync? sized/unsized)
sync  <Kind> <cls> [<cls>]     -> true | false | error:<why>
wf    <Kind> <cls> [<cls>]     -> true | false                     (struct declaration admits the arguments)
region <Head::fn>              -> bounded | unbounded | missing    (all extracted signatures with that key)
tie    <Head::fn>              -> recv | selflt | mixed | unbounded | none | missing
hr     <Head::fn>              -> hr | nothr | nocallback | missing
owns   <Kind>                  -> true | false                     (ownership marker for every type parameter)
bmark  <Kind>                  -> true | false                     (PhantomData<&'a T> / enum of such)
keys                           -> space-separated keys of the obligated signatures
```
-/
open FactsTraits AutoTraits

def tables : Tables := ⟨Generated.structs, Generated.autoImpls⟩

def parseClass (s : String) : Option Class :=
  match s.toList with
  | [a, b] => if (a == 's' || a == 'n') && (b == 's' || b == 'n') then some ⟨a == 's', b == 's', true⟩ else none
  | [a, b, c] =>
    if (a == 's' || a == 'n') && (b == 's' || b == 'n') && (c == 'z' || c == 'u') then
      some ⟨a == 's', b == 's', c == 'z'⟩ else none
  | _ => none

def parseClasses (ws : List String) : Option (List Class) :=
  ws.foldr (fun w acc => match parseClass w, acc with
    | some c, some cs => some (c :: cs)
    | _, _ => none) (some [])

def sigsFor (k : String) : List Sig := Generated.sigs.filter (fun s => s.key == k && s.obligated)

def answer (ws : List String) : String :=
  match ws with
  | "send" :: k :: cls | "sync" :: k :: cls | "wf" :: k :: cls =>
    match parseClasses cls with
    | none => "error:bad-class"
    | some cs =>
      if arity tables k == 0 then "error:unknown-kind"
      else if arity tables k != cs.length then "error:arity"
      else
        let b := match ws.head! with
          | "send" => isSend tables k cs
          | "sync" => isSync tables k cs
          | _ => wfArgs tables k cs
        toString b
  | ["region", k] =>
    match sigsFor k with
    | [] => "missing"
    | ss => if ss.all regionBounded then "bounded" else "unbounded"
  | ["tie", k] =>
    match (sigsFor k).filter (fun s => !s.outRegions.isEmpty) with
    | [] => "missing"
    | s :: rest => if rest.all (fun r => r.tie == s.tie) then s.tie else "mixed"
  | ["hr", k] =>
    match sigsFor k with
    | [] => "missing"
    | ss =>
      if ss.all (fun s => s.callbacks.isEmpty) then "nocallback"
      else if ss.all (fun s => s.callbacks.all higherRanked) then "hr" else "nothr"
  | ["owns", k] => toString (ownsAll tables k)
  | ["bmark", k] => toString (borrowMarker tables k || borrowEnumMarker tables k)
  | ["keys"] => " ".intercalate ((Generated.sigs.filter Sig.obligated).map (·.key))
  | _ => "error:bad-line"

partial def loop (h : IO.FS.Stream) (out : IO.FS.Stream) : IO Unit := do
  let line ← h.getLine
  if line.isEmpty then return
  let ws := (line.trimAscii.toString.splitOn " ").filter (· != "")
  if !ws.isEmpty then
    out.putStrLn (answer ws)
  loop h out

def main : IO Unit := do
  let stdin ← IO.getStdin
  let stdout ← IO.getStdout
  loop stdin stdout
  stdout.flush
