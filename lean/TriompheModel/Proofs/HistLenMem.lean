import TriompheModel.Proofs.HistLenCtor
import TriompheModel.Proofs.HistLemmasLogStep
/-!
# How memory evolves (helper file 3 for `Proofs/HistLen.lean`)

`Ext wd m m'`: every block of `m` is still there in `m'` with the same shape (slot count, stored
length word, requested layout), and — when `wd` is on — the property "every `dealloc` event records
the layout its block was requested with" (`DL`) carries over from `m` to `m'`.
-/
namespace M1
open LY

/-- blocks are never removed and never change shape -/
def Stable (m m' : Mem) : Prop :=
  ∀ (b : Nat) (k : Block), m.blocks[b]? = some k → ∃ k' : Block, m'.blocks[b]? = some k' ∧ k'.shape = k.shape

/-- every `dealloc` event records the layout its block was requested with -/
def DL (m : Mem) : Prop :=
  ∀ (b sz al : Nat), Event.dealloc b sz al ∈ m.log → ∃ k : Block, m.blocks[b]? = some k ∧ k.lay = ⟨sz, al⟩

structure Ext (wd : Prop) (m m' : Mem) : Prop where
  st : Stable m m'
  dl : wd → DL m → DL m'

/-- no `dealloc` event in the list -/
def NoDealloc (es : List Event) : Prop := ∀ (b sz al : Nat), Event.dealloc b sz al ∉ es

theorem Quiet.noDealloc {es : List Event} (h : Quiet es) : NoDealloc es := by
  intro b sz al hm
  have := h _ hm; cases this

theorem noDealloc_dropsOf (vs : List Item) : NoDealloc (dropsOf vs) := (Quiet.map_drop vs _).noDealloc

theorem noDealloc_hdrDrops (h : Option Item) : NoDealloc (hdrDrops h) := by
  intro b sz al hm
  unfold hdrDrops at hm
  split at hm <;> simp at hm

theorem NoDealloc.append {a b : List Event} (ha : NoDealloc a) (hb : NoDealloc b) : NoDealloc (a ++ b) := by
  intro x sz al hm
  rcases List.mem_append.1 hm with h | h
  · exact ha _ _ _ h
  · exact hb _ _ _ h

theorem noDealloc_alloc (b sz al : Nat) : NoDealloc [Event.alloc b sz al] := by
  intro x s a hm; simp at hm

theorem lay_eta (l : Layout) : (⟨l.size, l.align⟩ : Layout) = l := rfl

namespace Stable

theorem refl (m : Mem) : Stable m m := fun _ k hk => ⟨k, hk, rfl⟩

theorem trans {a b c : Mem} (h1 : Stable a b) (h2 : Stable b c) : Stable a c := by
  intro j k hk
  obtain ⟨k1, hk1, hs1⟩ := h1 j k hk
  obtain ⟨k2, hk2, hs2⟩ := h2 j k1 hk1
  exact ⟨k2, hk2, hs2.trans hs1⟩

theorem upd (m : Mem) (b : Nat) (f : Block → Block) (hf : ∀ k, (f k).shape = k.shape) :
    Stable m (m.upd b f) := by
  intro j k hk
  rw [upd_get, hk]
  by_cases hbj : b = j
  · simp only [Option.map_some, hbj, if_true]; exact ⟨_, rfl, hf k⟩
  · simp only [Option.map_some, hbj, if_false]; exact ⟨_, rfl, rfl⟩

theorem append (m : Mem) (k0 : Block) (log : List Event) (nc : Nat) :
    Stable m ⟨m.blocks ++ [k0], log, nc⟩ := by
  intro j k hk
  have hj : j < m.blocks.length := (List.getElem?_eq_some_iff.1 hk).1
  exact ⟨k, by simp only; rw [List.getElem?_append_left hj]; exact hk, rfl⟩

theorem same_blocks {m m' : Mem} (h : m'.blocks = m.blocks) : Stable m m' := by
  intro j k hk; exact ⟨k, by rw [h]; exact hk, rfl⟩

end Stable

namespace Ext
variable {wd : Prop}

theorem refl (m : Mem) : Ext wd m m := ⟨Stable.refl m, fun _ h => h⟩

theorem trans {a b c : Mem} (h1 : Ext wd a b) (h2 : Ext wd b c) : Ext wd a c :=
  ⟨h1.st.trans h2.st, fun w h => h2.dl w (h1.dl w h)⟩

/-- the generic way to establish `Ext`: the log grew by `es`, whose `dealloc` events are justified
in the new memory -/
theorem of_log {m m' : Mem} (hst : Stable m m') (es : List Event) (hlog : m'.log = m.log ++ es)
    (hes : wd → ∀ (b sz al : Nat), Event.dealloc b sz al ∈ es →
      ∃ k : Block, m'.blocks[b]? = some k ∧ k.lay = ⟨sz, al⟩) : Ext wd m m' := by
  refine ⟨hst, ?_⟩
  intro hw hdl b sz al hm
  rw [hlog] at hm
  rcases List.mem_append.1 hm with h | h
  · obtain ⟨k, hk, hl⟩ := hdl b sz al h
    obtain ⟨k', hk', hs⟩ := hst b k hk
    have : k'.lay = k.lay := congrArg Shape.lay hs
    exact ⟨k', hk', by rw [this]; exact hl⟩
  · exact hes hw b sz al h

theorem of_quiet {m m' : Mem} (hst : Stable m m') (es : List Event) (hlog : m'.log = m.log ++ es)
    (hes : NoDealloc es) : Ext wd m m' :=
  of_log hst es hlog (fun _ b sz al hm => absurd hm (hes b sz al))

theorem upd (m : Mem) (b : Nat) (f : Block → Block) (hf : ∀ k, (f k).shape = k.shape) :
    Ext wd m (m.upd b f) :=
  of_quiet (Stable.upd m b f hf) [] (by simp [Mem.upd]) (fun _ _ _ h => by cases h)

theorem emit (m : Mem) {es : List Event} (hes : NoDealloc es) : Ext wd m (m.emit es) :=
  of_quiet (Stable.same_blocks rfl) es rfl hes

theorem alloc (m : Mem) (lay : Layout) (hdr : Option Item) (rl : Option Nat) (el : List (Option Item)) :
    Ext wd m (allocBlock m lay hdr rl el).1 :=
  of_quiet (Stable.append m _ _ _) [Event.alloc m.blocks.length lay.size lay.align] rfl (noDealloc_alloc _ _ _)

theorem incr (m : Mem) (b : Nat) : Ext wd m (incr m b) := upd m b _ (fun _ => rfl)
theorem leak (m : Mem) (b : Nat) : Ext wd m (m.leak b) := upd m b _ (fun _ => rfl)

theorem writeVal (m : Mem) (b v : Nat) : Ext wd m (writeVal m b v) := by
  apply upd
  intro k
  split
  · rfl
  · split
    · rename_i it r hk
      simp only [Block.shape, hk, List.length_cons]
    · rfl

theorem cloneValue (m : Mem) (b : Nat) : Ext wd m (cloneValue m b).1 := by
  unfold M1.cloneValue
  split
  · rename_i it _
    exact of_quiet (Stable.same_blocks rfl) [Event.clone it.id m.nextClone] rfl
      (fun _ _ _ h => by simp at h)
  · exact refl m

/-- `drop_inner` through a view that computes the requested layout -/
theorem decr (m : Mem) (b : Nat) (t : Ty) (len : Nat)
    (hrel : wd → ∀ k : Block, m.blocks[b]? = some k → t.releaseLayout len = k.lay) :
    Ext wd m (decr m b t len) := by
  unfold M1.decr
  split
  · exact refl m
  · rename_i k hk
    split
    · refine of_log (Stable.upd m b _ (fun _ => rfl)) _ rfl ?_
      intro hw b' sz al hm
      rcases List.mem_append.1 hm with h | h
      · exact absurd h ((quiet_payloadDrops b k t len).noDealloc _ _ _)
      · simp only [List.mem_cons, List.not_mem_nil, or_false, Event.dealloc.injEq] at h
        obtain ⟨rfl, rfl, rfl⟩ := h
        refine ⟨{ k with count := 0, live := false }, ?_, ?_⟩
        · simp only [Mem.emit, upd_get, hk, Option.map_some, if_true]
        · simp only [lay_eta]; exact (hrel hw k hk).symm
    · exact upd m b _ (fun _ => rfl)

theorem arc_drop (m : Mem) (a : HV)
    (hrel : wd → ∀ k : Block, m.blocks[a.blk]? = some k → a.ty.releaseLayout (viewLen m a) = k.lay) :
    Ext wd m (Arc.drop m a) := decr m a.blk a.ty (viewLen m a) hrel

/-- `UniqueArc::into_inner` through a view that computes the requested layout -/
theorem into_inner (m : Mem) (u : HV)
    (hrel : wd → ∀ k : Block, m.blocks[u.blk]? = some k → u.ty.releaseLayout (viewLen m u) = k.lay) :
    Ext wd m (UniqueArc.into_inner m u).1 := by
  unfold UniqueArc.into_inner
  split
  · exact refl m
  · rename_i k hk
    refine of_log (Stable.upd m u.blk _ (fun _ => rfl)) _ rfl ?_
    intro hw b' sz al hm
    simp only [List.mem_cons, List.not_mem_nil, or_false, Event.dealloc.injEq] at hm
    obtain ⟨rfl, rfl, rfl⟩ := hm
    refine ⟨{ k with count := 0, live := false }, ?_, ?_⟩
    · simp only [Mem.emit, upd_get, hk, Option.map_some, if_true]
    · simp only [lay_eta]; exact (hrel hw k hk).symm

/-- the explicit result memories of `Proofs/Ctor.lean`: one block appended -/
theorem append_block (m : Mem) (k0 : Block) (es : List Event) (nc : Nat)
    (hes : wd → ∀ (b sz al : Nat), Event.dealloc b sz al ∈ es → b = m.blocks.length ∧ k0.lay = ⟨sz, al⟩) :
    Ext wd m ⟨m.blocks ++ [k0], m.log ++ es, nc⟩ := by
  refine of_log (Stable.append m k0 _ nc) es rfl ?_
  intro hw b sz al hm
  obtain ⟨rfl, hl⟩ := hes hw b sz al hm
  exact ⟨k0, by simp, hl⟩

theorem same_block (m : Mem) (es : List Event) (nc : Nat) (hes : NoDealloc es) :
    Ext wd m ⟨m.blocks, m.log ++ es, nc⟩ :=
  of_quiet (Stable.same_blocks rfl) es rfl hes

end Ext

end M1
