import TriompheModel.WM.Search
/-!
`drv_wm`: the witness search of `WM/Search.lean` behind a command line.

```
drv_wm <decOrd> <fence|none> <gateOrd>      orderings: relaxed|acquire|release|acqrel|seqcst|unknown
```

* `decOrd`  — ordering of the `fetch_sub` in `drop_inner`;
* `fence`   — ordering of the load / fence between that decrement and destruction, `none` if absent;
* `gateOrd` — ordering of the load in `is_unique`.

Prints one line `witnesses=<k>` and then, for each witness, the program name, the RMWs in modification
order with their orderings, the events with kinds and `rf`, the happens-before pairs and the two
racing events.  Every printed witness is a proved race (`WM.Search.raceWitnesses_sound`); `witnesses=0`
is a test over the template family P1–P3, not a theorem (the unbounded claim is `destroy_after_all`
etc.).  Exit code 2 on a usage error.
-/
open Facts WM WM.Search

def usage : String :=
  "usage: drv_wm <decOrd> <fence|none> <gateOrd>   (orderings: relaxed|acquire|release|acqrel|seqcst|unknown)"

def parseFence (s : String) : Option (Option MemOrd) :=
  if s == "none" then some none else (parseOrd s).map some

def main (args : List String) : IO UInt32 := do
  match args with
  | [d, f, g] =>
    match parseOrd d, parseFence f, parseOrd g with
    | some d, some f, some g =>
      for l in report d f g do IO.println l
      return 0
    | _, _, _ => IO.eprintln usage; return 2
  | _ => IO.eprintln usage; return 2
