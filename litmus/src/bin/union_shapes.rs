//! C12 (single thread, for Miri's pointer-arithmetic / provenance / uninitialised-memory checks): ArcUnion over
//! pairs of payload shapes incl. zero-sized, byte-aligned and over-aligned types: both constructors, every accessor,
//! clone, borrow, equality, drop.  Natively everything here is also asserted by the shape-matrix harness; under Miri
//! an out-of-bounds `add`, a read of padding or a wrongly typed release is reported even when the numbers come out right.
use litmus::*;
use std::marker::PhantomData;
use triomphe::{Arc, ArcUnion, ArcUnionBorrow};

#[derive(Debug, PartialEq, Clone)]
#[repr(align(64))]
struct Wide(u32);
#[derive(Debug, PartialEq, Clone)]
struct Zd;
static ZD_DROPS: std::sync::atomic::AtomicUsize = std::sync::atomic::AtomicUsize::new(0);
impl Drop for Zd { fn drop(&mut self) { ZD_DROPS.fetch_add(1, std::sync::atomic::Ordering::Relaxed); } }
#[derive(Debug, PartialEq, Clone)]
#[repr(align(32))]
struct ZWide;

fn exercise<A: PartialEq + std::fmt::Debug + Clone, B: PartialEq + std::fmt::Debug + Clone>(a: A, b: B) {
    let fa = Arc::new(a.clone());
    let keep_a = fa.clone();
    let u1: ArcUnion<A, B> = ArcUnion::from_first(fa);
    check(u1.is_first() && !u1.is_second() && u1.as_first().is_some() && u1.as_second().is_none(), "first variant not reported as first");
    match u1.borrow() { ArcUnionBorrow::First(x) => check(*x == a && Arc::ptr_eq(&x.clone_arc(), &keep_a), "first: other value / allocation"), _ => check(false, "borrow() of a first union is Second") }
    check(Arc::count(&keep_a) == 2 && ArcUnion::strong_count(&u1) == 2, "first: count");
    let c1 = u1.clone();
    check(Arc::count(&keep_a) == 3 && ArcUnion::ptr_eq(&u1, &c1) && u1 == c1, "first: clone");
    drop(c1);
    let fb = Arc::new(b.clone());
    let keep_b = fb.clone();
    let u2: ArcUnion<A, B> = ArcUnion::from_second(fb);
    check(u2.is_second() && !u2.is_first() && u2.as_second().is_some() && u2.as_first().is_none(), "second variant not reported as second");
    match u2.borrow() { ArcUnionBorrow::Second(x) => check(*x == b && Arc::ptr_eq(&x.clone_arc(), &keep_b), "second: other value / allocation"), _ => check(false, "borrow() of a second union is First") }
    check(Arc::count(&keep_b) == 2 && ArcUnion::strong_count(&u2) == 2, "second: count");
    let c2 = u2.clone();
    check(Arc::count(&keep_b) == 3 && c2.is_second() && ArcUnion::ptr_eq(&u2, &c2) && u2 == c2, "second: clone");
    check(!(u1 == u2) && u1 != u2 && !ArcUnion::ptr_eq(&u1, &u2), "unions of different variants compare equal");
    drop(c2);
    drop(u1);
    drop(u2);
    check(Arc::count(&keep_a) == 1 && Arc::count(&keep_b) == 1, "drop of the unions did not release exactly their owners");
    check(*keep_a == a && *keep_b == b, "values changed");
}

fn main() {
    let mut t = Tally::new();
    exercise(7u32, ());
    exercise((), 9u64);
    exercise(1u8, 2u8);
    exercise(true, [1u8, 2, 3]);
    exercise([0u64; 0], 5u16);
    exercise(3u32, [0u64; 0]);
    exercise(PhantomData::<u64>, String::from("s"));
    exercise(String::from("a"), PhantomData::<u8>);
    exercise(Wide(1), 2u8);
    exercise(2u8, Wide(3));
    exercise(Wide(4), ZWide);
    exercise(ZWide, Wide(5));
    exercise(Zd, 1u32);
    exercise(1u32, Zd);
    exercise(ZWide, ());
    exercise((), ZWide);
    exercise(5u128, 6u16);
    // equal types over ONE allocation: a First and a Second union must still differ
    let x = Arc::new(11u32);
    let a1: ArcUnion<u32, u32> = ArcUnion::from_first(x.clone());
    let a2: ArcUnion<u32, u32> = ArcUnion::from_second(x.clone());
    check(a1 != a2 && !ArcUnion::ptr_eq(&a1, &a2) && Arc::count(&x) == 3, "First/Second over one allocation");
    drop(a1); drop(a2);
    t.shared(1);
    println!("LITMUS threads=1 destroyed=1");
    std::mem::forget(t);
}
