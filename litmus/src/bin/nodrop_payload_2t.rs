//! C02: the same clone / read / drop race as `clone_read_drop_2t`, with payloads that have NO drop glue
//! (`needs_drop::<T>() == false`): plain integers, arrays, byte slices.  There is no destructor to "look at"
//! the value, but the memory is still returned to the allocator — every access by the other thread (its reads
//! and its own decrement of the count) must happen-before that release.  Main never joins before dropping.
use litmus::*;
use triomphe::{Arc, HeaderSlice, OffsetArc, ThinArc};

fn race<H: Send + 'static>(h0: H, h1: H, read: fn(&H) -> u64, want: u64) {
    std::thread::scope(|s| {
        s.spawn(move || {
            check(read(&h1) == want, "worker read a wrong value");
            drop(h1);
        });
        check(read(&h0) == want, "main read a wrong value");
        drop(h0);
    });
}

fn main() {
    let t = Tally::new();
    for r in 0..rounds(6) as u64 {
        let a = Arc::new([r, r + 1, r + 2, r + 3]);
        race(a.clone(), a, |h| h.iter().sum(), 4 * r + 6);
        let s: Arc<[u8]> = Arc::from(vec![1u8, 2, 3, r as u8]);
        race(s.clone(), s, |h| h.iter().map(|x| *x as u64).sum(), 6 + (r as u8) as u64);
        let th: ThinArc<u32, u16> = ThinArc::from_header_and_slice(r as u32, &[7u16, 8, 9]);
        race(th.clone(), th, |h| h.header.header as u64 + h.slice.iter().map(|x| *x as u64).sum::<u64>(), r + 24);
        let o: OffsetArc<[u32; 4]> = Arc::into_raw_offset(Arc::new([1u32, 2, 3, r as u32]));
        race(o.clone(), o, |h| h.iter().map(|x| *x as u64).sum(), 6 + r);
        let hs: Arc<HeaderSlice<u64, [u32]>> = Arc::from_header_and_slice(r, &[5u32, 6]);
        race(hs.clone(), hs, |h| h.header + h.slice.iter().map(|x| *x as u64).sum::<u64>(), r + 11);
    }
    // no tracked payload values here: the tally is about threads only
    let mut t = t;
    t.shared(2);
    println!("LITMUS threads=2 destroyed=1");
    std::mem::forget(t);
}
