//! C03: the uniqueness gate reached through `ThinArc::with_arc_mut(|a| Arc::get_mut(a))`:
//! T1 polls it and overwrites header and slice; T2/T3 read through ThinArc clones and drop them.
use litmus::*;
use triomphe::Arc;

fn main() {
    let mut t = Tally::new();
    for r in 0..rounds(5) {
        let old = 300 + r as u64;
        let new = old + 500;
        let mut th = Thin::make(old);
        t.shared(3);
        let readers: Vec<Thin> = (0..2).map(|_| th.clone()).collect();
        std::thread::scope(|s| {
            for h in readers {
                s.spawn(move || {
                    h.read();
                    check(h.header.header.tag == old, "reader saw a value other than the old one");
                    drop(h);
                });
            }
            let mut polls = 0u32;
            loop {
                let done = th.with_arc_mut(|a| match Arc::get_mut(a) {
                    Some(m) => {
                        m.header_mut().rewrite(new);
                        for (i, x) in m.slice_mut().iter_mut().enumerate() {
                            **x = new + i as u64;
                        }
                        true
                    }
                    None => false,
                });
                if done {
                    break;
                }
                polls += 1;
                check(polls < 100_000, "with_arc_mut/get_mut never granted");
                spin();
            }
            th.read();
            check(th.header.header.tag == new, "write not visible through the writing handle");
        });
        drop(th);
    }
    t.finish();
}
