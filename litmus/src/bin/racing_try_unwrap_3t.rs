//! C09: 3 threads (main included) each call `Arc::try_unwrap` on their own handle to one value.
//! At most one may win; a loser gets its handle back and drops it.  Moved out once or destroyed
//! once: exactly one destructor run per value (checked by Tally::finish), and a winner's reads of
//! the moved-out value are ordered after every loser's reads.  Rounds differ in how the racers
//! are staggered (round % 3 yields per thread index).
use litmus::*;
use std::sync::atomic::{AtomicUsize, Ordering::Relaxed};
use triomphe::Arc;

fn racer(h: Arc<Payload>, tag: u64, winners: &AtomicUsize, delay: usize) {
    h.read_expect(tag);
    // stagger the racers in some rounds (yields only: no synchronisation), so that late racers
    // tend to find the early ones gone and win
    for _ in 0..delay {
        spin();
    }
    match Arc::try_unwrap(h) {
        Ok(mut v) => {
            winners.fetch_add(1, Relaxed);
            v.read_expect(tag);
            v.rewrite(tag + 500);
            v.read_expect(tag + 500);
            drop(v);
        }
        Err(back) => {
            back.read_expect(tag);
            drop(back);
        }
    }
}

fn main() {
    let mut t = Tally::new();
    for r in 0..rounds(6) {
        let tag = 500 + r as u64;
        let a = Arc::new(Payload::new(tag));
        t.shared(3);
        let others: Vec<_> = (1..3).map(|_| a.clone()).collect();
        let winners = AtomicUsize::new(0);
        let d0 = drops();
        std::thread::scope(|s| {
            for (i, h) in others.into_iter().enumerate() {
                let w = &winners;
                s.spawn(move || racer(h, tag, w, (i + 1) * (r % 3)));
            }
            racer(a, tag, &winners, 0);
        });
        check(winners.load(Relaxed) <= 1, "two racing try_unwrap calls both moved the value out");
        check(drops() - d0 == 1, "value neither moved out once nor destroyed once");
    }
    t.finish();
}
