//! Pass 3: derive the facts of Facts.lean from the census, the call graph and the syntax of the few
//! functions whose *shape* matters (`Arc::clone`, `Arc::drop_inner`, `Arc::is_unique`, `abort`).
//! Everything that is not recognised becomes `unknown` / `other` / `false` (fail closed).

use std::collections::{BTreeMap, BTreeSet};

use quote::ToTokens;
use syn::spanned::Spanned;
use syn::{Expr, Stmt};

use crate::analyze::{is_box_from_raw, path_idents, tokens_mention_ident, BodyFacts};
use crate::collect::{CfgKind, Crate};
use crate::lower::{Lowerer, Node, Val};
use crate::model::*;
use crate::roles::{Roles, ROLE_CLONE, ROLE_DROP};

pub const GATE_NAMES: &[&str] = &[
    "Arc::is_unique",
    "Arc::get_mut",
    "Arc::get_unique",
    "Arc::try_unique",
    "Arc::try_as_unique",
    "Arc::make_mut",
    "Arc::make_unique",
    "Arc::try_unwrap",
    "Arc::unwrap_or_clone",
    "Arc::write",
    "Arc::as_mut_slice",
    "must_be_unique",
    "UniqueArc::try_from",
    "OffsetArc::make_mut",
];

pub const FUNNEL_NAMES: &[&str] = &[
    "ThinArc::clone",
    "ThinArc::drop",
    "OffsetArc::clone",
    "OffsetArc::drop",
    "OffsetArc::clone_arc",
    "ArcBorrow::clone_arc",
    "ArcUnion::clone",
    "ArcUnion::drop",
];

const ARC_CTORS: &[&str] = &["from_raw", "from_raw_offset", "protected_from_thin", "from_thin", "from_raw_inner", "from_raw_slice"];
const PURE_METHODS: &[&str] = &["inner", "ptr", "as_ptr", "as_ref", "as_mut", "cast", "get"];
pub(crate) const PANIC_MACROS: &[&str] = &["panic", "unreachable", "unimplemented", "todo"];

pub struct Analysis<'a> {
    pub krate: &'a Crate,
    pub bodies: &'a [BodyFacts],
    /// which functions play the clone / drop role (`roles.rs`)
    pub roles: Roles,
    /// all sites sorted by (file, line); `fn_` is the canonical role name where the function plays one
    pub sites: Vec<Site>,
}

// ------------------------------------------------------------------------------------------------
// small syntactic helpers

pub fn flatten(b: &syn::Block) -> Vec<&Stmt> {
    let mut v = Vec::new();
    fn go<'a>(b: &'a syn::Block, v: &mut Vec<&'a Stmt>) {
        for s in &b.stmts {
            match s {
                Stmt::Expr(Expr::Unsafe(u), _) => go(&u.block, v),
                Stmt::Expr(Expr::Block(bl), _) if bl.label.is_none() => go(&bl.block, v),
                Stmt::Expr(Expr::Verbatim(ts), _) if ts.is_empty() => {}
                other => v.push(other),
            }
        }
    }
    go(b, &mut v);
    v
}

pub(crate) fn peel(e: &Expr) -> &Expr {
    match e {
        Expr::Paren(p) => peel(&p.expr),
        Expr::Group(g) => peel(&g.expr),
        _ => e,
    }
}

/// `unsafe { e }` / `{ e }` / `(e)`  ->  `e`
pub(crate) fn strip_blocks(e: &Expr) -> &Expr {
    match e {
        Expr::Paren(p) => strip_blocks(&p.expr),
        Expr::Group(g) => strip_blocks(&g.expr),
        Expr::Unsafe(u) => match u.block.stmts.as_slice() {
            [Stmt::Expr(inner, None)] => strip_blocks(inner),
            _ => e,
        },
        Expr::Block(b) if b.label.is_none() => match b.block.stmts.as_slice() {
            [Stmt::Expr(inner, None)] => strip_blocks(inner),
            _ => e,
        },
        _ => e,
    }
}

/// operand of a comparison: parentheses, `as T` casts and references do not matter
pub(crate) fn peel_val(e: &Expr) -> &Expr {
    match e {
        Expr::Paren(p) => peel_val(&p.expr),
        Expr::Group(g) => peel_val(&g.expr),
        Expr::Cast(c) => peel_val(&c.expr),
        Expr::Reference(r) => peel_val(&r.expr),
        _ => e,
    }
}

pub(crate) fn int_lit(e: &Expr) -> Option<u128> {
    if let Expr::Lit(l) = peel_val(e) {
        if let syn::Lit::Int(i) = &l.lit {
            return i.base10_parse::<u128>().ok();
        }
    }
    None
}

pub(crate) fn single_ident(e: &Expr) -> Option<String> {
    if let Expr::Path(p) = peel_val(e) {
        if p.qself.is_none() && p.path.segments.len() == 1 {
            return Some(p.path.segments[0].ident.to_string());
        }
    }
    None
}

pub(crate) fn pat_ident(p: &syn::Pat) -> Option<String> {
    match p {
        syn::Pat::Ident(pi) => Some(pi.ident.to_string()),
        syn::Pat::Type(pt) => pat_ident(&pt.pat),
        _ => None,
    }
}

pub(crate) fn is_wild(p: &syn::Pat) -> bool {
    match p {
        syn::Pat::Wild(_) => true,
        syn::Pat::Type(pt) => is_wild(&pt.pat),
        _ => false,
    }
}

pub(crate) fn macro_name(m: &syn::Macro) -> String {
    m.path.segments.last().map(|s| s.ident.to_string()).unwrap_or_default()
}

pub(crate) fn stmt_macro(s: &Stmt) -> Option<&syn::Macro> {
    match s {
        Stmt::Macro(m) => Some(&m.mac),
        Stmt::Expr(Expr::Macro(m), _) => Some(&m.mac),
        _ => None,
    }
}

pub(crate) fn is_pure(e: &Expr) -> bool {
    match e {
        Expr::Path(_) | Expr::Lit(_) => true,
        Expr::Paren(p) => is_pure(&p.expr),
        Expr::Group(g) => is_pure(&g.expr),
        Expr::Field(f) => is_pure(&f.base),
        Expr::Reference(r) => is_pure(&r.expr),
        Expr::Cast(c) => is_pure(&c.expr),
        Expr::Unary(u) => is_pure(&u.expr),
        Expr::Tuple(t) => t.elems.iter().all(is_pure),
        Expr::Binary(b) => {
            use syn::BinOp::*;
            let assign = matches!(
                b.op,
                AddAssign(_) | SubAssign(_) | MulAssign(_) | DivAssign(_) | RemAssign(_) | BitXorAssign(_) | BitAndAssign(_) | BitOrAssign(_) | ShlAssign(_) | ShrAssign(_)
            );
            !assign && is_pure(&b.left) && is_pure(&b.right)
        }
        Expr::MethodCall(m) => PURE_METHODS.contains(&m.method.to_string().as_str()) && is_pure(&m.receiver) && m.args.iter().all(is_pure),
        Expr::Call(c) => {
            if let Expr::Path(p) = &*c.func {
                let n = p.path.segments.last().map(|s| s.ident.to_string()).unwrap_or_default();
                PURE_METHODS.contains(&n.as_str()) && c.args.iter().all(is_pure)
            } else {
                false
            }
        }
        Expr::Unsafe(u) => match u.block.stmts.as_slice() {
            [Stmt::Expr(inner, None)] => is_pure(inner),
            _ => false,
        },
        _ => false,
    }
}

/// (line, column) of the identifier that names the callee of a call expression
fn call_pos(e: &Expr) -> Option<(usize, usize)> {
    match peel(strip_blocks(e)) {
        Expr::MethodCall(m) => {
            let s = m.method.span().start();
            Some((s.line, s.column))
        }
        Expr::Call(c) => {
            if let Expr::Path(p) = &*c.func {
                let s = p.path.segments.last()?.ident.span().start();
                return Some((s.line, s.column));
            }
            None
        }
        _ => None,
    }
}

/// the statement contains a `return`, a `?`, a `break`/`continue` or a macro that mentions `return`
/// (closures and nested items are not looked into: a `return` there leaves the closure)
fn has_early_exit(s: &Stmt) -> bool {
    struct V(bool);
    impl<'a> syn::visit::Visit<'a> for V {
        fn visit_item(&mut self, _: &'a syn::Item) {}
        fn visit_expr_closure(&mut self, _: &'a syn::ExprClosure) {}
        fn visit_expr_return(&mut self, _: &'a syn::ExprReturn) {
            self.0 = true;
        }
        fn visit_expr_try(&mut self, _: &'a syn::ExprTry) {
            self.0 = true;
        }
        fn visit_expr_break(&mut self, _: &'a syn::ExprBreak) {
            self.0 = true;
        }
        fn visit_expr_continue(&mut self, _: &'a syn::ExprContinue) {
            self.0 = true;
        }
        fn visit_macro(&mut self, m: &'a syn::Macro) {
            if tokens_mention_ident(m.tokens.clone(), "return") {
                self.0 = true;
            }
        }
    }
    let mut v = V(false);
    syn::visit::Visit::visit_stmt(&mut v, s);
    v.0
}

/// names of all functions / methods called somewhere in an expression (macros' token idents included)
pub(crate) fn call_names(e: &Expr) -> BTreeSet<String> {
    struct V(BTreeSet<String>);
    impl<'a> syn::visit::Visit<'a> for V {
        fn visit_expr_method_call(&mut self, m: &'a syn::ExprMethodCall) {
            self.0.insert(m.method.to_string());
            syn::visit::visit_expr_method_call(self, m);
        }
        fn visit_expr_call(&mut self, c: &'a syn::ExprCall) {
            if let Expr::Path(p) = &*c.func {
                if let Some(s) = p.path.segments.last() {
                    self.0.insert(s.ident.to_string());
                }
            }
            syn::visit::visit_expr_call(self, c);
        }
    }
    let mut v = V(BTreeSet::new());
    syn::visit::Visit::visit_expr(&mut v, e);
    v.0
}

// ------------------------------------------------------------------------------------------------

impl<'a> Analysis<'a> {
    pub fn new(krate: &'a Crate, bodies: &'a [BodyFacts], extra_sites: Vec<Site>) -> Self {
        let roles = Roles::compute(krate, bodies);
        let mut sites: Vec<Site> = bodies.iter().flat_map(|b| b.sites.iter().cloned()).collect();
        for s in &mut sites {
            if s.fn_idx != usize::MAX {
                s.fn_ = roles.display_name(krate, s.fn_idx);
            }
        }
        sites.extend(extra_sites);
        sites.sort_by(|a, b| (a.file.as_str(), a.line).cmp(&(b.file.as_str(), b.line)));
        Analysis { krate, bodies, roles, sites }
    }

    fn src_at(&self, file: &str, line: usize) -> Src {
        Src { file: file.to_string(), line, snippet: self.krate.snippet(file, line) }
    }

    fn fn_sites(&self, f: usize) -> Vec<&Site> {
        self.sites.iter().filter(|s| s.fn_idx == f).collect()
    }

    fn fns_named(&self, q: &str) -> Vec<usize> {
        self.krate.by_qname.get(q).cloned().unwrap_or_default()
    }

    /// all functions reachable from `start` over non-debug edges (every candidate target followed)
    pub fn reachable(&self, start: &[usize]) -> BTreeSet<usize> {
        let mut seen: BTreeSet<usize> = start.iter().copied().collect();
        let mut todo: Vec<usize> = start.to_vec();
        while let Some(f) = todo.pop() {
            for e in &self.bodies[f].edges {
                if e.debug {
                    continue;
                }
                for &t in &e.targets {
                    if seen.insert(t) {
                        todo.push(t);
                    }
                }
            }
        }
        seen
    }

    /// `f` contains a non-debug call all of whose candidate targets are in `goal` or themselves reach it
    pub fn reaches_all(&self, f: usize, goal: &BTreeSet<usize>) -> bool {
        fn go(an: &Analysis, f: usize, goal: &BTreeSet<usize>, memo: &mut BTreeMap<usize, bool>, stack: &mut BTreeSet<usize>) -> bool {
            if goal.contains(&f) {
                return true;
            }
            if let Some(&r) = memo.get(&f) {
                return r;
            }
            if !stack.insert(f) {
                return false;
            }
            let mut res = false;
            for e in &an.bodies[f].edges {
                if e.debug || e.targets.is_empty() {
                    continue;
                }
                if e.targets.iter().all(|&t| go(an, t, goal, memo, stack)) {
                    res = true;
                    break;
                }
            }
            stack.remove(&f);
            memo.insert(f, res);
            res
        }
        if goal.is_empty() {
            return false;
        }
        let mut memo = BTreeMap::new();
        let mut stack = BTreeSet::new();
        // the start itself does not count as "reached" unless it is a goal (handled by callers)
        for e in &self.bodies[f].edges {
            if e.debug || e.targets.is_empty() {
                continue;
            }
            stack.insert(f);
            let ok = e.targets.iter().all(|&t| go(self, t, goal, &mut memo, &mut stack));
            stack.remove(&f);
            if ok {
                return true;
            }
        }
        false
    }

    /// a shortest call chain from `f` to one of `goal` (for the comments)
    fn chain(&self, f: usize, goal: &BTreeSet<usize>) -> String {
        let mut prev: BTreeMap<usize, usize> = BTreeMap::new();
        let mut q = std::collections::VecDeque::new();
        q.push_back(f);
        let mut seen = BTreeSet::new();
        seen.insert(f);
        let mut hit = None;
        'outer: while let Some(x) = q.pop_front() {
            for e in &self.bodies[x].edges {
                if e.debug {
                    continue;
                }
                for &t in &e.targets {
                    if seen.insert(t) {
                        prev.insert(t, x);
                        if goal.contains(&t) {
                            hit = Some(t);
                            break 'outer;
                        }
                        q.push_back(t);
                    }
                }
            }
        }
        let Some(mut x) = hit else { return String::new() };
        let mut names = vec![self.krate.fns[x].qname.clone()];
        while let Some(&p) = prev.get(&x) {
            names.push(self.krate.fns[p].qname.clone());
            x = p;
        }
        names.reverse();
        names.join(" > ")
    }

    /// functions that (transitively, non-debug) perform an atomic load
    pub fn loaders(&self) -> BTreeSet<usize> {
        let mut set: BTreeSet<usize> = BTreeSet::new();
        for s in &self.sites {
            if s.kind == Kind::Load && !s.debug_only && s.fn_idx != usize::MAX {
                set.insert(s.fn_idx);
            }
        }
        loop {
            let mut changed = false;
            for f in 0..self.bodies.len() {
                if set.contains(&f) {
                    continue;
                }
                if self.bodies[f].edges.iter().any(|e| !e.debug && e.targets.iter().any(|t| set.contains(t))) {
                    set.insert(f);
                    changed = true;
                }
            }
            if !changed {
                break;
            }
        }
        set
    }

    // --- 2: clone / drop_inner -------------------------------------------------------------------

    /// ordering of the single non-debug site of `kind` among the sites attributed to the role
    fn role_site_ord(&self, role: &str, entries: usize, kind: Kind) -> (MemOrd, Src) {
        if entries == 0 {
            return (MemOrd::Unknown, Src::none(&format!("no entry point for the role {}", role)));
        }
        let v: Vec<&Site> = self.sites.iter().filter(|s| s.fn_ == role && s.kind == kind && !s.debug_only).collect();
        if v.len() == 1 {
            (v[0].ord, self.src_at(&v[0].file, v[0].line))
        } else {
            (MemOrd::Unknown, Src::none(&format!("the role {} has {} non-debug {} sites (expected exactly one)", role, v.len(), kind.name())))
        }
    }

    /// ordering of the single atomic load that `qname` performs (itself or through crate calls)
    fn load_ord_of(&self, qname: &str) -> (MemOrd, Src) {
        let Some(f) = self.krate.unique_fn(qname) else {
            return (MemOrd::Unknown, Src::none(&format!("{} not found (or defined more than once)", qname)));
        };
        let r = self.reachable(&[f]);
        let v: Vec<&Site> = self.sites.iter().filter(|s| s.kind == Kind::Load && !s.debug_only && r.contains(&s.fn_idx)).collect();
        if v.len() == 1 {
            (v[0].ord, self.src_at(&v[0].file, v[0].line))
        } else {
            (MemOrd::Unknown, Src::none(&format!("{} reaches {} atomic loads (expected exactly one)", qname, v.len())))
        }
    }

    /// `self.drop_slow()` (any method of self whose body does `Box::from_raw`), `Box::from_raw(..)`,
    /// `drop(Box::from_raw(..))`
    pub(crate) fn is_destroy_expr(&self, f: usize, e: &Expr) -> bool {
        let mut e = peel(strip_blocks(e));
        if let Expr::Call(c) = e {
            if let Expr::Path(p) = &*c.func {
                if path_idents(&p.path).last().map(|s| s == "drop").unwrap_or(false) && c.args.len() == 1 {
                    e = peel(strip_blocks(&c.args[0]));
                }
            }
        }
        let self_ty = self.krate.fns[f].self_ty.clone().unwrap_or_default();
        let destroys = |q: String| -> bool {
            let t = self.fns_named(&q);
            !t.is_empty() && t.iter().all(|&i| self.bodies[i].has_box_from_raw)
        };
        match e {
            Expr::Call(c) => {
                if let Expr::Path(p) = &*c.func {
                    if is_box_from_raw(&p.path) {
                        return true;
                    }
                    let s = path_idents(&p.path);
                    if s.len() >= 2 {
                        let ty = if s[s.len() - 2] == "Self" { self_ty.clone() } else { s[s.len() - 2].clone() };
                        let arg_self = c.args.first().and_then(single_ident).map(|i| i == "self").unwrap_or(false);
                        if ty == self_ty && arg_self {
                            return destroys(format!("{}::{}", ty, s[s.len() - 1]));
                        }
                    }
                }
                false
            }
            Expr::MethodCall(m) => {
                if single_ident(&m.receiver).map(|i| i == "self").unwrap_or(false) {
                    return destroys(format!("{}::{}", self_ty, m.method));
                }
                false
            }
            _ => false,
        }
    }

    fn at_src(&self, at: &crate::lower::At) -> Src {
        self.src_at(&at.file, at.line)
    }

    /// The decrement path: what `<Arc as Drop>::drop` does, private helpers inlined (`lower.rs`).
    /// Every `impl Drop for Arc` (both cfg variants) must give the same classification.
    pub fn drop_facts(&self, lw: &Lowerer) -> ((Guard, Src), (Option<FenceKind>, Src), (Vec<DropStmt>, Src)) {
        let drops: Vec<usize> = self.roles.drop_entries.iter().copied().collect();
        if drops.is_empty() {
            let why = Src::none("no `impl Drop for Arc`");
            return ((Guard::UNKNOWN, why.clone()), (None, why.clone()), (vec![DropStmt::Other], why));
        }
        let mut classes: Vec<DropCls> = Vec::new();
        for &d in &drops {
            let low = lw.lower_entry(d);
            let mut c = DropCls::default();
            c.run(&low.nodes);
            c.finish();
            classes.push(c);
        }
        let mut front_other: Option<String> = None;
        if classes.iter().any(|c| c.key() != classes[0].key()) {
            front_other = Some("the `impl Drop for Arc` variants do different things".to_string());
        }
        let st = classes.swap_remove(0);
        let fi = &self.krate.fns[drops[0]];

        // collapse consecutive fences (any acquire among them is as good as one)
        let mut seq: Vec<(DropStmt, Option<FenceKind>, crate::lower::At)> = Vec::new();
        for it in st.out {
            if it.0 == DropStmt::Fence {
                if let Some(last) = seq.last_mut() {
                    if last.0 == DropStmt::Fence {
                        let last_acq = last.1.map(|k| k.ord().is_acq()).unwrap_or(false);
                        let this_acq = it.1.map(|k| k.ord().is_acq()).unwrap_or(false);
                        if !last_acq && this_acq {
                            *last = it;
                        }
                        continue;
                    }
                }
            }
            seq.push(it);
        }
        // the fence fact: between the guarded decrement and the destruction
        let mut fence = (None, Src::none("no load/fence between the guarded decrement and the destruction"));
        if let Some(gi) = seq.iter().position(|x| x.0 == DropStmt::DecGuard) {
            for it in &seq[gi + 1..] {
                match it.0 {
                    DropStmt::Destroy => break,
                    DropStmt::Fence => {
                        fence = (it.1, self.at_src(&it.2));
                        break;
                    }
                    _ => {}
                }
            }
        }
        let mut skel: Vec<DropStmt> = seq.iter().map(|x| x.0).collect();
        let mut skel_src = match seq.first() {
            Some(x) => self.at_src(&x.2),
            None => self.src_at(&fi.file, fi.line),
        };
        if let Some(why) = front_other {
            skel.insert(0, DropStmt::Other);
            skel_src = Src::none(&why);
        }
        let guard = match st.guard {
            Some((g, at)) => (g, self.at_src(&at)),
            None => (Guard::UNKNOWN, Src::none("no `if <fetch_sub result> <cmp> <lit>` on the path of `Drop for Arc`")),
        };
        (guard, fence, (skel, skel_src))
    }

    // --- 3: is_unique ----------------------------------------------------------------------------

    pub fn is_unique_guard(&self, lw: &Lowerer) -> (Guard, Src) {
        let Some(f) = self.krate.unique_fn("Arc::is_unique") else {
            return (Guard::UNKNOWN, Src::none("Arc::is_unique not found (or defined more than once)"));
        };
        let fi = &self.krate.fns[f];
        let low = lw.lower_entry(f);
        for n in &low.nodes {
            let ok = match n {
                Node::Atomic { kind: Kind::Load, .. } => true,
                Node::Call { loader: true, .. } => true,
                Node::Macro { name, .. } => name.starts_with("debug_assert"),
                _ => false,
            };
            if !ok {
                return (Guard::UNKNOWN, Src::none("unrecognised statement in Arc::is_unique"));
            }
        }
        let line = flatten(&fi.block).last().map(|s| s.span().start().line).unwrap_or(fi.line);
        let src = self.src_at(&fi.file, line);
        let Val::Cmp(cmp, l, r) = &low.result else {
            return (Guard::UNKNOWN, src);
        };
        let reads = |v: &Val| matches!(v, Val::Read);
        let lit = |v: &Val| if let Val::Lit(n) = v { Some(*n) } else { None };
        let g = if let (Some(n), true) = (lit(r), reads(l)) {
            Guard { cmp: *cmp, lit: Some(n) }
        } else if let (Some(n), true) = (lit(l), reads(r)) {
            Guard { cmp: cmp.mirror(), lit: Some(n) }
        } else if reads(l) && !reads(r) {
            Guard { cmp: *cmp, lit: None }
        } else if reads(r) && !reads(l) {
            Guard { cmp: cmp.mirror(), lit: None }
        } else {
            Guard::UNKNOWN
        };
        (g, src)
    }

    // --- 4: gates --------------------------------------------------------------------------------

    fn direct_count_comparison(&self, f: usize) -> bool {
        struct V {
            lets: BTreeSet<String>,
            hit: bool,
        }
        fn reads(e: &Expr, lets: &BTreeSet<String>) -> bool {
            if let Some(i) = single_ident(e) {
                if lets.contains(&i) {
                    return true;
                }
            }
            call_names(e).iter().any(|n| n == "count" || n == "strong_count" || n == "load")
        }
        impl<'a> syn::visit::Visit<'a> for V {
            fn visit_item(&mut self, _: &'a syn::Item) {}
            fn visit_local(&mut self, l: &'a syn::Local) {
                if let (Some(id), Some(init)) = (pat_ident(&l.pat), &l.init) {
                    if reads(&init.expr, &self.lets) {
                        self.lets.insert(id);
                    }
                }
                syn::visit::visit_local(self, l);
            }
            fn visit_expr_binary(&mut self, b: &'a syn::ExprBinary) {
                use syn::BinOp::*;
                if matches!(b.op, Eq(_) | Ne(_) | Lt(_) | Le(_) | Gt(_) | Ge(_)) && (reads(&b.left, &self.lets) || reads(&b.right, &self.lets)) {
                    self.hit = true;
                }
                syn::visit::visit_expr_binary(self, b);
            }
            fn visit_macro(&mut self, m: &'a syn::Macro) {
                let n = macro_name(m);
                if n.starts_with("debug_assert") {
                    return;
                }
                if n == "matches" || n == "assert" || n == "assert_eq" || n == "assert_ne" {
                    if tokens_mention_ident(m.tokens.clone(), "count") || tokens_mention_ident(m.tokens.clone(), "strong_count") || tokens_mention_ident(m.tokens.clone(), "load") {
                        self.hit = true;
                    }
                }
            }
        }
        let mut v = V { lets: BTreeSet::new(), hit: false };
        syn::visit::Visit::visit_block(&mut v, &self.krate.fns[f].block);
        v.hit
    }

    /// Gates that are not public API are *roles*, not names:
    ///
    /// * `must_be_unique` — "the check that guards `Arc::write` and `Arc::as_mut_slice`";
    /// * `Arc::try_as_unique` — "the check through which `Arc::get_unique` decides".
    ///
    /// If no function of that name exists, the role is played by the one helper (not an entry point of
    /// the crate) that every one of the named callers calls directly (non-debug, resolved to exactly that
    /// function) and that has the expected signature (returns `&mut UniqueArc` / takes an `Arc`);
    /// failing that (the check is written out in the callers), by the callers themselves — the gate then
    /// holds iff it holds for each of them.
    fn private_gate_role(&self, name: &str) -> Vec<usize> {
        let (caller_names, want_ret_unique): (&[&str], bool) = match name {
            "must_be_unique" => (&["Arc::write", "Arc::as_mut_slice"], true),
            "Arc::try_as_unique" => (&["Arc::get_unique"], false),
            _ => return vec![],
        };
        let mut callers: Vec<usize> = Vec::new();
        for c in caller_names {
            let v = self.fns_named(c);
            if v.is_empty() {
                return vec![];
            }
            callers.extend(v);
        }
        let mut cands: BTreeSet<usize> = BTreeSet::new();
        for (h, hi) in self.krate.fns.iter().enumerate() {
            if hi.is_entry() {
                continue;
            }
            let sig_ok = if want_ret_unique {
                hi.ret.as_ref().map(|(t, _)| t.as_str()) == Some("UniqueArc")
            } else {
                hi.params.iter().any(|(_, t)| t.as_ref().map(|(n, _)| n.as_str()) == Some("Arc"))
            };
            if !sig_ok {
                continue;
            }
            if callers.iter().all(|&c| self.bodies[c].edges.iter().any(|e| !e.debug && e.targets == [h])) {
                cands.insert(h);
            }
        }
        if cands.len() == 1 {
            return cands.into_iter().collect();
        }
        callers
    }

    pub fn gates(&self) -> Vec<Gate> {
        let is_unique: BTreeSet<usize> = self.fns_named("Arc::is_unique").into_iter().collect();
        let mut out = Vec::new();
        for name in GATE_NAMES {
            let mut fs = self.fns_named(name);
            let mut role_note = String::new();
            if fs.is_empty() {
                fs = self.private_gate_role(name);
                if !fs.is_empty() {
                    let q: Vec<String> = fs.iter().map(|&i| self.krate.fns[i].qname.clone()).collect();
                    role_note = format!("role played by {}; ", q.join(" + "));
                }
            }
            if fs.is_empty() {
                continue;
            }
            let r = self.reachable(&fs);
            let load_sites: Vec<&Site> = self.sites.iter().filter(|s| s.kind == Kind::Load && !s.debug_only && r.contains(&s.fn_idx)).collect();
            let loads: Vec<MemOrd> = load_sites.iter().map(|s| s.ord).collect();
            let via = if *name == "Arc::is_unique" {
                true
            } else {
                fs.iter().all(|&f| self.reaches_all(f, &is_unique) && !self.direct_count_comparison(f))
            };
            let mut note = role_note;
            if *name != "Arc::is_unique" {
                let c = self.chain(fs[0], &is_unique);
                if !c.is_empty() {
                    note.push_str(&c);
                } else {
                    note.push_str("does not reach Arc::is_unique");
                }
                if fs.iter().any(|&f| self.direct_count_comparison(f)) {
                    note.push_str("; compares a count itself");
                }
            } else {
                note.push_str("the verdict itself");
            }
            let ls: Vec<String> = load_sites.iter().map(|s| format!("{}:{} {}", s.file, s.line, s.fn_)).collect();
            note.push_str(&format!("; loads: {}", if ls.is_empty() { "none".to_string() } else { ls.join(", ") }));
            out.push(Gate { name: name.to_string(), loads, via_is_unique: via, note });
        }
        out
    }

    // --- 5: funnels ------------------------------------------------------------------------------

    fn arc_ctor(&self, f: usize, e: &Expr) -> bool {
        let e = peel(strip_blocks(e));
        if let Expr::Call(c) = e {
            if let Expr::Path(p) = &*c.func {
                let s = path_idents(&p.path);
                if s.len() >= 2 && ARC_CTORS.contains(&s[s.len() - 1].as_str()) {
                    let ty = &s[s.len() - 2];
                    let self_is_arc = self.krate.fns[f].self_ty.as_deref() == Some("Arc");
                    return ty == "Arc" || (ty == "Self" && self_is_arc);
                }
            }
        }
        false
    }

    /// the helper (a function that is not an entry point) that the call expression at (line, col) of
    /// function `f` resolves to, if it resolves to exactly one function
    fn unique_helper_at(&self, f: usize, pos: (usize, usize)) -> Option<usize> {
        let e = self.bodies[f].edges.iter().find(|x| x.line == pos.0 && x.col == pos.1 && !x.debug)?;
        if e.targets.len() != 1 {
            return None;
        }
        let t = e.targets[0];
        if self.krate.fns[t].is_entry() {
            None
        } else {
            Some(t)
        }
    }

    /// `ManuallyDrop::new(<owning Arc from raw parts>)`, or a call of a helper whose body is pure `let`s
    /// followed by exactly that
    fn md_arc_expr(&self, f: usize, e: &Expr, depth: usize) -> bool {
        let e = peel(strip_blocks(e));
        if let Expr::Call(c) = e {
            if let Expr::Path(p) = &*c.func {
                let s = path_idents(&p.path);
                if s.len() >= 2 && s[s.len() - 1] == "new" && s[s.len() - 2] == "ManuallyDrop" && c.args.len() == 1 {
                    return self.arc_ctor(f, &c.args[0]);
                }
            }
        }
        if depth >= 3 {
            return false;
        }
        if let Some(h) = call_pos(e).and_then(|p| self.unique_helper_at(f, p)) {
            let st = flatten(&self.krate.fns[h].block);
            if let Some((Stmt::Expr(t, None), init)) = st.split_last() {
                let pure_lets = init.iter().all(|s| match s {
                    Stmt::Local(l) => l.init.as_ref().map(|i| i.diverge.is_none() && is_pure(&i.expr)).unwrap_or(true),
                    Stmt::Item(_) => true,
                    _ => false,
                });
                return pure_lets && self.md_arc_expr(h, t, depth + 1);
            }
        }
        false
    }

    /// Every path through the block constructs an owning `Arc` from the raw parts and lets it drop:
    /// `let _ = E;` / `let _x = E;` / `drop(E)` / `E;` with `E` an `Arc` constructor from raw parts;
    /// `ManuallyDrop::drop(&mut m)` with `m` a local bound to `ManuallyDrop::new(E)` (possibly through a
    /// helper); or a call of a helper whose body does one of these.  No early exit may precede it.
    fn drops_arc_block(&self, f: usize, b: &syn::Block, md_in: &BTreeSet<String>, depth: usize) -> bool {
        let mut md = md_in.clone();
        for s in &b.stmts {
            match s {
                Stmt::Local(l) => {
                    if let Some(init) = &l.init {
                        if (is_wild(&l.pat) || pat_ident(&l.pat).is_some()) && self.arc_ctor(f, &init.expr) {
                            return true;
                        }
                        if let Some(id) = pat_ident(&l.pat) {
                            if self.md_arc_expr(f, &init.expr, 0) {
                                md.insert(id);
                            }
                        }
                    }
                }
                Stmt::Expr(e, semi) => {
                    if self.drops_arc_expr(f, e, semi.is_some(), &md, depth) {
                        return true;
                    }
                }
                _ => {}
            }
            if has_early_exit(s) {
                return false;
            }
        }
        false
    }

    fn drops_arc_expr(&self, f: usize, e: &Expr, is_stmt: bool, md: &BTreeSet<String>, depth: usize) -> bool {
        let helper_drops = |e: &Expr| -> bool {
            if depth >= 3 {
                return false;
            }
            match call_pos(e).and_then(|p| self.unique_helper_at(f, p)) {
                Some(h) => !self.bodies[h].has_forget && self.drops_arc_block(h, &self.krate.fns[h].block, &BTreeSet::new(), depth + 1),
                None => false,
            }
        };
        match peel(e) {
            Expr::Unsafe(u) => self.drops_arc_block(f, &u.block, md, depth),
            Expr::Block(b) => self.drops_arc_block(f, &b.block, md, depth),
            Expr::Match(m) => !m.arms.is_empty() && m.arms.iter().all(|a| self.drops_arc_expr(f, &a.body, true, md, depth)),
            Expr::If(i) => {
                self.drops_arc_block(f, &i.then_branch, md, depth)
                    && match &i.else_branch {
                        Some((_, e)) => self.drops_arc_expr(f, e, true, md, depth),
                        None => false,
                    }
            }
            Expr::Call(c) => {
                if let Expr::Path(p) = &*c.func {
                    let s = path_idents(&p.path);
                    if s.last().map(|s| s == "drop").unwrap_or(false) && c.args.len() == 1 {
                        if s.len() >= 2 && s[s.len() - 2] == "ManuallyDrop" {
                            // `ManuallyDrop::drop(&mut m)`
                            return match single_ident(&c.args[0]) {
                                Some(id) => md.contains(&id),
                                None => false,
                            };
                        }
                        if s.len() == 1 || s[s.len() - 2] == "mem" {
                            return self.arc_ctor(f, &c.args[0]);
                        }
                    }
                }
                (is_stmt && self.arc_ctor(f, e)) || helper_drops(e)
            }
            Expr::MethodCall(_) => helper_drops(e),
            _ => false,
        }
    }

    /// `f` and the helpers reachable from it through helpers only
    fn helper_closure(&self, f: usize) -> BTreeSet<usize> {
        let mut seen: BTreeSet<usize> = BTreeSet::new();
        seen.insert(f);
        let mut todo = vec![f];
        while let Some(x) = todo.pop() {
            for e in &self.bodies[x].edges {
                for &t in &e.targets {
                    if !self.krate.fns[t].is_entry() && seen.insert(t) {
                        todo.push(t);
                    }
                }
            }
        }
        seen
    }

    pub fn funnels(&self) -> Vec<Funnel> {
        let arc_clone: BTreeSet<usize> =
            self.roles.clone_entries.clone();
        let arc_drop_ok = !self.roles.drop_entries.is_empty();
        let mut out = Vec::new();
        for name in FUNNEL_NAMES {
            let fs = self.fns_named(name);
            if fs.is_empty() {
                continue;
            }
            // sites in the body and in the helpers it reaches without leaving the crate's private part
            let own_fns: BTreeSet<usize> = fs.iter().flat_map(|&f| self.helper_closure(f)).collect();
            let own: usize = own_fns.iter().map(|&f| self.fn_sites(f).len()).sum();
            let drop_like = name.ends_with("::drop");
            let (reaches, note) = if drop_like {
                let ok = arc_drop_ok && fs.iter().all(|&f| self.drops_arc_block(f, &self.krate.fns[f].block, &BTreeSet::new(), 0) && !self.bodies[f].has_forget);
                (ok, if ok { "rebuilds the owning Arc from the raw parts and lets it drop".to_string() } else { "no dropped `Arc::from_raw*`/`protected_from_thin` value found".to_string() })
            } else {
                let ok = fs.iter().all(|&f| self.reaches_all(f, &arc_clone));
                let c = self.chain(fs[0], &arc_clone);
                (ok, if ok { c } else { "does not reach Arc::clone".to_string() })
            };
            out.push(Funnel { name: name.to_string(), own_atomics: own, reaches, note });
        }
        out
    }

    // --- 6: census -------------------------------------------------------------------------------

    pub fn unknown_writes(&self) -> Vec<Site> {
        self.sites
            .iter()
            .filter(|s| !s.debug_only)
            .filter(|s| {
                if s.raw_write {
                    return true;
                }
                if !s.kind.is_write() {
                    return false;
                }
                let ok = (s.fn_ == ROLE_CLONE && s.kind == Kind::FetchAdd) || (s.fn_ == ROLE_DROP && (s.kind == Kind::FetchSub || s.kind == Kind::Fence));
                !ok
            })
            .cloned()
            .collect()
    }

    pub fn atomic_facts(&self) -> AtomicFacts {
        let loaders = self.loaders();
        let lw = Lowerer { an: self, loaders: &loaders };
        let (dec_guard, fence, drop_skeleton) = self.drop_facts(&lw);
        AtomicFacts {
            sites: self.sites.clone(),
            clone_ord: self.role_site_ord(ROLE_CLONE, if self.roles.clone_entries.len() == 1 { 1 } else { 0 }, Kind::FetchAdd),
            dec_ord: self.role_site_ord(ROLE_DROP, self.roles.drop_entries.len(), Kind::FetchSub),
            dec_guard,
            fence,
            drop_skeleton,
            is_unique_guard: self.is_unique_guard(&lw),
            count_load_ord: self.load_ord_of("Arc::count"),
            strong_count_ord: self.load_ord_of("Arc::strong_count"),
            gates: self.gates(),
            funnels: self.funnels(),
            unknown_writes: self.unknown_writes(),
        }
    }

    // --- 7: constants ----------------------------------------------------------------------------

    fn max_refcount(&self) -> (MaxRefcount, Src) {
        let v: Vec<_> = self.krate.consts.iter().filter(|c| c.name == "MAX_REFCOUNT").collect();
        if v.len() != 1 {
            return (MaxRefcount::Unknown, Src::none(&format!("{} definitions of MAX_REFCOUNT", v.len())));
        }
        let c = v[0];
        let src = Src { file: c.file.clone(), line: c.line, snippet: c.snippet.clone() };
        fn ty_max(e: &Expr) -> Option<String> {
            match peel(e) {
                Expr::Path(p) => {
                    let s = path_idents(&p.path);
                    if s.len() >= 2 && s[s.len() - 1] == "MAX" {
                        return Some(s[s.len() - 2].clone());
                    }
                    None
                }
                Expr::Call(c) if c.args.is_empty() => {
                    if let Expr::Path(p) = &*c.func {
                        let s = path_idents(&p.path);
                        if s.len() >= 2 && s[s.len() - 1] == "max_value" {
                            return Some(s[s.len() - 2].clone());
                        }
                    }
                    None
                }
                _ => None,
            }
        }
        fn go(e: &Expr) -> MaxRefcount {
            let e = peel(e);
            if let Some(t) = ty_max(e) {
                return if t == "usize" { MaxRefcount::UsizeMax } else { MaxRefcount::Unknown };
            }
            match e {
                Expr::Lit(_) => int_lit(e).map(MaxRefcount::Lit).unwrap_or(MaxRefcount::Unknown),
                Expr::Cast(c) => {
                    let to_usize = matches!(&*c.ty, syn::Type::Path(p) if p.path.is_ident("usize"));
                    if !to_usize {
                        return MaxRefcount::Unknown;
                    }
                    match ty_max(&c.expr).as_deref() {
                        Some("isize") => MaxRefcount::IsizeMax,
                        Some("usize") => MaxRefcount::UsizeMax,
                        Some(_) => MaxRefcount::Unknown,
                        None => match go(&c.expr) {
                            MaxRefcount::Lit(n) => MaxRefcount::Lit(n),
                            MaxRefcount::UsizeMax => MaxRefcount::UsizeMax,
                            MaxRefcount::IsizeMax => MaxRefcount::IsizeMax,
                            _ => MaxRefcount::Unknown,
                        },
                    }
                }
                Expr::Binary(b) => {
                    // usize::MAX >> 1, usize::MAX / 2  ==  isize::MAX as usize
                    let l = go(&b.left);
                    let r = int_lit(&b.right);
                    match (&b.op, l, r) {
                        (syn::BinOp::Shr(_), MaxRefcount::UsizeMax, Some(1)) => MaxRefcount::IsizeMax,
                        (syn::BinOp::Div(_), MaxRefcount::UsizeMax, Some(2)) => MaxRefcount::IsizeMax,
                        _ => MaxRefcount::Unknown,
                    }
                }
                _ => MaxRefcount::Unknown,
            }
        }
        (go(&c.expr), src)
    }

    pub(crate) fn abort_call(&self, from_fn: usize, e: &Expr) -> Option<bool> {
        // Some(true): a call of the crate's `abort` / a process abort; Some(false): a call named abort
        // that resolves to something else
        if let Expr::Call(c) = peel(strip_blocks(e)) {
            if !c.args.is_empty() {
                return None;
            }
            if let Expr::Path(p) = &*c.func {
                let s = path_idents(&p.path);
                if s.last().map(|x| x == "abort").unwrap_or(false) {
                    let pre: Vec<&str> = s[..s.len() - 1].iter().map(|x| x.as_str()).collect();
                    let std_abort = matches!(pre.as_slice(), ["std", "process"] | ["process"] | ["core", "intrinsics"] | ["intrinsics"] | ["libc"]);
                    if std_abort {
                        return Some(true);
                    }
                    if pre.is_empty() || pre == ["crate"] || pre == ["super"] {
                        // must be the crate-root `abort`, not a function of the same name elsewhere
                        let file = &self.krate.fns[from_fn].file;
                        let shadow = self
                            .krate
                            .free_by_name
                            .get("abort")
                            .map(|v| v.iter().any(|&i| self.krate.fns[i].file != "lib.rs" || (pre.is_empty() && &self.krate.fns[i].file == file && file != "lib.rs")))
                            .unwrap_or(false);
                        return Some(!shadow);
                    }
                    return Some(false);
                }
            }
        }
        None
    }

    /// The overflow guard: the first `if` at the top level of what `<Arc as Clone>::clone` does
    /// (private helpers inlined, `lower.rs`) whose condition compares the old count or `MAX_REFCOUNT`.
    fn clone_guard(&self, lw: &Lowerer) -> ((Guard, Src), (bool, Src), (GuardAction, Src)) {
        let none = |w: &str| ((Guard::UNKNOWN, Src::none(w)), (false, Src::none(w)), (GuardAction::Nothing, Src::none(w)));
        if self.roles.clone_entries.len() != 1 {
            return none("`impl Clone for Arc` not found (or more than one)");
        }
        let f = *self.roles.clone_entries.iter().next().unwrap();
        let low = lw.lower_entry(f);
        // exactly one increment is executed on the way (a helper called twice is one *site* but two increments)
        fn count_adds(nodes: &[Node]) -> usize {
            nodes
                .iter()
                .map(|n| match n {
                    Node::Atomic { kind: Kind::FetchAdd, .. } => 1,
                    Node::If { then, els, .. } => count_adds(then) + count_adds(els),
                    _ => 0,
                })
                .sum()
        }
        let adds = count_adds(&low.nodes);
        if adds != 1 {
            return none(&format!("{} fetch_add executions found on the path of `Clone for Arc` (expected exactly one)", adds));
        }
        let is_old = |v: &Val| matches!(v, Val::Old(Kind::FetchAdd));
        let is_max = |v: &Val| matches!(v, Val::Max);
        let lit = |v: &Val| if let Val::Lit(n) = v { Some(*n) } else { None };
        for n in &low.nodes {
            let Node::If { cond: Val::Cmp(cmp, l, r), then, els, at } = n else { continue };
            let (l, r) = (&**l, &**r);
            let involved = is_old(l) || is_old(r) || is_max(l) || is_max(r);
            if !involved {
                continue;
            }
            // orient: observed value on the left, bound on the right
            let (cmp, var, bound) = if is_old(l) || (is_max(r) && !is_old(r)) { (*cmp, l, r) } else { (cmp.mirror(), r, l) };
            let src = self.at_src(at);
            let guard = Guard { cmp, lit: if is_max(bound) { None } else { lit(bound) } };
            let on_old = is_old(var) && is_max(bound);
            let action = if !els.is_empty() {
                GuardAction::Unknown
            } else if then.is_empty() {
                GuardAction::Nothing
            } else if then.len() == 1 && matches!(&then[0], Node::Abort { ok: true, .. }) {
                GuardAction::CallsAbort
            } else if then.iter().any(|n| matches!(n, Node::Macro { name, .. } if PANIC_MACROS.contains(&name.as_str()) || name.starts_with("assert"))) {
                GuardAction::Panics
            } else {
                GuardAction::Unknown
            };
            let asrc = match then.first() {
                Some(n) => self.at_src(node_at(n)),
                None => src.clone(),
            };
            return ((guard, src.clone()), (on_old, src), (action, asrc));
        }
        none("no `if <old count> <cmp> MAX_REFCOUNT` at the top level of `Clone for Arc`")
    }


    fn classify_abort_fn(&self, f: usize) -> AbortImpl {
        let fi = &self.krate.fns[f];
        if tokens_mention_ident(fi.block.to_token_stream(), "forget") {
            return AbortImpl::Unknown;
        }
        // local guard types: `impl Drop for S { fn drop(&mut self) { panic!() } }`
        let mut guard_types: BTreeSet<String> = BTreeSet::new();
        for (i, g) in self.krate.fns.iter().enumerate() {
            if g.parent == Some(f) && g.trait_name.as_deref() == Some("Drop") && g.name == "drop" {
                let st = flatten(&self.krate.fns[i].block);
                let panics = st.iter().any(|s| stmt_macro(s).map(|m| macro_name(m) == "panic") == Some(true));
                if panics {
                    if let Some(t) = &g.self_ty {
                        guard_types.insert(t.clone());
                    }
                }
            }
        }
        let mut armed = false;
        for s in flatten(&fi.block) {
            match s {
                Stmt::Item(_) => {}
                Stmt::Local(l) => {
                    let Some(init) = &l.init else { continue };
                    let ty = match peel(strip_blocks(&init.expr)) {
                        Expr::Path(p) => path_idents(&p.path).last().cloned(),
                        Expr::Struct(s) => path_idents(&s.path).last().cloned(),
                        Expr::Call(c) => match &*c.func {
                            Expr::Path(p) => path_idents(&p.path).last().cloned(),
                            _ => None,
                        },
                        _ => None,
                    };
                    if let Some(t) = ty {
                        // `let _ = Guard;` drops at once: not armed
                        if guard_types.contains(&t) && pat_ident(&l.pat).is_some() {
                            armed = true;
                        }
                    }
                }
                other => {
                    if let Some(m) = stmt_macro(other) {
                        if PANIC_MACROS.contains(&macro_name(m).as_str()) {
                            return if armed { AbortImpl::DoublePanic } else { AbortImpl::SinglePanic };
                        }
                        continue;
                    }
                    if let Stmt::Expr(e, _) = other {
                        if let Expr::Call(c) = peel(strip_blocks(e)) {
                            if let Expr::Path(p) = &*c.func {
                                let sg = path_idents(&p.path);
                                if sg.len() >= 2 && sg[sg.len() - 1] == "abort" {
                                    return AbortImpl::ProcessAbort;
                                }
                            }
                        }
                        if matches!(e, Expr::Loop(_) | Expr::While(_) | Expr::Return(_)) {
                            return AbortImpl::Unknown;
                        }
                    }
                }
            }
        }
        AbortImpl::Unknown
    }

    fn abort_impl(&self, want_std: bool) -> (AbortImpl, Src) {
        let applies = |cfgs: &[CfgKind]| -> bool {
            cfgs.iter().all(|c| match c {
                CfgKind::Std => want_std,
                CfgKind::NoStd => !want_std,
                CfgKind::Other(_) => false,
            })
        };
        let mut cands: Vec<(AbortImpl, Src)> = Vec::new();
        for u in &self.krate.uses {
            if u.file != "lib.rs" || !applies(&u.cfgs) {
                continue;
            }
            for (path, bound) in &u.paths {
                if bound == "abort" {
                    let p: Vec<&str> = path.iter().map(|s| s.as_str()).collect();
                    let k = match p.as_slice() {
                        ["std", "process", "abort"] | ["core", "intrinsics", "abort"] | ["std", "intrinsics", "abort"] | ["libc", "abort"] => AbortImpl::ProcessAbort,
                        _ => AbortImpl::Unknown,
                    };
                    cands.push((k, Src { file: u.file.clone(), line: u.line, snippet: u.snippet.clone() }));
                }
            }
        }
        if let Some(v) = self.krate.free_by_name.get("abort") {
            for &i in v {
                let fi = &self.krate.fns[i];
                if fi.file != "lib.rs" || fi.parent.is_some() || !applies(&fi.cfgs) {
                    continue;
                }
                cands.push((self.classify_abort_fn(i), self.src_at(&fi.file, fi.line)));
            }
        }
        match cands.len() {
            1 => cands.pop().unwrap(),
            n => (AbortImpl::Unknown, Src::none(&format!("{} definitions of `abort` apply in lib.rs with feature std {}", n, if want_std { "on" } else { "off" }))),
        }
    }

    pub fn const_facts(&self) -> ConstFacts {
        let loaders = self.loaders();
        let lw = Lowerer { an: self, loaders: &loaders };
        let (clone_guard, on_old, action) = self.clone_guard(&lw);
        ConstFacts {
            max_refcount: self.max_refcount(),
            clone_guard,
            clone_guard_on_old_vs_max: on_old,
            clone_guard_action: action,
            abort_std: self.abort_impl(true),
            abort_no_std: self.abort_impl(false),
        }
    }
}

// ------------------------------------------------------------------------------------------------
// classification of the lowered decrement path

fn node_at(n: &Node) -> &crate::lower::At {
    match n {
        Node::Atomic { at, .. }
        | Node::Fence { at, .. }
        | Node::Destroy { at }
        | Node::Abort { at, .. }
        | Node::Macro { at, .. }
        | Node::Call { at, .. }
        | Node::If { at, .. }
        | Node::Return { at }
        | Node::Other { at, .. } => at,
    }
}

/// `<old value of the fetch_sub> CMP <x>` in either operand order, oriented with the count on the left
fn dec_cmp(v: &Val) -> Option<(Cmp, Option<u128>)> {
    if let Val::Cmp(c, l, r) = v {
        let is_dec = |x: &Val| matches!(x, Val::Old(Kind::FetchSub));
        let lit = |x: &Val| if let Val::Lit(n) = x { Some(*n) } else { None };
        if is_dec(l) {
            return Some((*c, lit(r)));
        }
        if is_dec(r) {
            return Some((c.mirror(), lit(l)));
        }
    }
    None
}

#[derive(Default)]
struct DropCls {
    out: Vec<(DropStmt, Option<FenceKind>, crate::lower::At)>,
    guard: Option<(Guard, crate::lower::At)>,
    /// a fetch_sub has been seen
    dec_seen: bool,
    /// a fetch_sub whose result has not been compared yet
    pending: Option<crate::lower::At>,
}

impl DropCls {
    fn key(&self) -> (Vec<(DropStmt, Option<FenceKind>)>, Option<Guard>) {
        (self.out.iter().map(|x| (x.0, x.1)).collect(), self.guard.as_ref().map(|g| g.0))
    }

    fn other(&mut self, at: &crate::lower::At) {
        self.out.push((DropStmt::Other, None, at.clone()));
    }

    fn finish(&mut self) {
        if let Some(at) = self.pending.take() {
            // the decrement's result is never looked at
            self.other(&at);
        }
    }

    fn run(&mut self, nodes: &[Node]) {
        // the guarded continuation is *inside* the `if` (early returns are normalised away): whatever
        // follows the `if` at this level runs for the last owner and for everybody else alike
        let mut after_guard = false;
        for n in nodes {
            if after_guard {
                match n {
                    Node::Macro { name, reads: false, writes: false, .. } if name.starts_with("debug_assert") => {}
                    other => {
                        let at = node_at(other).clone();
                        self.other(&at);
                    }
                }
                continue;
            }
            match n {
                Node::Atomic { kind: Kind::FetchSub, stmt_level, discarded, at, .. } => {
                    self.dec_seen = true;
                    if *stmt_level && *discarded {
                        self.other(at);
                    } else {
                        if let Some(prev) = self.pending.take() {
                            self.other(&prev);
                        }
                        self.pending = Some(at.clone());
                    }
                }
                Node::Atomic { kind: Kind::Load, ord, stmt_level: true, at, .. } => {
                    self.out.push((DropStmt::Fence, Some(FenceKind::Load(*ord)), at.clone()));
                }
                // a load inside a condition / an argument: classified with the `if` that uses it
                Node::Atomic { kind: Kind::Load, stmt_level: false, .. } => {}
                Node::Atomic { at, .. } => self.other(at),
                Node::Fence { ord, at } => self.out.push((DropStmt::Fence, Some(FenceKind::Fence(*ord)), at.clone())),
                Node::Destroy { at } => self.out.push((DropStmt::Destroy, None, at.clone())),
                Node::If { cond, then, els, at } => match dec_cmp(cond) {
                    Some((cmp, lit)) => {
                        self.pending = None;
                        if !then.is_empty() && els.is_empty() {
                            // `if old CMP lit { fence; destroy }`: the early exit is the negation
                            self.record_guard(Guard { cmp: cmp.negate(), lit }, at);
                            self.out.push((DropStmt::DecGuard, None, at.clone()));
                            self.run(then);
                            after_guard = true;
                        } else if then.is_empty() && els.is_empty() {
                            // `if old CMP lit { return; }` with nothing after it
                            self.record_guard(Guard { cmp, lit }, at);
                            self.out.push((DropStmt::DecGuard, None, at.clone()));
                            after_guard = true;
                        } else {
                            self.other(at);
                        }
                    }
                    None => self.other(at),
                },
                Node::Macro { name, reads, writes, at } => {
                    if name.starts_with("debug_assert") && !*writes && (!*reads || !self.dec_seen) {
                        // compiled out in release builds; at most reads the count while the handle
                        // is still owned (before the decrement)
                    } else {
                        self.other(at);
                    }
                }
                Node::Abort { at, .. } | Node::Call { at, .. } | Node::Return { at } | Node::Other { at, .. } => self.other(at),
            }
        }
    }

    fn record_guard(&mut self, g: Guard, at: &crate::lower::At) {
        if self.guard.is_none() {
            self.guard = Some((g, at.clone()));
        }
    }
}
