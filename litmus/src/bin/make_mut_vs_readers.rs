//! C08: phase A: T1 calls `make_mut` and writes at an arbitrary moment while T2/T3 read through
//! clones and drop them (either branch: readers must only ever see the old value).  Phase B: T1
//! first waits with *relaxed* `strong_count` polls until the readers appear gone, so `make_mut`
//! takes the in-place branch; the write is then ordered after the readers' reads only by the
//! Acquire load inside the uniqueness gate.
use litmus::*;
use triomphe::Arc;

fn main() {
    let mut t = Tally::new();
    for r in 0..rounds(3) {
        for phase_b in [false, true] {
            let old = 400 + 2 * r as u64 + phase_b as u64;
            let new = old + 500;
            let mut a = Arc::new(Payload::new(old));
            t.shared(3);
            let readers: Vec<_> = (0..2).map(|_| a.clone()).collect();
            let clones_before = clones();
            let ptr_before = a.heap_ptr();
            std::thread::scope(|s| {
                for h in readers {
                    s.spawn(move || {
                        h.read_expect(old);
                        let h2 = h.clone();
                        drop(h);
                        h2.read_expect(old);
                        drop(h2);
                    });
                }
                if phase_b {
                    let mut polls = 0u32;
                    while Arc::strong_count(&a) != 1 {
                        polls += 1;
                        check(polls < 100_000, "strong_count never reached 1");
                        spin();
                    }
                }
                Arc::make_mut(&mut a).rewrite(new);
                a.read_expect(new);
                if phase_b {
                    check(a.heap_ptr() == ptr_before, "make_mut moved a solely owned value");
                }
            });
            let cloned = clones() - clones_before;
            check(cloned == (a.heap_ptr() != ptr_before) as usize, "make_mut: clone count does not match the branch taken");
            check(!(phase_b && cloned != 0), "make_mut cloned a solely owned value");
            t.extra_values(cloned);
            check(Arc::count(&a) == 1, "make_mut result is not solely owned");
            a.read_expect(new);
            drop(a);
        }
    }
    t.finish();
}
