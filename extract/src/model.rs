//! Plain data types of the facts (mirrors /verif/lean/TriompheModel/Facts.lean).

#[derive(Clone, Copy, PartialEq, Eq, Debug, Hash)]
pub enum MemOrd {
    Relaxed,
    Acquire,
    Release,
    AcqRel,
    SeqCst,
    Unknown,
}

impl MemOrd {
    pub fn name(self) -> &'static str {
        match self {
            MemOrd::Relaxed => "relaxed",
            MemOrd::Acquire => "acquire",
            MemOrd::Release => "release",
            MemOrd::AcqRel => "acqrel",
            MemOrd::SeqCst => "seqcst",
            MemOrd::Unknown => "unknown",
        }
    }
    pub fn is_acq(self) -> bool {
        matches!(self, MemOrd::Acquire | MemOrd::AcqRel | MemOrd::SeqCst)
    }
}

#[derive(Clone, Copy, PartialEq, Eq, Debug, Hash)]
pub enum Kind {
    Load,
    Store,
    FetchAdd,
    FetchSub,
    OtherRmw,
    Fence,
    NewInit,
}

impl Kind {
    pub fn name(self) -> &'static str {
        match self {
            Kind::Load => "load",
            Kind::Store => "store",
            Kind::FetchAdd => "fetchAdd",
            Kind::FetchSub => "fetchSub",
            Kind::OtherRmw => "otherRmw",
            Kind::Fence => "fence",
            Kind::NewInit => "newInit",
        }
    }
    pub fn is_write(self) -> bool {
        !matches!(self, Kind::Load | Kind::NewInit)
    }
}

#[derive(Clone, Debug)]
pub struct Site {
    pub file: String,
    pub line: usize,
    pub fn_: String,
    pub fn_idx: usize,
    pub kind: Kind,
    pub ord: MemOrd,
    pub debug_only: bool,
    /// a non-atomic write to a `.count` field (`ptr::write(&mut x.count, ..)`, `x.count = ..`,
    /// `count.get_mut()`) outside the allocation/constructor functions
    pub raw_write: bool,
    pub snippet: String,
}

#[derive(Clone, Copy, PartialEq, Eq, Debug)]
pub enum Cmp {
    Eq,
    Ne,
    Lt,
    Le,
    Gt,
    Ge,
    Unknown,
}

impl Cmp {
    pub fn name(self) -> &'static str {
        match self {
            Cmp::Eq => "eq",
            Cmp::Ne => "ne",
            Cmp::Lt => "lt",
            Cmp::Le => "le",
            Cmp::Gt => "gt",
            Cmp::Ge => "ge",
            Cmp::Unknown => "unknown",
        }
    }
    /// `a OP b`  ==  `b OP.mirror() a`
    pub fn mirror(self) -> Cmp {
        match self {
            Cmp::Lt => Cmp::Gt,
            Cmp::Gt => Cmp::Lt,
            Cmp::Le => Cmp::Ge,
            Cmp::Ge => Cmp::Le,
            c => c,
        }
    }
    /// `!(a OP b)`  ==  `a OP.negate() b`
    pub fn negate(self) -> Cmp {
        match self {
            Cmp::Eq => Cmp::Ne,
            Cmp::Ne => Cmp::Eq,
            Cmp::Lt => Cmp::Ge,
            Cmp::Ge => Cmp::Lt,
            Cmp::Gt => Cmp::Le,
            Cmp::Le => Cmp::Gt,
            Cmp::Unknown => Cmp::Unknown,
        }
    }
}

#[derive(Clone, Copy, PartialEq, Eq, Debug)]
pub struct Guard {
    pub cmp: Cmp,
    pub lit: Option<u128>,
}

impl Guard {
    pub const UNKNOWN: Guard = Guard { cmp: Cmp::Unknown, lit: None };
}

#[derive(Clone, Copy, PartialEq, Eq, Debug)]
pub enum DropStmt {
    DecGuard,
    Fence,
    Destroy,
    Other,
}

impl DropStmt {
    pub fn name(self) -> &'static str {
        match self {
            DropStmt::DecGuard => "decGuard",
            DropStmt::Fence => "fence",
            DropStmt::Destroy => "destroy",
            DropStmt::Other => "other",
        }
    }
}

#[derive(Clone, Copy, PartialEq, Eq, Debug)]
pub enum FenceKind {
    Load(MemOrd),
    Fence(MemOrd),
}

impl FenceKind {
    pub fn ord(self) -> MemOrd {
        match self {
            FenceKind::Load(o) | FenceKind::Fence(o) => o,
        }
    }
}

#[derive(Clone, Debug)]
pub struct Gate {
    pub name: String,
    pub loads: Vec<MemOrd>,
    pub via_is_unique: bool,
    pub note: String,
}

#[derive(Clone, Debug)]
pub struct Funnel {
    pub name: String,
    pub own_atomics: usize,
    pub reaches: bool,
    pub note: String,
}

#[derive(Clone, Copy, PartialEq, Eq, Debug)]
pub enum AbortImpl {
    ProcessAbort,
    DoublePanic,
    SinglePanic,
    Unknown,
}

impl AbortImpl {
    pub fn name(self) -> &'static str {
        match self {
            AbortImpl::ProcessAbort => "processAbort",
            AbortImpl::DoublePanic => "doublePanic",
            AbortImpl::SinglePanic => "singlePanic",
            AbortImpl::Unknown => "unknown",
        }
    }
}

#[derive(Clone, Copy, PartialEq, Eq, Debug)]
pub enum GuardAction {
    CallsAbort,
    Panics,
    Nothing,
    Unknown,
}

impl GuardAction {
    pub fn name(self) -> &'static str {
        match self {
            GuardAction::CallsAbort => "callsAbort",
            GuardAction::Panics => "panics",
            GuardAction::Nothing => "nothing",
            GuardAction::Unknown => "unknown",
        }
    }
}

#[derive(Clone, Copy, PartialEq, Eq, Debug)]
pub enum MaxRefcount {
    IsizeMax,
    UsizeMax,
    Lit(u128),
    Unknown,
}

/// A fact together with where it was read (for the trailing `-- file:line  snippet` comments).
#[derive(Clone, Debug, Default)]
pub struct Src {
    pub file: String,
    pub line: usize,
    pub snippet: String,
}

impl Src {
    pub fn none(why: &str) -> Src {
        Src { file: String::new(), line: 0, snippet: why.to_string() }
    }
    pub fn comment(&self) -> String {
        if self.file.is_empty() {
            format!("-- {}", self.snippet)
        } else {
            format!("-- {}:{}  {}", self.file, self.line, self.snippet)
        }
    }
}

pub struct AtomicFacts {
    pub sites: Vec<Site>,
    pub clone_ord: (MemOrd, Src),
    pub dec_ord: (MemOrd, Src),
    pub dec_guard: (Guard, Src),
    pub fence: (Option<FenceKind>, Src),
    pub drop_skeleton: (Vec<DropStmt>, Src),
    pub is_unique_guard: (Guard, Src),
    pub count_load_ord: (MemOrd, Src),
    pub strong_count_ord: (MemOrd, Src),
    pub gates: Vec<Gate>,
    pub funnels: Vec<Funnel>,
    pub unknown_writes: Vec<Site>,
}

pub struct ConstFacts {
    pub max_refcount: (MaxRefcount, Src),
    pub clone_guard: (Guard, Src),
    pub clone_guard_on_old_vs_max: (bool, Src),
    pub clone_guard_action: (GuardAction, Src),
    pub abort_std: (AbortImpl, Src),
    pub abort_no_std: (AbortImpl, Src),
}
