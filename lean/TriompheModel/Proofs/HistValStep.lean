import TriompheModel.Proofs.HistValMem
import TriompheModel.Proofs.HistLemmasLogStep
/-!
# Every op preserves the value invariant (helper file 3 for `Proofs/HistVal.lean`)

Part 1 is generic: a predicate on memories that is closed under the primitive memory operations
(`MemClosed`) is preserved by every op that hands in no new value (all but `create`, `iterCtor`,
`writeSlot`), given the count invariant `Inv'` (needed to know that `fetch_add` hits a live block
and `drop_inner` a block that is not an abandoned one).  Part 2 treats the three value-introducing
ops for `ValInvM`.
-/
namespace M1
open LY

structure MemClosed (P : Mem → Prop) : Prop where
  hIncr : ∀ (m : Mem) (b : Nat) (k : Block), P m → m.blocks[b]? = some k → k.live = true → P (incr m b)
  hDecr : ∀ (m : Mem) (b : Nat) (t : Ty) (l : Nat), P m →
          (∀ k : Block, m.blocks[b]? = some k → k.leaked = false) → P (decr m b t l)
  hWriteVal : ∀ (m : Mem) (b v : Nat), P m → P (writeVal m b v)
  hCloneValue : ∀ (m : Mem) (b : Nat), P m → P (cloneValue m b).1
  hCloneNew : ∀ (m : Mem) (b : Nat) (t : Ty), P m → P (Arc.new (cloneValue m b).1 t (cloneValue m b).2).1
  hIntoInner : ∀ (m : Mem) (u : HV), P m → P (UniqueArc.into_inner m u).1

theorem Inv'.slot_block {s : State} (hi : Inv' s) {i : Nat} {h : HV} (hl : lookup s i = some h) :
    ∃ k : Block, s.mem.blocks[h.blk]? = some k ∧ k.live = true ∧ k.leaked = false := by
  obtain ⟨k, hk, hc⟩ := cv_eq_some (hi.view hl)
  simp only [Block.core, Prod.mk.injEq] at hc
  exact ⟨k, hk, hc.2.1, hc.2.2⟩

theorem Inv'.not_leaked {s : State} (hi : Inv' s) {i : Nat} {h : HV} (hl : lookup s i = some h) :
    ∀ k : Block, s.mem.blocks[h.blk]? = some k → k.leaked = false := by
  intro k hk
  obtain ⟨k', hk', _, h2⟩ := hi.slot_block hl
  rw [hk] at hk'; cases hk'; exact h2

theorem cloneValue_blocks (m : Mem) (b : Nat) : (cloneValue m b).1.blocks = m.blocks := by
  unfold cloneValue; split <;> rfl

theorem arc_new_get (m : Mem) (t : Ty) (v : Option Item) {j : Nat} (hj : j < m.blocks.length) :
    (Arc.new m t v).1.blocks[j]? = m.blocks[j]? := by
  show (m.blocks ++ [_])[j]? = _
  exact List.getElem?_append_left hj

section
variable {P : Mem → Prop} (hc : MemClosed P)
include hc

theorem closed_arc_drop {m : Mem} (hp : P m) (a : HV)
    (hnl : ∀ k : Block, m.blocks[a.blk]? = some k → k.leaked = false) : P (Arc.drop m a) :=
  hc.hDecr m a.blk a.ty (viewLen m a) hp hnl

theorem closed_make_mut {m : Mem} (hp : P m) (a : HV) (cp : Bool) {k : Block}
    (hk : m.blocks[a.blk]? = some k) (hnl : k.leaked = false) : P (Arc.make_mut m a cp).1 := by
  rw [make_mut_eq]
  split
  · exact hp
  · split
    · exact hp
    · apply closed_arc_drop hc (hc.hCloneNew m a.blk a.ty hp)
      intro k' hk'
      have hj : a.blk < (cloneValue m a.blk).1.blocks.length := by
        rw [cloneValue_blocks]; exact (List.getElem?_eq_some_iff.1 hk).1
      rw [arc_new_get _ _ _ hj, cloneValue_blocks, hk] at hk'
      cases hk'; exact hnl

theorem closed_try_unwrap {m : Mem} (hp : P m) (a : HV) : P (Arc.try_unwrap m a).1 := by
  unfold Arc.try_unwrap
  split
  · exact hc.hIntoInner _ _ hp
  · exact hp

variable {s : State} (hi : Inv' s) (hp : P s.mem)
include hi hp
set_option linter.unusedSectionVars false

theorem closed_clone (dst src : Nat) : P (step s (.clone dst src)).1.mem := by
  simp only [step]
  split
  · rename_i h hd hs
    split
    · rename_i m c hcl
      obtain ⟨rfl, _, _, _⟩ := cloneHandle_spec hcl
      obtain ⟨k, hk, hlv, _⟩ := hi.slot_block hs
      exact hc.hIncr _ _ k hp hk hlv
    · exact hp
  · exact hp

theorem closed_drop (src : Nat) : P (step s (.drop src)).1.mem := by
  simp only [step]
  split
  · rename_i h hs
    split
    · rename_i m hd
      obtain ⟨t, l, rfl⟩ := dropHandle_spec hd
      exact hc.hDecr _ _ _ _ hp (hi.not_leaked hs)
    · exact hp
  · exact hp

theorem closed_conv (src : Nat) (c : Conv) : P (step s (.conv src c)).1.mem := by
  simp only [step]
  split
  · split <;> exact hp
  · exact hp

theorem closed_intoThin (src : Nat) : P (step s (.intoThin src)).1.mem := by
  simp only [step]
  split
  · rename_i h hs
    split
    · rcases into_thin_spec s.mem h with ⟨t, ht, _, _⟩ | hn
      · rw [ht]; exact hp
      · rw [hn]; exact hc.hDecr _ _ _ _ hp (hi.not_leaked hs)
    · exact hp
  · exact hp

theorem closed_cloneArc (dst src : Nat) : P (step s (.cloneArc dst src)).1.mem := by
  simp only [step]
  split
  · rename_i h hd hs
    obtain ⟨k, hk, hlv, _⟩ := hi.slot_block hs
    split
    · rename_i m a hr
      split at hr
      · cases hr; exact hc.hIncr _ _ k hp hk hlv
      · split at hr
        · cases hr; exact hc.hIncr _ _ k hp hk hlv
        · split at hr
          · cases hr; exact hc.hIncr _ _ k hp hk hlv
          · cases hr
    · exact hp
  · exact hp

theorem closed_isUnique (src : Nat) : P (step s (.isUnique src)).1.mem := by
  simp only [step]
  split
  · split <;> exact hp
  · exact hp

theorem closed_getMut (src v : Nat) : P (step s (.getMut src v)).1.mem := by
  simp only [step]
  split
  · split
    · split
      · exact hc.hWriteVal _ _ _ hp
      · exact hp
    · exact hp
  · exact hp

theorem closed_getUnique (src v : Nat) : P (step s (.getUnique src v)).1.mem := by
  simp only [step]
  split
  · split
    · split
      · exact hc.hWriteVal _ _ _ hp
      · exact hp
    · exact hp
  · exact hp

theorem closed_uniqWrite (src v : Nat) : P (step s (.uniqWrite src v)).1.mem := by
  simp only [step]
  split
  · split
    · exact hc.hWriteVal _ _ _ hp
    · exact hp
  · exact hp

theorem closed_tryUnique (src : Nat) : P (step s (.tryUnique src)).1.mem := by
  simp only [step]
  split
  · split
    · split <;> exact hp
    · exact hp
  · exact hp

theorem closed_intoInner (src : Nat) : P (step s (.intoInner src)).1.mem := by
  simp only [step]
  split
  · split
    · exact hc.hIntoInner _ _ hp
    · exact hp
  · exact hp

theorem closed_tryUnwrap (src : Nat) : P (step s (.tryUnwrap src)).1.mem := by
  simp only [step]
  split
  · rename_i h hs
    split
    · have := closed_try_unwrap hc hp h
      split
      · rename_i he; rw [he] at this; exact this
      · exact hp
    · exact hp
  · exact hp

theorem closed_unwrapOrClone (src : Nat) (cp : Bool) : P (step s (.unwrapOrClone src cp)).1.mem := by
  simp only [step]
  split
  · rename_i h hs
    split
    · have hnl := hi.not_leaked hs
      rcases try_unwrap_spec s.mem h with ⟨m', v, he, _, _⟩ | ⟨he, _⟩
      · have := closed_try_unwrap hc hp h
        rw [he] at this ⊢; exact this
      · rw [he]
        simp only
        split
        · exact closed_arc_drop hc hp h hnl
        · apply closed_arc_drop hc (hc.hCloneValue _ _ hp) h
          rw [cloneValue_blocks]; exact hnl
    · exact hp
  · exact hp

theorem closed_makeMut (src v : Nat) (cp : Bool) : P (step s (.makeMut src v cp)).1.mem := by
  simp only [step]
  split
  · rename_i h hs
    obtain ⟨k, hk, _, hnl⟩ := hi.slot_block hs
    split
    · have := closed_make_mut hc hp h cp hk hnl
      split
      · rename_i he; rw [he] at this; exact hc.hWriteVal _ _ _ this
      · exact hp
    · split
      · have := closed_make_mut hc hp (Arc.from_raw_offset s.mem h) cp (k := k) hk hnl
        split
        · rename_i he; rw [he] at this; exact hc.hWriteVal _ _ _ this
        · exact hp
      · exact hp
  · exact hp

theorem closed_makeUnique (src v : Nat) (cp : Bool) : P (step s (.makeUnique src v cp)).1.mem := by
  simp only [step]
  split
  · rename_i h hs
    obtain ⟨k, hk, _, hnl⟩ := hi.slot_block hs
    split
    · have := closed_make_mut hc hp h cp hk hnl
      split
      · rename_i he; rw [he] at this; exact hc.hWriteVal _ _ _ this
      · exact hp
    · exact hp
  · exact hp

end

theorem closed_releaseSlot {P : Mem → Prop} (hc : MemClosed P) {s : State} (hi : Inv' s) (hp : P s.mem)
    (i : Nat) : P (releaseSlot s i).mem := by
  unfold releaseSlot
  split
  · rename_i h hs
    apply closed_arc_drop hc hp
    rw [asArc_blk]; exact hi.not_leaked hs
  · exact hp

theorem closed_dropAllFrom {P : Mem → Prop} (hc : MemClosed P) (keys : List Nat) :
    ∀ {s : State}, Inv' s → P s.mem → P (dropAllFrom keys s).mem := by
  induction keys with
  | nil => intro s _ hp; exact hp
  | cons k r ih =>
    intro s hi hp
    simp only [dropAllFrom, List.foldl_cons]
    exact ih (releaseSlot_inv hi k) (closed_releaseSlot hc hi hp k)

theorem closed_withCb {P : Mem → Prop} (hc : MemClosed P) {s : State} (hi : Inv' s) (hp : P s.mem)
    (src : Nat) (api : CbApi) (script : List CbAct) : P (step s (.withCb src api script)).1.mem := by
  simp only [step]
  split
  · rename_i h hs
    split
    · rename_i t ht
      obtain ⟨h1, h2⟩ := transientOf_spec ht
      obtain ⟨t', _, hres⟩ := runCb_ind api src (fun s t => CbP src s t ∧ P s.mem)
        (fun s t k m c hq hk hcl => ⟨hq.1.cloneTo hk hcl api, by
          obtain ⟨rfl, _, _, _⟩ := cloneHandle_spec hcl
          obtain ⟨hs', hls, hbs, _⟩ := hq.1.2
          obtain ⟨k', hk', hlv, _⟩ := hq.1.1.slot_block hls
          rw [hbs] at hk'
          exact hc.hIncr _ _ k' hq.2 hk' hlv⟩)
        (fun s t k hq hk _ => ⟨hq.1.cloneArc hk, by
          obtain ⟨hs', hls, hbs, _⟩ := hq.1.2
          obtain ⟨k', hk', hlv, _⟩ := hq.1.1.slot_block hls
          rw [hbs] at hk'
          exact hc.hIncr _ _ k' hq.2 hk' hlv⟩)
        (fun s t v hq => ⟨hq.1.write v, hc.hWriteVal _ _ _ hq.2⟩)
        (fun s t k h2 hq hne hlk _ => ⟨hq.1.repl hne hlk, by
          obtain ⟨hs', hls, hbs, _⟩ := hq.1.2
          apply closed_arc_drop hc hq.2
          rw [← hbs]; exact hq.1.1.not_leaked hls⟩)
        (fun s t k h2 hq hne hlk _ _ => ⟨hq.1.swap hne hlk, hq.2⟩)
        script s t "" ⟨⟨hi, h, hs, h1.symm, h2⟩, hp⟩
      exact hres
    · exact hp
  · exact hp

/-- ops that hand in no new value -/
def Op.plain : Op → Bool
  | .create .. | .iterCtor .. | .writeSlot .. => false
  | _ => true

/-- a predicate closed under the primitive memory operations is preserved by every plain op -/
theorem closed_step {P : Mem → Prop} (hc : MemClosed P) {s : State} (hi : Inv' s) (hp : P s.mem)
    (op : Op) (hop : op.plain = true) : P (step s op).1.mem := by
  cases op with
  | create dst c => cases hop
  | iterCtor dst w h sc => cases hop
  | writeSlot src i v => cases hop
  | clone dst src => exact closed_clone hc hi hp dst src
  | drop src => exact closed_drop hc hi hp src
  | conv src c => exact closed_conv hc hi hp src c
  | intoThin src => exact closed_intoThin hc hi hp src
  | cloneArc dst src => exact closed_cloneArc hc hi hp dst src
  | isUnique src => exact closed_isUnique hc hi hp src
  | getMut src v => exact closed_getMut hc hi hp src v
  | getUnique src v => exact closed_getUnique hc hi hp src v
  | makeMut src v cp => exact closed_makeMut hc hi hp src v cp
  | makeUnique src v cp => exact closed_makeUnique hc hi hp src v cp
  | tryUnwrap src => exact closed_tryUnwrap hc hi hp src
  | unwrapOrClone src cp => exact closed_unwrapOrClone hc hi hp src cp
  | intoInner src => exact closed_intoInner hc hi hp src
  | tryUnique src => exact closed_tryUnique hc hi hp src
  | uniqWrite src v => exact closed_uniqWrite hc hi hp src v
  | withCb src api script => exact closed_withCb hc hi hp src api script
  | dropAll => exact closed_dropAllFrom hc _ hi hp

theorem valinvM_closed (seen : List Nat) : MemClosed (ValInvM seen) where
  hIncr := fun _ _ _ hp hk hl => hp.incr hk hl
  hDecr := fun _ b t l hp hnl => hp.decr b t l hnl
  hWriteVal := fun _ b v hp => hp.writeVal b v
  hCloneValue := fun _ b hp => hp.cloneValue b
  hCloneNew := fun _ b t hp => hp.cloneNew b t
  hIntoInner := fun _ u hp => hp.into_inner u

end M1
