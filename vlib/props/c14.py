"""C14 — comparison, ordering, hashing and formatting see through the pointer.

Deciding method: the Lean theorems of `Props/C14.lean` over model M5 (`Model/Cmp.lean`), for every
`PayloadOps` (eleven independent functions).  Tie B: the executable model (`drv_cmp`) and the real
crate (`harness/src/bin/cmp.rs`) answer the same query lines — exhaustive small domain of the
property, floats with NaN, scripted (table-driven, call-logging) payloads, seeded random larger
values, map lookups through `Borrow` — and must print the same eleven observations.

Failing-input search: the property itself, evaluated on the implementation's own output by a
monitor that does not use the model: handle observers vs. the same observers on the values
(computed in Rust next to each other), the values' observers vs. plain (header, slice[, length])
tuples, mutual consistency of the operators for lawful payloads, eq => equal hash streams, no
address in any Debug/Display output, which payload methods were called (scripted payload).
"""
import itertools
import json
import os
import random
import re
import time

from vlib import common

MODULE = "TriompheModel.Props.C14"
FIELDS = ["eq", "ne", "lt", "le", "gt", "ge", "pc", "cm", "ha", "hb", "da", "db", "pa", "pb"]
LICENCE_KINDS = {"arc", "thin", "hs", "hswl", "prot", "slice"}      # built on Arc's ptr_eq shortcut
HS_KINDS = ("hs", "hswl", "thin", "prot", "slice")
SCALAR_KINDS = ("arc", "offset", "borrow", "u11", "u12", "u21", "u22")
FAMILY = {"arc": "Arc", "offset": "OffsetArc", "borrow": "ArcBorrow/ArcUnion", "u11": "ArcBorrow/ArcUnion",
          "u12": "ArcBorrow/ArcUnion", "u21": "ArcBorrow/ArcUnion", "u22": "ArcBorrow/ArcUnion",
          "thin": "ThinArc/Protected", "prot": "ThinArc/Protected", "hs": "HeaderSlice",
          "hswl": "HeaderSlice<HeaderWithLength>", "slice": "Arc<[T]>", "map": "Borrow/map-key"}
ADDR = re.compile(r"0x[0-9a-fA-F]+")

ASSUME = [
    "M5 mirrors the source by hand (function by function); it is tied to the code by the correspondence run, not by a translator",
    "core/std semantics of slices, tuples, usize, derive expansion and trait default methods are modelled (checked against the installed toolchain by the same run), not verified",
    "payload behaviour is arbitrary in the theorems; the harness exercises i32, f32 (NaN, -0.0) and a scripted table-driven payload",
    "two handles into one allocation see one value (Handle.WF); allocation identity is the only pointer-level fact the model uses",
]


# ------------------------------------------------------------------------------------------------
# values and query lines

def enc(v):
    """v = (header token, [element tokens] or None, recorded length or '=')"""
    h, s, l = v
    if s is None:
        return str(h)
    return "%s:%s:%s" % (h, ",".join(str(x) for x in s) if s else "_", l)


class Q:
    __slots__ = ("kind", "same", "dom", "a", "b", "tab", "line", "src")

    def __init__(self, kind, same, dom, a, b, tab=None, src=""):
        self.kind, self.same, self.dom, self.a, self.b, self.tab, self.src = kind, same, dom, a, (a if same else b), tab, src
        self.line = "Q %s %s %s %s %s" % (kind, "same" if same else "dist", dom, enc(a), enc(self.b))

    def describe(self):
        return self.line


class MQ:
    __slots__ = ("kind", "keys", "probes", "line", "src", "dom", "tab", "same")

    def __init__(self, kind, keys, probes, src="map"):
        self.kind, self.keys, self.probes, self.src, self.dom, self.tab, self.same = kind, keys, probes, src, "int", None, False
        self.line = "M int %s %s ? %s" % (kind, " ".join(enc(k) for k in keys), " ".join(enc(p) for p in probes))


def table_line(t):
    return "T eq=%s ne=%s lt=%s le=%s gt=%s ge=%s pc=%s cm=%s hs=%s db=%s dp=%s" % (
        t["eq"], t["ne"], t["lt"], t["le"], t["gt"], t["ge"], t["pc"], t["cm"],
        "/".join(x or "_" for x in t["hs"]), "/".join(t["db"]), "/".join(t["dp"]))


def random_table(rng, n=3):
    bits = lambda: "".join(rng.choice("01") for _ in range(n * n))
    words = ["ka", "zu", "mi", "ro", "te", "xo", "ny", "pi", "qu"]
    return {"n": n, "eq": bits(), "ne": bits(), "lt": bits(), "le": bits(), "gt": bits(), "ge": bits(),
            "pc": "".join(rng.choice("LEGN") for _ in range(n * n)), "cm": "".join(rng.choice("LEG") for _ in range(n * n)),
            "hs": ["".join("%02x" % rng.randrange(256) for _ in range(rng.choice([0, 1, 1, 2, 3]))) for _ in range(n)],
            "db": [rng.choice(words) + str(i) for i in range(n)], "dp": [rng.choice(words).upper() + str(i) for i in range(n)]}


# a lawful total order written as a table, and a thoroughly unlawful one (`C14.weird` in Lean)
TABLE_ORDER = {"n": 3, "eq": "100010001", "ne": "011101110", "lt": "011001000", "le": "111011001", "gt": "000100110",
               "ge": "100110111", "pc": "ELLGELGGE", "cm": "ELLGELGGE", "hs": ["00", "01", "02"], "db": ["a", "b", "c"], "dp": ["A", "B", "C"]}
TABLE_WEIRD = {"n": 3, "eq": "011001100", "ne": "010101010", "lt": "111111111", "le": "000000000", "gt": "100100100",
               "ge": "001001001", "pc": "GNEELNNEG", "cm": "LEGGLEEGL", "hs": ["0102", "", "ff"], "db": ["zero", "one", "two"],
               "dp": ["0", "I", "II"]}


def slices_upto(alpha, n):
    out = []
    for k in range(n + 1):
        out += [list(t) for t in itertools.product(alpha, repeat=k)]
    return out


def hs_values(alpha, maxlen, lens="="):
    """headers x slices; lens: '=' (recorded = slice length), 'both' (also slice length + 1) or
    'three' (also slice length - 1 where possible)"""
    vals = []
    for h in alpha:
        for s in slices_upto(alpha, maxlen):
            vals.append((h, s, "="))
            if lens in ("both", "three"):
                vals.append((h, s, len(s) + 1))
            if lens == "three" and len(s) > 0:
                vals.append((h, s, len(s) - 1))
    return vals


def gen_queries(ctx, rng):
    """Returns (list of stream items, tables).  A stream item is a Q, an MQ or ('T', index)."""
    items = []
    tables = []
    thorough = ctx.thorough()

    def pairs(kind, dom, vals, src, sample=None, tab=None):
        ps = [(a, b) for a in vals for b in vals]
        if sample is not None and len(ps) > sample:
            ps = rng.sample(ps, sample)
        for a, b in ps:
            items.append(Q(kind, False, dom, a, b, tab, src))
        for a in vals:
            items.append(Q(kind, True, dom, a, a, tab, src))

    def scalar_kinds(dom, toks, src, tab=None):
        vals = [(t, None, None) for t in toks]
        for kind in SCALAR_KINDS:
            for a in vals:
                for b in vals:
                    items.append(Q(kind, False, dom, a, b, tab, src))
            if kind in ("u12", "u21"):
                continue
            for a in vals:
                items.append(Q(kind, True, dom, a, a, tab, src))

    # (1) the exhaustive small domain of the property: 3-letter alphabet, slices up to length 3,
    #     recorded length equal and unequal — totally ordered payload (i32)
    A3 = [0, 1, 2]
    scalar_kinds("int", [-2, -1, 0, 1, 2], "exhaustive-int")
    pairs("hs", "int", hs_values(A3, 3), "exhaustive-int")
    pairs("thin", "int", hs_values(A3, 3), "exhaustive-int")
    pairs("prot", "int", hs_values(A3, 3), "exhaustive-int")
    pairs("hswl", "int", hs_values(A3, 3, "three" if thorough else "both"), "exhaustive-int")
    pairs("slice", "int", [(0, s, "=") for s in slices_upto(A3, 3)], "exhaustive-int")

    # (2) partially ordered payload: f32 with NaN and -0.0
    scalar_kinds("flt", ["nan", "nz", 0, 1, -3, 4], "float")
    F3 = ["nan", 0, 1]
    ml = 3 if thorough else 2
    pairs("hs", "flt", hs_values(F3, ml), "float")
    pairs("thin", "flt", hs_values(F3, ml), "float")
    pairs("prot", "flt", hs_values(F3, 2), "float", sample=None if thorough else 800)
    pairs("hswl", "flt", hs_values(F3, ml, "both"), "float", sample=None if thorough else 4000)
    pairs("slice", "flt", [(0, s, "=") for s in slices_upto(["nan", "nz", 0, 1], 2 if not thorough else 3)], "float")

    # (3) scripted payloads: every operator answers from its own table
    ntab = 24 if thorough else 6
    tabs = [TABLE_ORDER, TABLE_WEIRD] + [random_table(rng) for _ in range(ntab)]
    for t in tabs:
        ti = len(tables)
        tables.append(t)
        items.append(("T", ti))
        scalar_kinds("tab", [0, 1, 2], "scripted", tab=ti)
        per = None if thorough else 350
        for kind in ("hs", "thin", "prot"):
            pairs(kind, "tab", hs_values(A3, 2), "scripted", sample=per, tab=ti)
        pairs("hswl", "tab", hs_values(A3, 2, "both"), "scripted", sample=(3000 if thorough else 500), tab=ti)
        pairs("slice", "tab", [(0, s, "=") for s in slices_upto(A3, 2)], "scripted", sample=per, tab=ti)

    # (4) seeded random larger values (i32 range, longer slices), biased towards near-equal pairs
    nrand = 50000 if thorough else 4000

    def rint():
        r = rng.random()
        if r < 0.5:
            return rng.randrange(-4, 5)
        if r < 0.7:
            return rng.choice([2147483647, -2147483648, 255, 256, -256, 65536, -1])
        return rng.randrange(-2147483648, 2147483648)

    def mutate(v):
        h, s, l = v
        s = list(s)
        r = rng.random()
        if r < 0.3:
            pass
        elif r < 0.45 and s:
            s[rng.randrange(len(s))] = rint()
        elif r < 0.6 and s:
            s = s[:rng.randrange(len(s))]
        elif r < 0.75:
            s = s + [rint() for _ in range(rng.randrange(1, 3))]
        elif r < 0.9:
            h = rint()
        else:
            return (rint(), [rint() for _ in range(rng.randrange(0, 9))], "=")
        return (h, s, "=")

    for _ in range(nrand):
        kind = rng.choice(["arc", "offset", "borrow", "u11", "u22", "u12", "hs", "hs", "thin", "thin", "prot", "hswl", "hswl", "slice"])
        same = rng.random() < 0.15 and kind not in ("u12", "u21")
        a = (rint(), [rint() for _ in range(rng.randrange(0, 13))], "=")
        b = mutate(a)
        if kind in SCALAR_KINDS:
            a, b = (a[0], None, None), (b[0], None, None)
        elif kind == "hswl":
            a = (a[0], a[1], rng.choice(["=", len(a[1]) + rng.randrange(0, 3), rng.randrange(0, 20)]))
            b = (b[0], b[1], rng.choice(["=", a[2] if a[2] != "=" else len(a[1]), rng.randrange(0, 20)]))
        items.append(Q(kind, same, "int", a, b, None, "random"))
    FL = ["nan", "nz", 0, 1, 2, -1, 7, -40]
    for _ in range(nrand // 4):
        kind = rng.choice(["arc", "offset", "borrow", "u11", "u22", "hs", "thin", "prot", "hswl", "slice"])
        same = rng.random() < 0.25
        a = (rng.choice(FL), [rng.choice(FL) for _ in range(rng.randrange(0, 7))], "=")
        b = (a[0] if rng.random() < 0.6 else rng.choice(FL), [x if rng.random() < 0.8 else rng.choice(FL) for x in a[1]][:rng.randrange(0, 8)], "=")
        if kind in SCALAR_KINDS:
            a, b = (a[0], None, None), (b[0], None, None)
        elif kind == "hswl":
            a = (a[0], a[1], rng.choice(["=", len(a[1]) + 1]))
            b = (b[0], b[1], rng.choice(["=", len(b[1]) + 1]))
        items.append(Q(kind, same, "flt", a, b, None, "random-float"))

    # (5) map lookups keyed by Arc<T>, probed with &T (Borrow)
    for _ in range(1500 if thorough else 250):
        if rng.random() < 0.5:
            keys = [(rng.randrange(-5, 6), None, None) for _ in range(rng.randrange(1, 9))]
            probes = [(rng.randrange(-6, 7), None, None) for _ in range(rng.randrange(1, 6))]
            items.append(MQ("arc", keys, probes))
        else:
            mk = lambda: (rng.randrange(0, 3), [rng.randrange(0, 3) for _ in range(rng.randrange(0, 3))], "=")
            keys = [mk() for _ in range(rng.randrange(1, 9))]
            probes = [mk() for _ in range(rng.randrange(1, 6))]
            items.append(MQ("hs", keys, probes))
    return items, tables


# ------------------------------------------------------------------------------------------------
# running both sides

def run_bin(path, lines, what):
    rc, out, err = common.sh2([path], stdin="\n".join(lines) + "\n", timeout=1500)
    res = out.split("\n")
    if res and res[-1] == "":
        res.pop()
    if rc != 0 or len(res) != len(lines):
        raise RuntimeError("%s: rc=%s, %d answers for %d lines\n%s" % (what, rc, len(res), len(lines), err[-2000:]))
    return res


def parse_sections(line):
    secs = {}
    for part in line.split(" # "):
        fs = part.split("|")
        secs[fs[0]] = dict(f.split("=", 1) for f in fs[1:])
    return secs


def flat(h):
    return "" if h in ("_", "-") else h.replace(".", "")


def canon_r(sec):
    """impl `R` section -> the model's canonical form (hash stream without call boundaries)"""
    fs = sec.split("|")
    if len(fs) == 15:
        for i in (9, 10):
            k, v = fs[i].split("=", 1)
            if v not in ("-", "_"):
                fs[i] = k + "=" + v.replace(".", "")
    return "|".join(fs)


# ------------------------------------------------------------------------------------------------
# the property as an executable monitor (independent of the Lean model)

def usz(n):
    return int(n).to_bytes(8, "little").hex()


def elem_hash(dom, T, tok):
    if dom == "int":
        return (int(tok) & 0xFFFFFFFF).to_bytes(4, "little").hex()
    if dom == "tab":
        return T["hs"][int(tok)]
    return None


def elem_dbg(dom, T, tok, display=False):
    if dom == "int":
        return str(tok)
    if dom == "tab":
        return (T["dp"] if display else T["db"])[int(tok)]
    if tok == "nan":
        return "NaN"
    if tok == "nz":
        return "-0" if display else "-0.0"
    r = repr(int(tok) / 2)
    return r[:-2] if display and r.endswith(".0") else r


def reclen(v):
    return len(v[1]) if v[2] == "=" else int(v[2])


def expected_debug(kind, dom, T, v):
    if v[1] is None:
        return elem_dbg(dom, T, v[0])
    sl = "[" + ", ".join(elem_dbg(dom, T, x) for x in v[1]) + "]"
    if kind == "slice":
        return sl
    h = elem_dbg(dom, T, v[0])
    if kind == "hs":
        return "HeaderSlice { header: %s, slice: %s }" % (h, sl)
    n = reclen(v) if kind == "hswl" else len(v[1])
    inner = "HeaderSlice { header: HeaderWithLength { header: %s, length: %d }, slice: %s }" % (h, n, sl)
    return "HeaderSliceWithLengthProtected { inner: %s }" % inner if kind == "prot" else inner


def expected_hash(kind, dom, T, v):
    eh = lambda x: elem_hash(dom, T, x)
    if v[1] is None:
        return eh(v[0])
    sl = usz(len(v[1])) + "".join(eh(x) for x in v[1])
    if kind == "slice":
        return sl
    if kind == "hs":
        return eh(v[0]) + sl
    n = reclen(v) if kind == "hswl" else len(v[1])
    return eh(v[0]) + usz(n) + sl


def lex_spec_tab(kind, T, cfg, a, b):
    """header-then-slice composition of the scripted payload's own answers (no model involved)"""
    n = T["n"]
    at = lambda name, x, y: T[name][n * int(x) + int(y)]

    def cmp_len(x, y):
        return "L" if x < y else ("G" if x > y else "E")

    def slice_pc(name, xs, ys):
        for x, y in zip(xs, ys):
            o = at(name, x, y)
            if o != "E":
                return o
        return cmp_len(len(xs), len(ys))

    def slice_eq(xs, ys):
        if len(xs) != len(ys):
            return False
        for x, y in zip(xs, ys):
            differs = (at("ne", x, y) == "1") if cfg else (at("eq", x, y) != "1")
            if differs:
                return False
        return True

    def then(o, rest):
        return rest() if o == "E" else o

    if kind == "slice":
        eq = slice_eq(a[1], b[1])
        pc = slice_pc("pc", a[1], b[1])
        cm = slice_pc("cm", a[1], b[1])
    elif kind == "hs":
        eq = at("eq", a[0], b[0]) == "1" and slice_eq(a[1], b[1])
        pc = then(at("pc", a[0], b[0]), lambda: slice_pc("pc", a[1], b[1]))
        cm = then(at("cm", a[0], b[0]), lambda: slice_pc("cm", a[1], b[1]))
    else:
        la, lb = (reclen(a), reclen(b)) if kind == "hswl" else (len(a[1]), len(b[1]))
        eq = at("eq", a[0], b[0]) == "1" and la == lb and slice_eq(a[1], b[1])
        pc = then(at("pc", a[0], b[0]), lambda: then(slice_pc("pc", a[1], b[1]), lambda: cmp_len(la, lb)))
        cm = then(at("cm", a[0], b[0]), lambda: then(slice_pc("cm", a[1], b[1]), lambda: cmp_len(la, lb)))
    bit = lambda x: "1" if x else "0"
    return {"eq": bit(eq), "ne": bit(not eq), "lt": bit(pc == "L"), "le": bit(pc in "LE"), "gt": bit(pc == "G"),
            "ge": bit(pc in "GE"), "pc": pc, "cm": cm}


def monitor(q, secs, T, cfg):
    """-> list of (rule, field, message)"""
    bad = []
    if isinstance(q, MQ):
        m = secs["M"]
        exp = []
        for p in q.probes:
            hit = [i for i, k in enumerate(q.keys) if (k[0], k[1]) == (p[0], p[1])]
            # insert() of an equal key keeps the value of the LAST insert
            exp.append(str(hit[-1]) if hit else "-")
        exp = ",".join(exp)
        if m["h"] != exp:
            bad.append(("borrow-key", "HashMap", "HashMap<Arc<T>,_>::get(&T) gave %s, a map keyed by the values gives %s" % (m["h"], exp)))
        if m["b"] != exp:
            bad.append(("borrow-key", "BTreeMap", "BTreeMap<Arc<T>,_>::get(&T) gave %s, a map keyed by the values gives %s" % (m["b"], exp)))
        if m["br"] != "1" or m["ar"] != "1":
            bad.append(("borrow-key", "borrow", "Borrow::borrow / AsRef::as_ref do not return the Deref address (br=%s ar=%s)" % (m["br"], m["ar"])))
        return bad

    H, V, S = secs["R"], secs.get("V"), secs.get("S")
    kind, dom = q.kind, q.dom
    lawful = dom in ("int", "flt")
    union = kind[0] == "u"
    cross = kind in ("u12", "u21")
    licence = q.same and kind in LICENCE_KINDS

    for f in FIELDS:
        if H[f].startswith("!panic"):
            bad.append(("panic", f, "observer %s panicked" % f))
    # no address in any formatted output
    for sec, name in ((H, "handle"), (secs.get("XH", {}), "handle-flags")):
        for f, v in sec.items():
            if f in ("da", "db", "pa", "pb", "xw", "xd") and ADDR.search(v):
                bad.append(("address-in-format", f, "%s output `%s` contains an address" % (f, v)))
    # see-through: handle vs the value it holds
    if V is not None:
        for f in FIELDS:
            h, v = H[f], V[f]
            if h == "-":
                continue
            want = v
            if union:
                if f in ("eq", "ne"):
                    if cross:
                        want = "0" if f == "eq" else "1"
                    elif f == "ne":
                        # `ne` is the trait default `!eq`; for lawful payloads that is the payload's `!=`
                        want = "0" if V["eq"] == "1" else "1"
                        if lawful and want != V["ne"]:
                            bad.append(("harness", f, "lawful payload with ne != !eq?"))
                elif f == "da":
                    want = ("First(%s)" if kind[1] == "1" else "Second(%s)") % V["da"]
                elif f == "db":
                    want = ("First(%s)" if kind[2] == "1" else "Second(%s)") % V["db"]
            if licence and f in ("eq", "ne"):
                want = "1" if f == "eq" else "0"
            if want == "-":
                continue
            if h != want:
                if cross and f in ("eq", "ne"):
                    bad.append(("cross-variant", f, "%s of a First and a Second ArcUnion = %s, must be %s whatever they hold" % (f, h, want)))
                    continue
                bad.append(("see-through", f, "%s on the handles = %s, on the held values = %s%s" % (
                    f, h, want, " (same-allocation licence: must be %s)" % want if licence and f in ("eq", "ne") else "")))
        XH, XV = secs.get("XH"), secs.get("XV")
        if XH and XV and not union:
            for f in ("xw", "xd"):
                if XH[f] != "-" and XH[f] != XV[f]:
                    bad.append(("see-through", f, "formatting with flags differs: handle `%s` value `%s`" % (XH[f], XV[f])))
    # what Debug must show: the values, header then slice
    for f, v in (("da", q.a), ("db", q.b)):
        if H[f] != "-":
            want = expected_debug(kind if not union else "arc", dom, T, v)
            if union:
                want = ("First(%s)" if kind[1 if f == "da" else 2] == "1" else "Second(%s)") % want
            if H[f] != want:
                bad.append(("debug-shows-value", f, "Debug = `%s`, the held value formats as `%s`" % (H[f], want)))
    for f, v in (("pa", q.a), ("pb", q.b)):
        if H[f] != "-":
            want = elem_dbg(dom, T, v[0], display=True)
            if H[f] != want:
                bad.append(("display-shows-value", f, "Display = `%s`, the held value displays as `%s`" % (H[f], want)))
    # header first, then slice: the value type against plain tuples / the payload's own answers
    if kind in HS_KINDS and V is not None:
        if lawful and S is not None:
            for f in ("eq", "ne", "lt", "le", "gt", "ge", "pc", "cm", "ha", "hb"):
                if S[f] != "-" and V[f] != "-" and flat(V[f]) != flat(S[f]) and (f not in ("ha", "hb") or kind in ("hs", "hswl")):
                    bad.append(("header-then-slice", f, "%s on the %s value = %s, on the tuple (header, slice%s) = %s" % (
                        f, kind, V[f], ", length" if kind == "hswl" else "", S[f])))
        if dom == "tab":
            spec = lex_spec_tab(kind, T, cfg, q.a, q.b)
            for f, w in spec.items():
                if V[f] != "-" and V[f] != w:
                    bad.append(("header-then-slice", f, "%s on the %s value = %s, lexicographic composition of the payload's answers = %s" % (f, kind, V[f], w)))
        if dom in ("int", "tab"):
            for f, v in (("ha", q.a), ("hb", q.b)):
                if V[f] != "-" and flat(V[f]) != expected_hash(kind, dom, T, v):
                    bad.append(("hash-stream", f, "hash stream %s, expected header[, length], slice length, elements = %s" % (V[f], expected_hash(kind, dom, T, v))))
    # mutual consistency of the operators (lawful payloads)
    if lawful:
        eq, ne, pc, cm = H["eq"], H["ne"], H["pc"], H["cm"]
        if eq != "-" and ne != "-" and (eq == "1") == (ne == "1"):
            bad.append(("consistency", "ne", "eq=%s and ne=%s" % (eq, ne)))
        if pc != "-":
            for f, ok in (("lt", "L"), ("le", "LE"), ("gt", "G"), ("ge", "GE")):
                if H[f] != "-" and (H[f] == "1") != (pc in ok):
                    bad.append(("consistency", f, "%s=%s but partial_cmp=%s" % (f, H[f], pc)))
            irreflexive_same = licence and V is not None and V["eq"] == "0"
            if eq != "-" and not irreflexive_same and (eq == "1") != (pc == "E"):
                bad.append(("consistency", "eq", "eq=%s but partial_cmp=%s" % (eq, pc)))
            if cm != "-" and cm != pc:
                bad.append(("consistency", "cm", "cmp=%s but partial_cmp=%s" % (cm, pc)))
        if eq == "1" and H["ha"] != "-" and flat(H["ha"]) != flat(H["hb"]):
            bad.append(("eq-hash", "ha", "handles are equal but hash streams differ: %s vs %s" % (H["ha"], H["hb"])))
    # which payload methods were called (scripted payload)
    LH, LV = secs.get("LH"), secs.get("LV")
    if LH and LV and not cross:
        for f in FIELDS:
            if LH[f] == "-" or LV[f] == "-":
                continue
            want = LV[f]
            if union and f == "ne":
                want = LV["eq"]
            if licence and f in ("eq", "ne"):
                if LH[f] not in ("", want):
                    bad.append(("calls", f, "same allocation: %s called %s" % (f, LH[f])))
                continue
            if LH[f] != want:
                bad.append(("calls", f, "%s on the handles called [%s]; on the values it calls [%s]" % (f, LH[f], want)))
    return bad


# ------------------------------------------------------------------------------------------------
# witnesses of the two historical defects (printed when the behaviour returns)

def historical_note(kind, rule, field):
    if kind in ("borrow", "u11", "u22", "u12", "u21") and rule in ("see-through", "address-in-format", "debug-shows-value", "calls"):
        return ("This is the behaviour of upstream defect F1 (repaired in /repo by `fix:` commit 80d4dbc): ArcBorrow with "
                "#[derive(Debug, Eq, PartialEq)] on NonNull compares and prints the ADDRESS; ArcUnion inherits it.\n"
                "Model-level witness (Lean, Props/C14.lean): C14_prefix_borrow_by_address — for `prefixBorrowOps natOps`, "
                "handles <alloc 0, value 1> and <alloc 1, value 1>: eq = false although 1 == 1; "
                "C14_prefix_borrow_debug_address — Debug = \"ArcBorrow(0xa, PhantomData<&T>)\" instead of \"1\".")
    if kind == "hswl" and rule in ("consistency", "header-then-slice"):
        return ("This is the behaviour of upstream defect F2 (repaired in /repo by `fix:` commit 3524b4e): derived == of "
                "HeaderSlice<HeaderWithLength<H>,T> includes the recorded length, the hand-written partial_cmp/cmp ignored it.\n"
                "Model-level witness (Lean, Props/C14.lean): C14_prefix_hswl_eq_vs_cmp — x = (HeaderWithLength{7,1},[1,2]), "
                "y = (HeaderWithLength{7,2},[1,2]): eq = false, ne = true, cmp = Equal, le = ge = true; "
                "C14_prefix_hswl_not_lawful — `Lawful` fails for the pre-fix operators over a lawful payload.")
    return None


DEMANDS = {
    "see-through": "C14_see_through / C14_same_alloc_licence: every observer on handles equals the same observer on the held values "
                   "(Arc/ThinArc in the same allocation: eq = true, ne = false, nothing else changes)",
    "address-in-format": "C14_see_through: Debug/Display of a handle is the Debug/Display of the value; no address may appear",
    "debug-shows-value": "C14_see_through: Debug of a handle is the Debug of the held value (variant name around it for ArcUnion)",
    "display-shows-value": "C14_see_through: Display of an Arc is the Display of the held value",
    "header-then-slice": "C14_header_then_slice: header-slice values compare/order/hash as (header, slice[, recorded length]) lexicographically",
    "hash-stream": "C14_header_then_slice: hash stream = header [, recorded length], slice length, elements",
    "consistency": "C14_consistent_of_lawful: for lawful payloads eq/ne/lt/le/gt/ge/partial_cmp/cmp agree with each other on every publicly constructible value",
    "eq-hash": "C14_eq_hash: equal handles hash equally",
    "calls": "C14_see_through (scripted payload): a handle's operator consults exactly the payload operator(s) the value's operator consults",
    "borrow-key": "C14_borrow_key: an Arc<T> key is found by &T exactly as a T key would be",
    "cross-variant": "C14_cross_variant_ne: ArcUnions holding different variants are never equal",
    "panic": "no observer may panic",
    "correspondence": "model M5 (Model/Cmp.lean) mirrors the source: same eleven observations on the same query",
}


# ------------------------------------------------------------------------------------------------

class Runner:
    def __init__(self, ctx, impl_bin, drv_bin):
        self.ctx, self.impl_bin, self.drv_bin = ctx, impl_bin, drv_bin
        self.cfg = None

    def calibrate(self):
        """which of `!=` / `==` the generic loop of <[T] as PartialEq>::eq uses in the installed core
        (plain slices of the scripted payload; no crate code involved: section LV)"""
        t = dict(TABLE_ORDER)
        out = run_bin(self.impl_bin, [table_line(t), "Q slice dist tab 0:1:= 0:1:="], "harness(calibration)")
        lv = parse_sections(out[1])["LV"]["eq"]
        if lv.startswith("ne("):
            self.cfg = 1
        elif lv.startswith("eq("):
            self.cfg = 0
        else:
            raise RuntimeError("calibration: unexpected call log of <[S]>::eq: %r" % lv)
        return self.cfg

    def stream(self, items, tables):
        lines = ["C sliceEqViaNe=%d" % self.cfg]
        idx = []
        for it in items:
            if isinstance(it, tuple):
                lines.append(table_line(tables[it[1]]))
            else:
                idx.append(len(lines))
                lines.append(it.line)
        return lines, idx

    def run(self, items, tables):
        """-> list of (query, impl line, model line)"""
        lines, idx = self.stream(items, tables)
        t0 = time.time()
        impl = run_bin(self.impl_bin, lines, "harness cmp")
        t1 = time.time()
        model = run_bin(self.drv_bin, lines, "drv_cmp")
        t2 = time.time()
        self.t_impl, self.t_model = t1 - t0, t2 - t1
        qs = [it for it in items if not isinstance(it, tuple)]
        return [(q, impl[i], model[i]) for q, i in zip(qs, idx)]

    def judge(self, q, il, ml, tables):
        """-> (failures, corr_ok)"""
        if il == "bad" or il.startswith("!panic-outside"):
            raise RuntimeError("harness rejected query %s: %s" % (q.line, il))
        if ml == "bad":
            raise RuntimeError("driver rejected query %s" % q.line)
        secs = parse_sections(il)
        T = tables[q.tab] if q.tab is not None else None
        fails = monitor(q, secs, T, self.cfg)
        if isinstance(q, MQ):
            corr = il == ml
        else:
            corr = canon_r(il.split(" # ")[0]) == ml
        return fails, corr


def shrink_candidates(q):
    def simpler(v):
        h, s, l = v
        out = []
        if s is None:
            if str(h) not in ("0", "nan"):
                out.append((0, None, None))
            return out
        for i in range(len(s)):
            out.append((h, s[:i] + s[i + 1:], l if l == "=" else max(0, int(l) - 1)))
        for i in range(len(s)):
            if str(s[i]) not in ("0", "1", "nan"):
                out.append((h, s[:i] + [0] + s[i + 1:], l))
                out.append((h, s[:i] + [1] + s[i + 1:], l))
        if str(h) not in ("0", "1", "nan"):
            out.append((0, s, l))
            out.append((1, s, l))
        if l != "=" and int(l) > len(s) + 1:
            out.append((h, s, len(s) + 1))
        return out
    cands = []
    if q.same:
        for a in simpler(q.a):
            cands.append(Q(q.kind, True, q.dom, a, a, q.tab, q.src))
    else:
        for a, b in zip(simpler(q.a), simpler(q.b)):
            if q.a == q.b:
                cands.append(Q(q.kind, False, q.dom, a, b, q.tab, q.src))
        for a in simpler(q.a):
            cands.append(Q(q.kind, False, q.dom, a, q.b, q.tab, q.src))
        for b in simpler(q.b):
            cands.append(Q(q.kind, False, q.dom, q.a, b, q.tab, q.src))
    return cands


def shrink(runner, q, key, tables, is_corr):
    """greedy: keep a simpler query as long as the same (rule, field) still fails"""
    if isinstance(q, MQ):
        return q
    for _ in range(40):
        cands = shrink_candidates(q)
        if not cands:
            break
        items = ([("T", q.tab)] if q.tab is not None else []) + cands
        res = runner.run(items, tables)
        nxt = None
        for c, il, ml in res:
            fails, corr = runner.judge(c, il, ml, tables)
            if (is_corr and not corr) or (not is_corr and any((r, f) == key for r, f, _ in fails)):
                nxt = c
                break
        if nxt is None:
            break
        q = nxt
    return q


def size_of(q):
    if isinstance(q, MQ):
        return 1000 + len(q.line)
    n = 0
    for v in (q.a, q.b):
        n += len(v[1] or []) * 20 + len(str(v[0])) + (0 if v[2] in ("=", None) else 3)
    return n + (0 if q.dom == "int" else 5)


def replay_body(runner, q, tables, fails, corr, il, ml, extra=""):
    body = []
    body.append("input (line protocol of harness `cmp` / Lean driver `drv_cmp`):")
    body.append("  C sliceEqViaNe=%d" % runner.cfg)
    if q.tab is not None:
        body.append("  " + table_line(tables[q.tab]))
    body.append("  " + q.line)
    body.append("")
    body.append("what the query builds: kind=%s, %s allocation%s, payload domain=%s" % (
        q.kind, "the SAME" if q.same else "two DISTINCT", "" if q.same else "s", q.dom))
    body.append("implementation (/repo via harness):")
    for sec in il.split(" # "):
        body.append("  " + sec)
    body.append("model M5 (Lean):")
    body.append("  " + ml)
    body.append("model and implementation agree: %s" % ("yes" if corr else "NO"))
    body.append("")
    if fails:
        body.append("the property demands (monitor on the implementation's own output, no model involved):")
        for r, f, msg in fails:
            body.append("  [%s/%s] %s" % (r, f, msg))
            body.append("      demanded by " + DEMANDS.get(r, r))
    notes = []
    for r, f, _ in fails:
        n = historical_note(q.kind, r, f)
        if n and n not in notes:
            notes.append(n)
    for n in notes:
        body.append("")
        body.append(n)
    if extra:
        body.append("")
        body.append(extra)
    return "\n".join(body)


def run(ctx):
    ctx.assumptions = ASSUME
    ok, out = common.lean_obligations(ctx, MODULE, ["TriompheModel.Props.TraitCensus", "TriompheModel.Props.CmpImplCensus"])

    impl_bin, bout = common.cargo_build_bin(ctx, "cmp")
    if impl_bin is None:
        # the harness uses every comparison/format impl of the crate: a removed impl or changed public
        # constructor is an API change, not a verdict about C14
        common.harness_build_failed(ctx, "cmp", bout, what="the comparison/format correspondence harness")
        return
    drv_bin = common.lean_exe("drv_cmp")
    runner = Runner(ctx, impl_bin, drv_bin)
    cfg = runner.calibrate()
    ctx.coverage["calibration"] = {"slice_eq_loop_uses": "!=" if cfg else "==", "how": "call log of <[Scripted] as PartialEq>::eq on plain slices"}

    rng = random.Random(ctx.seed)
    items, tables = gen_queries(ctx, rng)
    results = runner.run(items, tables)

    by_kind, by_dom, by_src, by_alloc, pcs = {}, {}, {}, {}, {}
    seen = set()
    nontrivial = 0
    groups = {}       # (family, rule, field) -> list of (q, fails, corr, il, ml)
    corr_bad = {}     # family -> list
    n_corr_ok = 0
    obs_compared = 0
    for q, il, ml in results:
        fails, corr = runner.judge(q, il, ml, tables)
        kind = q.kind if not isinstance(q, MQ) else "map"
        by_kind[kind] = by_kind.get(kind, 0) + 1
        by_dom[q.dom] = by_dom.get(q.dom, 0) + 1
        by_src[q.src] = by_src.get(q.src, 0) + 1
        key = (q.line, q.tab)
        if key not in seen:
            seen.add(key)
            if isinstance(q, MQ):
                nontrivial += 1 if any(h != "-" for h in il.split("|")[1][2:].split(",")) else 0
            else:
                by_alloc["same" if q.same else "distinct"] = by_alloc.get("same" if q.same else "distinct", 0) + 1
                R = parse_sections(il.split(" # ")[0])["R"]
                pcs[R["pc"]] = pcs.get(R["pc"], 0) + 1
                obs_compared += sum(1 for f in FIELDS if R[f] != "-")
                # non-trivial: the answer is not decided by the first component alone / by inequality
                # of plain scalars: same allocation, or equal in distinct allocations, or unordered, or
                # a header-slice pair whose headers tie (slice consulted), or a scripted payload
                nt = q.same or q.dom == "tab" or R["eq"] == "1" or R["pc"] == "N"
                if not nt and q.kind in HS_KINDS and q.kind != "slice":
                    nt = str(q.a[0]) == str(q.b[0])
                if not nt and q.kind == "slice":
                    nt = len(q.a[1]) > 0 and len(q.b[1]) > 0 and str(q.a[1][0]) == str(q.b[1][0])
                nontrivial += 1 if nt else 0
        if corr:
            n_corr_ok += 1
        else:
            corr_bad.setdefault(FAMILY[kind], []).append((q, fails, corr, il, ml))
        for r, f, _ in fails:
            groups.setdefault((FAMILY[kind], r, f), []).append((q, fails, corr, il, ml))

    ctx.oblige("corr:cmp-model-vs-crate", not corr_bad, "%d disagreements" % sum(len(v) for v in corr_bad.values()))
    ctx.oblige("monitor:property-on-impl-output", not groups, "%d failing (family, rule, observer) groups" % len(groups))

    samples = []
    for src in ("exhaustive-int", "float", "scripted", "random", "map"):
        for q, il, ml in results:
            if q.src == src and (isinstance(q, MQ) or (q.kind in ("hswl", "thin", "u11", "arc") and (q.same or q.a != q.b))):
                samples.append({"query": q.line, "table": table_line(tables[q.tab]) if q.tab is not None else None,
                                "impl": il.split(" # ")[0:3], "model": ml})
                break
    ctx.coverage.update({
        "evaluations": len(results),
        "distinct_nontrivial": nontrivial,
        "distinct_queries": len(seen),
        "observations_compared_model_vs_impl": obs_compared,
        "rule": ("one evaluation = one query (handle kind x same/distinct allocation x payload domain x pair of values [x scripted table]) "
                 "answered by the real crate and by the Lean model, the model answer compared with the crate's and the property monitor run on the crate's; "
                 "distinct = distinct query text (and table); non-trivial = same allocation, or equal in distinct allocations, or unordered (NaN), "
                 "or a header-slice pair whose headers tie so that the slice (and length) decide, or a scripted payload, or a map lookup that hits"),
        "exhaustive": False,
        "exhaustive_part": "i32 alphabet {0,1,2}: all headers x all slices of length <= 3 (120 values, 14400 ordered pairs + 120 same-allocation) for "
                           "Arc<HeaderSlice>, ThinArc, Arc<HeaderSliceWithLengthProtected>; the same with recorded length = slice length and slice length + 1%s "
                           "for Arc<HeaderSlice<HeaderWithLength>> (all ordered pairs); all pairs of slices (40) for Arc<[T]>; "
                           "all pairs of {-2..2} for Arc/OffsetArc/ArcBorrow/ArcUnion (4 variant pairings)" % (
                               " and - 1" if ctx.thorough() else ""),
        "by_kind": by_kind, "by_payload_domain": by_dom, "by_generator": by_src, "by_allocation": by_alloc,
        "partial_cmp_outcomes": pcs, "scripted_tables": len(tables),
        "correspondence_agreed": n_corr_ok, "samples": samples,
        "time_impl_s": round(runner.t_impl, 2), "time_model_s": round(runner.t_model, 2),
    })

    if not ctx.failed_obligations():
        return

    # ---- something failed: report concrete failing inputs (smallest per family), else name what broke
    reported_families = set()
    fams = sorted({k[0] for k in groups})
    for fam in fams[:8]:
        fam_groups = sorted((k for k in groups if k[0] == fam), key=lambda k: (k[1], k[2]))
        # the smallest failing query of the family
        best_key = min(fam_groups, key=lambda k: min(size_of(x[0]) for x in groups[k]))
        q0 = min(groups[best_key], key=lambda x: size_of(x[0]))[0]
        q1 = shrink(runner, q0, (best_key[1], best_key[2]), tables, False)
        res = runner.run(([("T", q1.tab)] if q1.tab is not None else []) + [q1], tables)
        q1, il, ml = res[0]
        fails, corr = runner.judge(q1, il, ml, tables)
        if not fails:       # cannot happen (shrink keeps failure); fall back to the original
            q1 = q0
            res = runner.run(([("T", q1.tab)] if q1.tab is not None else []) + [q1], tables)
            q1, il, ml = res[0]
            fails, corr = runner.judge(q1, il, ml, tables)
        extra = ["all failing (rule/observer) groups of this family in this run, with their smallest instance:"]
        for k in fam_groups[:14]:
            qq = min(groups[k], key=lambda x: size_of(x[0]))[0]
            extra.append("  [%s/%s] %d queries, e.g. %s" % (k[1], k[2], len(groups[k]), qq.line))
        body = "family: %s\n" % fam + replay_body(runner, q1, tables, fails, corr, il, ml, "\n".join(extra))
        ctx.violation("ops", body, True, tag="f")
        reported_families.add(fam)

    # disagreements model vs implementation in families where the monitor found nothing
    for fam, lst in sorted(corr_bad.items()):
        if fam in reported_families:
            continue
        q0 = min(lst, key=lambda x: size_of(x[0]))[0]
        q1 = shrink(runner, q0, None, tables, True)
        res = runner.run(([("T", q1.tab)] if q1.tab is not None else []) + [q1], tables)
        q1, il, ml = res[0]
        fails, corr = runner.judge(q1, il, ml, tables)
        body = ("family: %s\nThe correspondence `corr:cmp-model-vs-crate` no longer checks: model M5 (which the theorems of Props/C14.lean are about) "
                "and the implementation give different observations on %d queries, but the property monitor finds no violated demand on the "
                "implementation's output (searched %d queries incl. the exhaustive small domain).  First (shrunk) diverging observation:\n\n" % (
                    fam, len(lst), len(results))) + replay_body(runner, q1, tables, fails, corr, il, ml)
        ctx.violation("theorem", body, False, tag="c")

    lean_failed = [n for n in ctx.failed_obligations() if n.startswith("lean") or n.startswith("leanchecker")]
    if lean_failed:
        body = "Lean obligations that no longer check (Props/C14.lean):\n" + "\n".join("  " + n for n in lean_failed)
        body += "\n\nsearch: %d queries (exhaustive small domain, floats, scripted, random) were monitored; %s\n\nLean output:\n%s" % (
            len(results), "failing inputs were reported separately" if groups else "no failing input found", out[-3000:])
        ctx.violation("theorem", body, False, tag="t")


def replay(ctx, path):
    """re-run the query of a replay file against ctx.repo and the model"""
    txt = open(path).read()
    lines = [l.strip() for l in txt.split("\n") if l.startswith("  C ") or l.startswith("  T ") or l.startswith("  Q ") or l.startswith("  M ")]
    lines = [l for l in lines if l[0] in "CTQM"]
    # only the first block (the shrunk input)
    block = []
    for l in lines:
        block.append(l)
        if l[0] in "QM":
            break
    if not block or block[-1][0] not in "QM":
        raise RuntimeError("no query found in " + path)
    impl_bin, bout = common.cargo_build_bin(ctx, "cmp")
    if impl_bin is None:
        raise RuntimeError("harness does not build:\n" + bout[-2000:])
    drv_bin = common.lean_exe("drv_cmp")
    impl = run_bin(impl_bin, block, "harness cmp")
    model = run_bin(drv_bin, block, "drv_cmp")
    il, ml = impl[-1], model[-1]
    print("input:")
    for l in block:
        print("  " + l)
    print("implementation:")
    for sec in il.split(" # "):
        print("  " + sec)
    print("model:")
    print("  " + ml)
    # rebuild the query object for the monitor
    t = block[-1].split(" ")
    tab = None
    tables = []
    for l in block:
        if l[0] == "T":
            kv = dict(x.split("=", 1) for x in l.split(" ")[1:])
            kv["hs"] = ["" if x == "_" else x for x in kv["hs"].split("/")]
            kv["db"], kv["dp"] = kv["db"].split("/"), kv["dp"].split("/")
            kv["n"] = len(kv["hs"])
            tables, tab = [kv], 0
    cfg = 1
    for l in block:
        if l.startswith("C "):
            cfg = int(l.split("=")[1])

    def dec(s):
        p = s.split(":")
        if len(p) == 1:
            return (p[0], None, None)
        return (p[0], [] if p[1] == "_" else p[1].split(","), p[2])
    runner = Runner(ctx, impl_bin, drv_bin)
    runner.cfg = cfg
    if t[0] == "Q":
        q = Q(t[1], t[2] == "same", t[3], dec(t[4]), dec(t[5]), tab)
    else:
        i = t.index("?")
        q = MQ(t[2], [dec(x) for x in t[3:i]], [dec(x) for x in t[i + 1:]])
    fails, corr = runner.judge(q, il, ml, tables)
    ctx.oblige("replay:corr", corr)
    ctx.oblige("replay:monitor", not fails)
    ctx.coverage.update({"evaluations": 1, "distinct_nontrivial": 1, "rule": "replay of one recorded query", "samples": [block]})
    print("model and implementation agree: %s" % ("yes" if corr else "NO"))
    for r, f, msg in fails:
        print("  [%s/%s] %s" % (r, f, msg))
    if fails or not corr:
        ctx.violation("ops", replay_body(runner, q, tables, fails, corr, il, ml), bool(fails), tag="r")
    else:
        print("replay: the recorded input no longer fails")
